(** * EmitDefault: C13, "every derive requested by copyable/cloneable/defaultable is satisfiable",
    the [Default] part, ON THE EMITTED TEXT of an accepted build.

    SPEC SIDE (written from Rust's rules, with the readers of EmitReaders / EmitPaths only; no printer
    of Emit.v is mentioned):

    [rust_default_ok files toks]: the type printed as the token list [toks] implements [Default]
    in the crate made of the written [files]:
      (a) a primitive [bool], [u8..u128], [i8..i128], [f32], [f64] does;
      (b) [[T; N]] does iff [T] does and [N <= 32] (the std impls stop at 32);
      (c) a path [crate::k1::..::kn::Name] does iff THE item called [Name] in the written file of module
          [k1::..::kn] ([find (is_item_named Name)] on [file_items]) provides the impl in its own
          definition ([item_default_ok]): a struct whose derive list contains [Default]; an enum
          whose derive list contains [Default] AND which has exactly one [#[default]] variant;
      (d) a raw pointer [*const T] / [*mut T] and a function pointer do NOT;
      (e) anything else -- a global path ([::std::ffi::c_void], how pyxis writes [void]), a path
          without a definition in the written files (an extern type) -- does NOT (not known to).
    [struct_default_ok files s]: every field type of the emitted struct [s] is [rust_default_ok] --
    what rustc requires of [#[derive(Default)]] on a struct.

    WHAT PYXIS DOES NOT CHECK (exhibited in EmitDefaultExamples.v as [_refuted] witnesses): the length
    of arrays (a declared [[T; 33]], or a generated padding field [_field_<hex> : [u8; n]] with
    [n > 32]), and a by-value [void] field ([void] is a predefined, "defaultable" registry item, but is
    written [::std::ffi::c_void]).  [default_side toks] is exactly that side condition, read from the
    same tokens: every array length is [<= 32] and the element type is not a global path.

    MAIN THEOREM ([C13_emitted_default_fields]): in an accepted, collision-free build of modules none
    of which is the root module, for every declared type whose emitted struct derives [Default]
    (iff it is declared [defaultable]): for EVERY field of the emitted struct, generated padding
    included, [rust_default_ok files ty = default_side ty]; hence ([C13_emitted_default_struct]) the
    struct is [struct_default_ok] iff all its fields satisfy the side condition.  In particular no
    field is a pointer ([default_side_not_pointer]), the item a field names carries [derive(Default)]
    in its own emitted definition, and an extern type cannot be named (pyxis rejects it: an extern
    item is not [inner_defaultable]).

    ENUMS ([C08_emitted_enum_default]): the emitted enum has [#[default]] on exactly the variants
    declared with [default]; there is at most one; [Default] is in its derive list iff there is
    exactly one.

    COPY/CLONE ([C13_emitted_copy_has_clone]): [Copy] in the derive list of an emitted struct or enum
    comes with [Clone].  Nothing more is true: pyxis does not validate [copyable]/[cloneable]
    (finding F17; witness in EmitDefaultExamples.v). *)
From Coq Require Import List NArith ZArith Bool Lia String Ascii.
From PyxisModel Require Import Base Sexp Grammar SemTypes Registry Sem SemLemmas EnumLemmas Emit EmitLemmas
     WholeBuild WholeBuildMore EmitReaders EmitShape EmitFinal EmitFind EmitMarkers EmitMarkersEnum
     FilesInput FilesRead FilesWhole ConvReaders EmitPaths PathsWhole DefaultClosed.
Import ListNotations.
Local Open Scope string_scope.
Local Open Scope list_scope.

(** ** A. the reader of a printed type, as far as [Default] is concerned *)
Definition is_atom (x : sexp) : bool := match x with Atom _ => true | _ => false end.

(** the members of an array group [(bracket T... ; (i n -))]: the element type's tokens and [n] *)
Fixpoint split_len (l : list sexp) : option (list sexp * N) :=
  match l with
  | [] => None
  | x :: r =>
    match r with
    | [len] => match x with
               | Atom a => if String.eqb a ";" then option_map (fun ns => ([], fst ns)) (read_int len) else None
               | _ => None
               end
    | _ => option_map (fun y => (x :: fst y, snd y)) (split_len r)
    end
  end.

Section Reader.
  (** [leaf]: the verdict on a type that is not an array, from its tokens; [len_ok]: on a length *)
  Variable leaf : list sexp -> bool.
  Variable len_ok : N -> bool.

  (** one array group *)
  Fixpoint arr_read (s : sexp) : bool :=
    match s with
    | SList (Atom tag :: l) =>
      String.eqb tag "bracket" &&
      match l with
      | [(SList _) as y; Atom semi; len] =>       (* an array of arrays *)
        String.eqb semi ";" &&
        match read_int len with Some (n, _) => len_ok n | None => false end && arr_read y
      | _ => match split_len l with
             | Some (inner, n) => len_ok n && leaf inner
             | None => false
             end
      end
    | _ => false
    end.

  Definition ty_read (toks : list sexp) : bool :=
    match toks with
    | [(SList _) as y] => arr_read y
    | _ => leaf toks
    end.
End Reader.

(** (a) the primitives: the predefined names of pyxis other than [void]; all implement [Default] *)
Definition default_prims : list string := rust_builtins.

Definition is_item_named (name : string) (e : sexp) : bool := is_struct_named name e || is_enum_named name e.
Definition has_default (l : option (list string)) : bool :=
  match l with Some names => existsb (String.eqb "Default") names | None => false end.
Definition count_default (vs : list evariant) : nat := List.length (filter evr_default vs).

(** (c) the item provides [impl Default] in its own definition *)
Definition item_default_ok (e : sexp) : bool :=
  match item_kind e with
  | Some k =>
    if String.eqb k "struct" then has_default (struct_derives e)
    else if String.eqb k "enum" then
      has_default (enum_derives e) &&
      match enum_variants_of e with Some vs => Nat.eqb (count_default vs) 1 | None => false end
    else false
  | None => false
  end.

(** (a) + (c): a path, as [EmitPaths.type_paths] returns it *)
Definition path_default_ok (files : list (string * sexp)) (q : path) : bool :=
  match q with
  | [n] => existsb (String.eqb n) default_prims
  | _ =>
    match path_parent q, path_last q with
    | Some k, Some name =>
      existsb (fun nf => String.eqb (fst nf) (out_path k) &&
                         match file_items (snd nf) with
                         | Some items => match find (is_item_named name) items with
                                         | Some e => item_default_ok e
                                         | None => false
                                         end
                         | None => false
                         end) files
    | _, _ => false
    end
  end.

(** a type that is not an array: only a path can be [Default]; it is one when its tokens are atoms,
    the first of which is not [*] (a pointer), and the path reader finds exactly one non-global path *)
Definition leaf_default (okp : path -> bool) (toks : list sexp) : bool :=
  forallb is_atom toks &&
  match toks with Atom a :: _ => negb (String.eqb a "*") | _ => false end &&
  match type_paths toks with [p] => okp p | _ => false end.

Definition len_default (n : N) : bool := (n <=? 32)%N.

(** THE SPEC PREDICATE on a printed type *)
Definition rust_default_ok (files : list (string * sexp)) (toks : list sexp) : bool :=
  ty_read (leaf_default (path_default_ok files)) len_default toks.

(** ... and on an emitted struct: what [#[derive(Default)]] needs *)
Definition struct_default_ok (files : list (string * sexp)) (s : sexp) : bool :=
  match struct_fields s with
  | Some efs => forallb (fun ef => rust_default_ok files (ef_ty ef)) efs
  | None => false
  end.

(** the side condition pyxis does not check, read from the same tokens: array lengths [<= 32], and the
    innermost element type is not written as a global path (the only one the back end writes is
    [::std::ffi::c_void]) *)
Definition leaf_side (toks : list sexp) : bool :=
  match toks with Atom a :: _ => negb (String.eqb a ":") | _ => true end.
Definition default_side (toks : list sexp) : bool := ty_read leaf_side len_default toks.

(** ** B. the reader on printed types *)
Fixpoint arr_lens (t : stype) : list N :=
  match t with TArray t' n => n :: arr_lens t' | _ => [] end.

Lemma split_len_app : forall l len n sfx,
  read_int len = Some (n, sfx) -> split_len (l ++ [Atom ";"; len]) = Some (l, n).
Proof.
  induction l as [|x l IH]; intros len n sfx Hr.
  - cbn [app split_len]. cbn [String.eqb Ascii.eqb Bool.eqb]. rewrite Hr. reflexivity.
  - cbn [app]. change (split_len (x :: l ++ [Atom ";"; len]))
      with (match l ++ [Atom ";"; len] with
            | [len0] => match x with
                        | Atom a => if String.eqb a ";" then option_map (fun ns => ([], fst ns)) (read_int len0) else None
                        | _ => None
                        end
            | _ => option_map (fun y => (x :: fst y, snd y)) (split_len (l ++ [Atom ";"; len]))
            end).
    rewrite (IH _ _ _ Hr). destruct l as [|y [|z l]]; reflexivity.
Qed.

(** the tokens of a path are atoms, and the first one is a segment token *)
Lemma path_tokens_atoms : forall p, p <> [] -> forallb seg_ok p = true ->
  exists w ws, path_tokens p = atoms_of (w :: ws) /\ seg_tok w = true.
Proof.
  induction p as [|s p IH]; intros Hne Hok; [congruence|].
  cbn [forallb] in Hok. apply andb_true_iff in Hok as [Hs Hp].
  destruct (seg_tokens_shape _ Hs) as (w & ws & E & Hall & _).
  apply Forall_cons_iff in Hall as [Hw _].
  destruct p as [|s' p].
  - cbn [path_tokens]. exists w, ws. split; [exact E | exact Hw].
  - rewrite path_tokens_cons. destruct (IH ltac:(discriminate) Hp) as (w' & ws' & E' & _).
    rewrite E, E'. exists w, (ws ++ ":" :: ":" :: w' :: ws'). split; [|exact Hw].
    unfold atoms_of, dcolon, tk. cbn [map app]. rewrite map_app. reflexivity.
Qed.

Lemma raw_tokens_atoms p : p <> [] -> forallb seg_ok p = true ->
  exists w ws, raw_tokens p = atoms_of (w :: ws) /\
    (if is_void p then w = ":" else seg_tok w = true \/ w = "crate").
Proof.
  intros Hne Hok. unfold raw_tokens. destruct (is_void p) eqn:Ev.
  - exists ":", [":"; "std"; ":"; ":"; "ffi"; ":"; ":"; "c_void"]. split; reflexivity.
  - destruct (path_tokens_atoms _ Hne Hok) as (w & ws & E & Hw).
    destruct p as [|s [|s' p]]; [congruence| |].
    + exists w, ws. split; [exact E | now left].
    + rewrite E. exists "crate", (":" :: ":" :: w :: ws). split; [reflexivity | now right].
Qed.

Lemma forallb_is_atom_atoms ws : forallb is_atom (atoms_of ws) = true.
Proof. induction ws as [|w ws IH]; [reflexivity | exact IH]. Qed.

Section ReaderLemmas.
  Variable leaf : list sexp -> bool.
  Variable len_ok : N -> bool.

  Lemma ty_read_atoms w ws : ty_read leaf len_ok (atoms_of (w :: ws)) = leaf (atoms_of (w :: ws)).
  Proof. reflexivity. Qed.

  Lemma ty_read_array_of_atoms w ws n :
    ty_read leaf len_ok [bracket (atoms_of (w :: ws) ++ [tk ";"; tint n "-"])]
    = len_ok n && leaf (atoms_of (w :: ws)).
  Proof.
    unfold ty_read, bracket, tk. cbn [arr_read String.eqb Ascii.eqb Bool.eqb andb atoms_of map app].
    change (Atom w :: map Atom ws ++ [Atom ";"; tint n "-"])
      with ((Atom w :: map Atom ws) ++ [Atom ";"; tint n "-"]).
    rewrite (split_len_app _ _ _ _ (read_int_tint n "-")). reflexivity.
  Qed.

  Lemma ty_read_array_of_array inner n :
    ty_read leaf len_ok [bracket ([bracket inner] ++ [tk ";"; tint n "-"])]
    = len_ok n && ty_read leaf len_ok [bracket inner].
  Proof.
    unfold ty_read, bracket, tk. cbn [app]. cbn [arr_read]. fold (arr_read leaf len_ok).
    cbn [String.eqb Ascii.eqb Bool.eqb andb]. rewrite read_int_tint. reflexivity.
  Qed.

  (** a type that [defaultable_path] accepts: arrays of a path *)
  Theorem ty_read_tokens : forall t q, defaultable_path t = Some q -> stype_ok t = true ->
    q <> [] /\ forallb seg_ok q = true /\
    ty_read leaf len_ok (type_tokens t) = forallb len_ok (arr_lens t) && leaf (raw_tokens q).
  Proof.
    induction t as [p|t IH|t IH|t IH n|c args ret]; intros q Hd Hok; cbn [defaultable_path] in Hd; try discriminate.
    - inversion Hd; subst q. cbn [stype_ok] in Hok.
      assert (p <> []) as Hne by (destruct p; [discriminate | discriminate]).
      assert (forallb seg_ok p = true) as Hp by (destruct p; [discriminate | exact Hok]).
      split; [exact Hne|]. split; [exact Hp|]. cbn [type_tokens arr_lens forallb andb].
      destruct (raw_tokens_atoms _ Hne Hp) as (w & ws & E & _). rewrite E. apply ty_read_atoms.
    - cbn [stype_ok] in Hok. destruct (IH _ Hd Hok) as (Hne & Hq & Hrd).
      split; [exact Hne|]. split; [exact Hq|]. cbn [type_tokens arr_lens forallb].
      rewrite <- andb_assoc, <- Hrd. destruct t as [p|t'|t'|t' n'|c args ret]; cbn [defaultable_path] in Hd; try discriminate.
      + cbn [type_tokens]. inversion Hd; subst q. destruct (raw_tokens_atoms _ Hne Hq) as (w & ws & E & _).
        rewrite E. rewrite ty_read_array_of_atoms, ty_read_atoms. reflexivity.
      + cbn [type_tokens]. apply ty_read_array_of_array.
  Qed.
End ReaderLemmas.

(** the two leaves on the tokens of a path *)
Lemma leaf_default_raw okp q : q <> [] -> forallb seg_ok q = true ->
  leaf_default okp (raw_tokens q) = negb (is_void q) && okp q.
Proof.
  intros Hne Hq. unfold leaf_default.
  assert (type_paths (raw_tokens q) = if is_void q then [] else [q]) as Hp.
  { change (raw_tokens q) with (type_tokens (TRaw q)). rewrite type_paths_type_tokens.
    - unfold printed_paths. cbn [ScopeLemmas.stype_paths filter]. destruct (is_void q); reflexivity.
    - cbn [stype_ok]. destruct q; [congruence | exact Hq]. }
  rewrite Hp. destruct (raw_tokens_atoms _ Hne Hq) as (w & ws & E & Hw). rewrite E.
  rewrite forallb_is_atom_atoms. cbn [atoms_of map andb].
  destruct (is_void q); cbn [negb andb]; [apply andb_false_r|].
  assert (String.eqb w "*" = false) as ->; [|reflexivity].
  destruct Hw as [Hw| ->]; [now apply seg_tok_star | reflexivity].
Qed.

Lemma leaf_side_raw q : q <> [] -> forallb seg_ok q = true -> leaf_side (raw_tokens q) = negb (is_void q).
Proof.
  intros Hne Hq. unfold leaf_side. destruct (raw_tokens_atoms _ Hne Hq) as (w & ws & E & Hw). rewrite E.
  cbn [atoms_of map]. destruct (is_void q); [subst w; reflexivity|].
  assert (String.eqb w ":" = false) as ->; [|reflexivity].
  destruct Hw as [Hw| ->]; [now apply seg_tok_colon | reflexivity].
Qed.

(** THE READER LEMMA: on the tokens of a type made of arrays of a path [q], the spec predicate and
    the side condition differ only by the verdict on [q] *)
Theorem rust_default_ok_tokens files t q :
  defaultable_path t = Some q -> stype_ok t = true ->
  rust_default_ok files (type_tokens t)
  = forallb len_default (arr_lens t) && (negb (is_void q) && path_default_ok files q) /\
  default_side (type_tokens t) = forallb len_default (arr_lens t) && negb (is_void q).
Proof.
  intros Hd Hok. unfold rust_default_ok, default_side.
  destruct (ty_read_tokens (leaf_default (path_default_ok files)) len_default _ _ Hd Hok) as (Hne & Hq & ->).
  destruct (ty_read_tokens leaf_side len_default _ _ Hd Hok) as (_ & _ & ->).
  rewrite leaf_default_raw, leaf_side_raw by assumption. split; reflexivity.
Qed.

(** (d) what the side condition accepts is not a pointer nor a function pointer: such tokens are
    never [rust_default_ok] *)
Lemma rust_default_ok_not_pointer files toks :
  rust_default_ok files (Atom "*" :: toks) = false.
Proof.
  unfold rust_default_ok, ty_read, leaf_default. cbn [String.eqb Ascii.eqb Bool.eqb negb].
  now rewrite andb_false_r.
Qed.

Lemma rust_default_ok_not_fn files abi params rest :
  rust_default_ok files (Atom "unsafe" :: Atom "extern" :: tstr abi :: Atom "fn" :: paren params :: rest) = false.
Proof. reflexivity. Qed.

(** ** C. the item a path names, in the written files *)
Lemma is_item_named_opaque name txt : is_item_named name (SList [Atom "opaque"; Str txt]) = false.
Proof. reflexivity. Qed.

Lemma build_item_item_names R fuel it its n e :
  build_item R fuel it = Ok its -> In e its -> is_item_named n e = true -> path_last (it_path it) = Some n.
Proof.
  intros H Hin Hn. apply orb_true_iff in Hn as [Hn|Hn];
    [eapply build_item_struct_names | eapply build_item_enum_names]; eauto.
Qed.

(** a declared item (struct or enum) of an accepted build: THE item of its name in the file of its
    module, with the shape of its final registry entry *)
Lemma emitted_item_master order ptr mods st0 st files q it0 gd :
  input_state ptr mods = Ok st0 -> NoDup (map fst mods) -> collision_free (st_reg st0) ->
  keeps_work order -> pyxis_resolve order ptr mods = BOk st -> write_all st = Ok files ->
  reg_get (st_reg st0) q = Some it0 -> it_state it0 = Unresolved gd -> path_parent q <> Some [] ->
  exists parent name it r f items e,
    path_parent q = Some parent /\ path_last q = Some name /\
    reg_get (st_reg st) q = Some it /\ it_state it = Resolved r /\
    In (out_path parent, f) files /\ file_items f = Some items /\
    find (is_item_named name) items = Some e /\
    match rs_inner r with
    | IType td => struct_shape name (rs_align r) (it_vis it0) td e
    | IEnum ed => enum_shape name (it_vis it0) ed e
    end.
Proof.
  intros Hin HN Hcf Hord Hres Hw Hg0 Hs0 Hroot.
  destruct (accepted_declared_item _ _ _ _ _ _ _ _ Hin HN Hcf Hord Hres Hg0 Hs0)
    as (it & r & parent & m & Hg & Hs & Hpath & Hvis & Hcat & Hpar & Hmod & Hdef & HK & Hnd & Hparents).
  assert (parent <> []) as Hne by (intros ->; contradiction).
  destruct (write_all_in _ _ _ _ Hw Hmod Hne) as (f & Hf & Hfile).
  destruct (module_file_items _ _ _ _ _ Hf Hdef Hg) as (pre0 & its & post0 & Hb & _).
  assert (item_resolved it = Some r) as Hr by (unfold item_resolved; now rewrite Hs).
  destruct (rs_inner r) as [td|ed] eqn:Hi.
  - destruct (build_item_struct_shape _ _ _ _ _ _ Hr Hcat Hi Hb)
      as (name & s & checks & rest & Hname & -> & Hshape & _ & _).
    rewrite Hpath in Hname. rewrite Hvis in Hshape.
    assert (is_item_named name s = true) as Hnamed.
    { unfold is_item_named. now rewrite (struct_shape_is_named _ _ _ _ _ Hshape). }
    destruct (module_file_find_gen is_item_named _ _ _ _ _ _ _ _ _
                (fun it1 its1 n e1 => build_item_item_names _ _ it1 its1 n e1) (is_item_named_opaque name)
                Hf HK Hnd Hparents Hdef Hg Hname Hb Hnamed) as (pre & post & Hitems & _ & Hfind).
    exists parent, name, it, r, f. eexists. exists s. repeat (split; [eassumption|]). rewrite Hi. exact Hshape.
  - destruct (build_item_enum_shape _ _ _ _ _ _ Hr Hcat Hi Hb)
      as (name & e & checks & rest & Hname & -> & Hshape & _ & _).
    rewrite Hpath in Hname. rewrite Hvis in Hshape.
    assert (is_item_named name e = true) as Hnamed.
    { unfold is_item_named, is_enum_named. rewrite (es_name _ _ _ _ Hshape), String.eqb_refl. apply orb_true_r. }
    destruct (module_file_find_gen is_item_named _ _ _ _ _ _ _ _ _
                (fun it1 its1 n e1 => build_item_item_names _ _ it1 its1 n e1) (is_item_named_opaque name)
                Hf HK Hnd Hparents Hdef Hg Hname Hb Hnamed) as (pre & post & Hitems & _ & Hfind).
    exists parent, name, it, r, f. eexists. exists e. repeat (split; [eassumption|]). rewrite Hi. exact Hshape.
Qed.

(** a declared item is not in the root module, when no input module is *)
Lemma declared_not_root ptr mods st0 q it0 gd :
  input_state ptr mods = Ok st0 -> ~ In [] (map fst mods) ->
  reg_get (st_reg st0) q = Some it0 -> it_state it0 = Unresolved gd ->
  exists k, path_parent q = Some k /\ k <> [].
Proof.
  intros Hin Hroot Hg0 Hs0.
  destruct (input_state_origin _ _ _ Hin _ _ Hg0)
    as [(ns & _ & _ & ->)|[(k & gm & d & Hkm & _ & -> & _)|(k & gm & e & _ & _ & _ & _ & Hres)]].
  - cbn in Hs0. discriminate.
  - exists k. split; [apply path_parent_join|]. intros ->. apply Hroot. apply in_map_iff. exists ([], gm). auto.
  - unfold item_is_resolved in Hres. rewrite Hs0 in Hres. discriminate.
Qed.

Lemma path_default_ok_long files q k name :
  path_parent q = Some k -> k <> [] -> path_last q = Some name ->
  path_default_ok files q =
  existsb (fun nf => String.eqb (fst nf) (out_path k) &&
                     match file_items (snd nf) with
                     | Some items => match find (is_item_named name) items with
                                     | Some e => item_default_ok e
                                     | None => false
                                     end
                     | None => false
                     end) files.
Proof.
  intros Hp Hk Hl. destruct q as [|a [|b q']].
  - discriminate.
  - cbn in Hp. inversion Hp. congruence.
  - unfold path_default_ok. rewrite Hp, Hl. reflexivity.
Qed.

(** counting the [true]s *)
Lemma filter_map_length {A} (f : A -> bool) l :
  List.length (filter f l) = List.length (filter (fun b : bool => b) (map f l)).
Proof. induction l as [|a l IH]; [reflexivity|]. cbn [filter map]. destruct (f a); cbn [List.length]; now rewrite IH. Qed.

Lemma count_eqb_seq j : forall len start,
  List.length (filter (fun b : bool => b) (map (fun i => Nat.eqb j i) (seq start len)))
  = if (start <=? j)%nat && (j <? start + len)%nat then 1%nat else 0%nat.
Proof.
  induction len as [|len IH]; intros start.
  - cbn [seq map filter List.length]. destruct (Nat.leb_spec start j), (Nat.ltb_spec j (start + 0)); cbn [andb]; try reflexivity; lia.
  - cbn [seq map filter]. destruct (Nat.eqb_spec j start) as [->|Hne].
    + cbn [List.length]. rewrite IH.
      destruct (Nat.leb_spec (S start) start), (Nat.leb_spec start start), (Nat.ltb_spec start (start + S len));
        cbn [andb]; try reflexivity; lia.
    + rewrite IH.
      destruct (Nat.leb_spec (S start) j), (Nat.ltb_spec j (S start + len)), (Nat.leb_spec start j),
               (Nat.ltb_spec j (start + S len)); cbn [andb]; try reflexivity; lia.
Qed.

(** (c) for a declared item that is [inner_defaultable] in the final registry: its own emitted
    definition provides [Default] *)
Lemma declared_default_ok order ptr mods st0 st files q it0 gd it rs :
  input_state ptr mods = Ok st0 -> NoDup (map fst mods) -> ~ In [] (map fst mods) ->
  collision_free (st_reg st0) -> keeps_work order ->
  pyxis_resolve order ptr mods = BOk st -> write_all st = Ok files ->
  reg_get (st_reg st0) q = Some it0 -> it_state it0 = Unresolved gd ->
  reg_get (st_reg st) q = Some it -> item_resolved it = Some rs -> inner_defaultable (rs_inner rs) = true ->
  path_default_ok files q = true.
Proof.
  intros Hin HN Hroot Hcf Hord Hres Hw Hg0 Hs0 Hg Hr Hd.
  destruct (declared_not_root _ _ _ _ _ _ Hin Hroot Hg0 Hs0) as (k & Hpar & Hk).
  destruct (emitted_item_master _ _ _ _ _ _ _ _ _ Hin HN Hcf Hord Hres Hw Hg0 Hs0 ltac:(rewrite Hpar; congruence))
    as (parent & name & it' & r & f & items & e & Hpar' & Hname & Hg' & Hs' & Hfile & Hitems & Hfind & Hshape).
  rewrite Hpar in Hpar'. inversion Hpar'; subst parent. clear Hpar'.
  rewrite Hg in Hg'. inversion Hg'; subst it'. clear Hg'.
  unfold item_resolved in Hr. rewrite Hs' in Hr. inversion Hr; subst rs. clear Hr.
  rewrite (path_default_ok_long _ _ _ _ Hpar Hk Hname). apply existsb_exists.
  exists (out_path k, f). split; [exact Hfile|]. cbn [fst snd]. rewrite String.eqb_refl, Hitems, Hfind. cbn [andb].
  unfold item_default_ok. destruct (rs_inner r) as [td|ed] eqn:Hi; cbn [inner_defaultable] in Hd.
  - rewrite (ss_kind _ _ _ _ _ Hshape). cbn [String.eqb Ascii.eqb Bool.eqb].
    rewrite (ss_derives _ _ _ _ _ Hshape). cbn [has_default]. apply existsb_exists. exists "Default".
    split; [apply (derive_names_spec (td_copyable td) (td_cloneable td) (td_defaultable td)); exact Hd | reflexivity].
  - apply andb_true_iff in Hd as [Hdf Hidx]. destruct (ed_default_index ed) as [j|] eqn:Ej; [|discriminate].
    rewrite (es_kind _ _ _ _ Hshape). cbn [String.eqb Ascii.eqb Bool.eqb].
    rewrite (es_derives _ _ _ _ Hshape). cbn [has_default]. apply andb_true_iff. split.
    + apply existsb_exists. exists "Default". split; [|reflexivity]. apply in_or_app. right.
      apply (derive_names_spec (ed_copyable ed) (ed_cloneable ed) (ed_defaultable ed)); exact Hdf.
    + destruct (es_variants _ _ _ _ Hshape) as (vs & Hvs & _ & Hdefs). rewrite Hvs, Ej in *.
      (* the attempt that built the enum *)
      assert (j < List.length (ed_fields ed))%nat as Hj.
      { destruct (pyxis_resolve_items _ _ _ _ _ Hin Hcf Hres) as (_ & Hall).
        destruct (Hall _ _ _ _ _ Hg0 Hs0 Hg Hs') as (sm & sm' & _ & Hat & _).
        unfold attempt in Hat. destruct (gi_inner gd) as [td0|ed0].
        - destruct (type_build_inner _ _ _ _ _ _ Hat) as (t & Ht). congruence.
        - inversion Hat; subst. eapply default_index_bound; eauto. }
      unfold count_default. rewrite filter_map_length, Hdefs, count_eqb_seq.
      cbn [Nat.leb Nat.add andb]. destruct (Nat.ltb_spec j (List.length (ed_fields ed))); [reflexivity | lia].
Qed.

(** (a) + (c) for every entry of the final registry that is [inner_defaultable], other than [void] *)
Lemma final_defaultable_path_ok order ptr mods st0 st files q itq rsq :
  input_state ptr mods = Ok st0 -> NoDup (map fst mods) -> ~ In [] (map fst mods) ->
  collision_free (st_reg st0) -> keeps_work order ->
  pyxis_resolve order ptr mods = BOk st -> write_all st = Ok files ->
  reg_get (st_reg st) q = Some itq -> item_resolved itq = Some rsq -> inner_defaultable (rs_inner rsq) = true ->
  is_void q = false -> path_default_ok files q = true.
Proof.
  intros Hin HN Hroot Hcf Hord Hres Hw Hgq Hrq Hdq Hv.
  destruct (final_default_closed _ _ _ _ _ Hin Hcf Hres) as (HG & _).
  destruct (reg_get (st_reg st0) q) as [it0q|] eqn:Hg0q.
  2:{ rewrite (HG _ _ _ Hgq Hg0q Hrq) in Hdq. discriminate. }
  destruct (it_state it0q) as [gdq|rs0] eqn:Hs0q.
  - eapply declared_default_ok; eauto.
  - destruct (pyxis_resolve_items _ _ _ _ _ Hin Hcf Hres) as ((_ & He & _) & _).
    assert (item_resolved it0q = Some rs0) as Hr0 by (unfold item_resolved; now rewrite Hs0q).
    destruct (He _ _ _ Hg0q Hr0) as (it' & rs' & Hg' & Hr' & _ & _ & Hsame).
    rewrite Hgq in Hg'. inversion Hg'; subst it'. rewrite (Hsame ltac:(congruence)) in Hrq.
    rewrite Hr0 in Hrq. inversion Hrq; subst rsq.
    destruct (input_defaultable_predefined _ _ _ Hin _ _ _ Hg0q Hr0 Hdq) as (ns & Hns & ->).
    cbn [path_default_ok]. apply existsb_exists. exists (fst ns). split; [|apply String.eqb_refl].
    now apply predefined_builtin.
Qed.

(** ** D. MAIN THEOREM: the fields of an emitted struct that derives [Default] *)
Theorem C13_emitted_default_fields order ptr mods st0 st files p it0 gd td0 :
  input_state ptr mods = Ok st0 -> NoDup (map fst mods) -> ~ In [] (map fst mods) ->
  collision_free (st_reg st0) -> keeps_work order ->
  pyxis_resolve order ptr mods = BOk st -> write_all st = Ok files ->
  reg_get (st_reg st0) p = Some it0 -> it_state it0 = Unresolved gd -> gi_inner gd = GIType td0 ->
  exists parent name f items s efs,
    (* THE struct of that name in the file of the declaring module *)
    path_parent p = Some parent /\ path_last p = Some name /\
    In (out_path parent, f) files /\ file_items f = Some items /\ find_struct name items = Some s /\
    struct_fields s = Some efs /\
    (* it derives [Default] exactly when declared [defaultable] *)
    struct_derives s = Some (declared_derives (gt_attrs td0)) /\
    (In "Default" (declared_derives (gt_attrs td0)) <-> has_marker "defaultable" (gt_attrs td0) = true) /\
    (* and then every field, generated padding included: its type is printed from arrays of a path
       (no pointer, no function pointer), and it implements [Default] by Rust's rules exactly when
       it meets the side condition pyxis does not check *)
    (In "Default" (declared_derives (gt_attrs td0)) ->
     Forall (fun ef =>
               (exists t q, ef_ty ef = type_tokens t /\ stype_ok t = true /\ defaultable_path t = Some q) /\
               rust_default_ok files (ef_ty ef) = default_side (ef_ty ef)) efs).
Proof.
  intros Hin HN Hroot Hcf Hord Hres Hw Hg0 Hs0 Hty.
  destruct (declared_not_root _ _ _ _ _ _ Hin Hroot Hg0 Hs0) as (k & Hpar0 & Hk).
  destruct (emitted_type_master _ _ _ _ _ _ _ _ _ _ Hin HN Hcf Hord Hres Hw Hg0 Hs0 Hty ltac:(rewrite Hpar0; congruence))
    as (parent & name & it & r & td & f & pre & s & rest & post & sm & sm' &
        Hpar & Hne & Hname & Hg & Hs & Hi & Hb & Hfile & Hitems & Hfind & Hsh & _).
  destruct (C17_whole_build_markers _ _ _ _ _ _ _ _ _ _ _ Hin Hcf Hres Hg0 Hs0 Hty Hg Hs)
    as (td' & Hi' & Hc & Hcl & Hd & _).
  rewrite Hi in Hi'. inversion Hi'; subst td'. clear Hi'.
  destruct (ss_fields _ _ _ _ _ Hsh) as (efs & Hfields & F2).
  exists parent, name, f, (pre ++ (s :: rest) ++ post), s, efs.
  repeat (split; [assumption|]).
  split; [rewrite (ss_derives _ _ _ _ _ Hsh); unfold declared_derives; now rewrite Hc, Hcl, Hd|].
  destruct (declared_derives_spec (gt_attrs td0)) as (_ & _ & Hdd & _).
  split; [exact Hdd|].
  intros Hdef. apply Hdd in Hdef. rewrite <- Hd in Hdef.
  assert (item_resolved it = Some r) as Hr by (unfold item_resolved; now rewrite Hs).
  destruct (final_default_closed _ _ _ _ _ Hin Hcf Hres) as (_ & HC).
  pose proof (HC _ _ _ _ Hg Hr Hi Hdef) as Hregs.
  pose proof (build_type_regions_ok _ _ _ _ _ _ _ _ Hb) as Hoks.
  rewrite Forall_forall in Hregs, Hoks. apply Forall_forall. intros ef Hef.
  destruct (Forall2_in_r _ _ _ _ F2 Hef) as (rg & Hrg & (_ & Hty' & _)).
  destruct (Hregs _ Hrg) as (q & itq & rsq & Hdp & Hgq & Hrq & Hdq). pose proof (Hoks _ Hrg) as Hok.
  split; [exists (r_type rg), q; auto|].
  rewrite Hty'. destruct (rust_default_ok_tokens files _ _ Hdp Hok) as [-> ->]. f_equal.
  destruct (is_void q) eqn:Ev; [reflexivity|]. cbn [negb andb].
  eapply final_defaultable_path_ok; eauto.
Qed.

(** the struct as a whole *)
Corollary C13_emitted_default_struct order ptr mods st0 st files p it0 gd td0 :
  input_state ptr mods = Ok st0 -> NoDup (map fst mods) -> ~ In [] (map fst mods) ->
  collision_free (st_reg st0) -> keeps_work order ->
  pyxis_resolve order ptr mods = BOk st -> write_all st = Ok files ->
  reg_get (st_reg st0) p = Some it0 -> it_state it0 = Unresolved gd -> gi_inner gd = GIType td0 ->
  has_marker "defaultable" (gt_attrs td0) = true ->
  exists parent name f items s efs,
    path_parent p = Some parent /\ path_last p = Some name /\
    In (out_path parent, f) files /\ file_items f = Some items /\ find_struct name items = Some s /\
    struct_fields s = Some efs /\ has_default (struct_derives s) = true /\
    struct_default_ok files s = forallb (fun ef => default_side (ef_ty ef)) efs.
Proof.
  intros Hin HN Hroot Hcf Hord Hres Hw Hg0 Hs0 Hty Hm.
  destruct (C13_emitted_default_fields _ _ _ _ _ _ _ _ _ _ Hin HN Hroot Hcf Hord Hres Hw Hg0 Hs0 Hty)
    as (parent & name & f & items & s & efs & Hpar & Hname & Hfile & Hitems & Hfind & Hfs & Hder & Hiff & Hall).
  exists parent, name, f, items, s, efs. repeat (split; [assumption|]).
  apply Hiff in Hm. split.
  - rewrite Hder. cbn [has_default]. apply existsb_exists. exists "Default". split; [exact Hm | reflexivity].
  - unfold struct_default_ok. rewrite Hfs. specialize (Hall Hm). clear -Hall.
    induction Hall as [|ef efs [_ E] _ IH]; [reflexivity|]. cbn [forallb]. now rewrite E, IH.
Qed.

(** ** E. ENUMS: [#[default]] is printed on exactly the declared variants; [Default] is derived iff
    there is exactly one *)
Lemma existsb_eqb_bound i l lo : (forall k, In k l -> (lo <= k)%nat) -> (i < lo)%nat -> existsb (Nat.eqb i) l = false.
Proof.
  intros Hb Hi. induction l as [|k l IH]; [reflexivity|]. cbn [existsb].
  destruct (Nat.eqb_spec i k) as [->|_]; [specialize (Hb k (or_introl eq_refl)); lia|].
  apply IH. intros k' Hk'. apply Hb. now right.
Qed.

Lemma default_indices_map : forall stmts idx,
  map is_default_stmt stmts
  = map (fun i => existsb (Nat.eqb i) (default_indices stmts idx)) (seq idx (List.length stmts)).
Proof.
  induction stmts as [|s stmts IH]; intros idx; [reflexivity|].
  cbn [map List.length seq default_indices]. f_equal.
  - destruct (is_default_stmt s); cbn [app existsb]; [now rewrite Nat.eqb_refl|].
    symmetry. apply (existsb_eqb_bound _ _ (S idx)); [|lia].
    intros k Hk. apply default_indices_bound in Hk. lia.
  - rewrite (IH (S idx)). apply map_ext_in. intros i Hi. apply in_seq in Hi.
    destruct (is_default_stmt s); cbn [app existsb]; [|reflexivity].
    destruct (Nat.eqb_spec i idx); [lia | reflexivity].
Qed.

Lemma count_false {A} (l : list A) :
  List.length (filter (fun b : bool => b) (map (fun _ : A => false) l)) = 0%nat.
Proof. induction l as [|a l IH]; [reflexivity | exact IH]. Qed.

Theorem C08_emitted_enum_default order ptr mods st0 st files p it0 gd ed0 :
  input_state ptr mods = Ok st0 -> NoDup (map fst mods) -> collision_free (st_reg st0) ->
  keeps_work order ->
  pyxis_resolve order ptr mods = BOk st -> write_all st = Ok files ->
  reg_get (st_reg st0) p = Some it0 -> it_state it0 = Unresolved gd -> gi_inner gd = GIEnum ed0 ->
  path_parent p <> Some [] ->
  exists parent name f items e vs,
    (* THE enum of that name in the file of the declaring module *)
    path_parent p = Some parent /\ path_last p = Some name /\
    In (out_path parent, f) files /\ file_items f = Some items /\ find_enum name items = Some e /\
    enum_derives e = Some (enum_base_derives ++ declared_derives (ged_attrs ed0)) /\
    enum_variants_of e = Some vs /\
    (* [#[default]] is on exactly the variants declared with the [default] marker *)
    map evr_default vs = map is_default_stmt (ged_stmts ed0) /\
    (* there is at most one, and [Default] is derived iff there is exactly one *)
    (count_default vs <= 1)%nat /\
    (In "Default" (enum_base_derives ++ declared_derives (ged_attrs ed0)) <-> count_default vs = 1%nat) /\
    (* so: the emitted definition is accepted by [derive(Default)] whenever it asks for it *)
    (has_default (enum_derives e) = true -> item_default_ok e = true).
Proof.
  intros Hin HN Hcf Hord Hres Hw Hg0 Hs0 Hty Hroot.
  destruct (emitted_enum_master _ _ _ _ _ _ _ _ _ _ Hin HN Hcf Hord Hres Hw Hg0 Hs0 Hty Hroot)
    as (parent & name & it & r & ed & f & pre & e & rest & post &
        Hpar & Hname & Hg & Hs & Hi & _ & _ & _ & Hfile & Hitems & Hfind & Hshape).
  destruct (C17_whole_build_enum_markers _ _ _ _ _ _ _ _ _ _ _ Hin Hcf Hres Hg0 Hs0 Hty Hg Hs)
    as (ed' & Hi' & Hc & Hcl & Hd).
  rewrite Hi in Hi'. inversion Hi'; subst ed'. clear Hi'.
  destruct (whole_build_enum _ _ _ _ _ _ _ _ _ _ _ Hin Hcf Hres Hg0 Hs0 Hty Hg Hs) as (sm & _ & _ & Hbuild).
  destruct (enum_build_spec _ _ _ _ Hbuild) as (ed' & es & module & Hi' & _ & _ & _ & _ & _ & _ & Hlen & Hdef).
  rewrite Hi in Hi'. inversion Hi'; subst ed'. clear Hi'.
  destruct (es_variants _ _ _ _ Hshape) as (vs & Hvs & _ & Hdefs).
  assert (enum_derives e = Some (enum_base_derives ++ declared_derives (ged_attrs ed0))) as Hder.
  { rewrite (es_derives _ _ _ _ Hshape). unfold declared_derives. now rewrite Hc, Hcl, Hd. }
  (* the flags of the variants, from the declaration *)
  assert (map evr_default vs = map is_default_stmt (ged_stmts ed0) /\
          count_default vs = if ed_defaultable ed then 1%nat else 0%nat) as (Hflags & Hcount).
  { rewrite (default_indices_map _ 0), <- Hlen. unfold count_default. rewrite filter_map_length, Hdefs.
    destruct (default_indices (ged_stmts ed0) 0) as [|k [|? ?]] eqn:Ed; [| |destruct Hdef].
    - destruct Hdef as [-> ->]. split; [reflexivity|].
      apply count_false.
    - destruct Hdef as [Hk ->]. rewrite Hk. split.
      + apply map_ext. intros i. cbn [existsb]. rewrite orb_false_r. apply Nat.eqb_sym.
      + rewrite count_eqb_seq. cbn [Nat.leb Nat.add andb].
        assert (In k (default_indices (ged_stmts ed0) 0)) as X by (rewrite Ed; now left).
        apply default_indices_bound in X. rewrite Hlen.
        destruct (Nat.ltb_spec k (List.length (ged_stmts ed0))); [reflexivity | lia]. }
  assert (In "Default" (enum_base_derives ++ declared_derives (ged_attrs ed0)) <-> ed_defaultable ed = true) as Hiff.
  { destruct (declared_derives_spec (ged_attrs ed0)) as (_ & _ & Hdd & _). rewrite Hd, <- Hdd. split.
    - intros H. apply in_app_or in H as [H|H]; [|exact H]. cbn in H. intuition discriminate.
    - intros H. apply in_or_app. now right. }
  exists parent, name, f, (pre ++ (e :: rest) ++ post), e, vs.
  repeat (split; [assumption|]).
  split; [rewrite Hcount; destruct (ed_defaultable ed); lia|].
  split; [rewrite Hiff, Hcount; destruct (ed_defaultable ed); split; intros; congruence|].
  intros Hhd. unfold item_default_ok. rewrite (es_kind _ _ _ _ Hshape). cbn [String.eqb Ascii.eqb Bool.eqb].
  rewrite Hhd, Hvs, Hcount. cbn [andb].
  assert (ed_defaultable ed = true) as ->; [|reflexivity].
  apply Hiff. rewrite Hder in Hhd. cbn [has_default] in Hhd. apply existsb_exists in Hhd as (x & Hx & E).
  apply String.eqb_eq in E. now subst x.
Qed.

(** ** F. COPY / CLONE: the only thing that is true -- [Copy] comes with [Clone] *)
Theorem C13_emitted_copy_has_clone order ptr mods st0 st files p it0 gd :
  input_state ptr mods = Ok st0 -> NoDup (map fst mods) -> collision_free (st_reg st0) ->
  keeps_work order ->
  pyxis_resolve order ptr mods = BOk st -> write_all st = Ok files ->
  reg_get (st_reg st0) p = Some it0 -> it_state it0 = Unresolved gd -> path_parent p <> Some [] ->
  exists parent name f items e l,
    path_parent p = Some parent /\ path_last p = Some name /\
    In (out_path parent, f) files /\ file_items f = Some items /\
    match gi_inner gd with
    | GIType td0 => find_struct name items = Some e /\ struct_derives e = Some l /\
                    (In "Copy" l <-> has_marker "copyable" (gt_attrs td0) = true)
    | GIEnum ed0 => find_enum name items = Some e /\ enum_derives e = Some l /\
                    (In "Copy" l <-> has_marker "copyable" (ged_attrs ed0) = true)
    end /\
    (In "Copy" l -> In "Clone" l).
Proof.
  intros Hin HN Hcf Hord Hres Hw Hg0 Hs0 Hroot. destruct (gi_inner gd) as [td0|ed0] eqn:Hty.
  - destruct (C17_emitted_type _ _ _ _ _ _ _ _ _ _ Hin HN Hcf Hord Hres Hw Hg0 Hs0 Hty Hroot)
      as (parent & name & f & items & s & it & r & al & docs & Hpar & Hname & Hfile & Hitems & Hfind & _ & _ & _ & Hder & _).
    destruct (declared_derives_spec (gt_attrs td0)) as (Hcp & Hcl & _).
    exists parent, name, f, items, s, (declared_derives (gt_attrs td0)).
    repeat (split; [assumption|]). split; [repeat split; auto; apply Hcp|].
    intros H. apply Hcl. left. now apply Hcp.
  - destruct (C17_emitted_enum _ _ _ _ _ _ _ _ _ _ Hin HN Hcf Hord Hres Hw Hg0 Hs0 Hty Hroot)
      as (parent & name & f & items & e & al & docs & vdocs & Hpar & Hname & Hfile & Hitems & Hfind & _ & Hder & _).
    destruct (declared_derives_spec (ged_attrs ed0)) as (Hcp & Hcl & _).
    assert (forall n, In n (enum_base_derives ++ declared_derives (ged_attrs ed0)) -> n = "Copy" \/ n = "Clone" ->
                      In n (declared_derives (ged_attrs ed0))) as Hbase.
    { intros n H Hn. apply in_app_or in H as [H|H]; [|exact H]. cbn in H. intuition (subst; discriminate). }
    exists parent, name, f, items, e, (enum_base_derives ++ declared_derives (ged_attrs ed0)).
    repeat (split; [assumption|]). split.
    + repeat split; auto.
      * intros H. apply Hcp. apply Hbase; auto.
      * intros H. apply in_or_app. right. now apply Hcp.
    + intros H. apply in_or_app. right. apply Hcl. left. apply Hcp. apply Hbase; auto.
Qed.


(** ** G. the vftable pointer: a declared type that starts with a vftable block, is marked
    [defaultable], and has no first base carrying a vftable (so that the pointer would be its own
    first field, a raw pointer) is NOT part of any accepted build *)
Theorem C13_defaultable_own_vftable_not_accepted order ptr mods st0 st p it0 gd td0 it r td s rest gfs :
  input_state ptr mods = Ok st0 -> collision_free (st_reg st0) ->
  pyxis_resolve order ptr mods = BOk st ->
  reg_get (st_reg st0) p = Some it0 -> it_state it0 = Unresolved gd -> gi_inner gd = GIType td0 ->
  reg_get (st_reg st) p = Some it -> it_state it = Resolved r -> rs_inner r = IType td ->
  gt_stmts td0 = s :: rest -> gs_field s = GVftable gfs ->
  (forall fb bp itb rsb tdb,
     find r_is_base (td_regions td) = Some fb -> r_type fb = TRaw bp ->
     reg_get (st_reg st) bp = Some itb -> item_resolved itb = Some rsb -> rs_inner rsb = IType tdb ->
     td_vftable tdb = None) ->
  has_marker "defaultable" (gt_attrs td0) = true -> False.
Proof.
  intros Hin Hcf Hres Hg0 Hs0 Hty Hg Hs Hi Hst Hf Hnb Hm.
  destruct (C06_whole_build_own_pointer _ _ _ _ _ _ _ _ _ _ _ _ _ _ _ Hin Hcf Hres Hg0 Hs0 Hty Hg Hs Hi Hst Hf Hnb)
    as (vp & fs & _ & _ & _ & _ & _ & Hvt & _).
  destruct (C17_whole_build_markers _ _ _ _ _ _ _ _ _ _ _ Hin Hcf Hres Hg0 Hs0 Hty Hg Hs) as (td' & Hi' & _ & _ & Hd & _).
  rewrite Hi in Hi'. inversion Hi'; subst td'. rewrite Hm in Hd.
  eapply (default_own_vftable_rejected_whole _ _ _ _ _ _ _ _ _ _ _ _ _ Hin Hcf Hres Hg0 Hs0 Hty Hg Hs Hi Hd Hvt).
  reflexivity.
Qed.

Print Assumptions rust_default_ok_tokens.
Print Assumptions C13_defaultable_own_vftable_not_accepted.
Print Assumptions C13_emitted_default_fields.
Print Assumptions C13_emitted_default_struct.
Print Assumptions C08_emitted_enum_default.
Print Assumptions C13_emitted_copy_has_clone.
