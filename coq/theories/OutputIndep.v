(** * OutputIndep: the emitted files do not depend on the schedule.

    For inputs that are [collision_free] and [clean_stateb], any two accepted runs of the front half
    under permutation-valued order functions end in states on which the back end ([write_all])
    gives the same result: the same files, or the same error.

    Ingredients: EmitInvariance ([write_all_same]: the back end reads the registry as a map, the
    entry count, and per module the doc, backends, extern values and the set of item paths),
    FinalState ([final_regs_agree], [final_regs_length], the loop invariant [DInv] on
    [m_defpaths]). *)
From Coq Require Import List NArith ZArith Bool Lia String Permutation.
From PyxisModel Require Import Base Sexp Grammar SemTypes Registry Sem Emit SemLemmas EmitLemmas
     WholeBuild Monotone OrderIndep SortUnique EmitInvariance FinalState.
Import ListNotations.
Local Open Scope string_scope.
Local Open Scope list_scope.

(** ** name resolution reads the registry as a map *)
Lemma reg_has_same R1 R2 p : reg_same R1 R2 -> reg_has R1 p = reg_has R2 p.
Proof.
  intros H. unfold reg_has, amem. fold (reg_get R1 p). fold (reg_get R2 p). now rewrite H.
Qed.

Lemma resolve_string_same R1 R2 scope name : reg_same R1 R2 ->
  resolve_string R1 scope name = resolve_string R2 scope name.
Proof.
  intros H. unfold resolve_string.
  assert (filter (reg_has R1) scope = filter (reg_has R2) scope) as ->
      by (apply filter_ext; intros p; now apply reg_has_same).
  assert (filter (fun p => negb (reg_has R1 p)) scope = filter (fun p => negb (reg_has R2 p)) scope) as ->
      by (apply filter_ext; intros p; now rewrite (reg_has_same _ _ p H)).
  destruct (find _ (rev _)); [reflexivity|]. f_equal.
  induction (map _ _) as [|q l IH]; cbn [find]; [reflexivity|].
  rewrite (reg_has_same _ _ q H). destruct (reg_has R2 q); [reflexivity | exact IH].
Qed.

Lemma resolve_gtype_same R1 R2 scope : reg_same R1 R2 -> forall t,
  resolve_gtype R1 scope t = resolve_gtype R2 scope t.
Proof.
  intros H. induction t; cbn [resolve_gtype]; try (now rewrite IHt); try reflexivity.
  now apply resolve_string_same.
Qed.

(** ** from the lookup-based invariant to a position-wise relation of two module tables *)
Lemma Forall2_of_alookup {V} (Q : V -> V -> Prop) : forall (l1 l2 : list (path * V)),
  NoDup (map fst l1) -> map fst l1 = map fst l2 ->
  (forall k v1 v2, alookup k l1 = Some v1 -> alookup k l2 = Some v2 -> Q v1 v2) ->
  Forall2 (fun a b => fst a = fst b /\ Q (snd a) (snd b)) l1 l2.
Proof.
  induction l1 as [|[k1 v1] l1 IH]; intros [|[k2 v2] l2] HN HK HQ; cbn [map fst] in HK; try discriminate; [constructor|].
  inversion HK as [[Hk Hrest]]. subst k2. inversion HN as [|? ? Hnin HN']; subst.
  constructor.
  - cbn [fst snd]. split; [reflexivity|]. apply (HQ k1); cbn [alookup]; now rewrite path_eqb_refl.
  - apply IH; [exact HN' | exact Hrest|]. intros k w1 w2 H1 H2.
    assert (k <> k1) as Hne.
    { intros ->. apply Hnin. apply alookup_some_in_keys. congruence. }
    apply (HQ k); cbn [alookup]; (destruct (path_eqb_spec k k1); [contradiction | assumption]).
Qed.

Lemma mod_same_join m1 m2 m0 : mod_same m1 m0 -> mod_same m2 m0 -> mod_same m1 m2.
Proof.
  intros (A1 & B1 & C1 & D1 & E1 & F1) (A2 & B2 & C2 & D2 & E2 & F2). repeat split; congruence.
Qed.

(** two loop states reached from the same input state, with registries equal as maps *)
Definition mods_loop_rel (ms1 ms2 : list (path * smodule)) : Prop :=
  Forall2 (fun km1 km2 => fst km1 = fst km2 /\
                          (mod_same (snd km1) (snd km2) /\
                           Permutation (m_defpaths (snd km1)) (m_defpaths (snd km2)))) ms1 ms2.

Lemma DInv_mods_loop_rel st0 s1 s2 :
  NoDup (map fst (st_modules st0)) -> DInv st0 s1 -> DInv st0 s2 ->
  reg_same (st_reg s1) (st_reg s2) ->
  mods_loop_rel (st_modules s1) (st_modules s2).
Proof.
  intros HN [HK1 HD1] [HK2 HD2] HR. unfold mods_loop_rel.
  apply (Forall2_of_alookup (fun m1 m2 => mod_same m1 m2 /\ Permutation (m_defpaths m1) (m_defpaths m2))).
  - now rewrite HK1.
  - congruence.
  - intros k m1 m2 H1 H2.
    destruct (HD1 _ _ H1) as (m0 & Hm0 & Hs1 & Hn1 & Hset1).
    destruct (HD2 _ _ H2) as (m0' & Hm0' & Hs2 & Hn2 & Hset2).
    rewrite Hm0 in Hm0'. inversion Hm0'; subst m0'.
    split; [eapply mod_same_join; eauto|].
    apply NoDup_Permutation; [exact Hn1 | exact Hn2|].
    intros p. rewrite Hset1, Hset2. unfold gen_in. rewrite (HR p). tauto.
Qed.

(** ** [finish_build] *)
Lemma finish_build_mods s t : finish_build s = BOk t ->
  mapM (fun km => do m' <- resolve_extern_values (st_reg s) (snd km); Ok (fst km, m')) (st_modules s)
  = Ok (st_modules t).
Proof.
  unfold finish_build. destruct (negb _); [discriminate|].
  destruct (mapM _ _); try discriminate. intros H; inversion H; reflexivity.
Qed.

Lemma mapM_Forall2_out {A B} (f1 f2 : A -> outcome B) (P : A -> A -> Prop) (Q : B -> B -> Prop) :
  (forall a1 a2 b1 b2, P a1 a2 -> f1 a1 = Ok b1 -> f2 a2 = Ok b2 -> Q b1 b2) ->
  forall l1 l2, Forall2 P l1 l2 -> forall o1 o2, mapM f1 l1 = Ok o1 -> mapM f2 l2 = Ok o2 -> Forall2 Q o1 o2.
Proof.
  intros Hf. induction 1 as [|a1 a2 l1 l2 Ha _ IH]; intros o1 o2 H1 H2; cbn [mapM] in *.
  - inversion H1; inversion H2; constructor.
  - inv_bind H1. inv_bind H1. inv_bind H2. inv_bind H2. inversion H1; inversion H2; subst.
    constructor; eauto.
Qed.

Lemma resolve_extern_values_rel R1 R2 m1 m2 m1' m2' :
  reg_same R1 R2 -> mod_same m1 m2 -> Permutation (m_defpaths m1) (m_defpaths m2) ->
  resolve_extern_values R1 m1 = Ok m1' -> resolve_extern_values R2 m2 = Ok m2' ->
  mod_out_rel m1' m2'.
Proof.
  intros HR (Hp & Ha & _ & He & Hb & Hd) HP H1 H2. unfold resolve_extern_values in *.
  inv_bind H1. inv_bind H2. inversion H1; subst m1'. inversion H2; subst m2'. clear H1 H2.
  unfold mod_out_rel. cbn [m_doc m_backends m_extern_values m_defpaths].
  split; [exact Hd|]. split; [exact Hb|]. split; [|exact HP].
  assert (module_scope m1 = module_scope m2) as Hsc by (unfold module_scope; congruence).
  rewrite He, Hsc in Ha0.
  erewrite mapM_ext_in in Ha0; [rewrite Ha0 in Ha1; now inversion Ha1|].
  intros ev _. cbn beta. now rewrite (resolve_gtype_same R1 R2 _ HR).
Qed.

Lemma finish_build_out_rel s1 s2 t1 t2 :
  reg_same (st_reg s1) (st_reg s2) -> mods_loop_rel (st_modules s1) (st_modules s2) ->
  finish_build s1 = BOk t1 -> finish_build s2 = BOk t2 ->
  mods_out_rel (st_modules t1) (st_modules t2).
Proof.
  intros HR HM F1 F2. apply finish_build_mods in F1. apply finish_build_mods in F2.
  unfold mods_out_rel.
  eapply mapM_Forall2_out; [|exact HM | exact F1 | exact F2].
  intros [k1 m1] [k2 m2] [k1' m1'] [k2' m2'] [Hk [Hs HP]] H1 H2. cbn [fst snd] in *.
  inv_bind H1. inv_bind H2. inversion H1; inversion H2; subst. split; [reflexivity|].
  eapply resolve_extern_values_rel; eauto.
Qed.

(** ** the theorem *)
Theorem pyxis_output_order_independent ptr mods st0 o1 o2 :
  input_state ptr mods = Ok st0 -> collision_free (st_reg st0) -> clean_stateb st0 = true ->
  (forall l, Permutation (o1 l) l) -> (forall l, Permutation (o2 l) l) ->
  match pyxis_resolve o1 ptr mods, pyxis_resolve o2 ptr mods with
  | BOk s1, BOk s2 => write_all s1 = write_all s2
  | _, _ => True
  end.
Proof.
  intros Hin Hcf Hcl P1 P2.
  destruct (pyxis_resolve o1 ptr mods) as [t1| | | |] eqn:H1; try exact I.
  destruct (pyxis_resolve o2 ptr mods) as [t2| | | |] eqn:H2; try exact I.
  pose proof (final_regs_agree ptr mods st0 Hin Hcf Hcl o1 o2 t1 t2 P1 P2 H1 H2) as Hag.
  pose proof (final_regs_length ptr mods st0 Hin Hcf Hcl o1 o2 t1 t2 P1 P2 H1 H2) as Hlen.
  destruct (run_facts ptr mods st0 Hin Hcf Hcl o1 t1 P1 H1) as (s1 & A1 & _ & F1 & _ & (_ & HK1 & HD1) & _).
  destruct (run_facts ptr mods st0 Hin Hcf Hcl o2 t2 P2 H2) as (s2 & A2 & _ & F2 & _ & (_ & HK2 & HD2) & _).
  pose proof (finish_build_reg _ _ F1) as E1. pose proof (finish_build_reg _ _ F2) as E2.
  destruct (input_state_wf _ _ _ Hin) as [_ [HN _]].
  assert (reg_same (st_reg s1) (st_reg s2)) as HR by (intros p; rewrite <- E1, <- E2; apply Hag).
  apply write_all_same.
  - exact Hag.
  - now rewrite E1.
  - exact Hlen.
  - eapply finish_build_out_rel; [exact HR | | exact F1 | exact F2].
    eapply DInv_mods_loop_rel; eauto.
Qed.

(** the same with the decidable side condition *)
Corollary pyxis_output_order_independent_b ptr mods st0 o1 o2 :
  input_state ptr mods = Ok st0 -> collision_freeb (st_reg st0) = true -> clean_stateb st0 = true ->
  (forall l, Permutation (o1 l) l) -> (forall l, Permutation (o2 l) l) ->
  match pyxis_resolve o1 ptr mods, pyxis_resolve o2 ptr mods with
  | BOk s1, BOk s2 => write_all s1 = write_all s2
  | _, _ => True
  end.
Proof. intros Hin Hcf. apply pyxis_output_order_independent; [exact Hin | now apply collision_freeb_sound]. Qed.
