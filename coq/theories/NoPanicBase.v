(** * NoPanicBase: tools for the no-panic theorem of the back end (C12).

    - identifiers: [plain_ident_ok] implies [ident_ok]; appending identifier characters keeps an
      identifier; the generated names ([<T>Vftable], [_<T>Vftable_size_check], [_vfunc_<k>],
      [_field_<hex>], [<base>_<fn>]) are identifiers whenever the names they are made from are;
    - [np] over [mapM]/[foldM] with membership; [foldM] invariants with membership;
    - [resolve_pass_lift]/[resolve_loop_lift]: a state predicate kept by every attempt (and by
      marking its item resolved) is kept by the whole resolution loop. *)
From Coq Require Import List NArith ZArith Bool Lia String Ascii.
From Coq Require Import DecimalString HexadecimalString.
From PyxisModel Require Import Base Sexp Grammar SemTypes Registry Sem SemLemmas Emit NoPanic WholeBuild.
Import ListNotations.
Local Open Scope string_scope.
Local Open Scope list_scope.

Definition all_cont (s : string) : bool := forallb is_ident_continue (list_of_string s).

Lemma list_of_string_app a b : list_of_string (a +++ b) = list_of_string a ++ list_of_string b.
Proof. induction a as [|c a IH]; cbn; [reflexivity | now rewrite IH]. Qed.

Lemma all_cont_app a b : all_cont (a +++ b) = all_cont a && all_cont b.
Proof. unfold all_cont. now rewrite list_of_string_app, forallb_app. Qed.

Lemma start_cont c : is_ident_start c = true -> is_ident_continue c = true.
Proof. unfold is_ident_continue. intros ->. reflexivity. Qed.

Lemma plain_all_cont s : plain_ident_ok s = true -> all_cont s = true.
Proof.
  destruct s as [|c s]; [discriminate|]. unfold plain_ident_ok, all_cont. cbn [list_of_string forallb].
  intros H. apply andb_prop in H as [H1 H2]. now rewrite (start_cont _ H1), H2.
Qed.

Lemma plain_app a b : plain_ident_ok a = true -> all_cont b = true -> plain_ident_ok (a +++ b) = true.
Proof.
  destruct a as [|c a]; [discriminate|]. cbn [append]. unfold plain_ident_ok. intros H Hb.
  apply andb_prop in H as [H1 H2]. rewrite H1. fold (all_cont (a +++ b)). rewrite all_cont_app.
  unfold all_cont at 1. now rewrite H2, Hb.
Qed.

(** the two shapes of [ident_ok] *)
Lemma ident_ok_cases s :
  (exists rest, s = String "r" (String "#" rest) /\
     ident_ok s = plain_ident_ok rest &&
       negb (String.eqb rest "crate" || String.eqb rest "self" || String.eqb rest "super" || String.eqb rest "Self"
             || String.eqb rest "_")) \/
  ((forall rest, s <> String "r" (String "#" rest)) /\ ident_ok s = plain_ident_ok s).
Proof.
  destruct s as [|c s]; [right; split; [intros; discriminate | reflexivity]|].
  destruct (Ascii.eqb_spec c "r") as [->|Hc].
  - destruct s as [|c2 s]; [right; split; [intros; discriminate | reflexivity]|].
    destruct (Ascii.eqb_spec c2 "#") as [->|Hc2].
    + left. exists s. split; reflexivity.
    + right. split; [intros rest E; inversion E; contradiction|].
      destruct c2 as [[] [] [] [] [] [] [] []]; try reflexivity. contradiction Hc2; reflexivity.
  - right. split; [intros rest E; inversion E; contradiction|].
    destruct c as [[] [] [] [] [] [] [] []]; try reflexivity. contradiction Hc; reflexivity.
Qed.

Lemma plain_not_raw rest : plain_ident_ok (String "r" (String "#" rest)) = false.
Proof. unfold plain_ident_ok. cbn [list_of_string forallb]. now rewrite andb_false_r. Qed.

Lemma plain_ident_ok_ident_ok s : plain_ident_ok s = true -> ident_ok s = true.
Proof.
  intros H. destruct (ident_ok_cases s) as [(rest & -> & _)|(_ & ->)]; [|exact H].
  rewrite plain_not_raw in H. discriminate.
Qed.

Lemma eqb_length_false a b : String.length a <> String.length b -> String.eqb a b = false.
Proof. intros H. destruct (String.eqb_spec a b) as [->|]; [contradiction | reflexivity]. Qed.

Lemma string_length_app a b : String.length (a +++ b) = (String.length a + String.length b)%nat.
Proof. induction a as [|c a IH]; cbn; [reflexivity | now rewrite IH]. Qed.

(** appending identifier characters to an identifier gives an identifier, when the suffix is longer
    than every keyword that cannot be raw *)
Lemma ident_ok_app s suf : ident_ok s = true -> all_cont suf = true -> (6 <= String.length suf)%nat ->
  ident_ok (s +++ suf) = true.
Proof.
  intros H Hs Hl. destruct (ident_ok_cases s) as [(rest & -> & E)|(Hn & E)].
  - rewrite E in H. apply andb_prop in H as [H1 _]. cbn [append].
    change (ident_ok (String "r" (String "#" (rest +++ suf))))
      with (plain_ident_ok (rest +++ suf) &&
            negb (String.eqb (rest +++ suf) "crate" || String.eqb (rest +++ suf) "self" || String.eqb (rest +++ suf) "super"
                  || String.eqb (rest +++ suf) "Self" || String.eqb (rest +++ suf) "_")).
    rewrite (plain_app _ _ H1 Hs).
    rewrite !eqb_length_false; [reflexivity| | | | |]; rewrite string_length_app; cbn; lia.
  - rewrite E in H. apply plain_ident_ok_ident_ok. now apply plain_app.
Qed.

Lemma ident_ok_vftable_name s : ident_ok s = true -> ident_ok (s +++ "Vftable") = true.
Proof. intros H. apply ident_ok_app; [exact H | reflexivity | cbn; lia]. Qed.

(** [_<name>_size_check] is an identifier iff the name is made of identifier characters *)
Lemma size_check_ident n : ident_ok ("_" +++ n +++ "_size_check") = all_cont n.
Proof.
  cbn [append]. change (ident_ok (String "_" (n +++ "_size_check"))) with (plain_ident_ok (String "_" (n +++ "_size_check"))).
  unfold plain_ident_ok. fold (all_cont (n +++ "_size_check")). rewrite all_cont_app.
  change (all_cont "_size_check") with true. now rewrite andb_true_r.
Qed.

Lemma size_check_vftable n : ident_ok ("_" +++ n +++ "_size_check") = true ->
  ident_ok ("_" +++ (n +++ "Vftable") +++ "_size_check") = true.
Proof. rewrite !size_check_ident, all_cont_app. intros ->. reflexivity. Qed.

(** decimal and hexadecimal digits *)
Lemma dec_digits u : all_cont (DecimalString.NilEmpty.string_of_uint u) = true.
Proof. induction u; cbn; auto. Qed.
Lemma dec_of_N_cont n : all_cont (dec_of_N n) = true.
Proof.
  unfold dec_of_N, DecimalString.NilZero.string_of_uint.
  destruct (N.to_uint n) as [|u|u|u|u|u|u|u|u|u|u] eqn:E; try reflexivity; rewrite <- E; apply dec_digits.
Qed.

Lemma hex_digits u : all_cont (HexadecimalString.NilEmpty.string_of_uint u) = true.
Proof. induction u; cbn; auto. Qed.
Lemma hex_of_N_cont n : all_cont (hex_of_N n) = true.
Proof.
  unfold hex_of_N, HexadecimalString.NilZero.string_of_uint.
  destruct (N.to_hex_uint n) as [|u|u|u|u|u|u|u|u|u|u|u|u|u|u|u|u] eqn:E; try reflexivity; rewrite <- E; apply hex_digits.
Qed.

Lemma vfunc_name_plain k : plain_ident_ok ("_vfunc_" +++ dec_of_N k) = true.
Proof. apply plain_app; [reflexivity | apply dec_of_N_cont]. Qed.
Lemma field_name_plain n : plain_ident_ok ("_field_" +++ hex_of_N n) = true.
Proof. apply plain_app; [reflexivity | apply hex_of_N_cont]. Qed.

Lemma join_plain b o : plain_ident_ok b = true -> plain_ident_ok o = true -> plain_ident_ok (b +++ "_" +++ o) = true.
Proof.
  intros Hb Ho. apply plain_app; [exact Hb|]. rewrite all_cont_app. now rewrite (plain_all_cont _ Ho).
Qed.

(** ** [np] over lists, with membership *)
Lemma np_ok {A} (a : A) : np (Ok a).
Proof. intros m; discriminate. Qed.
Lemma np_err {A} e : np (@Err A e).
Proof. intros m; discriminate. Qed.
Lemma np_defer {A} : np (@Defer A).
Proof. intros m; discriminate. Qed.

Lemma np_mapM_in {A B} (f : A -> outcome B) l : (forall a, In a l -> np (f a)) -> np (mapM f l).
Proof.
  induction l as [|a l IH]; intros H; cbn [mapM]; [apply np_ok|].
  apply np_bind; [apply H; now left|]. intros b _. apply np_bind; [apply IH; intros; apply H; now right|].
  intros; apply np_ok.
Qed.

Lemma np_foldM_in {A S} (f : S -> A -> outcome S) l :
  (forall s a, In a l -> np (f s a)) -> forall s, np (foldM f l s).
Proof.
  induction l as [|a l IH]; intros H s; cbn [foldM]; [apply np_ok|].
  apply np_bind; [apply H; now left|]. intros s' _. apply IH. intros; apply H; now right.
Qed.

(** [foldM] with an invariant on the accumulator, elements known to be members *)
Lemma foldM_inv_in {A S} (P : S -> Prop) (f : S -> A -> outcome S) l :
  (forall s a s', In a l -> P s -> f s a = Ok s' -> P s') ->
  forall s s', P s -> foldM f l s = Ok s' -> P s'.
Proof.
  induction l as [|a l IH]; intros Hf s s' Hs H; cbn [foldM] in H.
  - now inversion H; subst.
  - inv_bind H. eapply IH; [intros; eapply Hf; eauto; now right | | exact H]. eapply Hf; eauto. now left.
Qed.

Lemma mapM_forall {A B} (P : B -> Prop) (f : A -> outcome B) l out :
  (forall a b, In a l -> f a = Ok b -> P b) -> mapM f l = Ok out -> Forall P out.
Proof.
  revert out; induction l as [|a l IH]; intros out Hf H; cbn [mapM] in H.
  - inversion H; constructor.
  - inv_bind H. inv_bind H. inversion H; subst. constructor; [eapply Hf; eauto; now left|].
    apply IH; [intros; eapply Hf; eauto; now right | exact Ha0].
Qed.

(** ** lifting a step invariant through the loop *)
Section Lift.
  Variable P : sstate -> Prop.
  Hypothesis step : forall st p it gd st' o,
    P st -> reg_get (st_reg st) p = Some it -> it_state it = Unresolved gd -> attempt st p gd = (st', o) ->
    match o with Ok r => P (set_resolved st' p r) | Defer => P st' | _ => True end.

  Lemma resolve_pass_lift : forall ps st st', P st -> resolve_pass st ps = inl st' -> P st'.
  Proof.
    induction ps as [|p ps IH]; intros st st' HP H; cbn [resolve_pass] in H.
    - now inversion H; subst.
    - destruct (reg_get (st_reg st) p) as [it|] eqn:Hg; [|discriminate].
      destruct (it_state it) as [gd|r0] eqn:Hs; [|eauto].
      destruct (attempt st p gd) as [st1 o] eqn:Hat. pose proof (step _ _ _ _ _ _ HP Hg Hs Hat) as Hst.
      destruct o as [r| |m|m]; try discriminate; eauto.
  Qed.

  Lemma resolve_loop_lift order : forall fuel st st', P st -> resolve_loop order fuel st = BOk st' -> P st'.
  Proof.
    induction fuel as [|fuel IH]; intros st st' HP H; cbn [resolve_loop] in H; [discriminate|].
    destruct (order (reg_unresolved (st_reg st))) as [|p0 ps] eqn:Eo.
    - now inversion H; subst.
    - destruct (resolve_pass st (p0 :: ps)) as [st1|res] eqn:Ep; [|subst; exfalso; eapply resolve_pass_abort_not_ok; eauto].
      destruct (Nat.eqb _ _); [discriminate|]. eapply IH; [|exact H]. eapply resolve_pass_lift; eauto.
  Qed.
End Lift.
