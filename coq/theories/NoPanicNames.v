(** * NoPanicNames: every name that reaches an identifier position of the emitter is an identifier.

    [names_fine st0] is a boolean over the input state: it reads only what the input declares (the
    descriptions of the unresolved items, the impl blocks and the extern values of the modules).
    [NInv] is the invariant it establishes ([NInv_init]) and that every attempt of the resolution
    loop keeps ([NInv_step]): every registry item is [item_ok] -- an unresolved one by its
    description, a resolved one by its regions, functions and vftable, whose names are either names
    of the input or generated ones ([vftable], [_vfunc_<k>], [_field_<hex>], [<T>Vftable],
    [<base>_<fn>]), shown to be identifiers here.  [names_final] is the result for an accepted build,
    with (c): [finish_build] fills the type of every extern value. *)
From Coq Require Import List NArith ZArith Bool Lia String Ascii.
From PyxisModel Require Import Base Sexp Grammar SemTypes Registry Sem SemLemmas PlacementLemmas Emit NoPanic
     WholeBuild FinalState OutputIndep NoPanicBase.
Import ListNotations.
Local Open Scope string_scope.
Local Open Scope list_scope.

(** ** the source side *)
Definition garg_ok (a : garg) : bool := match a with GNamed n _ => ident_ok n | _ => true end.
Definition gfn_ok (f : gfunction) : bool := plain_ident_ok (gf_name f) && forallb garg_ok (gf_args f).
Definition has_base (attrs : list gattr) : bool :=
  existsb (fun a => match a with AIdent n => String.eqb n "base" | _ => false end) attrs.
Definition stmt_ok (s : gstatement) : bool :=
  match gs_field s with
  | GField _ name _ =>
    String.eqb name "_" || (ident_ok name && (negb (has_base (gs_attrs s)) || plain_ident_ok name))
  | GVftable fs => forallb gfn_ok fs
  end.
Definition def_ok (d : gitemdef) : bool :=
  match gi_inner d with
  | GIType td => forallb stmt_ok (gt_stmts td)
  | GIEnum ed => forallb (fun s => ident_ok (ge_name s)) (ged_stmts ed)
  end.
Definition name_ok (p : path) : bool :=
  match path_last p with
  | Some n => ident_ok n && ident_ok ("_" +++ n +++ "_size_check")
  | None => true
  end.
Definition module_ok (m : smodule) : bool :=
  forallb (fun ev => ident_ok ("get_" +++ ev_name ev)) (m_extern_values m) &&
  forallb (fun kb => forallb gfn_ok (gb_fns (snd kb))) (m_impls m).

(** ** the resolved side *)
Definition sarg_ok (a : sarg) : bool := match a with SField n _ => ident_ok n | _ => true end.
Definition body_ok (b : fbody) : bool :=
  match b with BField a b => ident_ok a && ident_ok b | BVftable a => ident_ok a | BAddress _ => true end.
Definition fn_ok (f : sfunction) : bool :=
  plain_ident_ok (sf_name f) && forallb sarg_ok (sf_args f) && body_ok (sf_body f).
Definition region_ok (r : region) : bool :=
  match r_name r with
  | Some n => ident_ok n && (negb (r_is_base r) || plain_ident_ok n)
  | None => true
  end.
Definition vt_ok (vt : tvftable) : bool :=
  forallb fn_ok (vt_functions vt) && match vt_base_field vt with Some b => ident_ok b | None => true end.
Definition td_ok (td : type_def) : bool :=
  forallb region_ok (td_regions td) && forallb fn_ok (td_assoc td) &&
  match td_vftable td with Some vt => vt_ok vt | None => true end.
Definition ed_ok (ed : enum_def) : bool := forallb (fun x => ident_ok (fst x)) (ed_fields ed).
Definition inner_ok (i : item_inner) : bool := match i with IType td => td_ok td | IEnum ed => ed_ok ed end.
Definition item_ok (it : item) : bool :=
  match it_state it with
  | Unresolved d => name_ok (it_path it) && def_ok d
  | Resolved rs =>
    inner_ok (rs_inner rs) && match it_cat it with Defined => name_ok (it_path it) | _ => true end
  end.

Definition NInv (st : sstate) : Prop :=
  keyed (st_reg st) /\
  (forall p it, reg_get (st_reg st) p = Some it -> item_ok it = true) /\
  (forall km, In km (st_modules st) -> module_ok (snd km) = true).

Notation FOK P l := (Forall (fun x => P x = true) l).

Lemma forallb_Forall {A} (f : A -> bool) l : forallb f l = true <-> Forall (fun x => f x = true) l.
Proof. rewrite forallb_forall, Forall_forall. reflexivity. Qed.

(** ** function_build *)
Lemma scan_fn_attrs_body v attrs st0 st :
  foldM (scan_fn_attr v) attrs st0 = Ok st ->
  (forall b, fst st0 = Some b -> body_ok b = true) -> forall b, fst st = Some b -> body_ok b = true.
Proof.
  intros H H0. eapply (foldM_preserves (fun s => forall b, fst s = Some b -> body_ok b = true)); [|exact H0|exact H].
  clear. intros s a s' Hs Ha. unfold scan_fn_attr in Ha.
  destruct a as [?|n args|? ?]; try (inversion Ha; subst; exact Hs).
  destruct (String.eqb n "address").
  { destruct args as [|[addr| |] [|? ?]]; try (inversion Ha; subst; exact Hs).
    destruct v; [discriminate|]. destruct (z_to_usize addr); [|discriminate]. inversion Ha; subst. cbn [fst].
    intros b E. inversion E. reflexivity. }
  destruct (String.eqb n "index"); [destruct v; [inversion Ha; subst; exact Hs | discriminate]|].
  destruct (String.eqb n "calling_convention"); [|inversion Ha; subst; exact Hs].
  destruct args as [|[| c |] [|? ?]]; try (inversion Ha; subst; exact Hs).
  destruct (cc_of_string c); [|discriminate]. inversion Ha; subst. exact Hs.
Qed.

Lemma function_build_ok R scope v f sf :
  gfn_ok f = true -> function_build R scope v f = Ok sf -> fn_ok sf = true.
Proof.
  unfold gfn_ok, function_build. intros Hf H. apply andb_prop in Hf as [Hn Hargs].
  inv_bind H. inv_bind H. destruct (fst a0) as [body|] eqn:Eb; [|discriminate].
  inv_bind H. inv_bind H. inversion H; subst sf; clear H. unfold fn_ok. cbn [sf_name sf_args sf_body].
  rewrite Hn. cbn [andb]. apply andb_true_intro. split.
  - apply forallb_Forall. eapply mapM_forall; [|exact Ha1]. intros g s Hin Hg. cbn beta.
    rewrite forallb_forall in Hargs. specialize (Hargs _ Hin). unfold resolve_arg in Hg.
    destruct g as [| |n t]; try (inversion Hg; reflexivity).
    destruct (resolve_gtype R scope t); [|discriminate]. inversion Hg; subst. exact Hargs.
  - eapply (scan_fn_attrs_body v); [exact Ha0 | | exact Eb].
    cbn [fst]. intros b E. destruct v; [|discriminate]. inversion E; subst. cbn [body_ok].
    now apply plain_ident_ok_ident_ok.
Qed.

(** ** the vftable functions *)
Lemma padding_fn_ok k : fn_ok (padding_fn k) = true.
Proof.
  unfold fn_ok, padding_fn. cbn [sf_name sf_args sf_body forallb sarg_ok body_ok].
  rewrite vfunc_name_plain. cbn [andb]. apply plain_ident_ok_ident_ok, vfunc_name_plain.
Qed.

Lemma pad_vfuncs_ok : forall n out, FOK fn_ok out -> FOK fn_ok (pad_vfuncs n out).
Proof.
  induction n as [|n IH]; intros out H; cbn [pad_vfuncs]; [exact H|].
  apply IH. apply Forall_app. split; [exact H|]. constructor; [apply padding_fn_ok | constructor].
Qed.

Lemma convert_functions_ok R scope sz fs out :
  forallb gfn_ok fs = true -> convert_functions R scope sz fs = Ok out -> FOK fn_ok out.
Proof.
  unfold convert_functions. intros Hfs H. inv_bind H.
  assert (FOK fn_ok a) as Ha'.
  { refine (foldM_inv_in (fun o => FOK fn_ok o) _ fs _ _ _ _ Ha); [|constructor].
    intros s g s' Hin Hs Hg. unfold convert_one in Hg. inv_bind Hg. inv_bind Hg. inv_bind Hg.
    inversion Hg; subst s'. apply Forall_app. split.
    - destruct a0 as [i|]; [|inversion Ha1; subst; exact Hs].
      destruct (_ <? _)%N; [discriminate|]. inversion Ha1; subst. apply pad_vfuncs_ok. exact Hs.
    - constructor; [|constructor]. eapply function_build_ok; [|exact Ha2].
      rewrite forallb_forall in Hfs. auto. }
  destruct sz as [s|]; [|inversion H; subst; exact Ha'].
  destruct (_ <? _)%N; [discriminate|]. inversion H; subst. apply pad_vfuncs_ok. exact Ha'.
Qed.

(** ** statements *)
Lemma scan_field_base : forall attrs st ab,
  foldM scan_field_attr attrs st = Ok ab -> snd ab = true -> snd st = true \/ has_base attrs = true.
Proof.
  induction attrs as [|a attrs IH]; intros st ab H Hb; cbn [foldM] in H.
  - inversion H; subst. now left.
  - inv_bind H. destruct (IH _ _ H Hb) as [Hs|Hh]; [|right; unfold has_base in *; cbn [existsb]; rewrite Hh; apply orb_true_r].
    unfold scan_field_attr in Ha. destruct a as [n|n args|? ?]; try (inversion Ha; subst; now left).
    + destruct (String.eqb n "base") eqn:En; [|inversion Ha; subst; now left].
      right. unfold has_base. cbn [existsb]. now rewrite En.
    + destruct args as [|[addr| |] [|? ?]]; try (inversion Ha; subst; now left).
      destruct (String.eqb n "address"); [|inversion Ha; subst; now left].
      destruct (z_to_usize addr); [|discriminate]. inversion Ha; subst. now left.
Qed.

Definition stmts_ok (acc : nat * stmt_state) : Prop :=
  FOK region_ok (map snd (fst (snd acc))) /\ forall fs, snd (snd acc) = Some fs -> FOK fn_ok fs.

Lemma process_statement_ok R scope acc s acc' :
  stmt_ok s = true -> stmts_ok acc -> process_statement R scope acc s = Ok acc' -> stmts_ok acc'.
Proof.
  unfold process_statement, stmt_ok. destruct acc as [idx [pending vfs]]. intros Hs [Hp Hv] H. cbn [fst snd] in *.
  destruct (gs_field s) as [v name t|gfs].
  - inv_bind H. inv_bind H. destruct (resolve_gtype R scope t) as [t'|]; [|discriminate].
    inversion H; subst acc'. split; cbn [fst snd]; [|exact Hv].
    rewrite map_app. apply Forall_app. split; [exact Hp|]. constructor; [|constructor]. cbn [snd map].
    unfold region_ok. cbn [r_name r_is_base].
    destruct (String.eqb name "_") eqn:En; [reflexivity|]. cbn [orb] in Hs.
    apply andb_prop in Hs as [Hi Hb]. rewrite Hi. cbn [andb].
    destruct (snd a0) eqn:Eb; [|reflexivity]. cbn [negb orb].
    destruct (scan_field_base _ _ _ Ha0 Eb) as [X|X]; [discriminate|]. rewrite X in Hb. exact Hb.
  - destruct (negb _); [discriminate|]. inv_bind H. inv_bind H. inversion H; subst acc'.
    split; cbn [fst snd]; [exact Hp|]. intros fs E. inversion E; subst. eapply convert_functions_ok; eauto.
Qed.

Lemma process_statements_ok R scope stmts n pending vfs :
  forallb stmt_ok stmts = true ->
  foldM (process_statement R scope) stmts (O, ([], None)) = Ok (n, (pending, vfs)) ->
  FOK region_ok (map snd pending) /\ forall fs, vfs = Some fs -> FOK fn_ok fs.
Proof.
  intros Hs H. rewrite forallb_forall in Hs.
  apply (foldM_inv_in stmts_ok (process_statement R scope) stmts) in H.
  - exact H.
  - intros; eapply process_statement_ok; eauto.
  - split; cbn; [constructor | discriminate].
Qed.

Lemma path_last_join parent x : path_last (path_join parent x) = Some x.
Proof.
  unfold path_last, path_join. destruct (parent ++ [x]) eqn:E; [now destruct parent|].
  rewrite <- E. now rewrite last_last.
Qed.

Lemma module_ok_add_defpath p m : module_ok (add_defpath p m) = module_ok m.
Proof. reflexivity. Qed.

Lemma add_item_NInv st it st' : NInv st -> item_ok it = true -> add_item st it = Ok st' -> NInv st'.
Proof.
  intros (HK & HR & HM) Hit H. split; [eapply add_item_keyed; eauto|]. split.
  - rewrite (add_item_reg _ _ _ H). intros p it' Hg.
    destruct (path_eqb_spec (it_path it) p) as [<-|Hne].
    + rewrite reg_get_add_same in Hg. now inversion Hg; subst.
    + rewrite reg_get_add_other in Hg by exact Hne. eauto.
  - unfold add_item in H. destruct (path_parent (it_path it)) as [parent|]; [|discriminate].
    destruct (alookup parent (st_modules st)) as [m|] eqn:Em; [|discriminate].
    inversion H; subst st'; clear H. cbn [st_modules]. intros km Hin.
    destruct (in_ainsert _ _ _ _ Hin) as [->|Hin']; [|auto]. cbn [snd]. rewrite module_ok_add_defpath.
    destruct (alookup_in _ _ _ Em) as (k' & Hin' & _). apply (HM _ Hin').
Qed.

(** the generated vftable item *)
Lemma vftable_item_ok R owner v fs vit :
  name_ok owner = true -> FOK fn_ok fs -> vftable_item R owner v fs = Some vit -> item_ok vit = true.
Proof.
  unfold vftable_item, vftable_path, name_ok. intros Hn Hfs H.
  destruct (path_last owner) as [name|]; [|discriminate]. destruct (path_parent owner) as [parent|]; [|discriminate].
  inversion H; subst vit; clear H. unfold item_ok. cbn [it_state it_cat it_path rs_inner inner_ok].
  apply andb_prop in Hn as [H1 H2]. apply andb_true_intro. split.
  - unfold td_ok. cbn [td_regions td_assoc td_vftable forallb]. rewrite !andb_true_r.
    apply forallb_Forall. apply Forall_forall. intros r Hr. apply in_map_iff in Hr as (f & <- & Hf).
    rewrite Forall_forall in Hfs. specialize (Hfs _ Hf). unfold fn_ok in Hfs.
    apply andb_prop in Hfs as [Hfs _]. apply andb_prop in Hfs as [Hfs _].
    unfold region_ok, function_to_region. cbn [r_name r_is_base negb orb]. rewrite andb_true_r.
    now apply plain_ident_ok_ident_ok.
  - unfold name_ok. rewrite path_last_join. rewrite (ident_ok_vftable_name _ H1), (size_check_vftable _ H2). reflexivity.
Qed.

(** a region that names a resolved struct *)
Lemma region_name_and_typedef_some R r name td :
  region_name_and_typedef R r = Ok (Some (name, td)) ->
  r_name r = Some name /\
  exists p it rs, r_type r = TRaw p /\ reg_get R p = Some it /\ item_resolved it = Some rs /\ rs_inner rs = IType td.
Proof.
  unfold region_name_and_typedef. destruct (r_name r) as [n|]; [|discriminate].
  destruct (r_type r) as [p| | | |]; try discriminate.
  destruct (reg_get R p) as [it|] eqn:Eg; [|discriminate].
  destruct (item_resolved it) as [rs|] eqn:Er; [|discriminate].
  destruct (rs_inner rs) as [td'|] eqn:Ei; [|discriminate].
  intros H; inversion H; subst. split; [reflexivity|]. exists p, it, rs. auto.
Qed.

Lemma NInv_td st p it rs td :
  NInv st -> reg_get (st_reg st) p = Some it -> item_resolved it = Some rs -> rs_inner rs = IType td ->
  td_ok td = true.
Proof.
  intros (_ & HR & _) Hg Hr Hi. specialize (HR _ _ Hg). unfold item_ok, item_resolved in *.
  destruct (it_state it); [discriminate|]. inversion Hr; subst. apply andb_prop in HR as [HR _].
  rewrite Hi in HR. exact HR.
Qed.

Lemma opt_rnv_ok st fb base :
  NInv st -> (forall b, fb = Some b -> region_ok b = true) ->
  opt_region_name_and_vftable (st_reg st) fb = Ok base ->
  forall n bvt, base = Some (n, bvt) -> ident_ok n = true /\ vt_ok bvt = true.
Proof.
  unfold opt_region_name_and_vftable. intros HN Hfb H n bvt E. destruct fb as [b|]; [|inversion H; subst; discriminate].
  inv_bind H. inversion H as [Hb]; clear H. rewrite <- Hb in E. clear Hb. destruct a as [[name td]|]; [|discriminate].
  destruct (region_name_and_typedef_some _ _ _ _ Ha) as (Hn & p & it & rs & _ & Hg & Hr & Hi).
  pose proof (NInv_td _ _ _ _ _ HN Hg Hr Hi) as Htd.
  destruct (td_vftable td) as [vt|] eqn:Ev; [|discriminate]. cbn [option_map] in E. inversion E; subst. split.
  - specialize (Hfb _ eq_refl). unfold region_ok in Hfb. rewrite Hn in Hfb. now apply andb_prop in Hfb as [Hfb _].
  - unfold td_ok in Htd. rewrite Ev in Htd. now apply andb_prop in Htd as [_ Htd].
Qed.

Lemma vftable_build_ok st owner v fb vfs st' vt vr :
  NInv st -> name_ok owner = true -> (forall fs, vfs = Some fs -> FOK fn_ok fs) ->
  (forall b, fb = Some b -> region_ok b = true) ->
  vftable_build st owner v fb vfs = Ok (st', vt, vr) ->
  NInv st' /\ (forall x, vt = Some x -> vt_ok x = true) /\ (forall r, vr = Some r -> region_ok r = true).
Proof.
  unfold vftable_build. intros HN Hname Hvfs Hfb H. destruct vfs as [fs|].
  - specialize (Hvfs _ eq_refl).
    destruct (vftable_item (st_reg st) owner v fs) as [vit|] eqn:Evi.
    2:{ inversion H; subst. split; [exact HN|]. split; intros; discriminate. }
    inv_bind H. rename a into st1. inv_bind H.
    assert (NInv st1) as HN1 by (eapply add_item_NInv; eauto using vftable_item_ok).
    pose proof (opt_rnv_ok _ _ _ HN1 Hfb Ha0) as Hbase.
    apply forallb_Forall in Hvfs.
    destruct a as [[bn bvt]|].
    + destruct (_ <? _)%nat; [discriminate|]. destruct (negb _); [discriminate|]. inversion H; subst.
      destruct (Hbase _ _ eq_refl) as [Hbn _].
      split; [exact HN1|]. split; [|intros; discriminate].
      intros x E; inversion E; subst. unfold vt_ok. cbn [vt_functions vt_base_field]. now rewrite Hvfs, Hbn.
    + inversion H; subst. split; [exact HN1|]. split.
      * intros x E; inversion E; subst. unfold vt_ok. cbn [vt_functions vt_base_field]. now rewrite Hvfs.
      * intros r E; inversion E; subst. reflexivity.
  - inv_bind H. pose proof (opt_rnv_ok _ _ _ HN Hfb Ha) as Hbase. destruct a as [[bn bvt]|].
    + inversion H; subst. destruct (Hbase _ _ eq_refl) as [Hbn Hbvt].
      split; [exact HN|]. split; [|intros; discriminate].
      intros x E; inversion E; subst. unfold vt_ok in *. cbn [vt_functions vt_base_field].
      apply andb_prop in Hbvt as [Hf _]. now rewrite Hf, Hbn.
    + inversion H; subst. split; [exact HN|]. split; intros; discriminate.
Qed.

(** ** regions *)
Lemma regions_push_ok R acc r acc' :
  FOK region_ok (fst acc) -> region_ok r = true -> regions_push R acc r = Some acc' -> FOK region_ok (fst acc').
Proof.
  unfold regions_push. intros Ha Hr H. destruct (size_of R (r_type r)); [|discriminate].
  destruct (_ && _); [inversion H; subst; exact Ha|].
  destruct (checked_add _ _); [|discriminate]. inversion H; subst. cbn [fst].
  apply Forall_app. split; [exact Ha | constructor; [exact Hr | constructor]].
Qed.

Lemma push_pending_ok R acc p acc' :
  FOK region_ok (fst acc) -> region_ok (snd p) = true -> push_pending R acc p = Ok acc' -> FOK region_ok (fst acc').
Proof.
  unfold push_pending. intros Ha Hp H. inv_bind H. apply defer_opt_ok in H.
  eapply regions_push_ok; [| exact Hp | exact H].
  destruct (fst p); [|inversion Ha0; subst; exact Ha].
  destruct (_ <? _)%N; [discriminate|]. apply defer_opt_ok in Ha0.
  eapply regions_push_ok; [exact Ha | | exact Ha0]. reflexivity.
Qed.

Lemma name_regions_ok R : forall rs s rs' s',
  FOK region_ok rs -> name_regions R rs s = Ok (rs', s') -> FOK region_ok rs'.
Proof.
  induction rs as [|r rs IH]; intros s rs' s' Hrs H; cbn [name_regions] in H.
  - inversion H; constructor.
  - destruct (size_of R (r_type r)); [|discriminate]. inv_bind H. destruct a as [rest s1].
    inversion H; subst; clear H. cbn [fst]. inversion Hrs as [|? ? Hr Hrest]; subst.
    constructor; [|eapply IH; eauto].
    destruct (r_name r) eqn:En; [exact Hr|]. unfold region_ok. cbn [r_name r_is_base negb orb].
    rewrite andb_true_r. apply plain_ident_ok_ident_ok, field_name_plain.
Qed.

Lemma find_in {A} (f : A -> bool) l x : find f l = Some x -> In x l.
Proof. intros H. apply find_some in H. tauto. Qed.

Lemma resolve_regions_ok st owner v ts pending vfs st' regions vt size :
  NInv st -> name_ok owner = true -> (forall fs, vfs = Some fs -> FOK fn_ok fs) ->
  FOK region_ok (map snd pending) ->
  resolve_regions st owner v ts pending vfs = Ok (st', regions, vt, size) ->
  NInv st' /\ FOK region_ok regions /\ (forall x, vt = Some x -> vt_ok x = true).
Proof.
  unfold resolve_regions. intros HN Hname Hvfs Hp H.
  destruct (first_base_unresolved _ _); [discriminate|].
  inv_bind H. destruct a as [[st1 vt1] vr1].
  assert (forall b, find r_is_base (map snd pending) = Some b -> region_ok b = true) as Hfb.
  { intros b E. apply find_in in E. rewrite Forall_forall in Hp. auto. }
  destruct (vftable_build_ok _ _ _ _ _ _ _ _ HN Hname Hvfs Hfb Ha) as (HN1 & Hvt & Hvr).
  inv_bind H. inv_bind H. inv_bind H. inv_bind H. destruct a2 as [named sz]. cbn [fst snd] in *.
  assert (st' = st1 /\ regions = named /\ vt = vt1) as (-> & -> & ->).
  { destruct ts as [t|]; [destruct (negb (sz =? t)%N); [discriminate|]|]; inversion H; auto. }
  split; [exact HN1|]. split; [|exact Hvt].
  eapply name_regions_ok; [|exact Ha3].
  assert (FOK region_ok (fst a)) as H0.
  { destruct vr1 as [vr|]; [|inversion Ha0; constructor]. apply defer_opt_ok in Ha0.
    eapply regions_push_ok; [|apply Hvr; reflexivity|exact Ha0]. constructor. }
  assert (FOK region_ok (fst a0)) as H1.
  { refine (foldM_inv_in (fun acc => FOK region_ok (fst acc)) _ pending _ _ _ H0 Ha1).
    intros s p s' Hin Hs Hpp. eapply push_pending_ok; [exact Hs | | exact Hpp].
    rewrite Forall_forall in Hp. apply Hp. now apply in_map. }
  destruct ts as [t|]; [|inversion Ha2; subst; exact H1].
  destruct (_ <? _)%N; [|inversion Ha2; subst; exact H1]. apply defer_opt_ok in Ha2.
  eapply regions_push_ok; [exact H1 | | exact Ha2]. reflexivity.
Qed.

(** ** inherited functions *)
Lemma add_functions_ok base_name : plain_ident_ok base_name = true ->
  forall fs acc, FOK fn_ok fs -> FOK fn_ok (fst acc) -> FOK fn_ok (fst (add_functions base_name fs acc)).
Proof.
  intros Hb. unfold add_functions. induction fs as [|f fs IH]; intros acc Hfs Hacc; cbn [fold_left]; [exact Hacc|].
  inversion Hfs as [|? ? Hf Hrest]; subst. apply IH; [exact Hrest|].
  destruct (sf_is_public f); [|exact Hacc]. cbn [fst]. apply Forall_app. split; [exact Hacc|].
  constructor; [|constructor]. unfold fn_ok in *. cbn [sf_name sf_args sf_body body_ok].
  apply andb_prop in Hf as [Hf _]. apply andb_prop in Hf as [Hn Ha]. rewrite Ha.
  rewrite (plain_ident_ok_ident_ok _ Hb), (plain_ident_ok_ident_ok _ Hn). rewrite !andb_true_r.
  destruct (str_mem _ _); [now apply join_plain | exact Hn].
Qed.

Lemma inject_bases_ok st : NInv st -> forall bases i acc acc',
  (forall b, In b bases -> region_ok b = true /\ r_is_base b = true) ->
  FOK fn_ok (fst acc) -> inject_bases (st_reg st) bases i acc = Ok acc' -> FOK fn_ok (fst acc').
Proof.
  intros HN. induction bases as [|b bases IH]; intros i acc acc' Hb Hacc H; cbn [inject_bases] in H.
  - now inversion H; subst.
  - inv_bind H. assert (forall b', In b' bases -> region_ok b' = true /\ r_is_base b' = true) as Hb' by (intros; apply Hb; now right).
    destruct a as [[base_name td]|]; [|eapply IH; eauto].
    destruct (region_name_and_typedef_some _ _ _ _ Ha) as (Hn & p & it & rs & _ & Hg & Hr & Hi).
    pose proof (NInv_td _ _ _ _ _ HN Hg Hr Hi) as Htd.
    destruct (Hb b (or_introl eq_refl)) as [Hrb Hbase]. unfold region_ok in Hrb. rewrite Hn, Hbase in Hrb.
    apply andb_prop in Hrb as [_ Hplain]. cbn [negb orb] in Hplain.
    unfold td_ok in Htd. apply andb_prop in Htd as [Htd Hvt]. apply andb_prop in Htd as [_ Hassoc].
    apply forallb_Forall in Hassoc.
    eapply IH; [exact Hb' | | exact H].
    pose proof (add_functions_ok _ Hplain _ acc Hassoc Hacc) as H1.
    destruct i; [exact H1|]. destruct (td_vftable td) as [vt|]; [|exact H1].
    apply add_functions_ok; [exact Hplain | | exact H1].
    unfold vt_ok in Hvt. apply andb_prop in Hvt as [Hvt _]. now apply forallb_Forall in Hvt.
Qed.

Lemma add_impl_functions_ok R scope fs acc acc' :
  forallb gfn_ok fs = true -> FOK fn_ok (fst acc) ->
  foldM (add_impl_function R scope) fs acc = Ok acc' -> FOK fn_ok (fst acc').
Proof.
  intros Hfs Hacc H. rewrite forallb_forall in Hfs.
  refine (foldM_inv_in (fun a => FOK fn_ok (fst a)) _ fs _ _ _ Hacc H).
  intros s f s' Hin Hs Hf. unfold add_impl_function in Hf. destruct (str_mem _ _); [discriminate|].
  inv_bind Hf. inversion Hf; subst. cbn [fst]. apply Forall_app. split; [exact Hs|].
  constructor; [|constructor]. eapply function_build_ok; [|exact Ha]. auto.
Qed.

(** ** one struct attempt *)
Lemma type_build_names st p v d st' o :
  NInv st -> name_ok p = true -> forallb stmt_ok (gt_stmts d) = true ->
  type_build st p v d = (st', o) ->
  NInv st' /\ forall r, o = Ok r -> inner_ok (rs_inner r) = true.
Proof.
  unfold type_build. intros HN Hname Hd H.
  assert (forall (x : outcome resolved), (st, x) = (st', o) -> (forall r, x <> Ok r) ->
          NInv st' /\ forall r, o = Ok r -> inner_ok (rs_inner r) = true) as Hsame.
  { intros x E Hx. inversion E; subst. split; [exact HN|]. intros r Er. exfalso. eapply Hx; eauto. }
  destruct (path_parent p) as [parent|]; [|eapply Hsame; [exact H | discriminate]].
  destruct (alookup parent (st_modules st)) as [module|] eqn:Emod; [|eapply Hsame; [exact H | discriminate]].
  match type of H with context [match ?pre with Ok _ => _ | Defer => _ | Err _ => _ | Panic _ => _ end] =>
    destruct pre as [[[doc ta] [pending vfs]]| | |] eqn:Epre end;
    try (eapply Hsame; [exact H | discriminate]).
  inv_bind Epre. inv_bind Epre. inv_bind Epre. destruct a1 as [n [pending' vfs']].
  inversion Epre; subst doc ta pending' vfs'. clear Epre.
  destruct (process_statements_ok _ _ _ _ _ _ Hd Ha1) as [Hpend Hvfs].
  assert (forall b, find r_is_base (map snd pending) = Some b -> region_ok b = true) as Hfb.
  { intros b E. apply find_in in E. rewrite Forall_forall in Hpend. auto. }
  destruct (resolve_regions st p v (ta_size a0) pending vfs) as [[[[st1 regions] vt] size]| | |] eqn:Err;
    try (eapply Hsame; [exact H | discriminate]).
  - inversion H; subst st1 o. clear H.
    destruct (resolve_regions_ok _ _ _ _ _ _ _ _ _ _ HN Hname Hvfs Hpend Err) as (HN1 & Hregs & Hvt).
    split; [exact HN1|]. intros r Hr. inv_bind Hr. inv_bind Hr. inv_bind Hr. inv_bind Hr.
    inversion Hr; subst r; clear Hr. cbn [rs_inner inner_ok]. unfold td_ok. cbn [td_regions td_assoc td_vftable].
    apply forallb_Forall in Hregs. rewrite Hregs. cbn [andb]. apply andb_true_intro. split.
    + apply forallb_Forall.
      assert (FOK fn_ok (fst a1)) as H1.
      { eapply (inject_bases_ok _ HN1); [| |exact Ha2]; [|constructor].
        intros b Hb. apply filter_In in Hb as [Hb1 Hb2]. split; [|exact Hb2].
        rewrite forallb_forall in Hregs. auto. }
      destruct (alookup p (m_impls module)) as [blk|] eqn:Eblk; [|inversion Ha3; subst; exact H1].
      eapply add_impl_functions_ok; [|exact H1|exact Ha3].
      destruct HN as (_ & _ & HM). destruct (alookup_in _ _ _ Emod) as (k' & Hin & _).
      specialize (HM _ Hin). cbn [snd] in HM. unfold module_ok in HM. apply andb_prop in HM as [_ HM].
      rewrite forallb_forall in HM. destruct (alookup_in _ _ _ Eblk) as (k2 & Hin2 & _).
      apply (HM _ Hin2).
    + destruct vt as [x|]; [apply Hvt; reflexivity | reflexivity].
  - destruct (first_base_unresolved _ _); [eapply Hsame; [exact H | discriminate]|].
    destruct (vftable_build st p v _ vfs) as [[[st2 vt2] vr2]| | |] eqn:Ev;
      try (eapply Hsame; [exact H | discriminate]).
    inversion H; subst. destruct (vftable_build_ok _ _ _ _ _ _ _ _ HN Hname Hvfs Hfb Ev) as (HN1 & _).
    split; [exact HN1 | discriminate].
Qed.

(** ** one enum attempt *)
Lemma enum_cases_ok : forall stmts last idx fields di out,
  forallb (fun s => ident_ok (ge_name s)) stmts = true -> forallb (fun x => ident_ok (fst x)) fields = true ->
  enum_cases stmts last idx fields di = Ok out -> forallb (fun x => ident_ok (fst x)) (fst out) = true.
Proof.
  induction stmts as [|s stmts IH]; intros last idx fields di out Hs Hf H; cbn [enum_cases] in H.
  - now inversion H; subst.
  - cbn [forallb] in Hs. apply andb_prop in Hs as [Hs1 Hs2]. inv_bind H. inv_bind H.
    eapply IH; [exact Hs2 | | exact H]. rewrite forallb_app, Hf. cbn. now rewrite Hs1.
Qed.

Lemma enum_build_names st p d r :
  forallb (fun s => ident_ok (ge_name s)) (ged_stmts d) = true ->
  enum_build st p d = Ok r -> inner_ok (rs_inner r) = true.
Proof.
  unfold enum_build. intros Hd H. destruct (path_parent p); [|discriminate].
  destruct (alookup _ _); [|discriminate]. cbn zeta in H.
  destruct (resolve_gtype _ _ _) as [ty|]; [|discriminate]. destruct (size_of _ ty); [|discriminate].
  inv_bind H. inv_bind H. inv_bind H.
  pose proof (enum_cases_ok _ _ _ [] _ _ Hd eq_refl Ha) as Hc.
  destruct (ea_defaultable a1), (snd a); try discriminate; destruct (align_of _ ty); try discriminate;
    inversion H; subst; exact Hc.
Qed.

(** ** the step of the loop *)
Lemma NInv_step st p it gd st' o :
  NInv st -> reg_get (st_reg st) p = Some it -> it_state it = Unresolved gd -> attempt st p gd = (st', o) ->
  match o with Ok r => NInv (set_resolved st' p r) | Defer => NInv st' | _ => True end.
Proof.
  intros HN Hg Hs H.
  pose proof HN as (HK & HR & _). pose proof (HR _ _ Hg) as Hit. pose proof (HK _ _ Hg) as Hpath.
  unfold item_ok in Hit. rewrite Hs, Hpath in Hit. apply andb_prop in Hit as [Hname Hdef].
  assert (NInv st' /\ reg_get (st_reg st') p = Some it /\ forall r, o = Ok r -> inner_ok (rs_inner r) = true) as (HN' & Hg' & Hin).
  { unfold attempt in H. unfold def_ok in Hdef. destruct (gi_inner gd) as [td|ed] eqn:Ety.
    - destruct (type_build_names _ _ _ _ _ _ HN Hname Hdef H) as [A B]. split; [exact A|]. split; [|exact B].
      destruct (type_build_step _ _ _ _ _ _ H) as [->|v fs vit _ Hvi Hadd]; [exact Hg|].
      rewrite (add_item_reg _ _ _ Hadd). rewrite reg_get_add_other; [exact Hg|].
      destruct (vftable_item_facts _ _ _ _ _ Hvi) as (Hvp & _). intros E. rewrite E in Hvp.
      apply vftable_path_some in Hvp as [Hne Hvp].
      rewrite (app_removelast_last "" Hne) in Hvp at 1. apply app_inj_tail in Hvp as [_ Hvp].
      apply (f_equal String.length) in Hvp. rewrite string_length_app in Hvp. cbn in Hvp. lia.
    - inversion H; subst. split; [exact HN|]. split; [exact Hg|]. intros r E. eapply enum_build_names; eauto. }
  destruct o as [r| | |]; auto.
  specialize (Hin _ eq_refl). destruct HN' as (HK' & HR' & HM').
  unfold set_resolved. rewrite Hg'. split; [|split]; cbn [st_reg st_modules].
  - now apply keyed_add.
  - intros q itq Hq.
    set (it' := {| it_vis := it_vis it; it_path := it_path it; it_state := Resolved r; it_cat := it_cat it |}) in *.
    destruct (path_eqb_spec (it_path it') q) as [<-|Hne].
    + rewrite reg_get_add_same in Hq. inversion Hq; subst itq. unfold item_ok. cbn [it' it_state it_cat it_path].
      rewrite Hin, Hpath, Hname. now destruct (it_cat it).
    + rewrite reg_get_add_other in Hq by exact Hne. eauto.
  - exact HM'.
Qed.



Lemma resolve_loop_NInv order fuel st st' : NInv st -> resolve_loop order fuel st = BOk st' -> NInv st'.
Proof. apply resolve_loop_lift. exact NInv_step. Qed.

(** ** (c) [finish_build] resolves the type of every extern value *)
Definition ev_final (ev : sextern) : Prop :=
  ev_type ev <> None /\ ident_ok ("get_" +++ ev_name ev) = true.
Definition mod_final (m : smodule) : Prop := Forall ev_final (m_extern_values m).

Lemma resolve_extern_values_typed R m m' :
  resolve_extern_values R m = Ok m' -> Forall (fun ev => ev_type ev <> None) (m_extern_values m').
Proof.
  unfold resolve_extern_values. intros H. inv_bind H. inversion H; subst m'; clear H. cbn [m_extern_values].
  eapply mapM_forall; [|exact Ha]. intros ev ev' _ Hev. cbn beta in Hev.
  destruct (resolve_gtype _ _ _); [|discriminate]. inversion Hev; subst. cbn. discriminate.
Qed.

Lemma resolve_extern_values_final R m m' :
  module_ok m = true -> resolve_extern_values R m = Ok m' -> mod_final m'.
Proof.
  unfold resolve_extern_values, module_ok, mod_final. intros Hm H. apply andb_prop in Hm as [Hm _].
  rewrite forallb_forall in Hm.
  inv_bind H. inversion H; subst m'; clear H. cbn [m_extern_values].
  eapply mapM_forall; [|exact Ha]. intros ev ev' Hin Hev. cbn beta in Hev.
  destruct (resolve_gtype _ _ _); [|discriminate]. inversion Hev; subst. split; [cbn; discriminate | cbn [ev_name]; apply Hm; exact Hin].
Qed.

Lemma finish_build_final s t :
  (forall km, In km (st_modules s) -> module_ok (snd km) = true) -> finish_build s = BOk t ->
  st_reg t = st_reg s /\ Forall (fun km => mod_final (snd km)) (st_modules t).
Proof.
  intros HM H. split; [eapply finish_build_reg; eauto|]. apply finish_build_mods in H.
  eapply mapM_forall; [|exact H]. intros km km' Hin Hkm. cbn beta in Hkm. inv_bind Hkm. inversion Hkm; subst.
  cbn [snd]. eapply resolve_extern_values_final; eauto.
Qed.

(** every [ev_type] of an accepted build is [Some], with no hypothesis at all *)
Theorem finish_build_extern_types s t km ev :
  finish_build s = BOk t -> In km (st_modules t) -> In ev (m_extern_values (snd km)) -> ev_type ev <> None.
Proof.
  intros H Hkm Hev. apply finish_build_mods in H.
  assert (Forall (fun km => Forall (fun ev => ev_type ev <> None) (m_extern_values (snd km))) (st_modules t)) as HF.
  { eapply mapM_forall; [|exact H]. intros k k' _ Hk. cbn beta in Hk. inv_bind Hk. inversion Hk; subst.
    cbn [snd]. eapply resolve_extern_values_typed; eauto. }
  rewrite Forall_forall in HF. specialize (HF _ Hkm). rewrite Forall_forall in HF. auto.
Qed.

(** ** the hypothesis on the names, over the input state: only what the input declares *)
Definition src_item_ok (it : item) : bool :=
  match it_state it with
  | Unresolved d => name_ok (it_path it) && def_ok d
  | Resolved _ => true
  end.
Definition names_fine (st : sstate) : bool :=
  forallb (fun kv => src_item_ok (snd kv)) (reg_types (st_reg st)) &&
  forallb (fun km => module_ok (snd km)) (st_modules st).

(** the resolved items of an input state are predefined or extern types: no field, no function *)
Definition bare (rs : resolved) : Prop :=
  exists td, rs_inner rs = IType td /\ td_regions td = [] /\ td_assoc td = [] /\ td_vftable td = None.
Definition trivial_resolved (R : registry) : Prop :=
  forall p it rs, reg_get R p = Some it -> item_resolved it = Some rs -> it_cat it <> Defined /\ bare rs.

Lemma add_item_trivial st it st' :
  trivial_resolved (st_reg st) -> (forall rs, item_resolved it = Some rs -> it_cat it <> Defined /\ bare rs) ->
  add_item st it = Ok st' -> trivial_resolved (st_reg st').
Proof.
  intros HT Hit H. rewrite (add_item_reg _ _ _ H). intros p it' rs Hg Hr.
  destruct (path_eqb_spec (it_path it) p) as [<-|Hne].
  - rewrite reg_get_add_same in Hg. inversion Hg; subst. auto.
  - rewrite reg_get_add_other in Hg by exact Hne. eauto.
Qed.

Lemma sem_new_trivial ptr st : sem_new ptr = Ok st -> trivial_resolved (st_reg st).
Proof.
  unfold sem_new. apply (foldM_preserves (fun s => trivial_resolved (st_reg s))).
  - intros s ns s' Hs H. eapply add_item_trivial; [exact Hs | | exact H].
    intros rs E. cbn in E. inversion E; subst. split; [cbn; discriminate|]. eexists. cbn. eauto.
  - intros p it rs H. discriminate.
Qed.

Lemma add_module_trivial st mp ast st' :
  trivial_resolved (st_reg st) -> add_module st mp ast = Ok st' -> trivial_resolved (st_reg st').
Proof.
  unfold add_module. intros HT H. inv_bind H. inv_bind H. inv_bind H.
  eapply (foldM_preserves (fun s => trivial_resolved (st_reg s))); [| |exact H].
  - intros s e s' Hs He. unfold add_extern_type in He. inv_bind He.
    destruct a2 as [[size|] [al|]]; try discriminate.
    destruct (reg_has _ _); [discriminate|]. eapply add_item_trivial; [exact Hs | | exact He].
    intros rs E. cbn in E. inversion E; subst. split; [cbn; discriminate|]. eexists. cbn. eauto.
  - eapply (foldM_preserves (fun s => trivial_resolved (st_reg s))); [| |exact Ha1].
    + intros s d s' Hs Hd. unfold add_definition in Hd. destruct (reg_has _ _); [discriminate|].
      eapply add_item_trivial; [exact Hs | | exact Hd]. intros rs E. discriminate.
    + exact HT.
Qed.

Lemma input_state_trivial ptr mods st0 : input_state ptr mods = Ok st0 -> trivial_resolved (st_reg st0).
Proof.
  unfold input_state. intros H. inv_bind H.
  eapply (foldM_preserves (fun s => trivial_resolved (st_reg s))); [| |exact H].
  - intros s pm s2 Hs Hpm. cbn beta in Hpm. eapply add_module_trivial; eauto.
  - eapply sem_new_trivial; eauto.
Qed.

Lemma NInv_init ptr mods st0 : input_state ptr mods = Ok st0 -> names_fine st0 = true -> NInv st0.
Proof.
  intros Hin Hn. unfold names_fine in Hn. apply andb_prop in Hn as [Hr Hm].
  rewrite forallb_forall in Hr, Hm.
  split; [eapply input_state_keyed; eauto|]. split; [|exact Hm].
  intros p it Hg. unfold reg_get in Hg. destruct (alookup_in _ _ _ Hg) as (k' & Hin' & ->).
  specialize (Hr _ Hin'). cbn [snd] in Hr. unfold src_item_ok, item_ok in *.
  destruct (it_state it) as [d|rs] eqn:Es; [exact Hr|].
  destruct (input_state_trivial _ _ _ Hin p it rs Hg) as (Hc & td & Hi & H1 & H2 & H3).
  { unfold item_resolved. now rewrite Es. }
  rewrite Hi. cbn [inner_ok]. unfold td_ok. rewrite H1, H2, H3. cbn. destruct (it_cat it); [congruence | reflexivity | reflexivity].
Qed.

(** the names invariant at the end of an accepted build *)
Theorem names_final order ptr mods st0 st :
  input_state ptr mods = Ok st0 -> names_fine st0 = true -> pyxis_resolve order ptr mods = BOk st ->
  keyed (st_reg st) /\ (forall p it, reg_get (st_reg st) p = Some it -> item_ok it = true) /\
  Forall (fun km => mod_final (snd km)) (st_modules st).
Proof.
  intros Hin Hn H. destruct (pyxis_resolve_input _ _ _ _ H) as (st0' & Hin' & Hb).
  rewrite Hin in Hin'. inversion Hin'; subst st0'. unfold sem_build in Hb.
  destruct (resolve_loop order _ st0) as [s| | | |] eqn:El; try discriminate.
  pose proof (resolve_loop_NInv _ _ _ _ (NInv_init _ _ _ Hin Hn) El) as (HK & HR & HM).
  destruct (finish_build_final _ _ HM Hb) as [Hreg Hfin]. rewrite Hreg. auto.
Qed.
