(** * RewriteAtt (C20, local rewrites, part 3): from one attempt to the abstract attempt functions.

    The two input states of [rewritten_gen]-related inputs differ in the descriptions carried by
    unresolved items and in [m_ast].  One attempt reads neither: it reads the registry through the
    resolved items only (monotonicity, both ways) and a module through its scope and impl blocks
    ([attempt_w]).  Hence the abstract attempt function of the second input, at any abstract state,
    is the attempt of the second input's description in the FIRST input's (marked) state; and the
    hypothesis of [rewrite_same_output] reduces to a statement about two descriptions attempted in
    one and the same state: [attempt_equiv_same_output]. *)
From Coq Require Import List NArith ZArith Bool Lia String Permutation.
From PyxisModel Require Import Base Sexp Grammar SemTypes Registry Sem Emit SemLemmas ScopeLemmas
     PlacementLemmas TotalityLemmas EmitLemmas WholeBuild Monotone OrderIndep SortUnique
     EmitInvariance FinalState OutputIndep Frame Unrelated ReorderReg ReorderAtt ConfluencePerm Reorder
     RewriteConf RewriteReg RewriteWhole.
From PyxisModel Require Confluence.
Import ListNotations.
Local Open Scope string_scope.
Local Open Scope list_scope.

Section Att.
  Variable D : path -> gitemdef -> gitemdef -> Prop.
  Hypothesis HD : good_rel D.
  Variables (ptr : N) (mods mods' : list (path * gmodule)) (st0 st0' : sstate).
  Let R0 := st_reg st0.
  Let R0' := st_reg st0'.
  Hypothesis Hin : input_state ptr mods = Ok st0.
  Hypothesis Hin' : input_state ptr mods' = Ok st0'.
  Hypothesis HX : xrel D st0 st0'.
  Hypothesis Hcf : collision_free R0.
  Hypothesis Hclean : clean_stateb st0 = true.

  Lemma x_usub A : usub R0 (mark R0 A) (mark R0' A).
  Proof.
    split; [exact (x_ptr D st0 st0' HX)|]. intros p it _ Hg Hr. rewrite reg_get_mark in *.
    destruct (reg_get R0 p) as [it0|] eqn:Eg; [|discriminate]. cbn [option_map] in Hg. inversion Hg; subst it; clear Hg.
    unfold mark_item in *. cbn [fst snd] in *.
    destruct (it_state it0) as [gd|r] eqn:Es.
    - destruct (x_unres D ptr mods st0 st0' Hin HX _ _ _ Eg Es) as (it' & gd' & Eg' & Es' & _ & Hv & Hp & Hc).
      fold R0' in Eg'. rewrite Eg'. cbn [option_map fst snd]. rewrite Es'.
      destruct (A p) as [r|]; cbn [snd] in *.
      + now rewrite Hv, Hp, Hc.
      + unfold item_is_resolved in Hr. rewrite Es in Hr. discriminate.
    - pose proof (x_resolved D st0 st0' HX _ _ _ Eg Es) as Eg'. fold R0' in Eg'. rewrite Eg'. cbn [option_map fst snd].
      now rewrite Es.
  Qed.

  Lemma x_usub' A : usub R0 (mark R0' A) (mark R0 A).
  Proof.
    split; [symmetry; exact (x_ptr D st0 st0' HX)|]. intros p it _ Hg Hr. rewrite reg_get_mark in *.
    destruct (reg_get R0' p) as [it0'|] eqn:Eg'; [|discriminate]. cbn [option_map] in Hg. inversion Hg; subst it; clear Hg.
    unfold mark_item in *. cbn [fst snd] in *.
    destruct (it_state it0') as [gd'|r] eqn:Es'.
    - destruct (x_unres' D ptr mods st0 st0' Hin HX _ _ _ Eg' Es') as (it0 & gd & Eg & Es & _ & Hv & Hp & Hc).
      fold R0 in Eg. rewrite Eg. cbn [option_map fst snd]. rewrite Es.
      destruct (A p) as [r|]; cbn [snd] in *.
      + now rewrite Hv, Hp, Hc.
      + unfold item_is_resolved in Hr. rewrite Es' in Hr. discriminate.
    - pose proof (x_get D st0 st0' HX p) as H. fold R0' in H. rewrite Eg' in H.
      destruct (reg_get (st_reg st0) p) as [it0|] eqn:Eg; [|contradiction]. fold R0. fold R0 in Eg. rewrite Eg.
      destruct H as (Hv & Hp & Hc & Hst). rewrite Es' in Hst. unfold state_rel in Hst.
      destruct (it_state it0) as [gd|r0] eqn:Es; [contradiction|]. subst r0. cbn [option_map fst snd]. rewrite Es.
      f_equal. destruct it0, it0'. cbn in *. congruence.
  Qed.

  Lemma x_present' A : present R0 (mark R0' A).
  Proof.
    intros p Hp. apply (x_user D st0 st0' HX) in Hp. rewrite reg_get_mark. unfold user in Hp. fold R0' in Hp.
    destruct (reg_get R0' p); [discriminate | congruence].
  Qed.

  Lemma x_chas' A : chas R0 (mark R0' A).
  Proof. intros c _. rewrite reg_has_mark. apply (x_has D st0 st0' HX). Qed.

  (** the attempt of a description of the second input: in the second input's marked state or in
      the first's, the same outcome *)
  Lemma att_state_change A k it' gd' : reg_get R0' k = Some it' -> it_state it' = Unresolved gd' ->
    snd (attempt (conc st0' A) k gd') = snd (attempt (conc st0 A) k gd').
  Proof.
    intros Hg' Hs'.
    destruct (clean_stateb_sound _ Hclean) as [Hm Hd].
    destruct (clean_stateb_sound _ (x_clean' D HD ptr mods mods' st0 st0' Hin Hin' HX Hclean)) as [Hm' Hd'].
    pose proof (reg_u8_user _ (input_state_u8 _ _ _ Hin)) as Hu8.
    set (X := {| st_modules := st_modules st0; st_reg := mark R0' A |}).
    assert (snd (attempt (conc st0' A) k gd') = snd (attempt X k gd')) as ->.
    { apply attempt_w; cbn [conc X st_reg st_modules]; fold R0'.
      - apply ragree_PT; [reflexivity | intros p; reflexivity].
      - intros parent _. unfold wagree.
        pose proof (arel_lookup mrelx _ _ parent (x_mods D st0 st0' HX)) as Hl.
        destruct (alookup parent (st_modules st0)) as [m|], (alookup parent (st_modules st0')) as [m'|]; try contradiction; auto.
        split; [symmetry; now apply mrelx_scope | symmetry; apply Hl].
      - intros parent m vp _ Hml Hvp Hin0.
        pose proof (clean_mods_lookup st0' Hm' _ _ Hml) as Hc. unfold clean_module in Hc.
        apply andb_prop in Hc as [Hc _]. apply andb_prop in Hc as [Hc _]. rewrite forallb_forall in Hc.
        specialize (Hc _ Hin0). rewrite (gen_path_not_clean _ _ Hvp) in Hc. discriminate. }
    assert (user R0 k) as Huk by (apply (x_user D st0 st0' HX); unfold user; fold R0'; congruence).
    assert (clean_def gd' = true) as Hcd by (eapply Hd'; eauto).
    assert (forall parent m, path_parent k = Some parent -> alookup parent (st_modules st0) = Some m -> clean_module m = true) as Hcm
        by (intros parent m _ Hml; exact (clean_mods_lookup st0 Hm _ _ Hml)).
    pose proof (attempt_mono R0 Hcf Hu8 X (conc st0 A) k gd' (snd (attempt X k gd'))
                  (x_usub' A) (mods_agree_refl _) (x_present' A) (x_chas' A) (chas_mark st0 A) Huk Hcm Hcd eq_refl) as M1.
    pose proof (attempt_mono R0 Hcf Hu8 (conc st0 A) X k gd' (snd (attempt (conc st0 A) k gd'))
                  (x_usub A) (mods_agree_refl _) (present_mark st0 A) (chas_mark st0 A) (x_chas' A) Huk Hcm Hcd eq_refl) as M2.
    destruct (snd (attempt X k gd')) as [r| |m|m] eqn:E1.
    - symmetry. apply M1. discriminate.
    - destruct (snd (attempt (conc st0 A) k gd')) as [r| |m|m] eqn:E2; try reflexivity;
        (assert (Defer = snd (attempt (conc st0 A) k gd')) as E3 by (rewrite E2; apply M2; discriminate));
        rewrite E2 in E3; discriminate.
    - symmetry. apply M1. discriminate.
    - symmetry. apply M1. discriminate.
  Qed.

  (** the hypothesis on one attempt: at an abstract state below the ideal of the first input,
      the two descriptions of an unresolved item fall in the same outcome class when attempted
      in the first input's marked state *)
  Definition local_equiv : Prop :=
    forall T, Confluence.ideal path resolved path_eqb (att st0) (items st0) (fun _ => None) T ->
    forall A k it gd gd', Confluence.le path resolved A T -> In k (items st0) -> A k = None ->
      reg_get R0 k = Some it -> it_state it = Unresolved gd -> D k gd gd' ->
      classify (snd (attempt (conc st0 A) k gd)) = classify (snd (attempt (conc st0 A) k gd')).

  Lemma att_of_local : local_equiv ->
    forall T, Confluence.ideal path resolved path_eqb (att st0) (items st0) (fun _ => None) T ->
    forall A k, Confluence.le path resolved A T -> In k (items st0) -> A k = None -> att st0 A k = att st0' A k.
  Proof.
    intros HL T HT A k HA Hk Hn.
    destruct (items_spec st0 (x_nodup ptr mods st0 Hin) k Hk) as (it & gd & Hg & Hs & _).
    destruct (x_unres D ptr mods st0 st0' Hin HX _ _ _ Hg Hs) as (it' & gd' & Hg' & Hs' & Hd & _).
    unfold att. rewrite Hg, Hs, Hg', Hs'.
    rewrite (att_state_change A k it' gd' Hg' Hs'). eapply HL; eauto.
  Qed.
End Att.

(** ** the common lemma: attempt-equivalent inputs give the same verdict class and the same files *)
Theorem attempt_equiv_same_output D ptr mods mods' st0 o1 o2 :
  good_rel D -> rewritten_gen D mods mods' ->
  input_state ptr mods = Ok st0 -> collision_free (st_reg st0) -> clean_stateb st0 = true ->
  local_equiv D st0 ->
  (forall l, Permutation (o1 l) l) -> (forall l, Permutation (o2 l) l) ->
  match pyxis_resolve o1 ptr mods, pyxis_resolve o2 ptr mods' with
  | BOk s1, BOk s2 => write_all s1 = write_all s2
  | BOk _, _ | _, BOk _ => False
  | _, _ => True
  end.
Proof.
  intros HD HR Hin Hcf Hcl HL P1 P2.
  destruct (input_state_rewritten D (gr_refl D HD) ptr mods mods' st0 HR Hin) as (st0' & Hin' & HX).
  eapply (rewrite_same_output D HD ptr mods mods' st0 st0' Hin Hin' HX Hcf Hcl); auto.
  eapply att_of_local; eauto.
Qed.

(** the finer statement: same verdict class (accepted / no progress with the same stuck items /
    error or panic); on acceptance the same final registry as a map *)
Theorem attempt_equiv_same_build D ptr mods mods' st0 o1 o2 :
  good_rel D -> rewritten_gen D mods mods' ->
  input_state ptr mods = Ok st0 -> collision_free (st_reg st0) -> clean_stateb st0 = true ->
  local_equiv D st0 ->
  (forall l, Permutation (o1 l) l) -> (forall l, Permutation (o2 l) l) ->
  same_build2 (pyxis_resolve o1 ptr mods) (pyxis_resolve o2 ptr mods').
Proof.
  intros HD HR Hin Hcf Hcl HL P1 P2.
  destruct (input_state_rewritten D (gr_refl D HD) ptr mods mods' st0 HR Hin) as (st0' & Hin' & HX).
  eapply (rewrite_same_build D HD ptr mods mods' st0 st0' Hin Hin' HX Hcf Hcl); auto.
  eapply att_of_local; eauto.
Qed.

Theorem attempt_equiv_registration D ptr mods mods' :
  good_rel D -> rewritten_gen D mods mods' -> is_ok (input_state ptr mods) = is_ok (input_state ptr mods').
Proof. intros HD HR. apply (input_state_rewritten_ok D); [apply (gr_refl D HD) | exact HR]. Qed.
