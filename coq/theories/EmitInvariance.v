(** * EmitInvariance: what the back end reads of a state.

    [write_all] depends on the registry only through [reg_get] (as a map) and the number of
    entries (recursion fuel), and on the module table only through the keys (in order), and, per
    module, the doc, the backend blocks, the extern values and the *set* of item paths: the item
    paths are looked up and sorted by path, so their order in [m_defpaths] is immaterial. *)
From Coq Require Import List String NArith Bool Lia Permutation Sorted.
From PyxisModel Require Import Base Sexp Grammar SemTypes Registry Sem Emit SemLemmas EmitLemmas
     WholeBuild Monotone SortUnique.
Import ListNotations.
Local Open Scope list_scope.

Definition reg_same (R1 R2 : registry) : Prop := forall p, reg_get R1 p = reg_get R2 p.

Lemma reg_same_sym R1 R2 : reg_same R1 R2 -> reg_same R2 R1.
Proof. intros H p. symmetry. apply H. Qed.

Lemma region_name_and_typedef_same R1 R2 r : reg_same R1 R2 ->
  region_name_and_typedef R1 r = region_name_and_typedef R2 r.
Proof.
  intros H. unfold region_name_and_typedef. destruct (r_name r); [|reflexivity].
  destruct (r_type r); try reflexivity. now rewrite H.
Qed.

Lemma dfs_hierarchy_same R1 R2 : reg_same R1 R2 -> forall fuel td fields,
  dfs_hierarchy fuel R1 td fields = dfs_hierarchy fuel R2 td fields.
Proof.
  intros H. induction fuel as [|fuel IH]; intros td fields; cbn [dfs_hierarchy]; [reflexivity|].
  apply foldM_ext_in. intros r out _. destruct (negb (r_is_base r)); [reflexivity|].
  rewrite (region_name_and_typedef_same _ _ r H).
  destruct (region_name_and_typedef R2 r) as [[[name btd]|]| | |]; cbn [bind]; try reflexivity.
  now rewrite IH.
Qed.

Lemma conversions_same R1 R2 fuel name td : reg_same R1 R2 ->
  conversions R1 fuel name td = conversions R2 fuel name td.
Proof. intros H. unfold conversions. now rewrite (dfs_hierarchy_same _ _ H). Qed.

Lemma build_type_same R1 R2 fuel p size al v td : reg_same R1 R2 ->
  build_type R1 fuel p size al v td = build_type R2 fuel p size al v td.
Proof. intros H. unfold build_type. destruct (path_last p); [|reflexivity]. now rewrite (conversions_same _ _ _ _ _ H). Qed.

Lemma build_item_same R1 R2 fuel it : reg_same R1 R2 -> build_item R1 fuel it = build_item R2 fuel it.
Proof.
  intros H. unfold build_item. destruct (item_resolved it); [|reflexivity]. destruct (it_cat it); try reflexivity.
  destruct (rs_inner r); [|reflexivity]. now apply build_type_same.
Qed.

(** ** the items of a module, sorted *)
Lemma somes_perm {A} (l1 l2 : list (option A)) : Permutation l1 l2 -> Permutation (somes l1) (somes l2).
Proof.
  induction 1 as [|[a|] l1 l2 _ IH|[a|] [b|] l|l1 l2 l3 _ IH1 _ IH2]; cbn [somes]; auto.
  - apply perm_swap.
  - eapply Permutation_trans; eauto.
Qed.

Lemma in_somes {A} (a : A) : forall l, In a (somes l) <-> In (Some a) l.
Proof.
  induction l as [|[b|] l IH]; cbn [somes In]; [tauto| |].
  - rewrite IH. split; (intros [E|Hin]; [left; congruence | now right]).
  - rewrite IH. split; [now right | intros [E|Hin]; [discriminate | exact Hin]].
Qed.

Lemma module_definitions_same R1 R2 m1 m2 :
  reg_same R1 R2 -> keyed R1 -> Permutation (m_defpaths m1) (m_defpaths m2) ->
  module_definitions R1 m1 = module_definitions R2 m2.
Proof.
  intros H HK HP. unfold module_definitions.
  assert (map (reg_get R2) (m_defpaths m2) = map (reg_get R1) (m_defpaths m2)) as ->
      by (apply map_ext; intros p; symmetry; apply H).
  apply sort_perm_unique.
  - intros a b. apply path_leb_total.
  - intros a b c. apply path_leb_trans.
  - intros a b Ha Hb Hab Hba. pose proof (path_leb_antisym _ _ Hab Hba) as E.
    apply in_somes in Ha. apply in_somes in Hb. apply in_map_iff in Ha as (p & Hp & _).
    apply in_map_iff in Hb as (q & Hq & _).
    pose proof (HK _ _ Hp) as Kp. pose proof (HK _ _ Hq) as Kq.
    assert (p = q) as -> by congruence. congruence.
  - apply somes_perm. now apply Permutation_map.
Qed.

(** ** one file *)
Definition mod_out_rel (m1 m2 : smodule) : Prop :=
  m_doc m1 = m_doc m2 /\ m_backends m1 = m_backends m2 /\ m_extern_values m1 = m_extern_values m2 /\
  Permutation (m_defpaths m1) (m_defpaths m2).

Lemma module_file_same s1 s2 m1 m2 :
  reg_same (st_reg s1) (st_reg s2) -> keyed (st_reg s1) ->
  List.length (reg_types (st_reg s1)) = List.length (reg_types (st_reg s2)) ->
  mod_out_rel m1 m2 -> module_file s1 m1 = module_file s2 m2.
Proof.
  intros H HK HL (Hd & Hb & He & HP). unfold module_file.
  rewrite (module_definitions_same _ _ _ _ H HK HP), HL, He, Hd.
  assert (prologue_text m1 = prologue_text m2) as -> by (unfold prologue_text, rust_blocks; now rewrite Hb).
  assert (epilogue_text m1 = epilogue_text m2) as -> by (unfold epilogue_text, rust_blocks; now rewrite Hb).
  assert (mapM (build_item (st_reg s1) (S (List.length (reg_types (st_reg s2))))) (module_definitions (st_reg s2) m2)
          = mapM (build_item (st_reg s2) (S (List.length (reg_types (st_reg s2))))) (module_definitions (st_reg s2) m2)) as ->
      by (apply mapM_ext_in; intros it _; now apply build_item_same).
  reflexivity.
Qed.

(** ** all files *)
Definition mods_out_rel (ms1 ms2 : list (path * smodule)) : Prop :=
  Forall2 (fun km1 km2 => fst km1 = fst km2 /\ mod_out_rel (snd km1) (snd km2)) ms1 ms2.

Lemma mapM_Forall2 {A B} (f1 f2 : A -> outcome B) (P : A -> A -> Prop) :
  (forall a1 a2, P a1 a2 -> f1 a1 = f2 a2) ->
  forall l1 l2, Forall2 P l1 l2 -> mapM f1 l1 = mapM f2 l2.
Proof.
  intros Hf. induction 1 as [|a1 a2 l1 l2 Ha _ IH]; cbn [mapM]; [reflexivity|].
  now rewrite (Hf _ _ Ha), IH.
Qed.

Theorem write_all_same s1 s2 :
  reg_same (st_reg s1) (st_reg s2) -> keyed (st_reg s1) ->
  List.length (reg_types (st_reg s1)) = List.length (reg_types (st_reg s2)) ->
  mods_out_rel (st_modules s1) (st_modules s2) ->
  write_all s1 = write_all s2.
Proof.
  intros H HK HL HM. unfold write_all.
  match goal with |- bind (mapM ?f1 _) _ = bind (mapM ?f2 _) _ =>
    assert (mapM f1 (st_modules s1) = mapM f2 (st_modules s2)) as ->; [|reflexivity] end.
  eapply mapM_Forall2; [|exact HM].
  intros [k1 m1] [k2 m2] [Hk Hm]. cbn [fst snd] in *. subst k2. destruct k1; [reflexivity|].
  now rewrite (module_file_same s1 s2 _ _ H HK HL Hm).
Qed.
