(** * Confluence: abstract chaotic-iteration theory for a worklist resolution loop (C09, C10).
    Independent of pyxis: keys K, values V, an attempt function with outcomes Done / Defer / Fail,
    monotonicity hypotheses M1, M2; the loop is the shape of SemanticState::build. *)
From Coq Require Import List Arith Lia Bool Permutation.
Import ListNotations.

Section Conf.
  Variable K V : Type.
  Variable eqb : K -> K -> bool.
  Hypothesis eqb_spec : forall a b, reflect (a = b) (eqb a b).

  Inductive res := Done (v : V) | Defer | Fail.

  Definition st := K -> option V.
  Definition upd (R : st) (k : K) (v : V) : st := fun k' => if eqb k' k then Some v else R k'.
  Definition rem (R : st) (k : K) : st := fun k' => if eqb k' k then None else R k'.
  Definition le (R R' : st) := forall k v, R k = Some v -> R' k = Some v.

  Variable att : st -> K -> res.
  Hypothesis M1 : forall R R' k v, le R R' -> R k = None -> R' k = None -> att R k = Done v -> att R' k = Done v.
  Hypothesis M2 : forall R R' k, le R R' -> R k = None -> R' k = None -> att R k = Fail -> att R' k = Fail.

  Variable items : list K.

  Definition isnone (R : st) (k : K) : bool := match R k with None => true | Some _ => false end.
  Definition unres (R : st) : list K := filter (isnone R) items.

  Fixpoint pass (strict : bool) (R : st) (ks : list K) : option st :=
    match ks with
    | [] => Some R
    | k :: ks' =>
      match R k with
      | Some _ => pass strict R ks'
      | None =>
        match att R k with
        | Done v => pass strict (upd R k v) ks'
        | Defer => pass strict R ks'
        | Fail => if strict then None else pass strict R ks'
        end
      end
    end.

  Inductive outcome := OOk (R : st) | ONoProgress (R : st) | OFail | OFuel.

  Section Loop.
  Variable order : list K -> list K.
  Hypothesis order_perm : forall l, Permutation (order l) l.

  Fixpoint loop (strict : bool) (fuel : nat) (R : st) : outcome :=
    match fuel with
    | 0 => OFuel
    | S f =>
      match unres R with
      | [] => OOk R
      | _ :: _ =>
        match pass strict R (order (unres R)) with
        | None => OFail
        | Some R' => if Nat.eqb (length (unres R')) (length (unres R)) then ONoProgress R' else loop strict f R'
        end
      end
    end.
  End Loop.

  (* ---------- basic facts ---------- *)
  Lemma le_refl R : le R R. Proof. intros k v H; exact H. Qed.
  Lemma le_trans R1 R2 R3 : le R1 R2 -> le R2 R3 -> le R1 R3.
  Proof. intros H1 H2 k v H. apply H2, H1, H. Qed.
  Lemma upd_same R k v : upd R k v k = Some v.
  Proof. unfold upd. destruct (eqb_spec k k); congruence. Qed.
  Lemma upd_other R k v k' : k' <> k -> upd R k v k' = R k'.
  Proof. unfold upd. intros. destruct (eqb_spec k' k); congruence. Qed.
  Lemma rem_same R k : rem R k k = None.
  Proof. unfold rem. destruct (eqb_spec k k); congruence. Qed.
  Lemma le_upd R k v : R k = None -> le R (upd R k v).
  Proof. intros Hn k' v' H. destruct (eqb_spec k' k) as [->|Hne]; [congruence|]. rewrite upd_other; auto. Qed.
  Lemma le_rem R T k : le R T -> R k = None -> le R (rem T k).
  Proof. intros H Hk a b Hab. unfold rem. destruct (eqb_spec a k) as [->|]; [congruence|]. apply H, Hab. Qed.
  Lemma le_none R R' k : le R R' -> R' k = None -> R k = None.
  Proof. intros H Hn. destruct (R k) eqn:E; [apply H in E; congruence | reflexivity]. Qed.

  (* a Done and a Fail / two Dones at states with a common upper bound agree *)
  Lemma done_done R1 R2 T k v1 v2 : le R1 T -> le R2 T -> R1 k = None -> R2 k = None ->
    att R1 k = Done v1 -> att R2 k = Done v2 -> v1 = v2.
  Proof.
    intros H1 H2 K1 K2 A1 A2.
    pose proof (M1 _ _ _ _ (le_rem _ _ _ H1 K1) K1 (rem_same T k) A1).
    pose proof (M1 _ _ _ _ (le_rem _ _ _ H2 K2) K2 (rem_same T k) A2). congruence.
  Qed.
  Lemma done_fail R1 R2 T k v1 : le R1 T -> le R2 T -> R1 k = None -> R2 k = None ->
    att R1 k = Done v1 -> att R2 k = Fail -> False.
  Proof.
    intros H1 H2 K1 K2 A1 A2.
    pose proof (M1 _ _ _ _ (le_rem _ _ _ H1 K1) K1 (rem_same T k) A1).
    pose proof (M2 _ _ _ (le_rem _ _ _ H2 K2) K2 (rem_same T k) A2). congruence.
  Qed.

  (* ---------- reachability by Done steps ---------- *)
  Inductive steps : st -> st -> Prop :=
  | steps_refl R : steps R R
  | steps_step R k v T : In k items -> R k = None -> att R k = Done v -> steps (upd R k v) T -> steps R T.

  Lemma steps_trans R1 R2 R3 : steps R1 R2 -> steps R2 R3 -> steps R1 R3.
  Proof. induction 1; intros; [assumption|]. eapply steps_step; eauto. Qed.
  Lemma steps_le R T : steps R T -> le R T.
  Proof. induction 1; [apply le_refl|]. eapply le_trans; [apply le_upd; eassumption | eassumption]. Qed.

  Lemma steps_outside R T : steps R T -> forall k, ~ In k items -> T k = R k.
  Proof.
    induction 1 as [|R k0 v0 T Hin Hk Ha Hs IH]; intros k Hn; [reflexivity|].
    rewrite (IH k Hn). apply upd_other. intros ->. contradiction.
  Qed.
  Lemma in_items_dec k : {In k items} + {~ In k items}.
  Proof. apply in_dec. intros a b. destruct (eqb_spec a b); [left|right]; assumption. Qed.

  Definition maximal (T : st) := forall k v, In k items -> T k = None -> att T k <> Done v.
  Definition ideal (R0 T : st) := steps R0 T /\ maximal T.

  (* every value of T not already in R is justified by a Done at an intermediate state *)
  Lemma steps_just R T : steps R T -> forall k v, T k = Some v -> R k = Some v \/
     (R k = None /\ exists R1, le R R1 /\ le R1 T /\ R1 k = None /\ att R1 k = Done v).
  Proof.
    induction 1 as [R | R k0 v0 T Hin Hk Ha Hs IH]; intros k v HT.
    - left; exact HT.
    - destruct (IH k v HT) as [Hu | [Hu [R1 [H1 [H2 [H3 H4]]]]]].
      + destruct (eqb_spec k k0) as [->|Hne].
        * rewrite upd_same in Hu. inversion Hu; subst v0. right. split; [exact Hk|].
          exists R. repeat split; auto using le_refl. eapply le_trans; [apply le_upd; exact Hk | apply steps_le; exact Hs].
        * rewrite upd_other in Hu by exact Hne. left; exact Hu.
      + right. split.
        * destruct (eqb_spec k k0) as [->|Hne]; [exact Hk|]. rewrite upd_other in Hu by exact Hne. exact Hu.
        * exists R1. repeat split; auto. eapply le_trans; [apply le_upd; exact Hk | exact H1].
  Qed.

  (* if R is strictly below T (on items) some Done step is enabled at R *)
  Lemma steps_enabled R0 T : steps R0 T -> forall R, le R0 R -> le R T ->
    (exists k, In k items /\ R k = None /\ T k <> None) ->
    exists k v, In k items /\ R k = None /\ att R k = Done v.
  Proof.
    induction 1 as [R0 | R0 k0 v0 T Hin Hk Ha Hs IH]; intros R H0 HT [k [Hi [Hn Hs']]].
    - exfalso. apply Hs'. eapply le_none; eauto.
    - destruct (R k0) eqn:E.
      + (* k0 already resolved in R, with the same value as T *)
        assert (v = v0).
        { pose proof (HT _ _ E) as E1. pose proof (steps_le _ _ Hs k0 v0 (upd_same _ _ _)) as E2. congruence. }
        subst v. apply IH; [ | exact HT | exists k; auto].
        intros a b Hab. destruct (eqb_spec a k0) as [->|Hne].
        * rewrite upd_same in Hab. congruence.
        * rewrite upd_other in Hab by exact Hne. apply H0, Hab.
      + exists k0, v0. repeat split; auto. eapply M1; eauto.
  Qed.

  Lemma step_below R0 T R k v : ideal R0 T -> le R0 R -> le R T -> In k items -> R k = None ->
    att R k = Done v -> le (upd R k v) T.
  Proof.
    intros [Hs Hm] H0 HR Hin Hk Ha k' v' H.
    destruct (eqb_spec k' k) as [->|Hne].
    - rewrite upd_same in H. inversion H; subst v'. clear H.
      destruct (T k) eqn:HTk.
      + destruct (steps_just _ _ Hs _ _ HTk) as [H0k | [H0k [R1 [HR01 [HR1T [HR1k Ha1]]]]]].
        * apply H0 in H0k. congruence.
        * f_equal. eapply (done_done R1 R T k); eauto.
      + exfalso. eapply (Hm k v Hin HTk). eapply M1; eauto.
    - rewrite upd_other in H by exact Hne. apply HR, H.
  Qed.

  (* ---------- facts about one pass ---------- *)
  Lemma pass_steps strict : forall ks R R', incl ks items -> pass strict R ks = Some R' -> steps R R'.
  Proof.
    induction ks as [|k ks IH]; cbn [pass]; intros R R' Hin H.
    - inversion H; subst; constructor.
    - assert (Hk : In k items) by (apply Hin; left; reflexivity).
      assert (Hks : incl ks items) by (intros x Hx; apply Hin; right; exact Hx).
      destruct (R k) eqn:HRk; [eauto|].
      destruct (att R k) eqn:Ha; eauto.
      + eapply steps_step; eauto.
      + destruct strict; [discriminate | eauto].
  Qed.

  Lemma pass_below R0 T strict : ideal R0 T -> forall ks R R', incl ks items ->
    le R0 R -> le R T -> pass strict R ks = Some R' -> le R' T.
  Proof.
    intros HT. induction ks as [|k ks IH]; cbn [pass]; intros R R' Hin H0 HR H.
    - inversion H; subst; exact HR.
    - assert (Hk : In k items) by (apply Hin; left; reflexivity).
      assert (Hks : incl ks items) by (intros x Hx; apply Hin; right; exact Hx).
      destruct (R k) eqn:HRk; [eauto|].
      destruct (att R k) eqn:Ha; eauto.
      + eapply IH; [exact Hks | | | exact H].
        * eapply le_trans; [exact H0 | apply le_upd; exact HRk].
        * eapply step_below; eauto.
      + destruct strict; [discriminate | eauto].
  Qed.

  (* a strict pass that fails does so at a state below T *)
  Lemma pass_fail R0 T : ideal R0 T -> forall ks R, incl ks items -> le R0 R -> le R T ->
    pass true R ks = None -> exists R1 k, le R0 R1 /\ le R1 T /\ In k items /\ R1 k = None /\ att R1 k = Fail.
  Proof.
    intros HT. induction ks as [|k ks IH]; cbn [pass]; intros R Hin H0 HR H; [discriminate|].
    assert (Hk : In k items) by (apply Hin; left; reflexivity).
    assert (Hks : incl ks items) by (intros x Hx; apply Hin; right; exact Hx).
    destruct (R k) eqn:HRk; [eauto|].
    destruct (att R k) eqn:Ha; eauto.
    - eapply IH; [exact Hks | | | exact H].
      + eapply le_trans; [exact H0 | apply le_upd; exact HRk].
      + eapply step_below; eauto.
    - exists R, k. auto.
  Qed.

  (* a pass after which every visited key that was unresolved is still unresolved changed nothing *)
  Lemma pass_noprogress strict : forall ks R R', pass strict R ks = Some R' ->
    (forall k, In k ks -> R k = None -> R' k = None) ->
    R' = R /\ forall k, In k ks -> R k = None -> (att R k = Defer \/ (strict = false /\ att R k = Fail)).
  Proof.
    induction ks as [|k ks IH]; cbn [pass]; intros R R' H Hno.
    - inversion H; subst. split; [reflexivity | intros k []].
    - destruct (R k) eqn:HRk.
      + destruct (IH _ _ H) as [E A]; [intros; apply Hno; auto; right; auto|]. split; [exact E|].
        intros k' [->|Hin] Hn; [congruence | auto].
      + destruct (att R k) eqn:Ha.
        * exfalso. assert (le (upd R k v) R') as Hle.
          { clear - H eqb_spec. revert H. generalize (upd R k v). clear R. induction ks as [|a ks IH]; cbn [pass]; intros R H.
            - inversion H; apply le_refl.
            - destruct (R a) eqn:E; [eauto|]. destruct (att R a); eauto.
              + eapply le_trans; [apply le_upd; exact E | eauto].
              + destruct strict; [discriminate|eauto]. }
          pose proof (Hle k v (upd_same _ _ _)). rewrite (Hno k) in H0; [discriminate | left; reflexivity | exact HRk].
        * destruct (IH _ _ H) as [E A]; [intros; apply Hno; auto; right; auto|]. split; [exact E|].
          intros k' [->|Hin] Hn; [left; exact Ha | auto].
        * destruct strict; [discriminate|].
          destruct (IH _ _ H) as [E A]; [intros; apply Hno; auto; right; auto|]. split; [exact E|].
          intros k' [->|Hin] Hn; [right; split; [reflexivity | exact Ha] | auto].
  Qed.

  (* ---------- counting ---------- *)
  Lemma filter_len_le (f g : K -> bool) l : (forall x, f x = true -> g x = true) ->
    length (filter f l) <= length (filter g l).
  Proof.
    intros H. induction l as [|a l IH]; cbn [filter]; [lia|].
    destruct (f a) eqn:Ef; [rewrite (H _ Ef); cbn; lia | destruct (g a); cbn; lia].
  Qed.
  Lemma filter_len_eq (f g : K -> bool) l : (forall x, f x = true -> g x = true) ->
    length (filter f l) = length (filter g l) -> forall x, In x l -> g x = true -> f x = true.
  Proof.
    intros H. induction l as [|a l IH]; cbn [filter]; intros E x []; subst.
    - intros Hg. rewrite Hg in E. destruct (f x) eqn:Ef; [reflexivity|]. cbn in E.
      pose proof (filter_len_le f g l H). lia.
    - pose proof (filter_len_le f g l H) as L. destruct (f a) eqn:Ef.
      + rewrite (H _ Ef) in E. cbn in E. apply IH; [lia | assumption].
      + destruct (g a); cbn in E; [lia|]. apply IH; assumption.
  Qed.

  Lemma unres_le R R' : le R R' -> length (unres R') <= length (unres R).
  Proof.
    intros H. apply filter_len_le. intros x. unfold isnone. destruct (R' x) eqn:E; [discriminate|].
    rewrite (le_none _ _ _ H E). reflexivity.
  Qed.
  Lemma unres_eq R R' : le R R' -> length (unres R') = length (unres R) ->
    forall k, In k items -> R k = None -> R' k = None.
  Proof.
    intros H E k Hin Hk.
    assert (isnone R' k = true) as X.
    { eapply (filter_len_eq (isnone R') (isnone R) items); eauto.
      - intros x. unfold isnone. destruct (R' x) eqn:E'; [discriminate|]. rewrite (le_none _ _ _ H E'). reflexivity.
      - unfold isnone. rewrite Hk. reflexivity. }
    unfold isnone in X. destruct (R' k); [discriminate | reflexivity].
  Qed.
  Lemma unres_in R k : In k (unres R) <-> In k items /\ R k = None.
  Proof. unfold unres. rewrite filter_In. unfold isnone. destruct (R k); intuition congruence. Qed.

  (* ---------- the loop ---------- *)
  Section WithOrder.
  Variable order : list K -> list K.
  Hypothesis order_perm : forall l, Permutation (order l) l.

  Lemma order_incl R : incl (order (unres R)) items.
  Proof. intros x Hx. apply (Permutation_in _ (order_perm _)) in Hx. apply unres_in in Hx. tauto. Qed.
  Lemma order_all R k : In k items -> R k = None -> In k (order (unres R)).
  Proof. intros. apply (Permutation_in _ (Permutation_sym (order_perm _))). apply unres_in. tauto. Qed.

  Lemma pass_le strict ks R R' : incl ks items -> pass strict R ks = Some R' -> le R R'.
  Proof. intros. eapply steps_le, pass_steps; eauto. Qed.

  (* the lax loop computes an ideal *)
  Lemma lax_ideal : forall fuel R, length (unres R) < fuel ->
    exists T, (loop order false fuel R = OOk T \/ loop order false fuel R = ONoProgress T) /\ steps R T /\ maximal T.
  Proof.
    induction fuel as [|f IH]; intros R Hf; [lia|]. cbn [loop].
    destruct (unres R) as [|u0 us] eqn:EU.
    - exists R. split; [left; reflexivity|]. split; [constructor|].
      intros k v Hin Hk. exfalso. assert (In k (unres R)) by (apply unres_in; tauto). rewrite EU in H. destruct H.
    - rewrite <- EU in Hf |- *. destruct (pass false R (order (unres R))) as [R'|] eqn:EP.
      2:{ exfalso. clear - EP. revert EP. generalize (order (unres R)). intros l; revert R.
          induction l as [|a l IH]; cbn [pass]; intros R; [discriminate|].
          destruct (R a); [apply IH|]. destruct (att R a); apply IH. }
      pose proof (pass_steps _ _ _ _ (order_incl R) EP) as HS.
      pose proof (steps_le _ _ HS) as HL.
      destruct (Nat.eqb_spec (length (unres R')) (length (unres R))) as [E|NE].
      + exists R'. split; [right; reflexivity|]. split; [exact HS|].
        destruct (pass_noprogress _ _ _ _ EP) as [ER A].
        { intros k Hin Hk. eapply unres_eq; eauto. apply (order_incl R); exact Hin. }
        subst R'. intros k v Hin Hk Ha.
        destruct (A k (order_all R k Hin Hk) Hk) as [X|[_ X]]; congruence.
      + pose proof (unres_le _ _ HL).
        destruct (IH R') as [T [HT [HS' HM]]]; [lia|].
        exists T. split; [exact HT|]. split; [eapply steps_trans; eauto | exact HM].
  Qed.

  (* characterisation of the strict loop against any ideal *)
  Definition agree (R T : st) := forall k, In k items -> R k = T k.

  Lemma strict_char R0 T : ideal R0 T -> forall fuel R, le R0 R -> le R T -> length (unres R) < fuel ->
    match loop order true fuel R with
    | OOk R' => agree R' T /\ unres T = []
    | ONoProgress R' => agree R' T /\ unres T <> [] /\ forall k, In k (unres T) -> att T k = Defer
    | OFail => exists k, In k items /\ T k = None /\ att T k = Fail
    | OFuel => False
    end.
  Proof.
    intros HT. pose proof HT as [HS HM].
    induction fuel as [|f IH]; intros R H0 HR Hf; [lia|]. cbn [loop].
    destruct (unres R) as [|u0 us] eqn:EU.
    - assert (forall k, In k items -> R k <> None) as Tot.
      { intros k Hin Hk. assert (In k (unres R)) by (apply unres_in; tauto). rewrite EU in H. destruct H. }
      assert (agree R T) as AG.
      { intros k Hin. destruct (R k) eqn:E; [symmetry; apply HR, E | exfalso; eapply Tot; eauto]. }
      split; [exact AG|].
      destruct (unres T) eqn:ET; [reflexivity|]. exfalso.
      assert (In k (unres T)) as X by (rewrite ET; left; reflexivity). apply unres_in in X as [Hin Hk].
      rewrite <- AG in Hk by exact Hin. eapply Tot; eauto.
    - rewrite <- EU in Hf |- *. destruct (pass true R (order (unres R))) as [R'|] eqn:EP.
      + pose proof (pass_le _ _ _ _ (order_incl R) EP) as HL.
        pose proof (pass_below _ _ _ HT _ _ _ (order_incl R) H0 HR EP) as HB.
        destruct (Nat.eqb_spec (length (unres R')) (length (unres R))) as [E|NE].
        * destruct (pass_noprogress _ _ _ _ EP) as [ER A].
          { intros k Hin Hk. eapply unres_eq; eauto. apply (order_incl R); exact Hin. }
          subst R'.
          assert (forall k, In k items -> R k = None -> att R k = Defer) as AD.
          { intros k Hin Hk. destruct (A k (order_all R k Hin Hk) Hk) as [X|[X _]]; [exact X | discriminate]. }
          assert (agree R T) as AG.
          { intros k Hin. destruct (R k) eqn:Ek; [symmetry; apply HR, Ek|].
            destruct (T k) eqn:ETk; [|reflexivity]. exfalso.
            destruct (steps_enabled _ _ HS R H0 HR) as [k' [v' [Hin' [Hk' Ha']]]].
            { exists k. rewrite ETk. repeat split; auto. discriminate. }
            rewrite (AD k' Hin' Hk') in Ha'. discriminate. }
          split; [exact AG|]. split.
          -- intros ET. assert (In u0 (unres R)) as X by (rewrite EU; left; reflexivity).
             apply unres_in in X as [Hin Hk]. rewrite AG in Hk by exact Hin.
             assert (In u0 (unres T)) as Y by (apply unres_in; tauto). rewrite ET in Y. destruct Y.
          -- intros k' Hk'. apply unres_in in Hk' as [Hin' Hk'].
             assert (R k' = None) as HRk by (rewrite AG by exact Hin'; exact Hk').
             pose proof (AD k' Hin' HRk) as D.
             destruct (att T k') eqn:ATk; [ | reflexivity | ].
             ++ exfalso. eapply HM; eauto.
             ++ exfalso.
                assert (le T R) as HTR.
                { intros a b Hab. destruct (in_items_dec a) as [Ia|Na].
                  - rewrite AG by exact Ia. exact Hab.
                  - rewrite (steps_outside _ _ HS a Na) in Hab. apply H0, Hab. }
                pose proof (M2 _ _ _ HTR Hk' HRk ATk). congruence.
        * pose proof (unres_le _ _ HL). apply IH; [eapply le_trans; eauto | exact HB | lia].
      + destruct (pass_fail _ _ HT _ _ (order_incl R) H0 HR EP) as [R1 [k [H01 [H1T [Hin [Hk Ha]]]]]].
        exists k. split; [exact Hin|].
        assert (T k = None) as HTk.
        { destruct (T k) eqn:ETk; [|reflexivity]. exfalso.
          destruct (steps_just _ _ HS _ _ ETk) as [X | [X [R2 [H02 [H2T [H2k Ha2]]]]]].
          - apply H01 in X. congruence.
          - eapply (done_fail R2 R1 T k); eauto. }
        split; [exact HTk|]. eapply M2; eauto.
  Qed.
  End WithOrder.

  Definition same_outcome (a b : outcome) : Prop :=
    match a, b with
    | OOk R1, OOk R2 => forall k, In k items -> R1 k = R2 k
    | ONoProgress R1, ONoProgress R2 => forall k, In k items -> R1 k = R2 k
    | OFail, OFail => True
    | _, _ => False
    end.

  Theorem order_independent (o1 o2 : list K -> list K) :
    (forall l, Permutation (o1 l) l) -> (forall l, Permutation (o2 l) l) ->
    forall fuel R0, length (unres R0) < fuel ->
    same_outcome (loop o1 true fuel R0) (loop o2 true fuel R0).
  Proof.
    intros P1 P2 fuel R0 Hf.
    destruct (lax_ideal o1 P1 fuel R0 Hf) as [T [_ [HS HM]]].
    assert (ideal R0 T) as HT by (split; assumption).
    pose proof (strict_char o1 P1 R0 T HT fuel R0 (le_refl _) (steps_le _ _ HS) Hf) as C1.
    pose proof (strict_char o2 P2 R0 T HT fuel R0 (le_refl _) (steps_le _ _ HS) Hf) as C2.
    destruct (loop o1 true fuel R0) as [A|A| |], (loop o2 true fuel R0) as [B|B| |]; cbn; try contradiction; auto.
    - destruct C1 as [G1 _], C2 as [G2 _]. intros k Hk. rewrite G1, G2; auto.
    - destruct C1 as [_ E], C2 as [_ [N _]]. contradiction.
    - destruct C1 as [_ E], C2 as [k [Hin [Hk _]]]. assert (In k (unres T)) as X by (apply unres_in; tauto). rewrite E in X. destruct X.
    - destruct C1 as [_ [N _]], C2 as [_ E]. contradiction.
    - destruct C1 as [G1 _], C2 as [G2 _]. intros k Hk. rewrite G1, G2; auto.
    - destruct C1 as [_ [_ D]], C2 as [k [Hin [Hk F]]]. rewrite D in F; [discriminate | apply unres_in; tauto].
    - destruct C2 as [_ E], C1 as [k [Hin [Hk _]]]. assert (In k (unres T)) as X by (apply unres_in; tauto). rewrite E in X. destruct X.
    - destruct C2 as [_ [_ D]], C1 as [k [Hin [Hk F]]]. rewrite D in F; [discriminate | apply unres_in; tauto].
  Qed.

  (* ---------- which items stay unresolved (C10) ---------- *)
  Variable deps : K -> list K.
  Variable undefined : K -> bool.
  Hypothesis N1 : forall R k v, att R k = Done v -> undefined k = false /\ forall d, In d (deps k) -> In d items -> R d <> None.
  Hypothesis N2 : forall R k, In k items -> R k = None -> att R k = Defer ->
     undefined k = true \/ exists d, In d (deps k) /\ In d items /\ R d = None.

  Definition self_supporting (S : K -> Prop) :=
    forall k, S k -> In k items /\ (undefined k = true \/ exists d, In d (deps k) /\ S d).

  Lemma stuck_stays R T : steps R T -> forall S, self_supporting S -> (forall k, S k -> R k = None) ->
    forall k, S k -> T k = None.
  Proof.
    induction 1 as [R | R k0 v0 T Hin Hk Ha Hs IH]; intros S HS HR k Hk'; [auto|].
    eapply IH; [exact HS | | exact Hk'].
    intros k1 Hk1. destruct (eqb_spec k1 k0) as [->|Hne].
    - exfalso. destruct (N1 _ _ _ Ha) as [U D]. destruct (HS _ Hk1) as [_ [X | [d [Hd Sd]]]]; [congruence|].
      destruct (HS _ Sd) as [Hdi _]. apply (D d Hd Hdi). apply HR, Sd.
    - rewrite upd_other by exact Hne. apply HR, Hk1.
  Qed.

  Lemma noprogress_self_supporting T : (forall k, In k (unres T) -> att T k = Defer) ->
    self_supporting (fun k => In k (unres T)).
  Proof.
    intros D k Hk. pose proof Hk as Hk'. apply unres_in in Hk' as [Hin Hn]. split; [exact Hin|].
    destruct (N2 T k Hin Hn (D k Hk)) as [U | [d [Hd [Hdi Hdn]]]]; [left; exact U | right].
    exists d. split; [exact Hd | apply unres_in; tauto].
  Qed.
End Conf.


