(** * NoPanicEmit: the back end of an accepted build never panics (C12, second half).

    [write_all_no_panic]: for an input state whose declared names are fine ([names_fine], a boolean
    over the input state, NoPanicNames.v), [write_all] of the state of an accepted build is never
    [Panic] -- under every order function, with no other hypothesis.  The three kinds of panic site:
    (a) identifier construction -- excluded by [names_fine] (and needed: [raw_type_name_panics]);
    (b) the model's own fuel in [dfs_hierarchy] -- unreachable ([hierarchy_fuel_suffices]);
    (c) an extern value without a resolved type -- unreachable ([extern_values_typed]).
    [model_pipeline_total]: the whole model pipeline ends in a verdict of the front half, or in
    [Ok files] / [Err] of the back end. *)
From Coq Require Import List NArith ZArith Bool Lia String Ascii Permutation.
From PyxisModel Require Import Base Sexp Grammar SemTypes Registry Sem SemLemmas PlacementLemmas TotalityLemmas Emit
     EmitLemmas NoPanic WholeBuild FinalState EmitInvariance Examples
     NoPanicBase NoPanicNames NoPanicRank.
Import ListNotations.
Local Open Scope string_scope.
Local Open Scope list_scope.

Lemma np_panic_false {A} m : ~ np (@Panic A m).
Proof. intros H. apply (H m). reflexivity. Qed.

Lemma build_function_np f : fn_ok f = true -> np (build_function f).
Proof.
  unfold fn_ok, build_function. intros H. apply andb_prop in H as [H Hb]. apply andb_prop in H as [Hn Ha].
  assert (names_ok f = true) as ->.
  { unfold names_ok. rewrite (plain_ident_ok_ident_ok _ Hn). cbn [andb].
    apply andb_true_intro. split.
    - rewrite forallb_forall in *. intros a Hin. specialize (Ha _ Hin). destruct a; auto.
    - destruct (sf_body f); auto. }
  cbn [negb]. destruct (negb _); [apply np_err | apply np_ok].
Qed.

Lemma region_field_np r : region_ok r = true -> np (region_field r).
Proof.
  unfold region_ok, region_field. destruct (r_name r) as [n|]; [|intros; apply np_err].
  intros H. apply andb_prop in H as [-> _]. cbn [negb]. destruct (negb _); [apply np_err | apply np_ok].
Qed.

Lemma vftable_accessor_np vt : vt_ok vt = true -> np (vftable_accessor vt).
Proof.
  unfold vt_ok, vftable_accessor. intros H. apply andb_prop in H as [_ H].
  destruct (negb (stype_ok _)); [apply np_err|].
  destruct (vt_base_field vt); [rewrite H; cbn [negb]|]; apply np_ok.
Qed.

Lemma item_ok_td it rs td :
  item_ok it = true -> item_resolved it = Some rs -> rs_inner rs = IType td -> td_ok td = true.
Proof.
  unfold item_ok, item_resolved. destruct (it_state it); [discriminate|]. intros H Hr Hi. inversion Hr; subst.
  apply andb_prop in H as [H _]. rewrite Hi in H. exact H.
Qed.

Section Registry.
  Variable R : registry.
  Hypothesis HR : forall p it, reg_get R p = Some it -> item_ok it = true.

  (** the field paths of the hierarchy are made of names of base regions *)
  Lemma dfs_hierarchy_names : forall fuel td fields h,
    td_ok td = true -> forallb ident_ok fields = true -> dfs_hierarchy fuel R td fields = Ok h ->
    forallb (fun x => forallb ident_ok (fst x)) h = true.
  Proof.
    induction fuel as [|fu IH]; intros td fields h Htd Hf H; [discriminate|]. cbn [dfs_hierarchy] in H.
    unfold td_ok in Htd. apply andb_prop in Htd as [Htd _]. apply andb_prop in Htd as [Hregs _].
    rewrite forallb_forall in Hregs.
    refine (foldM_inv_in (fun out => forallb (fun x => forallb ident_ok (fst x)) out = true) _ _ _ [] _ eq_refl H).
    intros out r out' Hin Hout Hr. cbn beta in Hr.
    destruct (r_is_base r); cbn [negb] in Hr; [|now inversion Hr; subst].
    inv_bind Hr. destruct a as [[name btd]|]; [|now inversion Hr; subst].
    inv_bind Hr. inversion Hr; subst out'; clear Hr.
    destruct (region_name_and_typedef_some _ _ _ _ Ha) as (Hn & q & itq & rsq & _ & Hgq & Hrq & Hiq).
    pose proof (item_ok_td _ _ _ (HR _ _ Hgq) Hrq Hiq) as Hbtd.
    specialize (Hregs _ Hin). unfold region_ok in Hregs. rewrite Hn in Hregs. apply andb_prop in Hregs as [Hname _].
    assert (forallb ident_ok (fields ++ [name]) = true) as Hfp by (rewrite forallb_app, Hf; cbn; now rewrite Hname).
    rewrite forallb_app, Hout. cbn [forallb fst andb]. rewrite Hfp. cbn [andb]. eapply IH; eauto.
  Qed.

  Hypothesis HK : RankInv R.
  Let fuel := S (List.length (reg_types R)).

  Lemma conversions_np p it rs td name :
    reg_get R p = Some it -> item_resolved it = Some rs -> rs_inner rs = IType td ->
    np (conversions R fuel name td).
  Proof.
    intros Hg Hr Hi. unfold conversions.
    apply np_bind; [eapply dfs_hierarchy_fuel_suffices; eauto|]. intros h Hh.
    rewrite (dfs_hierarchy_names _ _ [] _ (item_ok_td _ _ _ (HR _ _ Hg) Hr Hi) eq_refl Hh). cbn [negb].
    destruct (negb _); [apply np_err | apply np_ok].
  Qed.

  Lemma enum_variants_np : forall fs idx di, forallb (fun x => ident_ok (fst x)) fs = true -> np (enum_variants fs idx di).
  Proof.
    induction fs as [|[n z] fs IH]; intros idx di H; cbn [enum_variants]; [apply np_ok|].
    cbn [forallb fst] in H. apply andb_prop in H as [-> H]. cbn [negb].
    apply np_bind; [now apply IH | intros; apply np_ok].
  Qed.

  Lemma build_item_np p it : reg_get R p = Some it -> np (build_item R fuel it).
  Proof.
    intros Hg. pose proof (HR _ _ Hg) as Hit. unfold build_item.
    destruct (item_resolved it) as [rs|] eqn:Er; [|apply np_err].
    destruct (it_cat it) eqn:Ec; try apply np_ok.
    unfold item_ok in Hit. unfold item_resolved in Er. destruct (it_state it) as [|rs'] eqn:Es; [discriminate|].
    inversion Er; subst rs'. rewrite Ec in Hit. apply andb_prop in Hit as [Hinner Hname].
    unfold name_ok in Hname.
    destruct (rs_inner rs) as [td|ed] eqn:Ei; cbn [inner_ok] in Hinner.
    - unfold build_type. destruct (path_last (it_path it)) as [name|]; [|apply np_err].
      apply andb_prop in Hname as [H1 H2]. rewrite H1. cbn [negb].
      pose proof Hinner as Htd. unfold td_ok in Hinner. apply andb_prop in Hinner as [Hinner Hvt].
      apply andb_prop in Hinner as [Hregs Hassoc]. rewrite forallb_forall in Hregs, Hassoc.
      apply np_bind; [apply np_mapM_in; intros r Hr; apply region_field_np; auto|]. intros fields _.
      rewrite H2. cbn [negb].
      apply np_bind.
      { destruct (td_vftable td) as [vt|]; [|apply np_ok].
        apply np_bind; [now apply vftable_accessor_np | intros; apply np_ok]. }
      intros acc _. apply np_bind.
      { apply np_mapM_in. intros f Hf. apply filter_In in Hf as [Hf _]. apply build_function_np. auto. }
      intros assoc _. apply np_bind.
      { destruct (td_vftable td) as [vt|]; [|apply np_ok]. unfold vt_ok in Hvt. apply andb_prop in Hvt as [Hvt _].
        rewrite forallb_forall in Hvt.
        apply np_mapM_in. intros f Hf. apply filter_In in Hf as [Hf _]. apply build_function_np. auto. }
      intros vfns _. apply np_bind; [|intros; apply np_ok].
      eapply conversions_np; [exact Hg | unfold item_resolved; rewrite Es; reflexivity | exact Ei].
    - unfold build_enum. destruct (path_last (it_path it)) as [name|]; [|apply np_err].
      apply andb_prop in Hname as [H1 H2]. rewrite H1. cbn [negb].
      destruct (negb (stype_ok _)); [apply np_err|]. rewrite H2. cbn [negb].
      apply np_bind; [now apply enum_variants_np | intros; apply np_ok].
  Qed.
End Registry.

Lemma build_extern_value_np ev : ev_final ev -> np (build_extern_value ev).
Proof.
  intros [Ht Hn]. unfold build_extern_value. destruct (ev_type ev) as [t|]; [|congruence].
  rewrite Hn. cbn [negb]. destruct (negb _); [apply np_err | apply np_ok].
Qed.

Lemma module_definitions_from R m it : In it (module_definitions R m) -> exists p, reg_get R p = Some it.
Proof.
  intros H. apply (Permutation_in _ (module_definitions_perm R m)) in H. apply in_somes in H.
  apply in_map_iff in H as (p & Hp & _). eauto.
Qed.

Lemma module_file_np st m :
  (forall p it, reg_get (st_reg st) p = Some it -> item_ok it = true) -> RankInv (st_reg st) -> mod_final m ->
  np (module_file st m).
Proof.
  intros HR HK Hm. unfold module_file. cbn zeta.
  apply np_bind.
  { apply np_mapM_in. intros it Hin. destruct (module_definitions_from _ _ _ Hin) as (p & Hg).
    eapply build_item_np; eauto. }
  intros items _. apply np_bind.
  { apply np_mapM_in. intros ev Hin. apply build_extern_value_np.
    apply (Permutation_in _ (Permutation_sym (sort_perm ev_leb _))) in Hin.
    unfold mod_final in Hm. rewrite Forall_forall in Hm. auto. }
  intros evs _. destruct (negb _); [apply np_err | apply np_ok].
Qed.

Lemma write_all_np st :
  (forall p it, reg_get (st_reg st) p = Some it -> item_ok it = true) -> RankInv (st_reg st) ->
  Forall (fun km => mod_final (snd km)) (st_modules st) -> np (write_all st).
Proof.
  intros HR HK HM. unfold write_all. apply np_bind; [|intros; apply np_ok].
  apply np_mapM_in. intros km Hin. destruct (fst km); [apply np_ok|].
  apply np_bind; [|intros; apply np_ok]. apply module_file_np; auto.
  rewrite Forall_forall in HM. auto.
Qed.

(** ** the emitter never defers *)
Definition nd {A} (o : outcome A) : Prop := o <> Defer.
Lemma nd_ok {A} (a : A) : nd (Ok a). Proof. unfold nd; discriminate. Qed.
Lemma nd_err {A} e : nd (@Err A e). Proof. unfold nd; discriminate. Qed.
Lemma nd_panic {A} e : nd (@Panic A e). Proof. unfold nd; discriminate. Qed.
Lemma nd_bind {A B} (x : outcome A) (f : A -> outcome B) : nd x -> (forall a, nd (f a)) -> nd (bind x f).
Proof. unfold nd. intros Hx Hf. destruct x; cbn [bind]; auto; discriminate. Qed.
Lemma nd_mapM {A B} (f : A -> outcome B) : (forall a, nd (f a)) -> forall l, nd (mapM f l).
Proof.
  intros Hf. induction l as [|a l IH]; cbn [mapM]; [apply nd_ok|].
  apply nd_bind; [apply Hf|]. intros b. apply nd_bind; [exact IH | intros; apply nd_ok].
Qed.
Lemma nd_foldM {A S} (f : S -> A -> outcome S) : (forall s a, nd (f s a)) -> forall l s, nd (foldM f l s).
Proof.
  intros Hf. induction l as [|a l IH]; intros s; cbn [foldM]; [apply nd_ok|]. apply nd_bind; auto.
Qed.
Lemma oe_nd {A} (o : outcome A) : oe o -> nd o.
Proof. unfold nd. destruct o; cbn; intros H; try discriminate; contradiction. Qed.

Ltac nd_if := repeat match goal with |- nd (if ?b then _ else _) => destruct b end;
              try apply nd_ok; try apply nd_err; try apply nd_panic.

Lemma build_function_nd f : nd (build_function f).
Proof. unfold build_function. nd_if. Qed.

Lemma dfs_hierarchy_nd R : forall fuel td fields, nd (dfs_hierarchy fuel R td fields).
Proof.
  induction fuel as [|fu IH]; intros td fields; cbn [dfs_hierarchy]; [apply nd_panic|].
  apply nd_foldM. intros out r. destruct (negb _); [apply nd_ok|].
  apply nd_bind; [apply oe_nd, region_name_and_typedef_oe|]. intros [[name btd]|]; [|apply nd_ok].
  apply nd_bind; [apply IH | intros; apply nd_ok].
Qed.

Lemma enum_variants_nd : forall fs idx di, nd (enum_variants fs idx di).
Proof.
  induction fs as [|[n z] fs IH]; intros idx di; cbn [enum_variants]; [apply nd_ok|].
  destruct (negb _); [apply nd_panic|]. apply nd_bind; [apply IH | intros; apply nd_ok].
Qed.

Lemma build_item_nd R fuel it : nd (build_item R fuel it).
Proof.
  unfold build_item. destruct (item_resolved it) as [rs|]; [|apply nd_err].
  destruct (it_cat it); try apply nd_ok. destruct (rs_inner rs) as [td|ed].
  - unfold build_type. destruct (path_last _); [|apply nd_err]. destruct (negb _); [apply nd_panic|].
    apply nd_bind.
    { apply nd_mapM. intros r. unfold region_field. destruct (r_name r); [|apply nd_err]. nd_if. }
    intros fields. destruct (negb _); [apply nd_panic|].
    apply nd_bind.
    { destruct (td_vftable td) as [vt|]; [|apply nd_ok]. apply nd_bind; [|intros; apply nd_ok].
      unfold vftable_accessor. destruct (negb _); [apply nd_err|]. destruct (vt_base_field vt); nd_if. }
    intros acc. apply nd_bind; [apply nd_mapM, build_function_nd|]. intros assoc.
    apply nd_bind; [destruct (td_vftable td); [apply nd_mapM, build_function_nd | apply nd_ok]|]. intros vfns.
    apply nd_bind; [|intros; apply nd_ok]. unfold conversions.
    apply nd_bind; [apply dfs_hierarchy_nd|]. intros h. nd_if.
  - unfold build_enum. destruct (path_last _); [|apply nd_err]. nd_if.
    apply nd_bind; [apply enum_variants_nd | intros; apply nd_ok].
Qed.

Lemma write_all_nd st : nd (write_all st).
Proof.
  unfold write_all. apply nd_bind; [|intros; apply nd_ok]. apply nd_mapM. intros km.
  destruct (fst km); [apply nd_ok|]. apply nd_bind; [|intros; apply nd_ok].
  unfold module_file. cbn zeta. apply nd_bind; [apply nd_mapM; intros; apply build_item_nd|]. intros items.
  apply nd_bind.
  { apply nd_mapM. intros ev. unfold build_extern_value. destruct (ev_type ev); [|apply nd_panic]. nd_if. }
  intros evs. nd_if.
Qed.

(** ** the back end of an accepted build never panics *)
Theorem write_all_no_panic order ptr mods st0 st :
  input_state ptr mods = Ok st0 -> names_fine st0 = true ->
  pyxis_resolve order ptr mods = BOk st ->
  forall m, write_all st <> Panic m.
Proof.
  intros Hin Hn H. destruct (names_final _ _ _ _ _ Hin Hn H) as (_ & HR & HM).
  apply write_all_np; [exact HR | eapply rank_final; eauto | exact HM].
Qed.

(** the three kinds of panic site, separately *)
Theorem hierarchy_fuel_suffices order ptr mods st0 st p it rs td fields :
  input_state ptr mods = Ok st0 -> pyxis_resolve order ptr mods = BOk st ->
  reg_get (st_reg st) p = Some it -> item_resolved it = Some rs -> rs_inner rs = IType td ->
  forall m, dfs_hierarchy (S (List.length (reg_types (st_reg st)))) (st_reg st) td fields <> Panic m.
Proof. intros Hin H Hg Hr Hi. eapply dfs_hierarchy_fuel_suffices; eauto. eapply rank_final; eauto. Qed.

Theorem extern_values_typed order ptr mods st km ev :
  pyxis_resolve order ptr mods = BOk st -> In km (st_modules st) -> In ev (m_extern_values (snd km)) ->
  ev_type ev <> None.
Proof.
  intros H. destruct (pyxis_resolve_input _ _ _ _ H) as (st0 & _ & Hb). unfold sem_build in Hb.
  destruct (resolve_loop order _ st0) as [s| | | |]; try discriminate. eapply finish_build_extern_types; eauto.
Qed.

(** ** the whole model pipeline *)
Definition model_pipeline (order : schedule) (ptr : N) (mods : list (path * gmodule))
  : build_result + outcome (list (string * sexp)) :=
  match pyxis_resolve order ptr mods with
  | BOk st => inr (write_all st)
  | r => inl r
  end.

Theorem model_pipeline_total order ptr mods :
  (forall l, List.length (order l) = List.length l) ->
  (forall st0, input_state ptr mods = Ok st0 -> names_fine st0 = true) ->
  match model_pipeline order ptr mods with
  | inl (BErr _) | inl (BNoProgress _) => True       (* a verdict of the front half *)
  | inr (Ok _) | inr (Err _) => True                 (* the files, or an error value of the back end *)
  | inl (BOk _) | inl (BPanic _) | inl BFuel | inr (Panic _) | inr Defer => False
  end.
Proof.
  intros Hord Hn. unfold model_pipeline. pose proof (pyxis_resolve_total order ptr mods Hord) as Ht.
  destruct (pyxis_resolve order ptr mods) as [st| | | |] eqn:E; auto.
  destruct (pyxis_resolve_input _ _ _ _ E) as (st0 & Hin & _).
  pose proof (write_all_no_panic _ _ _ _ _ Hin (Hn _ Hin) E) as Hnp. pose proof (write_all_nd st) as Hnd.
  destruct (write_all st) as [files| |e|e]; [exact I | apply Hnd; reflexivity | exact I | exact (Hnp e eq_refl)].
Qed.

(** for the order functions of the other theorems (permutation-valued) *)
Corollary model_pipeline_total_perm order ptr mods :
  (forall l, Permutation (order l) l) ->
  (forall st0, input_state ptr mods = Ok st0 -> names_fine st0 = true) ->
  match model_pipeline order ptr mods with
  | inl (BErr _) | inl (BNoProgress _) => True
  | inr (Ok _) | inr (Err _) => True
  | inl (BOk _) | inl (BPanic _) | inl BFuel | inr (Panic _) | inr Defer => False
  end.
Proof. intros HP. apply model_pipeline_total. intros l. apply Permutation_length, HP. Qed.

(** ** the hypothesis on the names is needed: a raw identifier as a type name (finding F6f) *)
Definition raw_text : string := "(module (attrs) (uses) (extern_types) (extern_values) (defs (def pub ""r#type"" (type (attrs) (field (attrs) pub ""a"" (tid ""u32""))))) (impls) (backends))".
Definition raw_mods : list (path * gmodule) := [(["m"], Examples.module_of_text raw_text)].

(** (checked on closed terms: [vm_compute] is not run under binders, and the closed terms are never
    destructed -- [check_exists] is proved for variables and then instantiated) *)
Lemma check_exists (a : outcome sstate) (b : build_result) (f : sstate -> sstate -> bool) :
  match a, b with Ok st0, BOk st => f st0 st | _, _ => false end = true ->
  exists st0 st, a = Ok st0 /\ b = BOk st /\ f st0 st = true.
Proof. destruct a as [st0| | |]; try discriminate. destruct b as [st| | | |]; try discriminate. eauto. Qed.

Definition raw_prop (st0 st : sstate) : bool :=
  collision_freeb (st_reg st0) && negb (names_fine st0) &&
  match write_all st with Panic m => String.eqb m "invalid identifier" | _ => false end.
Definition raw_check : bool :=
  match input_state 4 raw_mods, pyxis_resolve (hook_schedule []) 4 raw_mods with
  | Ok st0, BOk st => raw_prop st0 st
  | _, _ => false
  end.
Lemma raw_check_true : raw_check = true.
Proof. vm_compute. reflexivity. Qed.

Example raw_type_name_panics :
  exists st0 st, input_state 4 raw_mods = Ok st0 /\ collision_freeb (st_reg st0) = true /\
    pyxis_resolve (hook_schedule []) 4 raw_mods = BOk st /\
    names_fine st0 = false /\ write_all st = Panic "invalid identifier".
Proof.
  destruct (check_exists (input_state 4 raw_mods) (pyxis_resolve (hook_schedule []) 4 raw_mods) raw_prop raw_check_true)
    as (st0 & st & E0 & E1 & H).
  unfold raw_prop in H. apply andb_prop in H as [H H3]. apply andb_prop in H as [H1 H2]. apply negb_true_iff in H2.
  exists st0, st. split; [exact E0|]. split; [exact H1|]. split; [exact E1|]. split; [exact H2|].
  destruct (write_all st) as [| | |m]; try discriminate H3. apply String.eqb_eq in H3. rewrite H3. reflexivity.
Qed.

(** and it is met by the realistic input of Examples.v *)
Definition ex_names_check : bool :=
  match input_state 4 ex_mods, BOk {| st_modules := []; st_reg := {| reg_types := []; reg_ptr := 0 |} |} with
  | Ok st0, BOk _ => names_fine st0
  | _, _ => false
  end.
Lemma ex_names_check_true : ex_names_check = true.
Proof. vm_compute. reflexivity. Qed.
Example ex_names_fine : exists st0, input_state 4 ex_mods = Ok st0 /\ names_fine st0 = true.
Proof.
  destruct (check_exists (input_state 4 ex_mods) (BOk {| st_modules := []; st_reg := {| reg_types := []; reg_ptr := 0 |} |})
                          (fun st0 _ => names_fine st0) ex_names_check_true) as (st0 & st & E0 & _ & H).
  eauto.
Qed.
