(** * RefutedWitnesses: one machine-checked witness per OPEN known finding (known_findings.json).

    Where a property is false of pyxis on specific inputs, the methodology asks for
    [<name>_refuted : exists x, ...] on the faithful model: the witness, replayed on the
    implementation, is the finding.  This file collects them (index; the proofs are in the files it
    re-exports).  Every input is the hand translation of findings/<id>/*.pyxis into a closed
    [gmodule] (RefutedInputs.v); every theorem says: the model ACCEPTS the input and writes files
    ([built]: [input_state], [pyxis_resolve (hook_schedule ks)], [write_all]), and states the fact
    that contradicts the property, read back from the final registry / the written files.

    | finding | properties    | theorem                                                   | file                   |
    |---------|---------------|-----------------------------------------------------------|------------------------|
    | F4b     | C14, C02, C01 | [C14_C02_vftable_named_type_replaced_refuted_F4b]         | RefutedWitnessesOrder  |
    | F4b     | C09           | [C09_order_dependence_F4b_refuted]                        | RefutedWitnessesOrder  |
    | F7b     | C09           | [C09_order_dependence_F7b_refuted]                        | RefutedWitnessesOrder  |
    | F9      | C01, C02, C13 | [C01_C02_void_by_value_refuted_F9]                        | RefutedWitnessesEmit   |
    | F12a    | C08, C13      | [C08_C13_enum_without_variants_refuted_F12a]              | RefutedWitnessesEmit   |
    | F12b    | C08, C13      | [C08_C13_enum_struct_base_refuted_F12b]                   | RefutedWitnessesEmit   |
    | F12c    | C08, C13      | [C08_C13_enum_duplicate_discriminant_refuted_F12c]        | RefutedWitnessesEmit   |
    | F13     | C13           | [C13_packed_embeds_aligned_refuted_F13]                   | RefutedWitnessesEmit   |
    | F14     | C13           | [C13_two_fields_named_vftable_refuted_F14]                | RefutedWitnessesEmit   |
    | F24     | C07, C13      | [C07_C13_inherited_rename_collides_refuted_F24]           | RefutedWitnessesFn     |
    | F10     | C07, C13      | [C07_C13_receiverless_forward_refuted_F10]                | RefutedWitnessesFn     |
    | F21     | C13           | [C13_receiverless_virtual_refuted_F21]                    | RefutedWitnessesFn     |
    | F19     | C13           | [C13_private_slot_read_across_modules_refuted_F19]        | RefutedWitnessesFn     |

    Already there (not repeated): F2 [C08_range_refuted] (Properties/C08.v); F6f
    [NoPanicEmit.raw_type_name_panics]; F17 [C13_copy_refuted], and beside F9
    [C13_default_void_refuted], [C13_default_padding_refuted] (EmitDefaultExamples.v).  F6i (an
    invalid identifier through the public API) is outside the parser's range; the model's
    [ident_ok] side condition of NoPanicNames.v is its statement.

    The model reproduces EVERY finding of the list: no model / implementation discrepancy was found
    while writing the witnesses. *)
From PyxisModel Require Export RefutedInputs RefutedWitnessesOrder RefutedWitnessesEmit RefutedWitnessesFn.

Check C14_C02_vftable_named_type_replaced_refuted_F4b.
Check C09_order_dependence_F4b_refuted.
Check C09_order_dependence_F7b_refuted.
Check C01_C02_void_by_value_refuted_F9.
Check C08_C13_enum_without_variants_refuted_F12a.
Check C08_C13_enum_struct_base_refuted_F12b.
Check C08_C13_enum_duplicate_discriminant_refuted_F12c.
Check C13_packed_embeds_aligned_refuted_F13.
Check C13_two_fields_named_vftable_refuted_F14.
Check C07_C13_inherited_rename_collides_refuted_F24.
Check C07_C13_receiverless_forward_refuted_F10.
Check C13_receiverless_virtual_refuted_F21.
Check C13_private_slot_read_across_modules_refuted_F19.
