(** * C03, the layout tail of [resolve_regions] from an arbitrary starting accumulator.

    [C03Refine.decision_refines] is stated for pending lists WITHOUT base regions and without a
    vftable block.  Here the same refinement is re-proved for the part of [resolve_regions] that
    follows the vftable step ([resolve_tail]), from any starting accumulator [(rs0, last0)]: the
    empty one (no own vftable pointer) or the one holding the generated [vftable] pointer region.
    Base markers play no role in this part, so nothing is assumed about them.

    Also here: which region TYPES come out of the tail (needed for the [defaultable] check). *)
From Coq Require Import List NArith ZArith Bool Lia String.
From PyxisModel Require Import Base Grammar SemTypes Registry Sem RustLayout LayoutLemmas SemLemmas PlacementLemmas.
From PyxisModel Require C03Core C03Refine.
Import ListNotations.
Local Open Scope N_scope.
Module C := C03Core.
Module CR := C03Refine.
Arguments N.add : simpl never. Arguments N.mul : simpl never. Arguments N.sub : simpl never.
Arguments N.modulo : simpl never. Arguments N.div : simpl never. Arguments N.gcd : simpl never.

(** ** [resolve_regions] = base/vftable step ; [resolve_tail] *)
Definition resolve_tail (R : registry) (ts : option N) (pending : list (option N * region))
           (acc0 : list region * N) : outcome (list region * N) :=
  do acc1 <- foldM (push_pending R) pending acc0;
  do acc2 <- match ts with
             | Some t => if (snd acc1 <? t)
                         then defer_opt (regions_push R acc1 (unnamed_region (padding_type (t - snd acc1))))
                         else Ok acc1
             | None => Ok acc1
             end;
  do named <- name_regions R (fst acc2) 0;
  match ts with
  | Some t => if negb (snd named =? t) then Err "calculated size does not match target size"
              else Ok named
  | None => Ok named
  end.

Lemma resolve_regions_unfold st owner v ts pending vfs :
  resolve_regions st owner v ts pending vfs =
  if first_base_unresolved (st_reg st) (find r_is_base (map snd pending)) then Defer else
  do x <- vftable_build st owner v (find r_is_base (map snd pending)) vfs;
  do acc0 <- match snd x with
             | Some vr => defer_opt (regions_push (st_reg (fst (fst x))) ([], 0) vr)
             | None => Ok ([], 0)
             end;
  do y <- resolve_tail (st_reg (fst (fst x))) ts pending acc0;
  Ok (fst (fst x), fst y, snd (fst x), snd y).
Proof.
  unfold resolve_regions, resolve_tail. cbv zeta.
  destruct (first_base_unresolved _ _); [reflexivity|].
  destruct (vftable_build _ _ _ _ _) as [[[st' vt] vr]| | |]; cbn [bind fst snd]; try reflexivity.
  destruct (match vr with Some vr0 => _ | None => _ end) as [acc0| | |]; cbn [bind]; try reflexivity.
  destruct (foldM (push_pending (st_reg st')) pending acc0) as [acc1| | |]; cbn [bind]; try reflexivity.
  destruct (match ts with Some t => _ | None => Ok acc1 end) as [acc2| | |]; cbn [bind]; try reflexivity.
  destruct (name_regions (st_reg st') (fst acc2) 0) as [named| | |]; cbn [bind]; try reflexivity.
  destruct ts as [t|]; [destruct (negb (snd named =? t))|]; reflexivity.
Qed.

(** ** the arithmetic core from a starting accumulator *)
Definition accept_from (st0 : list C.region * N) (ptr : N) (fs : list C.field)
           (size align : option N) (packed : bool) : option (N * N) :=
  match C.steps st0 fs with
  | None => None
  | Some st =>
    match C.finish st size with
    | None => None
    | Some (rs, total) =>
      if packed then match align with Some _ => None | None => Some (total, 1) end
      else let a := C.choose_align ptr align rs in
           if negb (C.is_pow2b a) then None
           else if a <? C.lcml rs then None
           else if negb (C.aligned_from 0 rs) then None
           else if negb (total mod a =? 0) then None
           else Some (total, a)
    end
  end.

Lemma accept_from_nil ptr fs size align packed :
  C.accept ptr fs size align packed = accept_from ([], 0) ptr fs size align packed.
Proof. reflexivity. Qed.

(** a leading field without address that is kept: the core starts from its region *)
Lemma accept_cons_kept ptr f fs size align packed :
  C.addr f = None -> (C.sz f =? 0) && C.zarr f = false ->
  C.accept ptr (f :: fs) size align packed =
  accept_from ([(C.sz f, C.al f)], C.sz f) ptr fs size align packed.
Proof.
  intros Ha Hk. unfold C.accept, accept_from. cbn [C.steps]. unfold C.step. rewrite Ha.
  unfold C.push. cbn [fst snd]. rewrite Hk. cbn [app]. rewrite N.add_0_l. reflexivity.
Qed.

Section Tail.
  Variable R : registry.
  Hypothesis Hu8 : reg_u8 R.
  Hypothesis Hu8a : align_of R (TRaw ["u8"%string]) = Some 1.

  Local Notation known := (CR.known R).
  Local Notation absr := (CR.absr R).
  Local Notation absf := (CR.absf R).

  (** the running end is the total of the regions *)
  Lemma fold_total : forall pending rs l rs' l',
    foldM (push_pending R) pending (rs, l) = Ok (rs', l') ->
    l = total 0 (absr rs) -> l' = total 0 (absr rs').
  Proof.
    induction pending as [|[addr r] pending IH]; intros rs l rs' l' H Hl; cbn [foldM] in H.
    - inversion H. congruence.
    - inv_bind H. destruct a as [rsA lA]. eapply IH; [exact H|].
      unfold push_pending in Ha. cbn [fst snd] in Ha. inv_bind Ha. destruct a as [rsB lB].
      apply defer_opt_ok in Ha.
      assert (lB = total 0 (absr rsB)) as HB.
      { destruct addr as [a|].
        - destruct (a <? l); [discriminate|]. apply defer_opt_ok in Ha0.
          destruct (regions_push_spec _ _ _ _ _ _ Ha0) as (s & Hsz & Hr).
          destruct (ignored _ _); [destruct Hr as (-> & -> & _); exact Hl|].
          destruct Hr as (-> & ->). unfold CR.absr. rewrite total_snoc, (region_sa_size _ _ _ Hsz).
          fold (absr rs). lia.
        - inversion Ha0. congruence. }
      destruct (regions_push_spec _ _ _ _ _ _ Ha) as (s & Hsz & Hr).
      destruct (ignored _ r); [destruct Hr as (-> & -> & _); exact HB|].
      destruct Hr as (-> & ->). unfold CR.absr. rewrite total_snoc, (region_sa_size _ _ _ Hsz).
      fold (absr rsB). lia.
  Qed.

  Theorem tail_refines ta pending rs0 last0 :
    Forall known rs0 -> Forall CR.okP (absr rs0) -> last0 = total 0 (absr rs0) ->
    Forall (fun p => known (snd p)) pending ->
    Forall (fun p => CR.okP (region_sa R (snd p))) pending ->
    CR.all_fit R last0 pending -> (forall t, ta_size ta = Some t -> t <= usize_max) ->
    match accept_from (absr rs0, last0) (reg_ptr R) (map absf pending)
                      (ta_size ta) (ta_align ta) (ta_packed ta) with
    | Some (total, a) =>
      exists regions, resolve_tail R (ta_size ta) pending (rs0, last0) = Ok (regions, total) /\
                      compute_alignment R ta regions total = Ok a
    | None =>
      (exists m, resolve_tail R (ta_size ta) pending (rs0, last0) = Err m) \/
      (exists regions total m, resolve_tail R (ta_size ta) pending (rs0, last0) = Ok (regions, total) /\
                               compute_alignment R ta regions total = Err m)
    end.
  Proof.
    intros Hk0 Hok0 Hl0 Hk Hok Hfit Hts.
    unfold resolve_tail, accept_from.
    pose proof (CR.steps_refine R Hu8 Hu8a pending rs0 last0 Hk Hfit) as Hs.
    destruct (C.steps (absr rs0, last0) (map absf pending)) as [[crs cl]|] eqn:Ecs.
    2:{ destruct Hs as [m Hm]. rewrite Hm. cbn [bind]. left. eauto. }
    destruct Hs as (rs1 & Hf1 & Habs1). rewrite Hf1. cbn [bind fst snd]. subst crs.
    pose proof (CR.fold_keeps_known R Hu8a _ _ _ _ _ Hf1 Hk Hk0) as Hk1.
    assert (Forall CR.okP (absr rs1)) as Hok1.
    { pose proof (CR.core_steps_P _ _ _ Ecs) as H. cbn [fst] in H. apply H; [exact Hok0|].
      apply Forall_map. eapply Forall_impl; [|exact Hok]. intros p Hp. unfold CR.absf. cbn [C.sz C.al].
      rewrite <- surjective_pairing. exact Hp. }
    destruct (CR.finish_refine R Hu8 Hu8a rs1 cl (ta_size ta) Hts) as (rs2 & Hfin & Habs2).
    rewrite Hfin. cbn [bind fst snd].
    set (cst := match ta_size ta with
                | Some t => if cl <? t then C.push (absr rs1, cl) (t - cl, 1) true else (absr rs1, cl)
                | None => (absr rs1, cl) end) in *.
    assert (Forall known rs2) as Hk2.
    { destruct (ta_size ta) as [t|]; [|inversion Hfin; subst; exact Hk1].
      destruct (cl <? t); [|inversion Hfin; subst; exact Hk1].
      apply defer_opt_ok in Hfin. eapply CR.push_keeps_known; [exact Hfin | apply CR.pad_align; exact Hu8a | exact Hk1]. }
    assert (Forall CR.okP (absr rs2)) as Hok2.
    { rewrite Habs2. unfold cst. destruct (ta_size ta) as [t|]; [|exact Hok1].
      destruct (cl <? t); [|exact Hok1]. apply CR.core_push_P; [exact Hok1 | apply CR.okP_pad]. }
    destruct (CR.name_regions_refine R rs2 0 Hk2) as (named & Hname & Habsn & Hkn).
    rewrite Hname. cbn [bind fst snd].
    assert (CR.aligns_ok R named) as Han.
    { unfold CR.aligns_ok. rewrite <- Habsn in Hok2. unfold CR.absr in Hok2. rewrite Forall_map in Hok2. exact Hok2. }
    assert (total 0 (absr rs2) = snd cst) as Htot.
    { pose proof (fold_total _ _ _ _ _ Hf1 Hl0) as Hcl.
      unfold cst. destruct (ta_size ta) as [t|] eqn:Et.
      - destruct (cl <? t) eqn:Elt.
        + apply defer_opt_ok in Hfin. destruct (regions_push_spec _ _ _ _ _ _ Hfin) as (s & Hsz & Hr).
          rewrite CR.push_end. cbn [fst snd].
          assert (t - cl <= usize_max) as Hpad by (specialize (Hts t eq_refl); lia).
          pose proof (CR.padding_sa R Hu8 Hu8a _ Hpad) as Hpsa.
          destruct (ignored _ _).
          * destruct Hr as (-> & _ & Hz). rewrite <- Hcl.
            assert (s = t - cl) by (unfold region_sa in Hpsa; rewrite Hsz in Hpsa; destruct (align_of R _); inversion Hpsa; reflexivity).
            lia.
          * destruct Hr as (-> & _). unfold CR.absr. rewrite total_snoc. fold (absr rs1). rewrite Hpsa. cbn [fst]. lia.
        + inversion Hfin; subst. cbn [snd]. congruence.
      - inversion Hfin; subst. cbn [snd]. congruence. }
    rewrite Htot.
    assert (Hend : forall total0, snd cst = total0 ->
      match (let '(rs, total) := (fst cst, total0) in
             if ta_packed ta then match ta_align ta with Some _ => None | None => Some (total, 1) end
             else let a := C.choose_align (reg_ptr R) (ta_align ta) rs in
                  if negb (C.is_pow2b a) then None
                  else if a <? C.lcml rs then None
                  else if negb (C.aligned_from 0 rs) then None
                  else if negb (total mod a =? 0) then None else Some (total, a)) with
      | Some (total, a) => total = total0 /\ compute_alignment R ta named total0 = Ok a
      | None => exists m, compute_alignment R ta named total0 = Err m
      end).
    { intros total0 _. cbn [fst snd]. pose proof (CR.align_refine R ta named total0 Hkn Han) as Har.
      rewrite Habsn, Habs2 in Har. fold cst in Har.
      destruct (ta_packed ta).
      - destruct (ta_align ta); [exact Har | split; [reflexivity | exact Har]].
      - cbn zeta in *. destruct (negb (C.is_pow2b _)); [exact Har|].
        destruct (_ <? C.lcml _); [exact Har|]. destruct (negb (C.aligned_from _ _)); [exact Har|].
        destruct (negb (_ mod _ =? 0)); [exact Har | split; [reflexivity | exact Har]]. }
    destruct (ta_size ta) as [t|] eqn:Et.
    - assert (C.finish (absr rs1, cl) (Some t) = if snd cst =? t then Some cst else None) as -> by reflexivity.
      clearbody cst.
      destruct (snd cst =? t) eqn:Eeq; cbv beta iota.
      + apply N.eqb_eq in Eeq. specialize (Hend t Eeq).
        destruct cst as [crs ccl]. cbn [fst snd] in *. subst ccl. rewrite ?Eeq.
        match type of Hend with match ?e with _ => _ end => destruct e as [[tt_ a]|] end; cbv beta iota in Hend |- *.
        * destruct Hend as [-> Hc]. exists named. split; [reflexivity | exact Hc].
        * destruct Hend as [m Hm]. right. exists named, t, m. split; [reflexivity | exact Hm].
      + left. cbn [negb]. eexists. reflexivity.
    - assert (C.finish (absr rs1, cl) None = Some cst) as -> by reflexivity.
      clearbody cst.
      specialize (Hend (snd cst) eq_refl).
      destruct cst as [crs ccl]. cbn [fst snd] in *.
      match type of Hend with match ?e with _ => _ end => destruct e as [[tt_ a]|] end; cbv beta iota in Hend |- *.
      * destruct Hend as [-> Hc]. exists named. split; [reflexivity | exact Hc].
      * destruct Hend as [m Hm]. right. exists named, ccl, m. split; [reflexivity | exact Hm].
  Qed.

  (** ** the region types that come out of the tail: those of the starting regions, of the kept
      pending entries, and padding *)
  Definition is_padding (t : stype) : Prop := exists n, t = padding_type n.

  Lemma push_types rs last r rs' last' :
    regions_push R (rs, last) r = Some (rs', last') ->
    (forall x, In x rs' -> In x rs \/ (x = r /\ ignored R r = false)) /\
    (forall x, In x rs -> In x rs') /\ (ignored R r = false -> In r rs').
  Proof.
    intros H. destruct (regions_push_spec _ _ _ _ _ _ H) as (s & _ & Hx).
    destruct (ignored R r).
    - destruct Hx as (-> & _). repeat split; auto. discriminate.
    - destruct Hx as (-> & _). repeat split.
      + intros x Hin. apply in_app_or in Hin as [Hin|[<-|[]]]; auto.
      + intros x Hin. apply in_or_app. now left.
      + intros _. apply in_or_app. right. now left.
  Qed.

  Lemma push_pending_types rs last p rs' last' :
    push_pending R (rs, last) p = Ok (rs', last') ->
    (forall x, In x rs' -> In x rs \/ is_padding (r_type x) \/ (x = snd p /\ ignored R (snd p) = false)) /\
    (forall x, In x rs -> In x rs') /\ (ignored R (snd p) = false -> In (snd p) rs').
  Proof.
    unfold push_pending. intros H. inv_bind H. destruct a as [rs1 last1]. apply defer_opt_ok in H.
    destruct (push_types _ _ _ _ _ H) as (A1 & A2 & A3). cbn [fst snd] in Ha.
    assert ((forall x, In x rs1 -> In x rs \/ is_padding (r_type x)) /\ (forall x, In x rs -> In x rs1)) as (B1 & B2).
    { destruct (fst p) as [off|].
      - destruct (off <? last); [discriminate|]. apply defer_opt_ok in Ha.
        destruct (push_types _ _ _ _ _ Ha) as (D1 & D2 & _). split; [|exact D2].
        intros x Hx. destruct (D1 x Hx) as [Hin|[-> _]]; [now left|]. right. eexists. reflexivity.
      - inversion Ha; subst. auto. }
    repeat split.
    - intros x Hx. destruct (A1 x Hx) as [Hin|Hin]; [|auto]. destruct (B1 x Hin); auto.
    - intros x Hx. auto.
    - exact A3.
  Qed.

  Lemma fold_types : forall pending rs last rs' last',
    foldM (push_pending R) pending (rs, last) = Ok (rs', last') ->
    (forall x, In x rs' -> In x rs \/ is_padding (r_type x) \/
                           exists p, In p pending /\ x = snd p /\ ignored R (snd p) = false) /\
    (forall x, In x rs -> In x rs') /\
    (forall p, In p pending -> ignored R (snd p) = false -> In (snd p) rs').
  Proof.
    induction pending as [|p pending IH]; intros rs last rs' last' H; cbn [foldM] in H.
    - inversion H; subst. repeat split; auto. intros p [].
    - inv_bind H. destruct a as [rs1 last1].
      destruct (push_pending_types _ _ _ _ _ Ha) as (A1 & A2 & A3).
      destruct (IH _ _ _ _ H) as (B1 & B2 & B3). repeat split.
      + intros x Hx. destruct (B1 x Hx) as [Hin|[Hp|(q & Hq & -> & Hi)]].
        * destruct (A1 x Hin) as [?|[?|[-> Hi]]]; auto. right. right. exists p. split; [now left | auto].
        * auto.
        * right. right. exists q. split; [now right | auto].
      + auto.
      + intros q [<-|Hq] Hi; auto.
  Qed.

  Lemma resolve_tail_types ts pending rs0 last0 regions size :
    resolve_tail R ts pending (rs0, last0) = Ok (regions, size) ->
    (forall t, In t (map r_type regions) ->
               In t (map r_type rs0) \/ is_padding t \/
               exists p, In p pending /\ t = r_type (snd p) /\ ignored R (snd p) = false) /\
    (forall x, In x rs0 -> In (r_type x) (map r_type regions)) /\
    (forall p, In p pending -> ignored R (snd p) = false -> In (r_type (snd p)) (map r_type regions)).
  Proof.
    unfold resolve_tail. intros H. inv_bind H. destruct a as [rs1 last1].
    inv_bind H. destruct a as [rs2 last2]. inv_bind H. destruct a as [named sz]. cbn [fst snd] in *.
    assert (regions = named) as ->.
    { destruct ts as [t|]; [destruct (negb (sz =? t)); [discriminate|]|]; inversion H; reflexivity. }
    destruct (name_regions_spec _ _ _ _ _ Ha1) as (Hty & _). rewrite Hty.
    destruct (fold_types _ _ _ _ _ Ha) as (A1 & A2 & A3).
    assert ((forall x, In x rs2 -> In x rs1 \/ is_padding (r_type x)) /\ (forall x, In x rs1 -> In x rs2)) as (B1 & B2).
    { destruct ts as [t|]; [|inversion Ha0; subst; auto].
      destruct (last1 <? t); [|inversion Ha0; subst; auto].
      apply defer_opt_ok in Ha0. destruct (push_types _ _ _ _ _ Ha0) as (D1 & D2 & _). split; [|exact D2].
      intros x Hx. destruct (D1 x Hx) as [Hin|[-> _]]; [now left|]. right. eexists. reflexivity. }
    repeat split.
    - intros t Ht. apply in_map_iff in Ht as (x & <- & Hx).
      destruct (B1 x Hx) as [Hin|Hp]; [|auto].
      destruct (A1 x Hin) as [H0|[Hp|(q & Hq & -> & Hi)]]; [left; now apply in_map | auto |].
      right. right. exists q. auto.
    - intros x Hx. apply in_map. auto.
    - intros p Hp Hi. apply in_map. auto.
  Qed.
End Tail.

Print Assumptions tail_refines.
Print Assumptions resolve_tail_types.
