(** * EmitFinal: from an accepted build to the file that holds the item of a declared type.

    - [Meta]: every item of the input keeps its path, visibility and category through the
      resolution loop, and stays literally the input item as long as it is unresolved;
    - [decl_ok]: in an input state built from modules with pairwise distinct paths, every unresolved
      item is [Defined] and its path is in the [m_defpaths] of its parent module;
    - an accepted build (under an order function that does not drop work) resolves every declared
      item; the module of a declared item still lists its path ([DInv] of FinalState.v), and
      [finish_build] keeps [m_defpaths];
    - [write_all] writes a file for that module, and the file's items contain, contiguously, the
      items [build_item] produces for the declared item. *)
From Coq Require Import List NArith ZArith Bool Lia String Permutation.
From PyxisModel Require Import Base Sexp Grammar SemTypes Registry Sem SemLemmas FunctionLemmas
     ScopeLemmas PlacementLemmas TotalityLemmas Emit EmitLemmas WholeBuild Monotone OrderIndep
     EmitInvariance FinalState OutputIndep EmitReaders.
Import ListNotations.
Local Open Scope string_scope.
Local Open Scope list_scope.

(** ** [mapM] *)
Lemma mapM_split {A B} (f : A -> outcome B) : forall l out a,
  mapM f l = Ok out -> In a l -> exists o1 b o2, f a = Ok b /\ out = o1 ++ b :: o2.
Proof.
  induction l as [|x l IH]; intros out a H Hin; [destruct Hin|].
  cbn [mapM] in H. inv_bind H. inv_bind H. inversion H; subst out; clear H.
  destruct Hin as [->|Hin].
  - exists [], a0, a1. split; [exact Ha | reflexivity].
  - destruct (IH _ _ Ha0 Hin) as (o1 & b & o2 & Hb & ->). exists (a0 :: o1), b, o2. split; [exact Hb | reflexivity].
Qed.

Lemma mapM_in {A B} (f : A -> outcome B) l out a :
  mapM f l = Ok out -> In a l -> exists b, f a = Ok b /\ In b out.
Proof.
  intros H Hin. destruct (mapM_split f l out a H Hin) as (o1 & b & o2 & Hb & ->).
  exists b. split; [exact Hb|]. apply in_or_app. right. now left.
Qed.

(** ** items of the input keep their path, visibility and category *)
Section MetaSec.
  Variable st0 : sstate.
  Let R0 := st_reg st0.
  Hypothesis Hcf : collision_free R0.

  Definition Meta (R : registry) : Prop :=
    forall p it0, reg_get R0 p = Some it0 ->
      exists it, reg_get R p = Some it /\ it_vis it = it_vis it0 /\ it_path it = p /\
                 it_cat it = it_cat it0 /\ (forall gd, it_state it = Unresolved gd -> it = it0).

  Lemma Meta_init : keyed R0 -> Meta R0.
  Proof. intros HK p it0 H. exists it0. repeat split; auto. Qed.

  Lemma Meta_same_user R R' :
    (forall q, reg_get R0 q <> None -> reg_get R' q = reg_get R q) -> Meta R -> Meta R'.
  Proof.
    intros Hsame HM p it0 H. destruct (HM _ _ H) as (it & Hg & Hrest). exists it.
    split; [|exact Hrest]. rewrite Hsame; [exact Hg | congruence].
  Qed.

  Lemma Meta_set_resolved st p it gd r :
    keyed (st_reg st) -> reg_get (st_reg st) p = Some it -> it_state it = Unresolved gd ->
    Meta (st_reg st) -> Meta (st_reg (set_resolved st p r)).
  Proof.
    intros HK Hg Hs HM q it0 H0. unfold set_resolved. rewrite Hg. cbn [st_reg].
    pose proof (HK _ _ Hg) as Hpath.
    destruct (HM _ _ H0) as (itq & Hgq & Hv & Hp & Hc & Hu).
    destruct (path_eqb_spec p q) as [<-|Hne].
    - rewrite Hg in Hgq. inversion Hgq; subst itq.
      eexists. split.
      + rewrite <- Hpath.
        apply (reg_get_add_same (st_reg st)
                 {| it_vis := it_vis it; it_path := it_path it; it_state := Resolved r; it_cat := it_cat it |}).
      + cbn [it_vis it_path it_cat it_state]. repeat split; auto. intros gd'. discriminate.
    - exists itq. split; [|repeat split; auto].
      rewrite reg_get_add_other; [exact Hgq|]. cbn [it_path]. congruence.
  Qed.

  Lemma resolve_pass_Meta : forall ps st st',
    LInv st0 st -> Meta (st_reg st) -> resolve_pass st ps = inl st' -> Meta (st_reg st').
  Proof.
    induction ps as [|p ps IH]; intros st st' HL HM H; cbn [resolve_pass] in H.
    - now inversion H; subst.
    - destruct (reg_get (st_reg st) p) as [it|] eqn:Hg; [|discriminate].
      destruct (it_state it) as [gd|r0] eqn:Hs; [|now apply IH with (st := st)].
      destruct (attempt st p gd) as [st1 o] eqn:Hat.
      destruct (attempt_LInv st0 Hcf _ _ _ _ _ _ HL Hg Hs Hat) as (HL1 & Hg1).
      destruct HL as (HI & HK & HD).
      destruct (attempt_inv _ _ _ _ _ _ _ Hcf HI HK Hg Hs Hat) as (_ & _ & _ & Hback).
      pose proof (Meta_same_user _ _ Hback HM) as HM1.
      destruct o as [r| |m|m]; try discriminate.
      + eapply IH; [| |exact H].
        * eapply set_resolved_LInv; eauto.
        * destruct HL1 as (_ & HK1 & _). eapply Meta_set_resolved; eauto.
      + eapply IH; [exact HL1 | exact HM1 | exact H].
  Qed.

  Lemma resolve_pass_LInv' ps st st' : LInv st0 st -> resolve_pass st ps = inl st' -> LInv st0 st'.
  Proof. apply resolve_pass_LInv. exact Hcf. Qed.

  Lemma resolve_loop_Meta order : forall fuel st st',
    LInv st0 st -> Meta (st_reg st) -> resolve_loop order fuel st = BOk st' -> Meta (st_reg st').
  Proof.
    induction fuel as [|fuel IH]; intros st st' HL HM H; cbn [resolve_loop] in H; [discriminate|].
    destruct (order (reg_unresolved (st_reg st))) as [|p0 ps] eqn:Eo.
    - now inversion H; subst.
    - destruct (resolve_pass st (p0 :: ps)) as [st1|res] eqn:Ep; [|subst; exfalso; eapply resolve_pass_abort_not_ok; eauto].
      destruct (Nat.eqb _ _); [discriminate|].
      eapply IH; [| |exact H].
      + eapply resolve_pass_LInv'; eauto.
      + eapply resolve_pass_Meta; eauto.
  Qed.
End MetaSec.

(** an accepted loop under an order function that never returns nothing for something leaves no
    unresolved item (FinalState.v has this for permutation-valued order functions) *)
Definition keeps_work (order : schedule) : Prop := forall l, order l = [] -> l = [].

Lemma perm_keeps_work order : (forall l, Permutation (order l) l) -> keeps_work order.
Proof. intros HP l E. specialize (HP l). rewrite E in HP. now apply Permutation_nil in HP. Qed.

Lemma resolve_loop_ok_unresolved' order : keeps_work order ->
  forall fuel st st', resolve_loop order fuel st = BOk st' -> reg_unresolved (st_reg st') = [].
Proof.
  intros HP. induction fuel as [|fuel IH]; intros st st' H; cbn [resolve_loop] in H; [discriminate|].
  destruct (order (reg_unresolved (st_reg st))) as [|p0 ps] eqn:Eo.
  - inversion H; subst. now apply HP.
  - destruct (resolve_pass st (p0 :: ps)) as [st1|res] eqn:Ep; [|subst; exfalso; eapply resolve_pass_abort_not_ok; eauto].
    destruct (Nat.eqb _ _); [discriminate|]. eauto.
Qed.

(** ** input states: unresolved items are [Defined] and listed by their parent module *)
Definition decl_ok (st : sstate) (seen : list path) : Prop :=
  forall p it gd, reg_get (st_reg st) p = Some it -> it_state it = Unresolved gd ->
    it_cat it = Defined /\
    exists parent m, path_parent p = Some parent /\ In parent seen /\
                     alookup parent (st_modules st) = Some m /\ In p (m_defpaths m).

Lemma decl_ok_weaken st seen k : decl_ok st seen -> decl_ok st (k :: seen).
Proof.
  intros H p it gd Hg Hs. destruct (H _ _ _ Hg Hs) as (Hc & parent & m & Hp & Hin & Hm & Hd).
  split; [exact Hc|]. exists parent, m. repeat split; auto. now right.
Qed.

Lemma add_item_decl_ok st it st' seen :
  decl_ok st seen -> add_item st it = Ok st' ->
  (forall gd, it_state it = Unresolved gd ->
     it_cat it = Defined /\ exists parent, path_parent (it_path it) = Some parent /\ In parent seen) ->
  decl_ok st' seen.
Proof.
  intros HD H Hnew. unfold add_item in H.
  destruct (path_parent (it_path it)) as [parent|] eqn:Epar; [|discriminate].
  destruct (alookup parent (st_modules st)) as [m|] eqn:Em; [|discriminate].
  inversion H; subst st'; clear H. intros q itq gd Hg Hs. cbn [st_reg st_modules] in *.
  destruct (path_eqb_spec (it_path it) q) as [<-|Hne].
  - rewrite reg_get_add_same in Hg. inversion Hg; subst itq.
    destruct (Hnew _ Hs) as (Hc & parent' & Hp' & Hin). inversion Hp'; subst parent'.
    split; [exact Hc|]. exists parent, (add_defpath (it_path it) m).
    split; [exact Epar|]. split; [exact Hin|]. split; [apply alookup_ainsert_same|].
    apply add_defpath_in. now right.
  - rewrite reg_get_add_other in Hg by exact Hne.
    destruct (HD _ _ _ Hg Hs) as (Hc & pq & mq & Hpq & Hin & Hmq & Hdq).
    split; [exact Hc|]. destruct (path_eqb_spec parent pq) as [<-|Hpne].
    + rewrite Em in Hmq. inversion Hmq; subst mq.
      exists parent, (add_defpath (it_path it) m). split; [exact Hpq|]. split; [exact Hin|].
      split; [apply alookup_ainsert_same|]. apply add_defpath_in. now left.
    + exists pq, mq. split; [exact Hpq|]. split; [exact Hin|]. split; [|exact Hdq].
      rewrite alookup_ainsert_other by exact Hpne. exact Hmq.
Qed.

Lemma sem_new_decl_ok ptr st : sem_new ptr = Ok st -> decl_ok st [].
Proof.
  unfold sem_new. apply (foldM_preserves (fun s => decl_ok s [])).
  - intros s ns s' Hs H. eapply add_item_decl_ok; [exact Hs | exact H|]. cbn. discriminate.
  - intros p it gd H. discriminate.
Qed.

Lemma path_parent_join mp name : path_parent (path_join mp name) = Some mp.
Proof.
  unfold path_parent, path_join. destruct (mp ++ [name]) eqn:E; [now destruct mp|].
  rewrite <- E. now rewrite removelast_last.
Qed.

Lemma add_module_decl_ok st mp ast st' seen :
  ~ In mp seen -> decl_ok st seen -> add_module st mp ast = Ok st' -> decl_ok st' (mp :: seen).
Proof.
  unfold add_module. intros Hmp HD H. inv_bind H. inv_bind H. inv_bind H.
  eapply (foldM_preserves (fun s => decl_ok s (mp :: seen))); [| |exact H].
  - intros s e s' Hs He. unfold add_extern_type in He. inv_bind He.
    destruct a2 as [[size|] [al|]]; try discriminate.
    destruct (reg_has _ _); [discriminate|]. eapply add_item_decl_ok; [exact Hs | exact He|]. cbn. discriminate.
  - eapply (foldM_preserves (fun s => decl_ok s (mp :: seen))); [| |exact Ha1].
    + intros s d s' Hs Hd. unfold add_definition in Hd. destruct (reg_has _ _); [discriminate|].
      eapply add_item_decl_ok; [exact Hs | exact Hd|]. cbn [it_state it_cat it_path]. intros gd _.
      split; [reflexivity|]. exists mp. split; [apply path_parent_join | now left].
    + intros p it gd Hg Hs. cbn [st_reg st_modules] in *.
      destruct (HD _ _ _ Hg Hs) as (Hc & parent & m & Hp & Hin & Hm & Hd).
      split; [exact Hc|]. exists parent, m. split; [exact Hp|]. split; [now right|]. split; [|exact Hd].
      rewrite alookup_ainsert_other; [exact Hm|]. intros ->. contradiction.
Qed.

Lemma add_modules_decl_ok : forall mods st seen st',
  NoDup (map fst mods) -> (forall k, In k (map fst mods) -> ~ In k seen) -> decl_ok st seen ->
  foldM (fun st pm => add_module st (fst pm) (snd pm)) mods st = Ok st' ->
  exists seen', decl_ok st' seen'.
Proof.
  induction mods as [|[mp ast] mods IH]; intros st seen st' HN Hfresh HD H; cbn [foldM] in H.
  - inversion H; subst. eauto.
  - inv_bind H. cbn [fst snd map] in *. inversion HN as [|? ? Hnin HN']; subst.
    eapply (IH a (mp :: seen)); [exact HN' | | | exact H].
    + intros k Hk [<-|Hin]; [contradiction|]. apply (Hfresh k); [now right | exact Hin].
    + eapply add_module_decl_ok; [|exact HD | exact Ha]. apply Hfresh. now left.
Qed.

(** every declared (unresolved) item of an input state whose modules have distinct paths is
    [Defined] and is listed in the [m_defpaths] of its parent module *)
Theorem input_state_declared ptr mods st0 :
  input_state ptr mods = Ok st0 -> NoDup (map fst mods) ->
  forall p it0 gd, reg_get (st_reg st0) p = Some it0 -> it_state it0 = Unresolved gd ->
    it_cat it0 = Defined /\
    exists parent m0, path_parent p = Some parent /\
                      alookup parent (st_modules st0) = Some m0 /\ In p (m_defpaths m0).
Proof.
  unfold input_state. intros H HN. inv_bind H.
  destruct (add_modules_decl_ok mods a [] st0 HN (fun _ _ F => F) (sem_new_decl_ok _ _ Ha) H) as (seen & HD).
  intros p it0 gd Hg Hs. destruct (HD _ _ _ Hg Hs) as (Hc & parent & m & Hp & _ & Hm & Hd).
  split; [exact Hc|]. eauto.
Qed.

(** every path a module lists has that module as its parent *)
Definition defs_parent (st : sstate) : Prop :=
  forall k m p, alookup k (st_modules st) = Some m -> In p (m_defpaths m) -> path_parent p = Some k.

Lemma add_item_defs_parent st it st' : defs_parent st -> add_item st it = Ok st' -> defs_parent st'.
Proof.
  intros HD H. unfold add_item in H.
  destruct (path_parent (it_path it)) as [parent|] eqn:Epar; [|discriminate].
  destruct (alookup parent (st_modules st)) as [m|] eqn:Em; [|discriminate].
  inversion H; subst st'; clear H. intros k m' q Hm' Hq. cbn [st_modules] in Hm'.
  destruct (path_eqb_spec parent k) as [<-|Hne].
  - rewrite alookup_ainsert_same in Hm'. inversion Hm'; subst m'.
    apply add_defpath_in in Hq as [Hq| ->]; [eapply HD; eauto | exact Epar].
  - rewrite alookup_ainsert_other in Hm' by exact Hne. eapply HD; eauto.
Qed.

Lemma sem_new_defs_parent ptr st : sem_new ptr = Ok st -> defs_parent st.
Proof.
  unfold sem_new. apply (foldM_preserves defs_parent).
  - intros s ns s' Hs H. eapply add_item_defs_parent; eauto.
  - intros k m p Hm Hp. cbn [st_modules alookup] in Hm. destruct (path_eqb k []); [|discriminate].
    inversion Hm; subst m. destruct Hp.
Qed.

Lemma add_module_defs_parent st mp ast st' : defs_parent st -> add_module st mp ast = Ok st' -> defs_parent st'.
Proof.
  unfold add_module. intros HD H. inv_bind H. inv_bind H. inv_bind H.
  eapply (foldM_preserves defs_parent); [| |exact H].
  - intros s e s' Hs He. unfold add_extern_type in He. inv_bind He.
    destruct a2 as [[size|] [al|]]; try discriminate.
    destruct (reg_has _ _); [discriminate|]. eapply add_item_defs_parent; eauto.
  - eapply (foldM_preserves defs_parent); [| |exact Ha1].
    + intros s d s' Hs Hd. unfold add_definition in Hd. destruct (reg_has _ _); [discriminate|].
      eapply add_item_defs_parent; eauto.
    + intros k m p Hm Hp. cbn [st_modules] in Hm. destruct (path_eqb_spec mp k) as [<-|Hne].
      * rewrite alookup_ainsert_same in Hm. inversion Hm; subst m.
        unfold module_new in Ha0. inv_bind Ha0. inversion Ha0; subst a0. destruct Hp.
      * rewrite alookup_ainsert_other in Hm by exact Hne. eapply HD; eauto.
Qed.

Lemma input_state_defs_parent ptr mods st0 : input_state ptr mods = Ok st0 -> defs_parent st0.
Proof.
  unfold input_state. intros H. inv_bind H.
  eapply (foldM_preserves defs_parent); [| |exact H].
  - intros s pm s2 Hs Hpm. cbn beta in Hpm. eapply add_module_defs_parent; eauto.
  - eapply sem_new_defs_parent; eauto.
Qed.

(** ** accepted builds *)
Lemma finish_build_module s t k m :
  finish_build s = BOk t -> alookup k (st_modules s) = Some m ->
  exists m', In (k, m') (st_modules t) /\ m_defpaths m' = m_defpaths m.
Proof.
  intros F Hm. apply finish_build_mods in F.
  destruct (alookup_in _ _ _ Hm) as (k' & Hin & ->).
  destruct (mapM_in _ _ _ _ F Hin) as ([k2 m'] & Hb & Hout). cbn [fst snd] in Hb.
  inv_bind Hb. inversion Hb; subst k2 m'. exists a. split; [exact Hout|].
  unfold resolve_extern_values in Ha. inv_bind Ha. inversion Ha; subst a. reflexivity.
Qed.

(** what is known of the final state of an accepted build about one declared item *)
Theorem accepted_declared_item order ptr mods st0 st p it0 gd :
  input_state ptr mods = Ok st0 -> NoDup (map fst mods) -> collision_free (st_reg st0) ->
  keeps_work order -> pyxis_resolve order ptr mods = BOk st ->
  reg_get (st_reg st0) p = Some it0 -> it_state it0 = Unresolved gd ->
  exists it r parent m,
    reg_get (st_reg st) p = Some it /\ it_state it = Resolved r /\
    it_path it = p /\ it_vis it = it_vis it0 /\ it_cat it = Defined /\
    path_parent p = Some parent /\ In (parent, m) (st_modules st) /\ In p (m_defpaths m) /\
    (* and of the registry and that module *)
    keyed (st_reg st) /\ NoDup (m_defpaths m) /\
    (forall q, In q (m_defpaths m) -> path_parent q = Some parent).
Proof.
  intros Hin HN Hcf Hord Hres Hg0 Hs0.
  destruct (pyxis_resolve_input _ _ _ _ Hres) as (st0' & Hin' & Hb).
  rewrite Hin in Hin'. inversion Hin'; subst st0'. clear Hin'.
  unfold sem_build in Hb.
  destruct (resolve_loop order _ st0) as [s| | | |] eqn:El; try discriminate.
  pose proof (input_state_keyed _ _ _ Hin) as HK0.
  destruct (input_state_wf _ _ _ Hin) as [HU HW].
  pose proof (LInv_init st0 HK0 HW) as HL0.
  pose proof (resolve_loop_LInv st0 Hcf order _ _ _ HL0 El) as (HI & HK & HD).
  pose proof (resolve_loop_Meta st0 Hcf order _ _ _ HL0 (Meta_init st0 HK0) El) as HM.
  pose proof (resolve_loop_ok_unresolved' order Hord _ _ _ El) as Hnone.
  destruct (input_state_declared _ _ _ Hin HN _ _ _ Hg0 Hs0) as (Hc0 & parent & m0 & Hpar & Hm0 & Hd0).
  destruct (HM _ _ Hg0) as (it & Hg & Hv & Hp & Hc & Hu).
  rewrite (finish_build_reg _ _ Hb).
  (* resolved *)
  assert (exists r, it_state it = Resolved r) as (r & Hs).
  { destruct (it_state it) as [gd'|r] eqn:Es; [|eauto]. exfalso.
    pose proof (Hu _ eq_refl) as ->.
    assert (In p (reg_unresolved (st_reg s))) as X; [|rewrite Hnone in X; destruct X].
    unfold reg_unresolved. apply in_map_iff. exists (p, it0). split; [reflexivity|].
    apply filter_In. unfold reg_get in Hg. destruct (alookup_in _ _ _ Hg) as (k' & Hin' & ->).
    split; [exact Hin'|]. cbn [snd]. rewrite (HU _ _ _ Hg0 Hs0). unfold item_is_resolved. now rewrite Hs0. }
  (* the module *)
  destruct HD as [HKeys HDm].
  assert (alookup parent (st_modules s) <> None) as Hsome.
  { apply alookup_some_in_keys. rewrite HKeys. apply alookup_some_in_keys. congruence. }
  destruct (alookup parent (st_modules s)) as [m|] eqn:Em; [|congruence].
  destruct (HDm _ _ Em) as (m0' & Hm0' & _ & Hnd & Hset).
  rewrite Hm0 in Hm0'. inversion Hm0'; subst m0'.
  destruct (finish_build_module _ _ _ _ Hb Em) as (m' & Hin' & Hdef).
  exists it, r, parent, m'. rewrite Hdef.
  split; [exact Hg|]. split; [exact Hs|]. split; [exact Hp|]. split; [exact Hv|]. split; [congruence|].
  split; [exact Hpar|]. split; [exact Hin'|]. split; [apply Hset; now left|].
  split; [exact HK|]. split; [exact Hnd|].
  intros q Hq. apply Hset in Hq as [Hq|(_ & _ & Hq)]; [|exact Hq].
  eapply (input_state_defs_parent _ _ _ Hin); eauto.
Qed.

(** ** the files *)
Lemma write_all_in st files k m :
  write_all st = Ok files -> In (k, m) (st_modules st) -> k <> [] ->
  exists f, module_file st m = Ok f /\ In (out_path k, f) files.
Proof.
  unfold write_all. intros H Hin Hk. inv_bind H. inversion H; subst files; clear H.
  destruct (mapM_in _ _ _ _ Ha Hin) as (b & Hb & Hout). cbn [fst snd] in Hb.
  destruct k as [|k0 k]; [congruence|]. inv_bind Hb. inversion Hb; subst b. exists a0. split; [exact Ha0|].
  eapply Permutation_in; [apply sort_perm|]. apply in_somes. exact Hout.
Qed.

Lemma module_definitions_in R m p it :
  In p (m_defpaths m) -> reg_get R p = Some it -> In it (module_definitions R m).
Proof.
  intros Hp Hg. eapply Permutation_in; [apply Permutation_sym, module_definitions_perm|].
  apply in_somes. rewrite <- Hg. now apply in_map.
Qed.

(** the items of a module's file contain, contiguously and in order, what [build_item] gives for
    each definition of the module *)
Theorem module_file_items st m f p it :
  module_file st m = Ok f -> In p (m_defpaths m) -> reg_get (st_reg st) p = Some it ->
  exists pre its post,
    build_item (st_reg st) (S (List.length (reg_types (st_reg st)))) it = Ok its /\
    file_items f = Some (pre ++ its ++ post).
Proof.
  intros H Hp Hg. destruct (module_file_shape _ _ _ H) as (items & evs & Hitems & _ & ->).
  pose proof (module_definitions_in _ _ _ _ Hp Hg) as Hin.
  destruct (mapM_split _ _ _ _ Hitems Hin) as (o1 & its & o2 & Hb & ->).
  exists (SList [Atom "opaque"; Str (prologue_text m)] :: List.concat o1), its,
         (List.concat o2 ++ evs ++ [SList [Atom "opaque"; Str (epilogue_text m)]]).
  split; [exact Hb|]. unfold file_items. cbn [tagged String.eqb Ascii.eqb Bool.eqb app].
  rewrite concat_app. cbn [List.concat]. now rewrite <- !app_assoc.
Qed.
