(** * ReorderAtt (C20, part 2): one attempt reads a module only through its scope and its impl
    blocks, and the registry only as a map.

    Frame.v's [attempt_frame] asks the module tables of the two states to agree up to [mod_eq]
    (which includes [m_ast]).  Here the module tables agree up to [mod_weq] (same [module_scope],
    same [m_impls]) and the registries are equal as maps with the same pointer width ([ragree] for
    the trivial predicate).  Consequence: the abstract attempt functions [att] of OrderIndep.v for two
    input states related by [srel] coincide, and their item lists are permutations of each other. *)
From Coq Require Import List NArith ZArith Bool Lia String Permutation.
From PyxisModel Require Import Base Grammar SemTypes Registry Sem SemLemmas ScopeLemmas
     PlacementLemmas VftableLemmas TotalityLemmas EmitLemmas WholeBuild Monotone OrderIndep SortUnique
     EmitInvariance FinalState OutputIndep Frame Unrelated ReorderReg.
From PyxisModel Require Confluence.
Import ListNotations.
Local Open Scope string_scope.
Local Open Scope list_scope.

(** ** the trivial frame predicate *)
Definition PT : path -> Prop := fun _ => True.

Lemma tyP_all t : tyP PT t.
Proof. induction t; cbn [tyP]; auto; exact I. Qed.
Lemma rtyP_all r : rtyP PT r.
Proof. apply tyP_all. Qed.
Lemma Forall_rtyP_all l : Forall (rtyP PT) l.
Proof. apply Forall_forall. intros; apply rtyP_all. Qed.
Lemma Forall_rtyP_snd (l : list (option N * region)) : Forall (fun p => rtyP PT (snd p)) l.
Proof. apply Forall_forall. intros; apply rtyP_all. Qed.
Lemma namesP_all smods names : namesP PT smods names.
Proof. intros n _ ip _. exact I. Qed.
Lemma ragree_PT R R' : reg_ptr R = reg_ptr R' -> reg_same R R' -> ragree PT R R'.
Proof. intros Hp H. split; [exact Hp|]. intros c _. apply H. Qed.
Lemma ragree_PT_same R R' : ragree PT R R' -> reg_same R R'.
Proof. intros [_ H] p. apply H. exact I. Qed.

(** ** weak agreement of module tables at one key *)
Definition mod_weq (m m' : smodule) : Prop := module_scope m = module_scope m' /\ m_impls m = m_impls m'.
Definition wagree (k : path) (ms ms' : list (path * smodule)) : Prop :=
  match alookup k ms, alookup k ms' with
  | Some m, Some m' => mod_weq m m'
  | None, None => True
  | _, _ => False
  end.

Lemma mrel_weq m m' : mrel m m' -> mod_weq m m'.
Proof.
  intros (A & (B & _) & C & _). split; [|exact C]. unfold module_scope. now rewrite A, B.
Qed.

Lemma mods_srel_wagree ms ms' k : mods_srel ms ms' -> wagree k ms ms'.
Proof.
  intros H. pose proof (mods_srel_lookup _ _ k H) as Hl. unfold wagree.
  destruct (alookup k ms), (alookup k ms'); auto. now apply mrel_weq.
Qed.

Lemma add_item_w st st' it :
  ragree PT (st_reg st) (st_reg st') ->
  (forall parent, path_parent (it_path it) = Some parent -> wagree parent (st_modules st) (st_modules st')) ->
  match add_item st it, add_item st' it with
  | Ok s1, Ok s1' => ragree PT (st_reg s1) (st_reg s1')
  | Err m, Err m' => m = m'
  | _, _ => False
  end.
Proof.
  intros Ha Hm. unfold add_item. destruct (path_parent (it_path it)) as [parent|]; [|reflexivity].
  specialize (Hm parent eq_refl). unfold wagree in Hm.
  destruct (alookup parent (st_modules st)) as [m|], (alookup parent (st_modules st')) as [m'|];
    try contradiction; [|reflexivity].
  cbn [st_reg]. now apply ragree_add.
Qed.

Lemma vftable_build_w st st' owner v fb vfs :
  ragree PT (st_reg st) (st_reg st') ->
  (forall parent, path_parent owner = Some parent -> wagree parent (st_modules st) (st_modules st')) ->
  vb_rel PT (vftable_build st owner v fb vfs) (vftable_build st' owner v fb vfs).
Proof.
  intros Ha Hm. assert (forall b, fb = Some b -> rtyP PT b) as Hfb by (intros; apply rtyP_all).
  unfold vftable_build. destruct vfs as [fs|].
  - assert (vftable_item (st_reg st') owner v fs = vftable_item (st_reg st) owner v fs) as ->.
    { unfold vftable_item. destruct Ha as [Hp _]. now rewrite Hp. }
    destruct (vftable_item (st_reg st) owner v fs) as [vit|] eqn:Ei.
    2:{ cbn [vb_rel]. auto. }
    destruct (vftable_item_facts _ _ _ _ _ Ei) as (Hvp & _).
    pose proof (add_item_w st st' vit Ha) as Hadd.
    rewrite (vftable_path_parent _ _ Hvp) in Hadd. specialize (Hadd Hm).
    destruct (add_item st vit) as [s1| |m|m], (add_item st' vit) as [s1'| |m'|m']; try contradiction;
      cbn [bind vb_rel]; [|exact Hadd].
    rewrite (opt_rnv_frame PT _ _ fb Hadd Hfb).
    destruct (opt_region_name_and_vftable (st_reg s1') fb) as [[[bn bv]|]| | |]; cbn [bind vb_rel]; auto.
    destruct (_ <? _)%nat; [reflexivity|]. destruct (negb _); [reflexivity|]. cbn [vb_rel]. auto.
  - rewrite (opt_rnv_frame PT _ _ fb Ha Hfb).
    destruct (opt_region_name_and_vftable (st_reg st') fb) as [[[bn bv]|]| | |]; cbn [bind vb_rel]; auto.
Qed.

Lemma resolve_regions_w st st' owner v ts pending vfs :
  ragree PT (st_reg st) (st_reg st') ->
  (forall parent, path_parent owner = Some parent -> wagree parent (st_modules st) (st_modules st')) ->
  rr_rel PT (resolve_regions st owner v ts pending vfs) (resolve_regions st' owner v ts pending vfs).
Proof.
  intros Ha Hm. unfold resolve_regions.
  set (fb := find r_is_base (map snd pending)).
  assert (forall b, fb = Some b -> rtyP PT b) as Hfb by (intros; apply rtyP_all).
  rewrite (fbu_frame PT _ _ fb Ha Hfb).
  destruct (first_base_unresolved (st_reg st') fb); [exact I|].
  pose proof (vftable_build_w st st' owner v fb vfs Ha Hm) as Hvb.
  destruct (vftable_build st owner v fb vfs) as [[[s1 vt] vr]| |m|m] eqn:Ev,
           (vftable_build st' owner v fb vfs) as [[[s1' vt'] vr']| |m'|m'] eqn:Ev';
    cbn [vb_rel] in Hvb; try contradiction; cbn [bind rr_rel]; try exact Hvb.
  destruct Hvb as (<- & <- & Hag). set (R := st_reg s1). set (R' := st_reg s1'). fold R R' in Hag.
  assert (match vr with Some vr0 => defer_opt (regions_push R ([], 0%N) vr0) | None => Ok ([], 0%N) end =
          match vr with Some vr0 => defer_opt (regions_push R' ([], 0%N) vr0) | None => Ok ([], 0%N) end) as ->.
  { destruct vr as [vr0|]; [|reflexivity].
    now rewrite (regions_push_frame PT R R' _ _ Hag (rtyP_all _)). }
  destruct (match vr with Some vr0 => defer_opt (regions_push R' ([], 0%N) vr0) | None => Ok ([], 0%N) end)
    as [acc0| |m|m] eqn:E0; cbn [bind rr_rel]; try exact I; try reflexivity.
  assert (foldM (push_pending R) pending acc0 = foldM (push_pending R') pending acc0) as ->.
  { apply foldM_ext_in. intros p s Hin. apply (push_pending_frame PT I); [exact Hag | apply rtyP_all]. }
  destruct (foldM (push_pending R') pending acc0) as [acc1| |m|m] eqn:E1; cbn [bind rr_rel];
    try exact I; try reflexivity.
  assert (match ts with
          | Some t => if (snd acc1 <? t)%N
                      then defer_opt (regions_push R acc1 (unnamed_region (padding_type (t - snd acc1))))
                      else Ok acc1
          | None => Ok acc1 end =
          match ts with
          | Some t => if (snd acc1 <? t)%N
                      then defer_opt (regions_push R' acc1 (unnamed_region (padding_type (t - snd acc1))))
                      else Ok acc1
          | None => Ok acc1 end) as ->.
  { destruct ts as [t|]; [|reflexivity]. destruct (snd acc1 <? t)%N; [|reflexivity].
    now rewrite (regions_push_frame PT R R' acc1 _ Hag (rtyP_all _)). }
  destruct (match ts with
            | Some t => if (snd acc1 <? t)%N
                        then defer_opt (regions_push R' acc1 (unnamed_region (padding_type (t - snd acc1))))
                        else Ok acc1
            | None => Ok acc1 end) as [acc2| |m|m] eqn:E2; cbn [bind rr_rel]; try exact I; try reflexivity.
  rewrite (name_regions_frame PT R R' Hag _ _ (Forall_rtyP_all _)).
  destruct (name_regions R' (fst acc2) 0%N) as [[nrs nsz]| |m|m] eqn:E3; cbn [bind rr_rel fst snd];
    try exact I; try reflexivity.
  destruct ts as [t|].
  - destruct (negb (nsz =? t)%N); cbn [rr_rel]; [reflexivity|].
    split; [reflexivity|]. split; [reflexivity|]. split; [reflexivity|]. split; [exact Hag | apply Forall_rtyP_all].
  - cbn [rr_rel].
    split; [reflexivity|]. split; [reflexivity|]. split; [reflexivity|]. split; [exact Hag | apply Forall_rtyP_all].
Qed.

Lemma type_build_w st st' p v d :
  ragree PT (st_reg st) (st_reg st') ->
  (forall parent, path_parent p = Some parent -> wagree parent (st_modules st) (st_modules st')) ->
  (forall parent m vp, path_parent p = Some parent -> alookup parent (st_modules st) = Some m ->
     vftable_path p = Some vp -> ~ In vp (module_scope m)) ->
  snd (type_build st p v d) = snd (type_build st' p v d).
Proof.
  intros Hag Hm Hlk. unfold type_build.
  destruct (path_parent p) as [parent|] eqn:Epar; [|reflexivity].
  pose proof (Hm parent eq_refl) as Hmp. unfold wagree in Hmp. specialize (Hlk parent).
  destruct (alookup parent (st_modules st)) as [m|] eqn:Em, (alookup parent (st_modules st')) as [m'|] eqn:Em';
    try contradiction; [|reflexivity].
  destruct Hmp as (Hsc & Hmimpls). specialize (Hlk m).
  rewrite <- Hsc, <- Hmimpls.
  set (scope := module_scope m) in *. set (smods := scope_mods (st_reg st) scope) in *.
  assert (forall c, In c scope -> PT c) as Hscope by (intros; exact I).
  assert (sm_ok scope smods (st_reg st)) as Hsm by reflexivity.
  rewrite <- (process_statements_frame PT scope smods Hscope (st_reg st) (st_reg st') _ _ Hag Hsm (namesP_all _ _)).
  set (pre := bind (attrs_doc (gt_attrs d)) _).
  destruct pre as [[[doc ta] [pending vfs]]| | |] eqn:Epre; try reflexivity.
  rewrite <- Epar in Hm.
  pose proof (resolve_regions_w st st' p v (ta_size ta) pending vfs Hag Hm) as Hrr.
  destruct (resolve_regions st p v (ta_size ta) pending vfs) as [[[[s1 regions] vt] size]| |m1|m1] eqn:E1,
           (resolve_regions st' p v (ta_size ta) pending vfs) as [[[[s1' regions'] vt'] size']| |m1'|m1'] eqn:E1';
    cbn [rr_rel] in Hrr; try contradiction; cbn [snd]; try reflexivity; try (now subst).
  destruct Hrr as (<- & <- & <- & Hag1 & Hreg).
  assert (sm_ok scope smods (st_reg s1)) as Hsm1.
  { unfold sm_ok, smods, scope_mods. apply filter_ext_in. intros c Hc. f_equal.
    eapply resolve_regions_has; [exact E1|]. intros E. apply (Hlk c eq_refl eq_refl E Hc). }
  rewrite (inject_bases_frame PT _ _ Hag1) by apply Forall_rtyP_all.
  destruct (inject_bases (st_reg s1') _ _ _) as [acc1| | |]; cbn [bind]; try reflexivity.
  assert (match alookup p (m_impls m) with
          | Some blk => foldM (add_impl_function (st_reg s1) scope) (gb_fns blk) acc1
          | None => Ok acc1 end =
          match alookup p (m_impls m) with
          | Some blk => foldM (add_impl_function (st_reg s1') scope) (gb_fns blk) acc1
          | None => Ok acc1 end) as ->.
  { destruct (alookup p (m_impls m)) as [blk|]; [|reflexivity].
    apply foldM_ext_in. intros f acc Hin. unfold add_impl_function.
    now rewrite (function_build_frame PT scope smods Hscope _ _ false f Hag1 Hsm1 (namesP_all _ _)). }
  destruct (match alookup p (m_impls m) with Some _ => _ | None => _ end) as [acc2| | |]; cbn [bind]; try reflexivity.
  rewrite (check_defaultable_fold_frame PT _ _ Hag1 _ _ Hreg).
  destruct (if ta_defaultable ta then _ else _) as [[]| | |]; cbn [bind]; try reflexivity.
  now rewrite (compute_alignment_frame PT _ _ _ _ _ Hag1 Hreg).
Qed.

Lemma enum_build_w st st' p d :
  ragree PT (st_reg st) (st_reg st') ->
  (forall parent, path_parent p = Some parent -> wagree parent (st_modules st) (st_modules st')) ->
  enum_build st p d = enum_build st' p d.
Proof.
  intros Hag Hm. unfold enum_build.
  destruct (path_parent p) as [parent|] eqn:Epar; [|reflexivity].
  pose proof (Hm parent eq_refl) as Hmp. unfold wagree in Hmp.
  destruct (alookup parent (st_modules st)) as [m|] eqn:Em, (alookup parent (st_modules st')) as [m'|] eqn:Em';
    try contradiction; [|reflexivity].
  destruct Hmp as (Hsc & _). rewrite <- Hsc.
  set (scope := module_scope m) in *. set (smods := scope_mods (st_reg st) scope) in *.
  assert (forall c, In c scope -> PT c) as Hscope by (intros; exact I).
  assert (sm_ok scope smods (st_reg st)) as Hsm by reflexivity.
  rewrite <- (resolve_gtype_frame PT scope smods Hscope _ _ Hag Hsm _ (namesP_all _ _)).
  destruct (resolve_gtype (st_reg st) scope (ged_type d)) as [ty|] eqn:Et; [|reflexivity].
  now rewrite <- (size_frame PT _ _ Hag _ (tyP_all _)), <- (align_frame PT _ _ Hag _ (tyP_all _)).
Qed.

(** the outcome of one attempt depends on the registry as a map, its pointer width, and the scope
    and impl blocks of the item's module *)
Theorem attempt_w st st' p gd :
  ragree PT (st_reg st) (st_reg st') ->
  (forall parent, path_parent p = Some parent -> wagree parent (st_modules st) (st_modules st')) ->
  (forall parent m vp, path_parent p = Some parent -> alookup parent (st_modules st) = Some m ->
     vftable_path p = Some vp -> ~ In vp (module_scope m)) ->
  snd (attempt st p gd) = snd (attempt st' p gd).
Proof.
  intros Hag Hm Hlk. unfold attempt. destruct (gi_inner gd) as [td|ed].
  - apply type_build_w; assumption.
  - cbn [snd]. apply enum_build_w; assumption.
Qed.

(** ** two input states related by [srel] *)
Lemma reg_same_keys_perm R R' :
  NoDup (map fst (reg_types R)) -> NoDup (map fst (reg_types R')) -> reg_same R R' ->
  Permutation (map fst (reg_types R)) (map fst (reg_types R')).
Proof.
  intros H1 H2 H. apply NoDup_Permutation; auto. intros k. rewrite <- !alookup_some_in_keys.
  fold (reg_get R k). fold (reg_get R' k). now rewrite H.
Qed.

Lemma in_reg_types_get R k it : NoDup (map fst (reg_types R)) ->
  In (k, it) (reg_types R) <-> reg_get R k = Some it.
Proof.
  intros HN. split.
  - now apply alookup_of_in.
  - intros H. unfold reg_get in H. destruct (alookup_in _ _ _ H) as (k' & Hin & ->). exact Hin.
Qed.

Lemma reg_unresolved_nodup R : NoDup (map fst (reg_types R)) -> NoDup (reg_unresolved R).
Proof.
  unfold reg_unresolved. generalize (fun kv : path * item => negb (item_is_predefined (snd kv)) && negb (item_is_resolved (snd kv))).
  intros f. induction (reg_types R) as [|[k it] l IH]; cbn [map filter fst]; intros H; [constructor|].
  inversion H as [|? ? Hn Hd]; subst. destruct (f (k, it)); cbn [map fst]; [|auto].
  constructor; [|auto]. intros Hin. apply Hn. apply in_map_iff in Hin as (kv & E & Hin).
  apply filter_In in Hin as [Hin _]. apply in_map_iff. eauto.
Qed.

Lemma in_reg_unresolved_iff R k : NoDup (map fst (reg_types R)) ->
  In k (reg_unresolved R) <->
  exists it, reg_get R k = Some it /\ item_is_predefined it = false /\ item_is_resolved it = false.
Proof.
  intros HN. unfold reg_unresolved. rewrite in_map_iff. split.
  - intros ([k' it] & E & Hin). cbn [fst] in E. subst k'. apply filter_In in Hin as [Hin Hf].
    cbn [snd] in Hf. apply andb_prop in Hf as [Hp Hr]. exists it.
    split; [now apply in_reg_types_get|]. split; now apply negb_true_iff.
  - intros (it & Hg & Hp & Hr). exists (k, it). split; [reflexivity|]. apply filter_In.
    split; [now apply in_reg_types_get|]. cbn [snd]. now rewrite Hp, Hr.
Qed.

Section TwoInputs.
  Variable st0 st0' : sstate.
  Let R0 := st_reg st0.
  Let R0' := st_reg st0'.
  Hypothesis HS : srel st0 st0'.
  Hypothesis HND : NoDup (map fst (reg_types R0)).
  Hypothesis HND' : NoDup (map fst (reg_types R0')).

  Lemma srel_reg_same : reg_same R0 R0'.
  Proof. apply HS. Qed.
  Lemma srel_ptr : reg_ptr R0 = reg_ptr R0'.
  Proof. apply HS. Qed.

  Lemma srel_items_iff k : In k (items st0) <-> In k (items st0').
  Proof.
    unfold items. fold R0 R0'. rewrite !in_reg_unresolved_iff by assumption.
    split; intros (it & Hg & H); exists it; (split; [|exact H]); [rewrite <- srel_reg_same | rewrite srel_reg_same]; exact Hg.
  Qed.

  Lemma srel_items_perm : Permutation (items st0) (items st0').
  Proof.
    apply NoDup_Permutation; [now apply reg_unresolved_nodup | now apply reg_unresolved_nodup | apply srel_items_iff].
  Qed.

  Lemma srel_collision_free : collision_free R0 -> collision_free R0'.
  Proof.
    intros H owner vp Ho Hvp. rewrite <- (srel_reg_same vp).
    apply (H owner vp); [rewrite (srel_reg_same owner); exact Ho | exact Hvp].
  Qed.

  Lemma srel_clean_module m m' : mrel m m' -> clean_module m = clean_module m'.
  Proof.
    intros Hm. pose proof (mrel_weq _ _ Hm) as [Hsc Hi]. destruct Hm as (_ & _ & _ & He & _).
    unfold clean_module. now rewrite Hsc, Hi, He.
  Qed.

  Lemma srel_clean_stateb : clean_stateb st0 = true -> clean_stateb st0' = true.
  Proof.
    unfold clean_stateb. intros H. apply andb_prop in H as [H1 H2]. apply andb_true_intro. split.
    - destruct HS as (_ & _ & HM). clear - HM H1. induction HM as [|km km' l l' [_ Hm] _ IH]; [reflexivity|].
      cbn [forallb] in *. apply andb_prop in H1 as [Ha Hb]. rewrite <- (srel_clean_module _ _ Hm), Ha. now apply IH.
    - rewrite forallb_forall in *. intros [k it] Hin. fold R0' in Hin.
      apply (in_reg_types_get R0' k it HND') in Hin. rewrite <- srel_reg_same in Hin.
      apply (in_reg_types_get R0 k it HND) in Hin. apply (H2 _ Hin).
  Qed.

  (** marking the same abstract state in the two input registries gives the same map *)
  Lemma mark_same A : reg_same (mark R0 A) (mark R0' A).
  Proof. intros p. rewrite !reg_get_mark. now rewrite srel_reg_same. Qed.

  Lemma mark_ragree_PT A : ragree PT (mark R0 A) (mark R0' A).
  Proof. apply ragree_PT; [exact srel_ptr | apply mark_same]. Qed.

  Hypothesis Hclean_mods : forall km, In km (st_modules st0) -> clean_module (snd km) = true.

  (** the abstract attempt functions of the two inputs coincide *)
  Theorem att_reordered A k : att st0 A k = att st0' A k.
  Proof.
    unfold att. fold R0 R0'. rewrite <- srel_reg_same.
    destruct (reg_get R0 k) as [it|]; [|reflexivity]. destruct (it_state it) as [gd|r]; [|reflexivity].
    f_equal. apply attempt_w; cbn [conc st_reg st_modules]; fold R0 R0'.
    - apply mark_ragree_PT.
    - intros parent _. apply mods_srel_wagree. apply HS.
    - intros parent m vp _ Hm Hvp Hin.
      pose proof (clean_mods_lookup st0 Hclean_mods _ _ Hm) as Hc. unfold clean_module in Hc.
      apply andb_prop in Hc as [Hc _]. apply andb_prop in Hc as [Hc _]. rewrite forallb_forall in Hc.
      specialize (Hc _ Hin). rewrite (gen_path_not_clean _ _ Hvp) in Hc. discriminate.
  Qed.
End TwoInputs.
