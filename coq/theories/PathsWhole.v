(** * PathsWhole: C13, first clause, on the EMITTED TEXT of the whole build.

    "The emitted files form a Rust crate in which every path mentioned resolves to an emitted item,
    a built-in or a declared extern type."

    For an accepted, [collision_free] build of an input [mods] with pairwise distinct module paths
    and a successful run of the back end ([write_all st = Ok files]) -- the hypotheses of
    [FilesWhole.files_whole] --

    1. [final_path_class]: every entry [p] of the FINAL registry is, by its category,
       - [Predefined]: [p = [n]] with [n] a name of [Sem.predefined_types];
       - [Extern]: [p = k ++ [name]] for an [extern type name] declared by the input module [k];
       - [Defined]: [p = k ++ [name]] with [(kind, name)] among [module_decls gm] of the input
         module [(k, gm)] -- a declared struct / enum or the generated [<T>Vftable] of a declared
         type with a vftable block.
    2. [path_ok mods files p] (the property of the clause), and [has_path_ok]: every entry of the
       final registry other than [void] is [path_ok].
    3. MAIN THEOREMS, on the text read back with the readers (EmitReaders / EmitFnReaders /
       EmitPaths.type_paths):
       - [C13_struct_field_paths]: EVERY struct item of EVERY written file: every path mentioned by
         the type tokens of every field is [path_ok].  This covers the generated [<T>Vftable]
         structs, i.e. the parameter and return types of every function-pointer slot (and their
         [this : *const/*mut Owner]).
       - [C13_enum_repr_paths]: EVERY enum item of every written file: its [repr] type.
       - [C13_wrapper_paths], [C13_accessor_paths]: the parameter and return types of every wrapper
         function / of the [vftable()] accessor emitted for a final struct item (stated for any
         S-expression with [wrapper_shape] / [accessor_shape]; EmitFnShape/EmitFnFinal show that
         these are the functions of the type's inherent impl in the file).
       - [C13_extern_value_paths]: the type in the accessor of every extern value of every final
         module ([extern_shape]: return type and cast target).
       - [C13_conversion_target_paths]: the target type [T] of every [AsRef<T>]/[AsMut<T>] pair of
         the hierarchy part ([ConvShape.base_impls]: [type_tokens (snd x)] for the entries [x] of
         THE hierarchy [HierSpec.bases_of]).
       See NOTES for what is NOT covered (bare [Self]/own-name positions, opaque text, bodies). *)
From Coq Require Import List NArith ZArith Bool Lia String Ascii Permutation.
From PyxisModel Require Import Base Sexp Grammar SemTypes Registry Sem SemLemmas FunctionLemmas
     ScopeLemmas PlacementLemmas TotalityLemmas RustExec Emit EmitLemmas WholeBuild Monotone OrderIndep
     EmitInvariance FinalState OutputIndep EmitReaders EmitShape EmitFinal EmitFind EmitFnReaders EmitFnShape
     EmitFnFinal FilesInput FilesRead FilesWhole UnrelatedFilesLift HierSpec NoPanicBase EmitPaths PathsClosed.
Import ListNotations.
Local Open Scope string_scope.
Local Open Scope list_scope.

(** ** A. where the items of an input state come from *)
Definition origin (mods : list (path * gmodule)) (p : path) (it : item) : Prop :=
  (exists ns, In ns predefined_types /\ p = [fst ns] /\ it = predefined_item ns) \/
  (exists k gm d, In (k, gm) mods /\ In d (gm_defs gm) /\ p = path_join k (gi_name d) /\ it = def_item k d) \/
  (exists k gm e, In (k, gm) mods /\ In e (gm_extern_types gm) /\ p = path_join k (fst e) /\
                  it_cat it = Extern /\ item_is_resolved it = true).
Definition origin_ok (mods : list (path * gmodule)) (R : registry) : Prop :=
  forall p it, reg_get R p = Some it -> origin mods p it.

Lemma origin_add mods R it :
  origin_ok mods R -> origin mods (it_path it) it -> origin_ok mods (reg_add R it).
Proof.
  intros HO Hit p it' Hg. destruct (path_eqb_spec (it_path it) p) as [<-|Hne].
  - rewrite reg_get_add_same in Hg. now inversion Hg; subst.
  - rewrite reg_get_add_other in Hg by exact Hne. auto.
Qed.

Lemma sem_new_origin mods ptr st : sem_new ptr = Ok st -> origin_ok mods (st_reg st).
Proof.
  unfold sem_new. intros H.
  refine (foldM_inv_in (fun s => origin_ok mods (st_reg s)) _ predefined_types _ _ _ _ H).
  - intros s ns s' Hin Hs Hadd. rewrite (add_item_reg _ _ _ Hadd). apply origin_add; [exact Hs|].
    left. exists ns. split; [exact Hin|]. split; reflexivity.
  - intros p it Hg. discriminate.
Qed.

Lemma add_module_origin mods st k gm st' :
  In (k, gm) mods -> origin_ok mods (st_reg st) -> add_module st k gm = Ok st' -> origin_ok mods (st_reg st').
Proof.
  unfold add_module. intros Hin HO H. inv_bind H. inv_bind H. inv_bind H.
  refine (foldM_inv_in (fun s => origin_ok mods (st_reg s)) _ (gm_extern_types gm) _ _ _ _ H).
  - intros s e s' He Hs Hadd. unfold add_extern_type in Hadd. inv_bind Hadd.
    destruct a2 as [[size|] [al|]]; try discriminate.
    destruct (reg_has _ _); [discriminate|]. rewrite (add_item_reg _ _ _ Hadd). apply origin_add; [exact Hs|].
    right; right. exists k, gm, e. cbn [it_path it_cat]. repeat split; auto.
  - refine (foldM_inv_in (fun s => origin_ok mods (st_reg s)) _ (gm_defs gm) _ _ _ _ Ha1); [|exact HO].
    intros s d s' Hd Hs Hadd. unfold add_definition in Hadd. destruct (reg_has _ _); [discriminate|].
    rewrite (add_item_reg _ _ _ Hadd). apply origin_add; [exact Hs|].
    right; left. exists k, gm, d. cbn [it_path]. repeat split; auto.
Qed.

Theorem input_state_origin ptr mods st0 : input_state ptr mods = Ok st0 -> origin_ok mods (st_reg st0).
Proof.
  unfold input_state. intros H. inv_bind H.
  refine (foldM_inv_in (fun s => origin_ok mods (st_reg s)) _ mods _ _ _ _ H).
  - intros s [k gm] s' Hin Hs Hadd. cbn [fst snd] in Hadd. eapply add_module_origin; eauto.
  - eapply sem_new_origin; eauto.
Qed.

(** ** B. the entries of the final registry, by category *)
Definition path_class (mods : list (path * gmodule)) (p : path) (it : item) : Prop :=
  (it_cat it = Predefined /\ exists ns, In ns predefined_types /\ p = [fst ns]) \/
  (it_cat it = Extern /\ exists k gm e, In (k, gm) mods /\ In e (gm_extern_types gm) /\ p = path_join k (fst e)) \/
  (it_cat it = Defined /\ exists k gm kind name,
      In (k, gm) mods /\ p = path_join k name /\ In (kind, name) (module_decls gm)).

Lemma def_decls_in gm d : In d (gm_defs gm) -> In (def_kind d, gi_name d) (module_decls gm).
Proof. intros Hd. unfold module_decls. apply in_flat_map. exists d. split; [exact Hd | now left]. Qed.

Lemma vft_decls_in gm d : In d (gm_defs gm) -> def_has_vftable d = true ->
  In ("struct", vftable_name (gi_name d)) (module_decls gm).
Proof.
  intros Hd Hv. unfold module_decls. apply in_flat_map. exists d. split; [exact Hd|].
  unfold def_decls. rewrite Hv. right. now left.
Qed.

Section Accepted.
  Variables (order : schedule) (ptr : N) (mods : list (path * gmodule)) (st0 st : sstate).
  Hypothesis Hin : input_state ptr mods = Ok st0.
  Hypothesis HN : NoDup (map fst mods).
  Hypothesis Hcf : collision_free (st_reg st0).
  Hypothesis Hord : keeps_work order.
  Hypothesis Hres : pyxis_resolve order ptr mods = BOk st.

  Theorem final_path_class p it : reg_get (st_reg st) p = Some it -> path_class mods p it.
  Proof.
    intros Hg. destruct (final_modules order ptr mods st0 st Hin Hcf Hres) as (HK & [_ HI] & HM & _).
    pose proof (input_state_origin _ _ _ Hin) as HO.
    destruct (reg_get (st_reg st0) p) as [it0|] eqn:Hg0.
    - destruct (HM _ _ Hg0) as (it' & Hg' & _ & _ & Hc & _). rewrite Hg in Hg'. inversion Hg'; subst it'.
      destruct (HO _ _ Hg0) as [(ns & Hns & -> & ->)|[(k & gm & d & Hkm & Hd & -> & ->)|(k & gm & e & Hkm & He & -> & Hce & _)]].
      + left. split; [rewrite Hc; reflexivity | eauto].
      + right; right. split; [rewrite Hc; reflexivity|]. exists k, gm, (def_kind d), (gi_name d).
        split; [exact Hkm|]. split; [reflexivity | now apply def_decls_in].
      + right; left. split; [congruence | eauto 6].
    - specialize (HI _ _ Hg). rewrite Hg0 in HI.
      destruct HI as (owner & it0 & gd & td & n & rs & Ho0 & Hs0 & Hty & Hvp & Hlen & _).
      destruct (HO _ _ Ho0) as [(ns & _ & _ & ->)|[(k & gm & d & Hkm & Hd & -> & ->)|(k & gm & e & _ & _ & _ & _ & Hr)]].
      + discriminate.
      + cbn [def_item it_state] in Hs0. inversion Hs0; subst gd. rewrite vftable_path_join in Hvp.
        inversion Hvp; subst p; clear Hvp.
        assert (def_has_vftable d = true) as Hv.
        { unfold def_has_vftable. rewrite Hty. eapply vft_len_declares; eauto. }
        destruct (input_module_facts _ _ _ _ _ Hin HN Hkm) as (m0 & Hreg).
        destruct (vftable_final order ptr mods st0 st Hin HN Hcf Hord Hres k gm m0 Hreg d Hd Hv) as (vit & Hgv & Hdecl & _).
        rewrite Hg in Hgv. inversion Hgv; subst vit.
        right; right. split.
        * unfold item_decl in Hdecl. destruct (it_cat it); [reflexivity | discriminate | discriminate].
        * exists k, gm, "struct", (vftable_name (gi_name d)). split; [exact Hkm|]. split; [reflexivity|].
          now apply vft_decls_in.
      + unfold item_is_resolved in Hr. rewrite Hs0 in Hr. discriminate.
  Qed.

  (** ** C. the property *)
  Variable files : list (string * sexp).
  Hypothesis Hw : write_all st = Ok files.

  (** the names of [Sem.predefined_types] other than [void], which is never written as a path *)
  Definition rust_builtins : list string :=
    ["bool"; "u8"; "u16"; "u32"; "u64"; "u128"; "i8"; "i16"; "i32"; "i64"; "i128"; "f32"; "f64"].

  (** [p], as written in an emitted file, resolves:
      - to a Rust built-in type, or
      - to an extern type declared by a module of the input, or
      - to a struct / enum item named [name] that the file [out_path k] of its parent module [k]
        contains ([file_decls] reads the (kind, name) pairs of the struct and enum items of a file;
        [file_ok gm f]: [f] is the file of the input module [gm]), or
      - (no file is written for the root module [[]]) to a declaration of an input module of path
        [[]]: a one-segment path, written bare. *)
  Definition path_ok (p : path) : Prop :=
    (exists n, p = [n] /\ In n rust_builtins) \/
    (exists k gm e, In (k, gm) mods /\ In e (gm_extern_types gm) /\ p = path_join k (fst e)) \/
    (exists k gm f kind name, In (k, gm) mods /\ k <> [] /\ p = path_join k name /\
        In (out_path k, f) files /\ file_ok gm f /\ In (kind, name) (file_decls f)) \/
    (exists gm kind name, In ([], gm) mods /\ p = [name] /\ In (kind, name) (module_decls gm)).

  Lemma predefined_builtin ns : In ns predefined_types -> is_void [fst ns] = false -> In (fst ns) rust_builtins.
  Proof.
    intros H Hv. unfold predefined_types in H. cbn [In] in H.
    repeat (destruct H as [<-|H]; [first [discriminate Hv | (cbn [fst rust_builtins In]; tauto)]|]).
    destruct H.
  Qed.

  Theorem has_path_ok p : has (st_reg st) p -> is_void p = false -> path_ok p.
  Proof.
    intros Hh Hv. unfold has, reg_has, amem in Hh. fold (reg_get (st_reg st) p) in Hh.
    destruct (reg_get (st_reg st) p) as [it|] eqn:Hg; [|discriminate].
    destruct (final_path_class _ _ Hg) as [(_ & ns & Hns & ->)|[(_ & k & gm & e & H1 & H2 & ->)|(_ & k & gm & kind & name & Hkm & -> & Hd)]].
    - left. exists (fst ns). split; [reflexivity | now apply predefined_builtin].
    - right; left. eauto 6.
    - destruct k as [|k0 k].
      + right; right; right. exists gm, kind, name. auto.
      + right; right; left.
        destruct (files_for_module order ptr mods st0 st files Hin HN Hcf Hord Hres Hw (k0 :: k) gm Hkm ltac:(discriminate))
          as (f & Hf & Hok).
        exists (k0 :: k), gm, f, kind, name. split; [exact Hkm|]. split; [discriminate|]. split; [reflexivity|].
        split; [exact Hf|]. split; [exact Hok|].
        eapply Permutation_in; [apply Permutation_sym, (fo_decls _ _ Hok) | exact Hd].
  Qed.

  Lemma closed_paths_ok t p : ty_closed (st_reg st) t -> In p (printed_paths t) -> path_ok p.
  Proof.
    intros Hc Hp. apply printed_paths_in in Hp as [Hp Hv]. unfold ty_closed in Hc. rewrite Forall_forall in Hc.
    apply has_path_ok; auto.
  Qed.

  (** the tokens of a closed, accepted type *)
  Lemma type_tokens_paths_ok t p :
    ty_closed (st_reg st) t -> stype_ok t = true -> In p (type_paths (type_tokens t)) -> path_ok p.
  Proof. intros Hc Hok Hp. rewrite (type_paths_type_tokens _ Hok) in Hp. eapply closed_paths_ok; eauto. Qed.

  (** ** D. the items of a written file come from the items of its module *)
  Lemma written_file_module name f :
    In (name, f) files -> exists k m, In (k, m) (st_modules st) /\ k <> [] /\ name = out_path k /\ module_file st m = Ok f.
  Proof.
    intros Hf. destruct (write_all_struct _ _ Hw) as (fs & Hperm & F).
    eapply Permutation_in in Hf; [|exact Hperm]. apply in_map_iff in Hf as ([k f'] & E & Hkf).
    unfold file_of in E. cbn [fst snd] in E. inversion E; subst name f'. clear E.
    destruct (Forall2_in_l _ _ _ _ F Hkf) as ([k' m] & Hm & Hk & Hfile). cbn [fst snd] in *. subst k'.
    apply filter_In in Hm as [Hm Hnr]. exists k, m. split; [exact Hm|]. split; [|split; [reflexivity | exact Hfile]].
    unfold nonroot_mod in Hnr. cbn [fst] in Hnr. destruct k; [discriminate | discriminate].
  Qed.

  Lemma file_item_origin m f items e :
    module_file st m = Ok f -> file_items f = Some items -> In e items ->
    item_kind e = Some "opaque" \/
    (exists it its, In it (module_definitions (st_reg st) m) /\
                    build_item (st_reg st) (S (List.length (reg_types (st_reg st)))) it = Ok its /\ In e its) \/
    (exists ev, In ev (m_extern_values m) /\ build_extern_value ev = Ok e).
  Proof.
    intros H Hi He. destruct (module_file_shape _ _ _ H) as (its & evs & Hits & Hevs & ->).
    unfold file_items in Hi. cbn [tagged String.eqb Ascii.eqb Bool.eqb app] in Hi. inversion Hi; subst items; clear Hi.
    destruct He as [<-|He]; [now left|]. apply in_app_or in He as [He|He].
    - right; left. apply in_concat in He as (its1 & Hits1 & He).
      destruct (mapM_in_out _ _ _ Hits _ Hits1) as (it & Hit & Hb). eauto.
    - apply in_app_or in He as [He|[<-|[]]]; [|now left].
      right; right. destruct (mapM_in_out _ _ _ Hevs _ He) as (ev & Hev & Hb).
      exists ev. split; [|exact Hb]. eapply Permutation_in; [apply Permutation_sym, sort_perm | exact Hev].
  Qed.

  Lemma size_check_kind name size cs c : size_check_shape name size cs -> In c cs -> item_kind c = Some "fn".
  Proof. intros [[_ ->]|(_ & c' & -> & Hk & _)] Hc; [destruct Hc | destruct Hc as [<-|[]]; exact Hk]. Qed.

  Lemma build_extern_value_fn ev e : build_extern_value ev = Ok e -> item_kind e = Some "fn".
  Proof. apply build_extern_value_kind. Qed.

  (** a struct item of a written file is THE struct of a [Defined] struct item of the registry *)
  Lemma file_struct_origin m f items s :
    module_file st m = Ok f -> file_items f = Some items -> In s items -> item_kind s = Some "struct" ->
    exists q it rs td name its,
      In q (m_defpaths m) /\ reg_get (st_reg st) q = Some it /\ item_resolved it = Some rs /\ it_cat it = Defined /\
      rs_inner rs = IType td /\
      build_item (st_reg st) (S (List.length (reg_types (st_reg st)))) it = Ok its /\
      struct_shape name (rs_align rs) (it_vis it) td s /\
      In it (module_definitions (st_reg st) m) /\ exists more, its = s :: more.
  Proof.
    intros H Hi Hs Hk.
    destruct (file_item_origin _ _ _ _ H Hi Hs) as [Ho|[(it & its & Hit & Hb & Hmem)|(ev & _ & Hb)]].
    - congruence.
    - destruct (module_definitions_from _ _ _ Hit) as (q & Hq & Hg). pose proof Hb as Hb0.
      unfold build_item in Hb. destruct (item_resolved it) as [rs|] eqn:Er; [|discriminate].
      destruct (it_cat it) eqn:Ec; try (inversion Hb; subst its; destruct Hmem).
      destruct (rs_inner rs) as [td|ed] eqn:Ei.
      + destruct (build_item_struct_shape _ _ _ _ _ _ Er Ec Ei Hb0) as (name & s' & checks & rest & _ & -> & Hsh & Hck & Hrest).
        destruct Hmem as [<-|Hmem]; [exists q, it, rs, td, name, (s' :: checks ++ rest); eauto 12|]. exfalso.
        apply in_app_or in Hmem as [Hmem|Hmem].
        * pose proof (size_check_kind _ _ _ _ Hck Hmem). congruence.
        * rewrite Forall_forall in Hrest. destruct (Hrest _ Hmem); congruence.
      + exfalso. destruct (build_item_enum_shape _ _ _ _ _ _ Er Ec Ei Hb0) as (name & e' & checks & rest & _ & -> & Hsh & Hck & Hrest).
        destruct Hmem as [<-|Hmem]; [pose proof (es_kind _ _ _ _ Hsh); congruence|].
        apply in_app_or in Hmem as [Hmem|Hmem].
        * pose proof (size_check_kind _ _ _ _ Hck Hmem). congruence.
        * rewrite Forall_forall in Hrest. destruct (Hrest _ Hmem); congruence.
    - pose proof (build_extern_value_fn _ _ Hb). congruence.
  Qed.

  Lemma file_enum_origin m f items e :
    module_file st m = Ok f -> file_items f = Some items -> In e items -> item_kind e = Some "enum" ->
    exists q it rs ed name its,
      In q (m_defpaths m) /\ reg_get (st_reg st) q = Some it /\ item_resolved it = Some rs /\ it_cat it = Defined /\
      rs_inner rs = IEnum ed /\
      build_item (st_reg st) (S (List.length (reg_types (st_reg st)))) it = Ok its /\
      enum_shape name (it_vis it) ed e.
  Proof.
    intros H Hi Hs Hk.
    destruct (file_item_origin _ _ _ _ H Hi Hs) as [Ho|[(it & its & Hit & Hb & Hmem)|(ev & _ & Hb)]].
    - congruence.
    - destruct (module_definitions_from _ _ _ Hit) as (q & Hq & Hg). pose proof Hb as Hb0.
      unfold build_item in Hb. destruct (item_resolved it) as [rs|] eqn:Er; [|discriminate].
      destruct (it_cat it) eqn:Ec; try (inversion Hb; subst its; destruct Hmem).
      destruct (rs_inner rs) as [td|ed] eqn:Ei.
      + exfalso. destruct (build_item_struct_shape _ _ _ _ _ _ Er Ec Ei Hb0) as (name & s' & checks & rest & _ & -> & Hsh & Hck & Hrest).
        destruct Hmem as [<-|Hmem]; [pose proof (ss_kind _ _ _ _ _ Hsh); congruence|].
        apply in_app_or in Hmem as [Hmem|Hmem].
        * pose proof (size_check_kind _ _ _ _ Hck Hmem). congruence.
        * rewrite Forall_forall in Hrest. destruct (Hrest _ Hmem); congruence.
      + destruct (build_item_enum_shape _ _ _ _ _ _ Er Ec Ei Hb0) as (name & e' & checks & rest & _ & -> & Hsh & Hck & Hrest).
        destruct Hmem as [<-|Hmem]; [exists q, it, rs, ed, name; eauto 10|]. exfalso.
        apply in_app_or in Hmem as [Hmem|Hmem].
        * pose proof (size_check_kind _ _ _ _ Hck Hmem). congruence.
        * rewrite Forall_forall in Hrest. destruct (Hrest _ Hmem); congruence.
    - pose proof (build_extern_value_fn _ _ Hb). congruence.
  Qed.

  (** ** E. what the back end has checked before printing *)
  Lemma region_field_type_ok r f : region_field r = Ok f -> stype_ok (r_type r) = true.
  Proof.
    unfold region_field. destruct (r_name r); [|discriminate]. destruct (negb (ident_ok _)); [discriminate|].
    destruct (stype_ok (r_type r)); [reflexivity | discriminate].
  Qed.

  Lemma build_type_regions_ok R fuel p size al v td its :
    build_type R fuel p size al v td = Ok its -> Forall (fun r => stype_ok (r_type r) = true) (td_regions td).
  Proof.
    unfold build_type. intros H. destruct (path_last p); [|discriminate]. destruct (negb _); [discriminate|].
    inv_bind H. apply Forall_forall. intros r Hr. destruct (mapM_in_in _ _ _ Ha _ Hr) as (b & _ & Hb).
    eapply region_field_type_ok; eauto.
  Qed.

  Lemma build_enum_type_ok p size v ed its : build_enum p size v ed = Ok its -> stype_ok (ed_type ed) = true.
  Proof.
    unfold build_enum. destruct (path_last p); [|discriminate]. destruct (negb (ident_ok _)); [discriminate|].
    destruct (stype_ok (ed_type ed)); [reflexivity | discriminate].
  Qed.

  (** ** F. MAIN THEOREMS: every struct and every enum item of every written file *)
  Theorem C13_struct_field_paths name f items s efs ef p :
    In (name, f) files -> file_items f = Some items -> In s items -> item_kind s = Some "struct" ->
    struct_fields s = Some efs -> In ef efs -> In p (type_paths (ef_ty ef)) -> path_ok p.
  Proof.
    intros Hf Hi Hs Hk Hfs Hef Hp.
    destruct (written_file_module _ _ Hf) as (k & m & Hm & _ & _ & Hfile).
    destruct (file_struct_origin _ _ _ _ Hfile Hi Hs Hk) as (q & it & rs & td & nm & its & _ & Hg & Hr & Hc & Hin' & Hb & Hsh & _).
    destruct (ss_fields _ _ _ _ _ Hsh) as (efs' & Hfs' & F2). rewrite Hfs in Hfs'. inversion Hfs'; subst efs'.
    destruct (Forall2_in_r _ _ _ _ F2 Hef) as (r & Hr' & (_ & Hty & _)).
    pose proof (final_type_closed _ _ _ _ _ _ _ _ _ Hin Hres Hg Hr Hin') as (Hregs & _).
    rewrite Forall_forall in Hregs. specialize (Hregs _ Hr').
    unfold build_item in Hb. rewrite Hr, Hc, Hin' in Hb. pose proof (build_type_regions_ok _ _ _ _ _ _ _ _ Hb) as Hok.
    rewrite Forall_forall in Hok. specialize (Hok _ Hr'). rewrite Hty in Hp.
    eapply type_tokens_paths_ok; eauto.
  Qed.

  Theorem C13_enum_repr_paths name f items e toks p :
    In (name, f) files -> file_items f = Some items -> In e items -> item_kind e = Some "enum" ->
    enum_repr e = Some toks -> In p (type_paths toks) -> path_ok p.
  Proof.
    intros Hf Hi Hs Hk Hrepr Hp.
    destruct (written_file_module _ _ Hf) as (k & m & Hm & _ & _ & Hfile).
    destruct (file_enum_origin _ _ _ _ Hfile Hi Hs Hk) as (q & it & rs & ed & nm & its & _ & Hg & Hr & Hc & Hin' & Hb & Hsh).
    rewrite (es_repr _ _ _ _ Hsh) in Hrepr. inversion Hrepr; subst toks.
    pose proof (final_enum_closed _ _ _ _ _ _ _ _ _ Hin Hres Hg Hr Hin') as Hcl.
    unfold build_item in Hb. rewrite Hr, Hc, Hin' in Hb.
    eapply type_tokens_paths_ok; eauto using build_enum_type_ok.
  Qed.

  (** ** G. functions: wrappers, the vftable accessor, extern-value accessors, conversion targets *)
  (** the type-token lists of the signature of an emitted function, read back *)
  Definition param_types (ps : list eparam) : list (list sexp) :=
    flat_map (fun x => match x with EPNamed _ ty => [ty] | _ => [] end) ps.
  Definition fn_sig_types (e : sexp) : list (list sexp) :=
    match fn_params e, fn_ret e with
    | Some ps, Some r => param_types ps ++ [r]
    | _, _ => []
    end.

  (** a function record of a final struct item: associated (own or inherited) or virtual *)
  Definition final_function (sf : sfunction) : Prop :=
    exists q it rs td, reg_get (st_reg st) q = Some it /\ item_resolved it = Some rs /\ rs_inner rs = IType td /\
      (In sf (td_assoc td) \/ exists vt, td_vftable td = Some vt /\ In sf (vt_functions vt)).

  Lemma final_function_closed sf : final_function sf -> fn_closed (st_reg st) sf.
  Proof.
    intros (q & it & rs & td & Hg & Hr & Hi & Hsf).
    pose proof (final_type_closed _ _ _ _ _ _ _ _ _ Hin Hres Hg Hr Hi) as (_ & Hassoc & Hvt).
    destruct Hsf as [Hsf|(vt & Ev & Hsf)].
    - rewrite Forall_forall in Hassoc. auto.
    - rewrite Ev in Hvt. destruct Hvt as [Hf _]. rewrite Forall_forall in Hf. auto.
  Qed.

  (** the wrapper of a function the back end accepted ([fn_types_ok], checked by [build_function]) *)
  Theorem C13_wrapper_paths sf e toks p :
    final_function sf -> fn_types_ok sf = true -> wrapper_shape sf e ->
    In toks (fn_sig_types e) -> In p (type_paths toks) -> path_ok p.
  Proof.
    intros Hff Hok Hsh Ht Hp. destruct (final_function_closed _ Hff) as [Hargs Hret].
    unfold fn_types_ok in Hok. apply andb_true_iff in Hok as [Hoa Hor].
    unfold fn_sig_types in Ht. rewrite (ws_params _ _ Hsh), (ws_ret _ _ Hsh) in Ht.
    apply in_app_or in Ht as [Ht|[<-|[]]].
    - unfold param_types in Ht. apply in_flat_map in Ht as (x & Hx & Ht). apply in_map_iff in Hx as (a & <- & Ha).
      destruct a as [| |n t]; cbn [param_of_arg] in Ht; [destruct Ht | destruct Ht |]. destruct Ht as [<-|[]].
      rewrite Forall_forall in Hargs. specialize (Hargs _ Ha). cbn [arg_closed] in Hargs.
      rewrite forallb_forall in Hoa. specialize (Hoa _ Ha). cbn beta iota in Hoa.
      eapply type_tokens_paths_ok; eauto.
    - destruct (sf_ret sf) as [t|]; [|destruct Hp]. cbn [ret_closed] in Hret.
      eapply type_tokens_paths_ok; eauto.
  Qed.

  Theorem C13_accessor_paths q it rs td vt e toks p :
    reg_get (st_reg st) q = Some it -> item_resolved it = Some rs -> rs_inner rs = IType td ->
    td_vftable td = Some vt -> stype_ok (vt_type vt) = true -> accessor_shape vt e ->
    In toks (fn_sig_types e) -> In p (type_paths toks) -> path_ok p.
  Proof.
    intros Hg Hr Hi Ev Hok Hsh Ht Hp.
    pose proof (final_type_closed _ _ _ _ _ _ _ _ _ Hin Hres Hg Hr Hi) as (_ & _ & Hvt).
    rewrite Ev in Hvt. destruct Hvt as [_ Hty].
    unfold fn_sig_types in Ht. rewrite (ac_params _ _ Hsh), (ac_ret _ _ Hsh) in Ht.
    cbn [param_types flat_map app] in Ht. destruct Ht as [<-|[]].
    eapply type_tokens_paths_ok; eauto.
  Qed.

  (** what [build_type] has checked of the functions it printed *)
  Lemma build_function_types_ok sf e : build_function sf = Ok e -> fn_types_ok sf = true.
  Proof.
    unfold build_function. destruct (negb (names_ok sf)); [discriminate|].
    destruct (fn_types_ok sf); [reflexivity | discriminate].
  Qed.

  Lemma build_type_functions_ok R fuel q size al v td its :
    build_type R fuel q size al v td = Ok its ->
    Forall (fun sf => fn_types_ok sf = true) (emitted_fns (td_assoc td)) /\
    forall vt, td_vftable td = Some vt ->
      stype_ok (vt_type vt) = true /\ Forall (fun sf => fn_types_ok sf = true) (emitted_fns (vt_functions vt)).
  Proof.
    unfold build_type. intros H. destruct (path_last q); [|discriminate]. destruct (negb _); [discriminate|].
    inv_bind H. destruct (negb _); [discriminate|]. inv_bind H. inv_bind H. inv_bind H. split.
    - apply Forall_forall. intros sf Hsf. destruct (mapM_in_in _ _ _ Ha1 _ Hsf) as (b & _ & Hb).
      eapply build_function_types_ok; eauto.
    - intros vt Ev. rewrite Ev in Ha0, Ha2. split.
      + inv_bind Ha0. unfold vftable_accessor in Ha3. destruct (stype_ok (vt_type vt)); [reflexivity | discriminate].
      + apply Forall_forall. intros sf Hsf. destruct (mapM_in_in _ _ _ Ha2 _ Hsf) as (b & _ & Hb).
        eapply build_function_types_ok; eauto.
  Qed.

  Lemma module_item_in_file m f items it its :
    module_file st m = Ok f -> file_items f = Some items -> In it (module_definitions (st_reg st) m) ->
    build_item (st_reg st) (S (List.length (reg_types (st_reg st)))) it = Ok its -> incl its items.
  Proof.
    intros H Hi Hit Hb. destruct (module_file_shape _ _ _ H) as (itss & evs & Hits & _ & ->).
    unfold file_items in Hi. cbn [tagged String.eqb Ascii.eqb Bool.eqb app] in Hi. inversion Hi; subst items; clear Hi.
    destruct (mapM_in_in _ _ _ Hits _ Hit) as (b & Hbin & Hb'). rewrite Hb in Hb'. inversion Hb'; subst b.
    intros e He. right. apply in_or_app. left. apply in_concat. eauto.
  Qed.

  (** EVERY struct item of every written file comes with the inherent impl of its type, in the same
      file, and every function of that impl (the [vftable()] accessor, the wrappers of the
      associated functions -- own and inherited --, the wrappers of the virtual functions) only
      mentions [path_ok] paths in its parameter and return types *)
  Theorem C13_impl_fn_paths name f items s :
    In (name, f) files -> file_items f = Some items -> In s items -> item_kind s = Some "struct" ->
    exists n checks sing im conv fns,
      struct_name s = Some n /\ incl (s :: checks ++ sing ++ im :: conv) items /\
      item_kind im = Some "impl" /\ inherent_impl im = Some (n, fns) /\
      forall e toks p, In e fns -> In toks (fn_sig_types e) -> In p (type_paths toks) -> path_ok p.
  Proof.
    intros Hf Hi Hs Hk.
    destruct (written_file_module _ _ Hf) as (k & m & Hm & _ & _ & Hfile).
    destruct (file_struct_origin _ _ _ _ Hfile Hi Hs Hk)
      as (q & it & rs & td & nm & its & _ & Hg & Hr & Hc & Hin' & Hb & Hsh & Hit & more & Hits).
    pose proof (module_item_in_file _ _ _ _ _ Hfile Hi Hit Hb) as Hincl.
    unfold build_item in Hb. rewrite Hr, Hc, Hin' in Hb.
    destruct (build_type_functions_ok _ _ _ _ _ _ _ _ Hb) as (Hoka & Hokv).
    destruct (build_type_items_shape _ _ _ _ _ _ _ _ Hb)
      as (n & s' & checks & sing & im & conv & acc & assoc & vfns & Hn & E & Hsh' & _ & _ & Hik & Himpl & Hacc & Hassoc & Hvfns & _).
    rewrite Hits in E. inversion E; subst s'. rewrite H1 in Hits. clear E H1.
    exists n, checks, sing, im, conv, (acc ++ assoc ++ vfns).
    split; [exact (ss_name _ _ _ _ _ Hsh')|]. split; [rewrite <- Hits; exact Hincl|]. split; [exact Hik|]. split; [exact Himpl|].
    intros e toks p He Ht Hp. apply in_app_or in He as [He|He]; [|apply in_app_or in He as [He|He]].
    - destruct (td_vftable td) as [vt|] eqn:Ev; [|subst acc; destruct He].
      destruct Hacc as (a & -> & Hash). destruct He as [<-|[]]. destruct (Hokv _ eq_refl) as [Hokt _].
      eapply C13_accessor_paths; eauto.
    - destruct (Forall2_in_r _ _ _ _ Hassoc He) as (sf & Hsf & Hws).
      rewrite Forall_forall in Hoka. pose proof (Hoka _ Hsf) as Hok.
      apply filter_In in Hsf as [Hsf _].
      eapply C13_wrapper_paths; [| exact Hok | exact Hws | exact Ht | exact Hp].
      exists q, it, rs, td. auto.
    - destruct (td_vftable td) as [vt|] eqn:Ev; [|inversion Hvfns; subst; destruct He].
      destruct (Forall2_in_r _ _ _ _ Hvfns He) as (sf & Hsf & Hws).
      destruct (Hokv _ eq_refl) as [_ Hokf]. rewrite Forall_forall in Hokf. pose proof (Hokf _ Hsf) as Hok.
      apply filter_In in Hsf as [Hsf _].
      eapply C13_wrapper_paths; [| exact Hok | exact Hws | exact Ht | exact Hp].
      exists q, it, rs, td. split; [exact Hg|]. split; [exact Hr|]. split; [exact Hin'|]. right. eauto.
  Qed.

  (** the accessor [get_<name>] of an extern value: its return type [&'static mut T] and the type in
      the cast of its body *)
  Theorem C13_extern_value_paths k m ev t e toks p :
    In (k, m) (st_modules st) -> In ev (m_extern_values m) -> ev_type ev = Some t -> stype_ok t = true ->
    extern_shape ev t e ->
    (fn_ret_static_mut e = Some toks \/ exists a, fn_extern_target e = Some (a, toks)) ->
    In p (type_paths toks) -> path_ok p.
  Proof.
    intros Hm Hev Ht Hok Hsh Htoks Hp.
    destruct (final_closed _ _ _ _ _ Hin Hres) as (_ & _ & Hevs).
    pose proof (Hevs _ _ _ Hm Hev) as Hc. unfold ev_closed in Hc. rewrite Ht in Hc.
    assert (toks = type_tokens t) as ->.
    { destruct Htoks as [E|(a & E)]; [rewrite (xs_ret _ _ _ Hsh) in E | rewrite (xs_target _ _ _ Hsh) in E];
        now inversion E. }
    eapply type_tokens_paths_ok; eauto.
  Qed.

  (** in a written file: the extern values of its module *)
  Corollary C13_written_extern_value_paths name f :
    In (name, f) files ->
    exists k m, In (k, m) (st_modules st) /\ name = out_path k /\
      forall ev, In ev (m_extern_values m) ->
        exists items e t, file_items f = Some items /\ In e items /\ ev_type ev = Some t /\ extern_shape ev t e /\
          forall toks p, (fn_ret_static_mut e = Some toks \/ exists a, fn_extern_target e = Some (a, toks)) ->
                         In p (type_paths toks) -> path_ok p.
  Proof.
    intros Hf. destruct (written_file_module _ _ Hf) as (k & m & Hm & _ & Hn & Hfile).
    exists k, m. split; [exact Hm|]. split; [exact Hn|]. intros ev Hev.
    destruct (module_file_shape _ _ _ Hfile) as (its & evs & _ & Hevs & _).
    assert (In ev (sort ev_leb (m_extern_values m))) as Hev' by (eapply Permutation_in; [apply sort_perm | exact Hev]).
    destruct (mapM_in_in _ _ _ Hevs _ Hev') as (e0 & _ & Hb0).
    destruct (emitted_extern_value _ _ _ _ Hfile Hev) as (items & e & t & Hi & He & Ht & Hsh).
    exists items, e, t. repeat (split; [assumption|]). intros toks p Htoks Hp.
    assert (stype_ok t = true) as Hok.
    { unfold build_extern_value in Hb0. rewrite Ht in Hb0. destruct (negb (ident_ok _)); [discriminate|].
      destruct (stype_ok t); [reflexivity | discriminate]. }
    eapply C13_extern_value_paths; eauto.
  Qed.

  (** the targets of the [AsRef]/[AsMut] pairs of the hierarchy part: the types of the hierarchy
      entries, each a user type that is the key of a resolved struct *)
  Theorem C13_conversion_target_paths td pre h x p :
    bases_of (st_reg st) td pre h -> In x h -> stype_ok (snd x) = true ->
    In p (type_paths (type_tokens (snd x))) -> path_ok p.
  Proof.
    intros Hb Hx Hok Hp. apply bases_regs_entries in Hb. rewrite Forall_forall in Hb.
    destruct (Hb _ Hx) as (bp & btd & rest & E & Htd & _). rewrite E in *.
    eapply type_tokens_paths_ok; [|exact Hok|exact Hp].
    unfold ty_closed. cbn [stype_paths]. constructor; [|constructor].
    unfold typedef_of in Htd. destruct (reg_get (st_reg st) bp) as [it|] eqn:Hg; [|discriminate].
    eapply get_has; eauto.
  Qed.
End Accepted.

(** ** the same for permutation-valued schedules *)
Corollary C13_struct_field_paths_perm order ptr mods st0 st files name f items s efs ef p :
  input_state ptr mods = Ok st0 -> NoDup (map fst mods) -> collision_free (st_reg st0) ->
  (forall l, Permutation (order l) l) -> pyxis_resolve order ptr mods = BOk st -> write_all st = Ok files ->
  In (name, f) files -> file_items f = Some items -> In s items -> item_kind s = Some "struct" ->
  struct_fields s = Some efs -> In ef efs -> In p (type_paths (ef_ty ef)) -> path_ok mods files p.
Proof.
  intros Hin HN Hcf HP Hres Hw. eapply C13_struct_field_paths; eauto. now apply perm_keeps_work.
Qed.

(** if no input module has the root path [[]], the fourth alternative of [path_ok] is void *)
Lemma path_ok_no_root mods files p :
  ~ In [] (map fst mods) -> path_ok mods files p ->
  (exists n, p = [n] /\ In n rust_builtins) \/
  (exists k gm e, In (k, gm) mods /\ In e (gm_extern_types gm) /\ p = path_join k (fst e)) \/
  (exists k gm f kind name, In (k, gm) mods /\ k <> [] /\ p = path_join k name /\
      In (out_path k, f) files /\ file_ok gm f /\ In (kind, name) (file_decls f)).
Proof.
  intros Hn [H|[H|[H|(gm & kind & name & Hm & _)]]]; auto.
  exfalso. apply Hn. apply in_map_iff. exists ([], gm). auto.
Qed.

(** the (kind, name) pairs of [file_decls] are read from struct / enum items of the file *)
Lemma file_decls_item f kind name :
  In (kind, name) (file_decls f) ->
  exists items e, file_items f = Some items /\ In e items /\ decl_of e = Some (kind, name) /\
    ((kind = "struct" /\ item_kind e = Some "struct" /\ struct_name e = Some name) \/
     (kind = "enum" /\ item_kind e = Some "enum" /\ enum_name e = Some name)).
Proof.
  unfold file_decls. destruct (file_items f) as [items|]; [|intros []]. intros H.
  exists items. induction items as [|e items IH]; [destruct H|]. cbn [all_somes] in H.
  destruct (decl_of e) as [[k n]|] eqn:Ed.
  - destruct H as [E|H].
    + injection E as -> ->. exists e. split; [reflexivity|]. split; [now left|]. split; [exact Ed|].
      unfold decl_of in Ed. destruct (item_kind e) as [k0|]; [|discriminate].
      destruct (String.eqb_spec k0 "struct") as [E1|E1].
      * subst k0. destruct (struct_name e); [|discriminate]. inversion Ed; subst. left. auto.
      * destruct (String.eqb_spec k0 "enum") as [E2|E2]; [|discriminate]. subst k0.
        destruct (enum_name e); [|discriminate]. inversion Ed; subst. right. auto.
    + destruct (IH H) as (e' & _ & Hin & Hrest). exists e'. split; [reflexivity|]. split; [now right | exact Hrest].
  - destruct (IH H) as (e' & _ & Hin & Hrest). exists e'. split; [reflexivity|]. split; [now right | exact Hrest].
Qed.

Print Assumptions input_state_origin.
Print Assumptions final_path_class.
Print Assumptions has_path_ok.
Print Assumptions C13_struct_field_paths.
Print Assumptions C13_enum_repr_paths.
Print Assumptions C13_wrapper_paths.
Print Assumptions C13_accessor_paths.
Print Assumptions C13_impl_fn_paths.
Print Assumptions C13_extern_value_paths.
Print Assumptions C13_written_extern_value_paths.
Print Assumptions C13_conversion_target_paths.
Print Assumptions C13_struct_field_paths_perm.
