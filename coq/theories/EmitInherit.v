(** * EmitInherit: C06 (vftable sharing with the first base) on the EMITTED text.

    Properties/C06.v and WholeBuildMore.v prove C06 about the REGISTRY of an accepted build.  This
    file takes the step to the files [write_all] produces, with the readers of EmitReaders.v /
    EmitFnReaders.v:
    - Part 0: the executable record equality of the vftable check decides Leibniz equality, so an
      accepted derived table literally starts with the base's function records
      ([prefix_equal_firstn]); which regions [resolve_regions] generates ([resolve_regions_body]);
    - Part 1 ([emitted_shared_pointer_whole_build]): a type whose first base has a vftable: no
      generated pointer field, the base field, the accessor [self.<base>.vftable() as <ty>];
    - Part 2 ([emitted_own_pointer_whole_build]): a type with its own block and no such base: the
      pointer field is field 0 at offset 0 of the Reference layout, pointer-sized, the only
      generated [vftable] field, and the accessor is [self.vftable as <ty>];
    - Part 3 ([emitted_vftable_prefix_whole_build] and corollaries): the emitted [<B>Vftable] is,
      field by field, a prefix of the emitted [<D>Vftable]: same name, visibility, docs, ABI,
      return type and parameters, except the owner path inside the receiver's pointer type; both
      structs put field [k] at byte offset [k * ptr]. *)
From Coq Require Import List NArith ZArith Bool Lia String Permutation Wf_nat.
From PyxisModel Require Import Base Sexp Grammar SemTypes Registry Sem SemLemmas FunctionLemmas
     ScopeLemmas PlacementLemmas VftableLemmas InheritLemmas TotalityLemmas RustLayout LayoutLemmas
     Emit EmitLemmas WholeBuild WholeBuildMore Monotone OrderIndep FinalState NoPanicNames NoPanicRank
     EmitReaders EmitShape EmitFinal EmitFind EmitLayout EmitFnReaders EmitFnShape EmitFnFinal
     EmitVftLayout EmitMarkers EmitMarkersFn EmitMarkersOrigin.
Import ListNotations.
Local Open Scope string_scope.
Local Open Scope list_scope.

(** * Part 0: pure lemmas *)

(** ** the record equality of the vftable check is Leibniz equality *)
Lemma stype_eqb_eq : forall a b, stype_eqb a b = true -> a = b.
Proof.
  fix IH 1. intros [p|t|t|t n|c args ret] [q|u|u|u m|c' args' ret'] H; cbn [stype_eqb] in H; try discriminate.
  - apply path_eqb_eq in H. now subst.
  - f_equal. now apply IH.
  - f_equal. now apply IH.
  - apply andb_prop in H as [H1 H2]. apply N.eqb_eq in H2. subst. f_equal. now apply IH.
  - apply andb_prop in H as [H H3]. apply andb_prop in H as [H1 H2].
    apply cc_eqb_eq in H1. subst c'.
    assert (args = args') as ->.
    { clear H3. revert args' H2.
      refine ((fix IHl (l1 : list (string * stype)) : forall l2, _ l1 l2 = true -> l1 = l2 :=
                 match l1 with
                 | [] => fun l2 => match l2 with [] => fun _ => eq_refl | _ :: _ => fun E => _ end
                 | (n1, t1) :: r1 => fun l2 => match l2 with
                                               | [] => fun E => _
                                               | (n2, t2) :: r2 => fun E => _
                                               end
                 end) args).
      - discriminate E.
      - discriminate E.
      - apply andb_prop in E as [E E3]. apply andb_prop in E as [E1 E2].
        apply String.eqb_eq in E1. subst n2. rewrite (IH t1 t2 E2), (IHl r1 r2 E3). reflexivity. }
    assert (ret = ret') as ->; [|reflexivity].
    destruct ret as [x|], ret' as [y|]; try discriminate; [|reflexivity]. f_equal. now apply IH.
Qed.

Lemma sarg_eqb_eq a b : sarg_eqb a b = true -> a = b.
Proof.
  destruct a as [| |n t], b as [| |m u]; cbn [sarg_eqb]; try discriminate; try reflexivity.
  intros H. apply andb_prop in H as [H1 H2]. apply String.eqb_eq in H1. apply stype_eqb_eq in H2. now subst.
Qed.

Lemma sem_list_eqb_eq {A} (eqb : A -> A -> bool) : (forall x y, eqb x y = true -> x = y) ->
  forall a b, SemTypes.list_eqb eqb a b = true -> a = b.
Proof.
  intros Heq. induction a as [|x a IH]; intros [|y b] H; cbn [SemTypes.list_eqb] in H; try discriminate; [reflexivity|].
  apply andb_prop in H as [H1 H2]. rewrite (Heq _ _ H1), (IH _ H2). reflexivity.
Qed.

Lemma sem_opt_eqb_eq {A} (eqb : A -> A -> bool) : (forall x y, eqb x y = true -> x = y) ->
  forall a b, opt_eqb eqb a b = true -> a = b.
Proof. intros Heq [x|] [y|] H; cbn [opt_eqb] in H; try discriminate; [f_equal; auto | reflexivity]. Qed.

Lemma fbody_eqb_eq a b : fbody_eqb a b = true -> a = b.
Proof.
  destruct a, b; cbn [fbody_eqb]; try discriminate; intros H.
  - apply N.eqb_eq in H. now subst.
  - apply andb_prop in H as [H1 H2]. apply String.eqb_eq in H1, H2. now subst.
  - apply String.eqb_eq in H. now subst.
Qed.

(** all seven fields are compared: the two records are the same record *)
Theorem sfunction_eqb_eq a b : sfunction_eqb a b = true -> a = b.
Proof.
  unfold sfunction_eqb. intros H. repeat (apply andb_prop in H as [H ?]).
  destruct a as [v1 n1 d1 b1 a1 r1 c1], b as [v2 n2 d2 b2 a2 r2 c2]. cbn [sf_vis sf_name sf_doc sf_body sf_args sf_ret sf_cc] in *.
  assert (v1 = v2) as -> by (destruct v1, v2; cbn in *; congruence).
  match goal with X : String.eqb n1 n2 = true |- _ => apply String.eqb_eq in X; subst n2 end.
  match goal with X : opt_eqb String.eqb d1 d2 = true |- _ =>
    apply (sem_opt_eqb_eq String.eqb (fun x y E => proj1 (String.eqb_eq x y) E)) in X; subst d2 end.
  match goal with X : fbody_eqb b1 b2 = true |- _ => apply fbody_eqb_eq in X; subst b2 end.
  match goal with X : SemTypes.list_eqb sarg_eqb a1 a2 = true |- _ =>
    apply (sem_list_eqb_eq sarg_eqb sarg_eqb_eq) in X; subst a2 end.
  match goal with X : opt_eqb stype_eqb r1 r2 = true |- _ =>
    apply (sem_opt_eqb_eq stype_eqb stype_eqb_eq) in X; subst r2 end.
  match goal with X : cc_eqb c1 c2 = true |- _ => apply cc_eqb_eq in X; subst c2 end.
  reflexivity.
Qed.

(** an accepted derived table STARTS WITH the base's table: the same records, in the same order *)
Theorem prefix_equal_firstn : forall base derived,
  prefix_equal base derived = true -> (List.length base <= List.length derived)%nat ->
  firstn (List.length base) derived = base.
Proof.
  induction base as [|b base IH]; intros derived H Hlen; [reflexivity|].
  destruct derived as [|d derived]; [cbn in Hlen; lia|].
  cbn [prefix_equal] in H. apply andb_prop in H as [H0 H1]. cbn [List.length firstn].
  rewrite (sfunction_eqb_eq _ _ H0), IH; [reflexivity | exact H1 | cbn in Hlen; lia].
Qed.

Corollary prefix_equal_app base derived :
  prefix_equal base derived = true -> (List.length base <= List.length derived)%nat ->
  exists extra, derived = base ++ extra.
Proof.
  intros H Hlen. exists (skipn (List.length base) derived).
  rewrite <- (prefix_equal_firstn _ _ H Hlen) at 1. symmetry. apply firstn_skipn.
Qed.

(** ** the regions [resolve_regions] makes: the own pointer (if any), then declared fields and padding *)

(** the pointer region the vftable step generates: exactly when the descriptor does not go through
    a base field *)
Definition own_ptr_regions (vt : option tvftable) : list region :=
  match vt with
  | Some x => match vt_base_field x with
              | None => [vftable_region_of (vt_type x)]
              | Some _ => []
              end
  | None => []
  end.

Lemma vftable_build_vr st owner v fb vfs st' vt vr :
  vftable_build st owner v fb vfs = Ok (st', vt, vr) ->
  own_ptr_regions vt = match vr with Some x => [x] | None => [] end.
Proof.
  unfold vftable_build. destruct vfs as [fs|].
  - destruct (vftable_item (st_reg st) owner v fs) as [vit|]; [|intros H; inversion H; reflexivity].
    intros H. inv_bind H. inv_bind H. destruct a0 as [[bn bv]|].
    + destruct (_ <? _)%nat; [discriminate|]. destruct (negb _); [discriminate|]. inversion H; reflexivity.
    + inversion H; reflexivity.
  - intros H. inv_bind H. destruct a as [[bn bv]|]; inversion H; reflexivity.
Qed.

(** a region the compiler names itself: private, undocumented, [_field_<offset in hex>] (padding, or
    a declared field named [_]) *)
Definition region_unnamed_gen (r : region) : Prop :=
  r_vis r = Private /\ r_doc r = None /\ exists off, r_name r = Some ("_field_" +++ hex_of_N off).

(** a region that is a declared field of the description, kept as it was read *)
Definition region_of_pending (pending : list (option N * region)) (r : region) : Prop :=
  exists p, In p pending /\ r = snd p /\ r_name r <> None.

Lemma push_pending_body R rs last p rs' last' :
  push_pending R (rs, last) p = Ok (rs', last') ->
  exists new, rs' = rs ++ new /\
    Forall (fun r => (exists n, r = unnamed_region (padding_type n)) \/ r = snd p) new.
Proof.
  unfold push_pending. intros H. inv_bind H. destruct a as [rs1 last1]. apply defer_opt_ok in H.
  assert (exists pad, rs1 = rs ++ pad /\
            Forall (fun r => (exists n, r = unnamed_region (padding_type n)) \/ r = snd p) pad) as (pad & -> & Hpad).
  { cbn [fst snd] in Ha. destruct (fst p) as [offset|].
    - destruct (offset <? last)%N; [discriminate|]. apply defer_opt_ok in Ha.
      destruct (regions_push_il _ _ _ _ _ _ Ha) as [(_ & ->)|(_ & ->)].
      + exists []. split; [now rewrite app_nil_r | constructor].
      + eexists [_]. split; [reflexivity|]. constructor; [|constructor]. left. eexists; reflexivity.
    - inversion Ha; subst. exists []. split; [now rewrite app_nil_r | constructor]. }
  destruct (regions_push_il _ _ _ _ _ _ H) as [(_ & ->)|(_ & ->)].
  - exists pad. split; [reflexivity | exact Hpad].
  - exists (pad ++ [snd p]). split; [now rewrite app_assoc|]. apply Forall_app. split; [exact Hpad|].
    constructor; [now right | constructor].
Qed.

Lemma push_all_body R : forall pending rs last rs' last',
  foldM (push_pending R) pending (rs, last) = Ok (rs', last') ->
  exists new, rs' = rs ++ new /\
    Forall (fun r => (exists n, r = unnamed_region (padding_type n)) \/ exists p, In p pending /\ r = snd p) new.
Proof.
  induction pending as [|p pending IH]; intros rs last rs' last' H; cbn [foldM] in H.
  - inversion H; subst. exists []. split; [now rewrite app_nil_r | constructor].
  - inv_bind H. destruct a as [rs1 last1].
    destruct (push_pending_body _ _ _ _ _ _ Ha) as (new1 & -> & H1).
    destruct (IH _ _ _ _ H) as (new2 & -> & H2).
    exists (new1 ++ new2). split; [now rewrite app_assoc|]. apply Forall_app. split.
    + eapply Forall_impl; [|exact H1]. intros r [Hr| ->]; [now left|]. right. exists p. split; [now left | reflexivity].
    + eapply Forall_impl; [|exact H2]. intros r [Hr|(q & Hq & ->)]; [now left|]. right. exists q. split; [now right | reflexivity].
Qed.

Lemma Forall2_app_l {A B} (P : A -> B -> Prop) : forall l1 l1' l2,
  Forall2 P (l1 ++ l1') l2 -> exists m m', l2 = m ++ m' /\ Forall2 P l1 m /\ Forall2 P l1' m'.
Proof. intros l1 l1' l2 H. apply Forall2_app_inv_l in H as (m & m' & H1 & H2 & ->). eauto. Qed.

(** the regions of an accepted type: the generated pointer region exactly when the descriptor
    owns its pointer; every other region is a declared field (kept as read) or is named by the
    compiler ([_field_<hex>]) *)
Theorem resolve_regions_body st owner v ts pending vfs st' regions vt size :
  resolve_regions st owner v ts pending vfs = Ok (st', regions, vt, size) ->
  exists body, regions = own_ptr_regions vt ++ body /\
    Forall (fun r => region_unnamed_gen r \/ region_of_pending pending r) body.
Proof.
  unfold resolve_regions. intros H. destruct (first_base_unresolved _ _); [discriminate|].
  inv_bind H. destruct a as [[st1 vt1] vr1].
  inv_bind H. destruct a as [rs0 last0]. inv_bind H. destruct a as [rs1 last1].
  inv_bind H. destruct a as [rs2 last2]. inv_bind H. destruct a as [named sz]. cbn [fst snd] in *.
  assert (st' = st1 /\ regions = named /\ vt = vt1) as (-> & -> & ->).
  { destruct ts as [t|]; [destruct (negb (sz =? t)%N); [discriminate|]|]; inversion H; auto. }
  clear H. rewrite (vftable_build_vr _ _ _ _ _ _ _ _ Ha).
  (* the head *)
  assert (rs0 = match vr1 with Some x => [x] | None => [] end /\
          Forall (fun r => r_name r <> None) rs0) as (Hrs0 & Hnamed0).
  { destruct vr1 as [vr|].
    - destruct (vftable_build_region _ _ _ _ _ _ _ _ Ha) as (ty & -> & _). apply defer_opt_ok in Ha0.
      destruct (regions_push_spec _ _ _ _ _ _ Ha0) as (s & _ & Hr).
      unfold ignored in Hr. cbn [vftable_region_of r_type stype_is_array] in Hr.
      destruct (size_of (st_reg st1) (TConstPtr ty)); rewrite ?andb_false_r in Hr; destruct Hr as (-> & _);
        (split; [reflexivity | constructor; [discriminate | constructor]]).
    - inversion Ha0; subst. split; [reflexivity | constructor]. }
  destruct (push_all_body _ _ _ _ _ _ Ha1) as (new & -> & Hnew).
  assert (exists tail, rs2 = (rs0 ++ new) ++ tail /\
            Forall (fun r => exists n, r = unnamed_region (padding_type n)) tail) as (tail & -> & Ht).
  { destruct ts as [t|]; [|inversion Ha2; subst; exists []; split; [now rewrite app_nil_r | constructor]].
    destruct (last1 <? t)%N; [|inversion Ha2; subst; exists []; split; [now rewrite app_nil_r | constructor]].
    apply defer_opt_ok in Ha2. destruct (regions_push_il _ _ _ _ _ _ Ha2) as [(_ & ->)|(_ & ->)].
    - exists []. split; [now rewrite app_nil_r | constructor].
    - eexists [_]. split; [reflexivity|]. constructor; [|constructor]. eexists; reflexivity. }
  pose proof (name_regions_named _ _ _ _ _ Ha3) as HN. rewrite <- app_assoc in HN.
  destruct (Forall2_app_l _ _ _ _ HN) as (m0 & body & -> & H0 & Hbody).
  assert (m0 = rs0) as ->.
  { clear -H0 Hnamed0. induction H0 as [|x y l l' Hxy _ IH]; [reflexivity|].
    inversion Hnamed0 as [|? ? Hx Hl]; subst. unfold named_from in Hxy. destruct (r_name x); [|congruence].
    subst y. f_equal. now apply IH. }
  exists body. split; [now rewrite Hrs0|].
  assert (Forall (fun r => (exists n, r = unnamed_region (padding_type n)) \/ exists p, In p pending /\ r = snd p)
                 (new ++ tail)) as Hpre.
  { apply Forall_app. split; [exact Hnew|]. eapply Forall_impl; [|exact Ht]. intros r Hr. now left. }
  clear -Hbody Hpre. induction Hbody as [|x y l l' Hxy _ IH]; [constructor|].
  inversion Hpre as [|? ? Hx Hl]; subst. constructor; [|now apply IH].
  unfold named_from in Hxy. destruct (r_name x) as [nm|] eqn:En.
  - subst y. right. destruct Hx as [(n & ->)|(p & Hp & ->)]; [discriminate|].
    exists p. split; [exact Hp|]. split; [reflexivity | congruence].
  - left. destruct Hxy as (Hv & Hd & _ & off & Ho). repeat split; eauto.
Qed.

(** the declared fields, as [process_statement] reads them: a pending region that kept its name
    is the field of a field statement, with that name and visibility *)
Lemma pending_of_statement R scope stmts n pending vfs p :
  foldM (process_statement R scope) stmts (O, ([], None)) = Ok (n, (pending, vfs)) ->
  In p pending -> r_name (snd p) <> None ->
  exists s v name t, In s stmts /\ gs_field s = GField v name t /\ name <> "_" /\
    r_name (snd p) = Some name /\ r_vis (snd p) = v /\ attrs_doc (gs_attrs s) = Ok (r_doc (snd p)).
Proof.
  intros H Hin Hn. destruct (process_statements_pending _ _ _ _ _ _ _ _ _ H) as (new & Hnew & Hil).
  cbn [app] in Hnew. subst new. pose proof (interleave_right _ _ _ _ _ Hil) as F.
  rewrite Forall_forall in F. destruct (F _ Hin) as [[]|(s & Hs & v & name & t & doc & t' & Hf & Hd & _ & Hv & Hnm & Hdoc & _)].
  exists s, v, name, t. split; [exact Hs|]. split; [exact Hf|].
  destruct (String.eqb_spec name "_") as [->|Hne]; [congruence|].
  split; [exact Hne|]. split; [exact Hnm|]. split; [exact Hv|]. now rewrite Hdoc.
Qed.

(** ** what a field of the emitted struct can be, apart from the generated pointer *)
(** named by the compiler: private, no attribute, [_field_<hex>] *)
Definition ef_unnamed_gen (ef : efield) : Prop :=
  ef_vis ef = Private /\ ef_docs ef = [] /\ exists off, ef_name ef = "_field_" +++ hex_of_N off.
(** the field of a declared field statement: its name, visibility and doc lines *)
Definition ef_of_statement (stmts : list gstatement) (ef : efield) : Prop :=
  exists s v t, In s stmts /\ gs_field s = GField v (ef_name ef) t /\ ef_name ef <> "_" /\
    ef_vis ef = v /\ docs_as_declared (gs_attrs s) (ef_docs ef).
(** the generated pointer field: private, no attribute, named [vftable], of type [ty] *)
Definition ef_own_pointer (ty : stype) (ef : efield) : Prop :=
  ef_name ef = "vftable" /\ ef_vis ef = Private /\ ef_docs ef = [] /\ ef_ty ef = type_tokens ty.

Lemma unnamed_gen_not_vftable ef : ef_unnamed_gen ef -> ef_name ef <> "vftable".
Proof. intros (_ & _ & off & ->) E. cbn [append] in E. discriminate E. Qed.

Lemma body_fields R scope stmts n pending vfs body efs :
  foldM (process_statement R scope) stmts (O, ([], None)) = Ok (n, (pending, vfs)) ->
  Forall (fun r => region_unnamed_gen r \/ region_of_pending pending r) body ->
  Forall2 field_of_region body efs ->
  Forall (fun ef => ef_unnamed_gen ef \/ ef_of_statement stmts ef) efs.
Proof.
  intros Hstm Hb HF. induction HF as [|r ef body efs (Hn & Ht & Hv & Hd) _ IH]; [constructor|].
  inversion Hb as [|? ? Hr Hrest]; subst. constructor; [|now apply IH].
  destruct Hr as [(Hvis & Hdoc & off & Hoff)|(p & Hp & -> & Hnn)].
  - left. rewrite Hn in Hoff. split; [congruence|]. split; [now rewrite Hd, Hdoc|]. exists off. now inversion Hoff.
  - right. destruct (pending_of_statement _ _ _ _ _ _ _ Hstm Hp Hnn) as (s & v & name & t & Hs & Hf & Hne & Hnm & Hvs & Hdc).
    rewrite Hn in Hnm. inversion Hnm as [E]. exists s, v, t. rewrite E.
    split; [exact Hs|]. split; [exact Hf|]. split; [exact Hne|]. split; [congruence|].
    rewrite Hd. now apply docs_of_attrs_doc.
Qed.

(** no declared field is called [vftable]: then no field but the generated pointer is *)
Definition no_field_named (name : string) (stmts : list gstatement) : Prop :=
  forall s v t, In s stmts -> gs_field s <> GField v name t.

Lemma fields_not_named_vftable stmts efs :
  no_field_named "vftable" stmts ->
  Forall (fun ef => ef_unnamed_gen ef \/ ef_of_statement stmts ef) efs ->
  Forall (fun ef => ef_name ef <> "vftable") efs.
Proof.
  intros Hno. apply Forall_impl. intros ef [Hg|(s & v & t & Hs & Hf & _)]; [now apply unnamed_gen_not_vftable|].
  intros E. rewrite E in Hf. exact (Hno _ _ _ Hs Hf).
Qed.

(** ** the vftable block is declared or not: read off the description *)
Definition declares_vftable (d : gtypedef) : bool :=
  match gt_stmts d with
  | stm :: _ => match gs_field stm with GVftable _ => true | GField _ _ _ => false end
  | [] => false
  end.

Lemma process_statements_declares R scope d n pending vfs :
  foldM (process_statement R scope) (gt_stmts d) (O, ([], None)) = Ok (n, (pending, vfs)) ->
  declares_vftable d = match vfs with Some _ => true | None => false end.
Proof.
  intros H. unfold declares_vftable. destruct vfs as [fs|].
  - destruct (process_statements_vfs _ _ _ _ _ _ H) as (s & rest & gfs & sz & -> & -> & _). reflexivity.
  - destruct (gt_stmts d) as [|stm rest]; [reflexivity|]. destruct (gs_field stm) as [v nm t|gfs] eqn:Ef; [reflexivity|].
    destruct (process_statements_vfs_first _ _ _ _ _ _ _ _ Ef H) as (sz & fs & Hfs & _). discriminate.
Qed.

Lemma declares_vftable_inv d : declares_vftable d = true ->
  exists stm rest gfs, gt_stmts d = stm :: rest /\ gs_field stm = GVftable gfs.
Proof.
  unfold declares_vftable. destruct (gt_stmts d) as [|stm rest]; [discriminate|].
  destruct (gs_field stm) as [|gfs] eqn:E; [discriminate|]. eauto.
Qed.

(** ** lists *)
Lemma find_nth {A} (f : A -> bool) : forall l x, find f l = Some x ->
  exists k, nth_error l k = Some x /\ f x = true /\
    forall j y, (j < k)%nat -> nth_error l j = Some y -> f y = false.
Proof.
  induction l as [|a l IH]; intros x H; cbn [find] in H; [discriminate|].
  destruct (f a) eqn:Ea.
  - inversion H; subst. exists O. split; [reflexivity|]. split; [exact Ea|]. intros j y Hj. lia.
  - destruct (IH _ H) as (k & Hk & Hx & Hlt). exists (S k). split; [exact Hk|]. split; [exact Hx|].
    intros [|j] y Hj Hy; cbn [nth_error] in Hy; [inversion Hy; subst; exact Ea|]. eapply Hlt; [|exact Hy]. lia.
Qed.

Lemma Forall2_nth_l {A B} (P : A -> B -> Prop) : forall l1 l2, Forall2 P l1 l2 ->
  forall k a, nth_error l1 k = Some a -> exists b, nth_error l2 k = Some b /\ P a b.
Proof.
  induction 1 as [|x y l1 l2 Hxy _ IH]; intros [|k] a Ha; cbn [nth_error] in *; try discriminate.
  - inversion Ha; subst. eauto.
  - eauto.
Qed.

Lemma nth_error_combine_prefix (names : list string) : forall (sas : list sa) cur k nm,
  List.length names = List.length sas -> nth_error names k = Some nm ->
  exists off, nth_error (combine names (prefix_sums cur sas)) k = Some (nm, off) /\
    (k = O -> off = cur).
Proof.
  induction names as [|n0 names IH]; intros [|[sz al] sas] cur [|k] nm Hl Hk; cbn in Hl, Hk; try discriminate.
  - inversion Hk; subst. exists cur. split; [reflexivity | auto].
  - cbn [prefix_sums combine nth_error]. destruct (IH sas (cur + sz)%N k nm) as (off & Ho & _); [lia | exact Hk|].
    exists off. split; [exact Ho | discriminate].
Qed.

(** * A declared type in the written files: what Parts 1 and 2 share *)
Lemma emitted_type_c06_master order ptr mods st0 st files p it0 gd td0 :
  input_state ptr mods = Ok st0 -> NoDup (map fst mods) -> collision_free (st_reg st0) ->
  keeps_work order ->
  pyxis_resolve order ptr mods = BOk st -> write_all st = Ok files ->
  reg_get (st_reg st0) p = Some it0 -> it_state it0 = Unresolved gd -> gi_inner gd = GIType td0 ->
  path_parent p <> Some [] ->
  exists parent name it r td f items s efs im fns R_mid module n pending vfs body,
    path_parent p = Some parent /\ parent <> [] /\ path_last p = Some name /\
    reg_get (st_reg st) p = Some it /\ it_state it = Resolved r /\ rs_inner r = IType td /\
    In (out_path parent, f) files /\ file_items f = Some items /\ find_struct name items = Some s /\
    struct_shape name (rs_align r) (gi_vis gd) td s /\
    struct_fields s = Some efs /\ Forall2 field_of_region (td_regions td) efs /\
    (let sas := map (type_sa (st_reg st)) (map r_type (td_regions td)) in
     emitted_struct_layout sas s
     = Some (combine (map ef_name efs) (prefix_sums 0 sas), rs_size r, rs_align r)) /\
    In im items /\ inherent_impl im = Some (name, fns) /\
    match td_vftable td with
    | Some vt => exists a others, fns = a :: others /\ accessor_shape vt a
    | None => True
    end /\
    ext (st_reg st0) R_mid (st_reg st) /\
    foldM (process_statement R_mid (module_scope module)) (gt_stmts td0) (O, ([], None))
      = Ok (n, (pending, vfs)) /\
    td_regions td = own_ptr_regions (td_vftable td) ++ body /\
    Forall (fun r => region_unnamed_gen r \/ region_of_pending pending r) body.
Proof.
  intros Hin HN Hcf Hord Hres Hw Hg0 Hs0 Hty Hroot.
  destruct (emitted_type_master _ _ _ _ _ _ _ _ _ _ Hin HN Hcf Hord Hres Hw Hg0 Hs0 Hty Hroot)
    as (parent & name & it & r & td & f & pre & s & rest & post & sm & sm' &
        Hpar & Hne & Hname & Hg & Hs & Hi & Hb & Hfile & Hitems & Hfind & Hsh & He0 & Hat & He1 & He2 & HM).
  destruct (build_type_parts _ _ _ _ _ _ _ _ Hb)
    as (name' & fields & acc & assoc & vfns & conv & Hname' & _ & Hacc & _ & _ & _ & Heq).
  rewrite Hname in Hname'. inversion Hname'; subst name'. clear Hname'.
  injection Heq as _ Hrest.
  (* layout *)
  destruct (whole_build_layout _ _ _ _ _ _ _ _ _ _ _ Hin Hcf Hres Hg0 Hs0 Hty Hg Hs)
    as (td' & Hi' & _ & _ & Hnp & Hp).
  rewrite Hi in Hi'. inversion Hi'; subst td'. clear Hi'. cbn zeta in Hnp, Hp.
  destruct (emitted_layout_of_shape (st_reg st) _ _ _ _ (rs_size r) _ Hsh) as (efs & Hfields & Hfs & Hlay & Hfo).
  { intros E. destruct (Hnp E) as [-> _]. reflexivity. }
  { exact Hp. }
  rewrite Hfo, region_sa_type_sa in Hlay.
  (* the attempt *)
  destruct (type_build_inv _ _ _ _ _ _ Hat) as
      (parent' & module & doc & ta & n & pending & vfs & regions & vt & size & funcs & A &
       _ & _ & _ & Hstm & Hrr & _ & Hr).
  assert (td_regions td = regions /\ td_vftable td = vt) as (Hregs & Hvt).
  { subst r. cbn [rs_inner] in Hi. inversion Hi; subst td. split; reflexivity. }
  destruct (resolve_regions_body _ _ _ _ _ _ _ _ _ _ Hrr) as (body & Hbody & Hall).
  set (im := impl_sexp (Atom "notrait") name (acc ++ assoc ++ vfns)).
  exists parent, name, it, r, td, f, (pre ++ (s :: rest) ++ post), s, efs, im, (acc ++ assoc ++ vfns),
         (st_reg sm), module, n, pending, vfs, body.
  split; [exact Hpar|]. split; [exact Hne|]. split; [exact Hname|]. split; [exact Hg|]. split; [exact Hs|].
  split; [exact Hi|]. split; [exact Hfile|]. split; [exact Hitems|]. split; [exact Hfind|]. split; [exact Hsh|].
  split; [exact Hfields|]. split; [exact Hfs|]. split; [exact Hlay|].
  split.
  { apply in_or_app. right. apply in_or_app. left. right. rewrite Hrest.
    apply in_or_app. right. apply in_or_app. right. now left. }
  split; [apply inherent_impl_printed|].
  split.
  { destruct (td_vftable td) as [vt0|]; [|exact I]. destruct Hacc as (a & Ha & ->).
    exists a, (assoc ++ vfns). split; [reflexivity | now apply vftable_accessor_shape]. }
  split; [eapply ext_trans; eauto|]. split; [exact Hstm|].
  rewrite Hregs, Hvt. split; [exact Hbody | exact Hall].
Qed.

(** the (size, alignment) of the field types of the emitted struct, from the final registry, and
    the offsets the Reference's algorithm gives the emitted fields (no compiler padding: C01) *)
Definition emitted_field_sas (R : registry) (td : type_def) : list sa :=
  map (type_sa R) (map r_type (td_regions td)).
Definition emitted_offsets (R : registry) (td : type_def) (efs : list efield) : list (string * N) :=
  combine (map ef_name efs) (prefix_sums 0 (emitted_field_sas R td)).

Lemma emitted_offsets_nth R td efs k ef :
  Forall2 field_of_region (td_regions td) efs -> nth_error efs k = Some ef ->
  exists off, nth_error (emitted_offsets R td efs) k = Some (ef_name ef, off) /\ (k = O -> off = 0%N).
Proof.
  intros Hfs Hk. apply nth_error_combine_prefix.
  - unfold emitted_field_sas. rewrite !map_length. symmetry. eapply Forall2_length'; eauto.
  - now apply map_nth_error.
Qed.

Lemma declared_in_emitted_offsets R td efs start pending :
  Forall2 field_of_region (td_regions td) efs ->
  Forall (fun x => r_name (snd x) <> None -> In x (offsets_of R 0%N (td_regions td)))
         (declared_offsets R start pending) ->
  Forall (fun x => forall nm, r_name (snd x) = Some nm -> In (nm, fst x) (emitted_offsets R td efs))
         (declared_offsets R start pending).
Proof.
  intros Hfs. apply Forall_impl. intros [off rg] Hx nm Hnm. cbn [fst snd] in *.
  unfold emitted_offsets, emitted_field_sas. rewrite <- region_sa_type_sa.
  eapply combine_names; [exact Hfs | | exact Hnm]. apply Hx. congruence.
Qed.

Lemma find_fn_head name a others : fn_name a = Some name -> find_fn name (a :: others) = Some a.
Proof. intros H. unfold find_fn. cbn [find]. unfold is_fn_named. now rewrite H, String.eqb_refl. Qed.

(** * Part 1: SHARED POINTER -- the first [#[base]] field's type has a vftable *)
Theorem emitted_shared_pointer_whole_build
        order ptr mods st0 st files p it0 gd td0 it r td fb bp itb rsb tdb bvt :
  input_state ptr mods = Ok st0 -> NoDup (map fst mods) -> collision_free (st_reg st0) ->
  keeps_work order ->
  pyxis_resolve order ptr mods = BOk st -> write_all st = Ok files ->
  reg_get (st_reg st0) p = Some it0 -> it_state it0 = Unresolved gd -> gi_inner gd = GIType td0 ->
  path_parent p <> Some [] ->
  (* the item, its first [#[base]] field and the item of that field's type, in the final registry
     (as in [C06_whole_build_shared]) *)
  reg_get (st_reg st) p = Some it -> it_state it = Resolved r -> rs_inner r = IType td ->
  find r_is_base (td_regions td) = Some fb -> r_type fb = TRaw bp ->
  reg_get (st_reg st) bp = Some itb -> item_resolved itb = Some rsb -> rs_inner rsb = IType tdb ->
  td_vftable tdb = Some bvt ->
  let R := st_reg st in
  exists parent name base_name vt vp f items s efs k ef im fns a others R_mid module n pending vfs,
    path_parent p = Some parent /\ path_last p = Some name /\ vftable_path p = Some vp /\
    r_name fb = Some base_name /\
    (* the descriptor goes through the base field; its table type: the type's own generated table
       when it declares a block, else the base's table type *)
    td_vftable td = Some vt /\ vt_base_field vt = Some base_name /\
    vt_type vt = (if declares_vftable td0 then TConstPtr (TRaw vp) else vt_type bvt) /\
    (* the struct of the type, in the file of its module *)
    In (out_path parent, f) files /\ file_items f = Some items /\ find_struct name items = Some s /\
    struct_shape name (rs_align r) (gi_vis gd) td s /\
    struct_fields s = Some efs /\ Forall2 field_of_region (td_regions td) efs /\
    (* NO pointer field of its own: every field is a declared field or compiler-named padding *)
    Forall (fun e => ef_unnamed_gen e \/ ef_of_statement (gt_stmts td0) e) efs /\
    (no_field_named "vftable" (gt_stmts td0) -> Forall (fun e => ef_name e <> "vftable") efs) /\
    (* the base field: the first field that is a base region; its name and type tokens *)
    nth_error (td_regions td) k = Some fb /\ nth_error efs k = Some ef /\
    (forall j y, (j < k)%nat -> nth_error (td_regions td) j = Some y -> r_is_base y = false) /\
    (hd_error (td_regions td) = Some fb -> k = O) /\
    ef_name ef = base_name /\ ef_ty ef = type_tokens (TRaw bp) /\ ef_vis ef = r_vis fb /\
    (* the Reference layout of the emitted struct: the declared fields are laid out from offset 0 *)
    emitted_struct_layout (emitted_field_sas R td) s
      = Some (emitted_offsets R td efs, rs_size r, rs_align r) /\
    (exists off, nth_error (emitted_offsets R td efs) k = Some (base_name, off) /\ (k = O -> off = 0%N)) /\
    ext (st_reg st0) R_mid R /\
    foldM (process_statement R_mid (module_scope module)) (gt_stmts td0) (O, ([], None))
      = Ok (n, (pending, vfs)) /\
    Forall (fun x => forall nm, r_name (snd x) = Some nm -> In (nm, fst x) (emitted_offsets R td efs))
           (declared_offsets R 0%N pending) /\
    (* the accessor: [pub fn vftable(&self) -> <ty> { self.<base>.vftable() as <ty> }], first
       function of the inherent impl *)
    In im items /\ inherent_impl im = Some (name, fns) /\ fns = a :: others /\
    find_fn "vftable" fns = Some a /\ accessor_shape vt a /\
    fn_ret a = Some (type_tokens (vt_type vt)) /\
    fn_accessor a = Some (Some base_name, type_tokens (vt_type vt)).
Proof.
  intros Hin HN Hcf Hord Hres Hw Hg0 Hs0 Hty Hroot Hg Hs Hi Hfb Hbt Hgb Hrb Hib Hbv R.
  destruct (emitted_type_c06_master _ _ _ _ _ _ _ _ _ _ Hin HN Hcf Hord Hres Hw Hg0 Hs0 Hty Hroot)
    as (parent & name & it' & r' & td' & f & items & s & efs & im & fns & R_mid' & module' & n' & pending' & vfs' & body &
        Hpar & Hne & Hname & Hg' & Hs' & Hi' & Hfile & Hitems & Hfind & Hsh & Hfields & Hfs & Hlay &
        Him & Himpl & Hacc & _ & Hstm' & Hregs & Hbody).
  rewrite Hg in Hg'. inversion Hg'; subst it'. rewrite Hs in Hs'. inversion Hs'; subst r'.
  rewrite Hi in Hi'. inversion Hi'; subst td'. clear Hg' Hs' Hi'.
  destruct (C06_whole_build_shared _ _ _ _ _ _ _ _ _ _ _ _ _ _ _ _ _ _ Hin Hcf Hres Hg0 Hs0 Hty Hg Hs Hi
              Hfb Hbt Hgb Hrb Hib Hbv)
    as (base_name & vt & R_mid & module & n & pending & vfs & Hbn & Hvt & Hbf & Hext & Hstm & Hcase & Hoffs).
  destruct (vftable_path_total _ _ Hpar) as (vp & Hvp).
  (* no own pointer region *)
  rewrite Hvt in Hregs, Hacc. unfold own_ptr_regions in Hregs. rewrite Hbf in Hregs. cbn [app] in Hregs.
  rewrite <- Hregs in Hbody.
  pose proof (body_fields _ _ _ _ _ _ _ _ Hstm' Hbody Hfs) as Hall.
  destruct Hacc as (a & others & Hfns & Hsha).
  (* the base field *)
  destruct (find_nth _ _ _ Hfb) as (k & Hk & Hfbb & Hbefore).
  assert (hd_error (td_regions td) = Some fb -> k = O) as Hk0.
  { intros Hhd. destruct k as [|k']; [reflexivity|]. exfalso.
    assert (r_is_base fb = false) as F; [|congruence].
    apply (Hbefore O fb); [lia|]. destruct (td_regions td); [discriminate | exact Hhd]. }
  destruct (Forall2_nth_l _ _ _ Hfs _ _ Hk) as (ef & Hef & (Hefn & Heft & Hefv & _)).
  rewrite Hbn in Hefn. inversion Hefn as [Hefn'].
  destruct (emitted_offsets_nth R td efs k ef Hfs Hef) as (off & Hoff & Hoff0).
  exists parent, name, base_name, vt, vp, f, items, s, efs, k, ef, im, fns, a, others, R_mid, module, n, pending, vfs.
  split; [exact Hpar|]. split; [exact Hname|]. split; [exact Hvp|]. split; [exact Hbn|].
  split; [exact Hvt|]. split; [exact Hbf|].
  split.
  { rewrite (process_statements_declares _ _ _ _ _ _ Hstm). destruct vfs as [fs|].
    - destruct Hcase as (_ & (vp' & Hvp' & Hty') & _). rewrite Hvp in Hvp'. inversion Hvp'; subst vp'. exact Hty'.
    - apply Hcase. }
  split; [exact Hfile|]. split; [exact Hitems|]. split; [exact Hfind|]. split; [exact Hsh|].
  split; [exact Hfields|]. split; [exact Hfs|]. split; [exact Hall|].
  split; [intros Hno; eapply fields_not_named_vftable; eauto|].
  split; [exact Hk|]. split; [exact Hef|]. split; [exact Hbefore|]. split; [exact Hk0|].
  split; [now rewrite Hefn'|]. split; [now rewrite Heft, Hbt|]. split; [exact Hefv|].
  split; [exact Hlay|].
  split; [exists off; split; [rewrite Hefn'; exact Hoff | exact Hoff0]|].
  split; [exact Hext|]. split; [exact Hstm|].
  split; [now apply declared_in_emitted_offsets|].
  split; [exact Him|]. split; [exact Himpl|]. split; [exact Hfns|].
  split; [rewrite Hfns; apply find_fn_head; apply Hsha|]. split; [exact Hsha|].
  split; [apply Hsha|]. rewrite <- Hbf. apply Hsha.
Qed.

(** * Part 2: OWN POINTER -- an own vftable block, and no first base that carries a vftable *)
Theorem emitted_own_pointer_whole_build
        order ptr mods st0 st files p it0 gd td0 it r td :
  input_state ptr mods = Ok st0 -> NoDup (map fst mods) -> collision_free (st_reg st0) ->
  keeps_work order ->
  pyxis_resolve order ptr mods = BOk st -> write_all st = Ok files ->
  reg_get (st_reg st0) p = Some it0 -> it_state it0 = Unresolved gd -> gi_inner gd = GIType td0 ->
  path_parent p <> Some [] ->
  reg_get (st_reg st) p = Some it -> it_state it = Resolved r -> rs_inner r = IType td ->
  (* the description starts with a vftable block *)
  declares_vftable td0 = true ->
  (* there is no first [#[base]] field, or its type has no vftable in the final registry *)
  (forall fb bp itb rsb tdb,
     find r_is_base (td_regions td) = Some fb -> r_type fb = TRaw bp ->
     reg_get (st_reg st) bp = Some itb -> item_resolved itb = Some rsb -> rs_inner rsb = IType tdb ->
     td_vftable tdb = None) ->
  let R := st_reg st in
  exists parent name vp fs vt f items s efs ef0 efs' im fns a others R_mid module n pending,
    path_parent p = Some parent /\ path_last p = Some name /\ vftable_path p = Some vp /\
    td_vftable td = Some vt /\
    vt = {| vt_functions := fs; vt_base_field := None; vt_type := TConstPtr (TRaw vp) |} /\
    (* the struct of the type, in the file of its module *)
    In (out_path parent, f) files /\ file_items f = Some items /\ find_struct name items = Some s /\
    struct_shape name (rs_align r) (gi_vis gd) td s /\
    struct_fields s = Some efs /\ Forall2 field_of_region (td_regions td) efs /\
    (* the FIRST field is the generated pointer: [vftable], private, no attribute, [*const <T>Vftable] *)
    efs = ef0 :: efs' /\ ef_own_pointer (TConstPtr (TRaw vp)) ef0 /\
    (* exactly one: every other field is a declared field or compiler-named padding *)
    Forall (fun e => ef_unnamed_gen e \/ ef_of_statement (gt_stmts td0) e) efs' /\
    (no_field_named "vftable" (gt_stmts td0) -> Forall (fun e => ef_name e <> "vftable") efs') /\
    (* the Reference layout of the emitted struct: the pointer at offset 0, pointer-sized and
       pointer-aligned; the next field (if any) at offset [ptr]; declared fields from [ptr] on *)
    emitted_struct_layout (emitted_field_sas R td) s
      = Some (emitted_offsets R td efs, rs_size r, rs_align r) /\
    hd_error (emitted_offsets R td efs) = Some ("vftable", 0%N) /\
    hd_error (emitted_field_sas R td) = Some (ptr, ptr) /\
    (forall nm off, nth_error (emitted_offsets R td efs) 1 = Some (nm, off) -> off = ptr) /\
    ext (st_reg st0) R_mid R /\
    foldM (process_statement R_mid (module_scope module)) (gt_stmts td0) (O, ([], None))
      = Ok (n, (pending, Some fs)) /\
    Forall (fun x => forall nm, r_name (snd x) = Some nm -> In (nm, fst x) (emitted_offsets R td efs))
           (declared_offsets R ptr pending) /\
    (* the accessor: [pub fn vftable(&self) -> <ty> { self.vftable as <ty> }] *)
    In im items /\ inherent_impl im = Some (name, fns) /\ fns = a :: others /\
    find_fn "vftable" fns = Some a /\ accessor_shape vt a /\
    fn_ret a = Some (type_tokens (TConstPtr (TRaw vp))) /\
    fn_accessor a = Some (None, type_tokens (TConstPtr (TRaw vp))).
Proof.
  intros Hin HN Hcf Hord Hres Hw Hg0 Hs0 Hty Hroot Hg Hs Hi Hdecl Hnob R.
  destruct (emitted_type_c06_master _ _ _ _ _ _ _ _ _ _ Hin HN Hcf Hord Hres Hw Hg0 Hs0 Hty Hroot)
    as (parent & name & it' & r' & td' & f & items & s & efs & im & fns & R_mid' & module' & n' & pending' & vfs' & body &
        Hpar & Hne & Hname & Hg' & Hs' & Hi' & Hfile & Hitems & Hfind & Hsh & Hfields & Hfs & Hlay &
        Him & Himpl & Hacc & _ & Hstm' & Hregs & Hbody).
  rewrite Hg in Hg'. inversion Hg'; subst it'. rewrite Hs in Hs'. inversion Hs'; subst r'.
  rewrite Hi in Hi'. inversion Hi'; subst td'. clear Hg' Hs' Hi'.
  destruct (declares_vftable_inv _ Hdecl) as (stm & rest & gfs & Hst & Hfld).
  destruct (C06_whole_build_own_pointer _ _ _ _ _ _ _ _ _ _ _ _ _ _ _ Hin Hcf Hres Hg0 Hs0 Hty Hg Hs Hi Hst Hfld Hnob)
    as (vp & fs & R_mid & module & n & pending & Hvp & Hvt & _ & _ & _ & Hext & Hstm & Hoffs).
  pose proof (accepted_build_ptr _ _ _ _ _ Hin Hcf Hres) as Hptr. fold R in Hptr.
  rewrite Hvt in Hregs, Hacc. cbn [own_ptr_regions vt_base_field vt_type app] in Hregs.
  (* the first field *)
  pose proof Hfs as Hfs'. rewrite Hregs in Hfs'.
  inversion Hfs' as [|r0 ef0 rs efs' (Hn0 & Ht0 & Hv0 & Hd0) Hrest E1 E2]. subst r0 rs. clear Hfs'.
  cbn [vftable_region_of r_name r_type r_vis r_doc] in Hn0, Ht0, Hv0, Hd0. inversion Hn0 as [Hn0'].
  pose proof (body_fields _ _ _ _ _ _ _ _ Hstm' Hbody Hrest) as Hall.
  destruct Hacc as (a & others & Hfns & Hsha).
  exists parent, name, vp, fs, {| vt_functions := fs; vt_base_field := None; vt_type := TConstPtr (TRaw vp) |},
         f, items, s, (ef0 :: efs'), ef0, efs', im, fns, a, others, R_mid, module, n, pending.
  split; [exact Hpar|]. split; [exact Hname|]. split; [exact Hvp|]. split; [exact Hvt|]. split; [reflexivity|].
  split; [exact Hfile|]. split; [exact Hitems|]. split; [exact Hfind|]. split; [exact Hsh|].
  split; [congruence|]. split; [rewrite <- E2 in Hfs; exact Hfs|]. split; [reflexivity|].
  split; [repeat split; [now rewrite <- Hn0' | exact Hv0 | exact Hd0 | exact Ht0]|].
  split; [exact Hall|]. split; [intros Hno; eapply fields_not_named_vftable; eauto|].
  split; [rewrite E2; exact Hlay|].
  assert (emitted_field_sas R td
          = (ptr, ptr) :: map (type_sa R) (map r_type body)) as Hsas.
  { unfold emitted_field_sas. rewrite Hregs. cbn [map vftable_region_of r_type].
    unfold type_sa at 1. cbn [size_of align_of]. now rewrite Hptr. }
  split.
  { unfold emitted_offsets. rewrite Hsas. cbn [map prefix_sums combine hd_error]. now rewrite <- Hn0'. }
  split; [rewrite Hsas; reflexivity|].
  split.
  { intros nm off. unfold emitted_offsets. rewrite Hsas. cbn [map prefix_sums combine nth_error].
    destruct efs' as [|e1 efs'']; [discriminate|]. destruct (map (type_sa R) (map r_type body)) as [|[s1 a1] sas'];
      cbn [map prefix_sums combine nth_error]; [discriminate|].
    intros E. inversion E. subst. apply N.add_0_l. }
  split; [exact Hext|]. split; [exact Hstm|].
  split; [rewrite <- Hptr; apply declared_in_emitted_offsets; [rewrite <- E2 in Hfs; exact Hfs | exact Hoffs]|].
  split; [exact Him|]. split; [exact Himpl|]. split; [exact Hfns|].
  split; [rewrite Hfns; apply find_fn_head; apply Hsha|]. split; [exact Hsha|].
  split; [apply Hsha | apply Hsha].
Qed.

(** * Part 3: LAYOUT PREFIX *)

(** ** the statement on two emitted field lists *)
(** the emitted field [ef] of the table struct of [owner] prints the function record [f]: what the
    readers give ([slot_of_function]) and the very tokens of its type *)
Record slot_tokens (owner : path) (f : sfunction) (ef : efield) : Prop := {
  stk_slot : slot_of_function owner f ef;
  stk_ty : ef_ty ef = type_tokens (r_type (function_to_region owner f)) }.

(** two emitted slot fields, of the tables of [ob] and [od], print the SAME function record *)
Definition slot_prefix_eq (ob od : path) (eb ed : efield) : Prop :=
  exists f, slot_tokens ob f eb /\ slot_tokens od f ed.

(** how the owner shows: only inside the receiver's pointer type *)
Lemma slot_arg_owner ob od a :
  fst (slot_arg ob a) = fst (slot_arg od a) /\
  (sarg_is_self a = false -> slot_arg ob a = slot_arg od a) /\
  (sarg_is_self a = true ->
     exists q, (q = "const" \/ q = "mut") /\
       slot_arg ob a = ("this", tk "*" :: tk q :: raw_tokens ob) /\
       slot_arg od a = ("this", tk "*" :: tk q :: raw_tokens od)).
Proof.
  destruct a as [| |n t]; cbn [slot_arg sarg_is_self fst type_tokens]; (split; [reflexivity|]); split;
    try discriminate; try reflexivity; intros _.
  - exists "const". auto.
  - exists "mut". auto.
Qed.

(** what "the same function record" means for what is read back from the two fields: equal name,
    visibility, doc lines, ABI string, calling convention and return type tokens; the parameter
    lists are the images of one [sarg] list, i.e. equal except for the owner path in the pointee of
    the receiver [this] *)
Theorem slot_prefix_eq_readers ob od eb ed :
  slot_prefix_eq ob od eb ed ->
  ef_name eb = ef_name ed /\ ef_vis eb = ef_vis ed /\ ef_docs eb = ef_docs ed /\
  (exists abi, fnptr_abi (ef_ty eb) = Some abi /\ fnptr_abi (ef_ty ed) = Some abi) /\
  (exists c, fnptr_cc (ef_ty eb) = Some c /\ fnptr_cc (ef_ty ed) = Some c) /\
  exists abi args ret,
    read_fnptr (ef_ty eb) = Some {| fp_abi := abi; fp_args := map (slot_arg ob) args; fp_ret := ret |} /\
    read_fnptr (ef_ty ed) = Some {| fp_abi := abi; fp_args := map (slot_arg od) args; fp_ret := ret |} /\
    Forall (fun a => fst (slot_arg ob a) = fst (slot_arg od a) /\
                     (sarg_is_self a = false -> slot_arg ob a = slot_arg od a) /\
                     (sarg_is_self a = true ->
                        exists q, (q = "const" \/ q = "mut") /\
                          slot_arg ob a = ("this", tk "*" :: tk q :: raw_tokens ob) /\
                          slot_arg od a = ("this", tk "*" :: tk q :: raw_tokens od))) args.
Proof.
  intros (f & [Hb _] & [Hd _]).
  split; [now rewrite (sl_name _ _ _ Hb), (sl_name _ _ _ Hd)|].
  split; [now rewrite (sl_vis _ _ _ Hb), (sl_vis _ _ _ Hd)|].
  split; [now rewrite (sl_docs _ _ _ Hb), (sl_docs _ _ _ Hd)|].
  split; [exists (cc_to_string (sf_cc f)); split; [apply Hb | apply Hd]|].
  split; [exists (sf_cc f); split; [apply Hb | apply Hd]|].
  exists (cc_to_string (sf_cc f)), (sf_args f), (option_map type_tokens (sf_ret f)).
  split; [apply Hb|]. split; [apply Hd|].
  apply Forall_forall. intros a _. exact (slot_arg_owner ob od a).
Qed.

Lemma firstn_exact {A} (a b : list A) : firstn (List.length a) (a ++ b) = a.
Proof. rewrite firstn_app, Nat.sub_diag, firstn_all. cbn [firstn]. apply app_nil_r. Qed.

Lemma Forall2_same_left {A B C} (P : A -> B -> Prop) (Q : A -> C -> Prop) : forall l l1 l2,
  Forall2 P l l1 -> Forall2 Q l l2 -> Forall2 (fun b c => exists a, P a b /\ Q a c) l1 l2.
Proof.
  induction l as [|a l IH]; intros l1 l2 H1 H2; inversion H1; inversion H2; subst; constructor; eauto.
Qed.

(** the field list of the base's table struct is, position by position, a prefix of the derived
    one's *)
Theorem vftable_fields_prefix ob od fsB fsD efsB efsD :
  Forall2 (slot_tokens ob) fsB efsB -> Forall2 (slot_tokens od) fsD efsD ->
  prefix_equal fsB fsD = true -> (List.length fsB <= List.length fsD)%nat ->
  firstn (List.length fsB) fsD = fsB /\
  (List.length efsB <= List.length efsD)%nat /\
  Forall2 (slot_prefix_eq ob od) efsB (firstn (List.length efsB) efsD).
Proof.
  intros HB HD Hpe Hlen. split; [now apply prefix_equal_firstn|].
  destruct (prefix_equal_app _ _ Hpe Hlen) as (extra & ->).
  destruct (Forall2_app_l _ _ _ _ HD) as (m & m' & -> & Hm & _).
  assert (List.length efsB = List.length m) as El.
  { rewrite <- (Forall2_length' _ _ _ HB). eapply Forall2_length'; eauto. }
  split; [rewrite app_length; lia|]. rewrite El, firstn_exact.
  eapply Forall2_same_left; eauto.
Qed.

(** the byte offsets: both tables put slot [k] at [k * ptr] *)
Lemma slot_offsets_firstn ptr n m : firstn n (slot_offsets ptr 0 (n + m)) = slot_offsets ptr 0 n.
Proof.
  unfold slot_offsets. rewrite firstn_map, seq_app. f_equal.
  rewrite <- (seq_length n 0) at 1. apply firstn_exact.
Qed.

Theorem slot_layout_prefix ptr fsB extra :
  firstn (List.length fsB) (slot_layout ptr (fsB ++ extra)) = slot_layout ptr fsB.
Proof.
  unfold slot_layout. rewrite combine_firstn, map_app, app_length, slot_offsets_firstn. f_equal.
  rewrite <- (map_length sf_name fsB) at 1. apply firstn_exact.
Qed.

(** ** the emitted [<T>Vftable] of a declared type with its own block, with the tokens *)
Lemma slot_tokens_of owner : forall fs efs,
  Forall2 (slot_of_function owner) fs efs -> map ef_ty efs = map type_tokens (slot_types owner fs) ->
  Forall2 (slot_tokens owner) fs efs.
Proof.
  induction 1 as [|f ef fs efs Hf _ IH]; intros Hty; [constructor|].
  unfold slot_types in Hty. cbn [map] in Hty. injection Hty as Hty0 Hty1.
  constructor; [split; assumption | apply IH; exact Hty1].
Qed.

Lemma declared_parent ptr mods st0 p it0 gd :
  input_state ptr mods = Ok st0 -> NoDup (map fst mods) ->
  reg_get (st_reg st0) p = Some it0 -> it_state it0 = Unresolved gd -> path_parent p <> Some [] ->
  exists parent, path_parent p = Some parent /\ parent <> [] /\ alookup parent (st_modules st0) <> None.
Proof.
  intros Hin HN Hg0 Hs0 Hroot.
  destruct (input_state_declared _ _ _ Hin HN _ _ _ Hg0 Hs0) as (_ & parent & m0 & Hpar & Hm0 & _).
  exists parent. split; [exact Hpar|]. split; [intros ->; contradiction | congruence].
Qed.

Lemma emitted_vftable_tokens order ptr mods st0 st files p it0 gd td0 it r td vt :
  input_state ptr mods = Ok st0 -> NoDup (map fst mods) -> collision_free (st_reg st0) ->
  pyxis_resolve order ptr mods = BOk st -> write_all st = Ok files ->
  reg_get (st_reg st0) p = Some it0 -> it_state it0 = Unresolved gd -> gi_inner gd = GIType td0 ->
  path_parent p <> Some [] ->
  reg_get (st_reg st) p = Some it -> it_state it = Resolved r -> rs_inner r = IType td ->
  td_vftable td = Some vt -> declares_vftable td0 = true ->
  exists parent tname vp file items s efs,
    path_parent p = Some parent /\ path_last p = Some tname /\ vftable_path p = Some vp /\
    vt_type vt = TConstPtr (TRaw vp) /\
    In (out_path parent, file) files /\ file_items file = Some items /\
    find_struct (tname +++ "Vftable") items = Some s /\
    struct_name s = Some (tname +++ "Vftable") /\ struct_vis s = Some (gi_vis gd) /\
    struct_repr s = Some (ReprAlign ptr) /\
    struct_fields s = Some efs /\ Forall2 (slot_tokens p) (vt_functions vt) efs /\
    emitted_struct_layout (map (type_sa (st_reg st)) (slot_types p (vt_functions vt))) s
    = Some (slot_layout ptr (vt_functions vt), (N.of_nat (List.length (vt_functions vt)) * ptr)%N, ptr).
Proof.
  intros Hin HN Hcf Hres Hw Hg0 Hs0 Hty Hroot Hg Hs Hi Hvt Hdecl.
  destruct (declared_parent _ _ _ _ _ _ Hin HN Hg0 Hs0 Hroot) as (parent & Hpar & Hne & Hm0).
  destruct (declares_vftable_inv _ Hdecl) as (stm & rest & gfs & Hst & Hfld).
  destruct (emitted_vftable_layout_whole_build _ _ _ _ _ _ _ _ _ _ _ _ _ _ _ _
              Hin Hcf Hres Hw Hg0 Hs0 Hty Hg Hs Hpar Hne Hm0 Hst Hfld)
    as (tname & vp & vit & rs & fs & td' & vt' & file & pre & s & checks & more & post & efs &
        Htn & Hvp & Hi' & Hvt' & Hfs & Hvty & _ & _ & _ & _ & Hfile & Hitems & Hfind & Hname & Hvis & Hrepr &
        Hfields & Hall & Htoks & _ & Hlay & Hsz & Hal & _).
  rewrite Hi in Hi'. inversion Hi'; subst td'. rewrite Hvt in Hvt'. inversion Hvt'; subst vt'. clear Hi' Hvt'.
  subst fs. rewrite Hsz, Hal in Hlay.
  exists parent, tname, vp, file, (pre ++ (s :: checks ++ more) ++ post), s, efs.
  repeat (split; [assumption|]). split; [now apply slot_tokens_of | exact Hlay].
Qed.

(** ** the statement: the emitted [<q>Vftable] is a field-by-field, offset-by-offset prefix of the
    emitted [<p>Vftable]; [td] is the final type definition of [p], [bvt] the vftable descriptor of
    the type of its first base field *)
Definition vftable_prefix_emitted (ptr : N) (st : sstate) (files : list (string * sexp))
           (p : path) (td : type_def) (bvt : tvftable) (q : path) : Prop :=
  let R := st_reg st in
  exists vt parentD nameD vpD fD itemsD sD efsD parentB nameB vpB fB itemsB sB efsB,
    let fsD := vt_functions vt in
    let fsB := vt_functions bvt in
    td_vftable td = Some vt /\
    (* the derived table struct, in the file of the derived type's module *)
    path_parent p = Some parentD /\ path_last p = Some nameD /\ vftable_path p = Some vpD /\
    vt_type vt = TConstPtr (TRaw vpD) /\
    In (out_path parentD, fD) files /\ file_items fD = Some itemsD /\
    find_struct (nameD +++ "Vftable") itemsD = Some sD /\
    struct_repr sD = Some (ReprAlign ptr) /\ struct_fields sD = Some efsD /\
    Forall2 (slot_tokens p) fsD efsD /\
    (* the base's table struct, in the file of ITS module *)
    path_parent q = Some parentB /\ path_last q = Some nameB /\ vftable_path q = Some vpB /\
    vt_type bvt = TConstPtr (TRaw vpB) /\
    In (out_path parentB, fB) files /\ file_items fB = Some itemsB /\
    find_struct (nameB +++ "Vftable") itemsB = Some sB /\
    struct_repr sB = Some (ReprAlign ptr) /\ struct_fields sB = Some efsB /\
    Forall2 (slot_tokens q) fsB efsB /\
    (* the function records: the derived table starts with the base's *)
    firstn (List.length fsB) fsD = fsB /\
    (* the fields: position by position the same slot, printed for the other owner *)
    (List.length efsB <= List.length efsD)%nat /\
    Forall2 (slot_prefix_eq q p) efsB (firstn (List.length efsB) efsD) /\
    (* the Reference layouts: field [k] of both at byte offset [k * ptr] *)
    emitted_struct_layout (map (type_sa R) (slot_types p fsD)) sD
    = Some (slot_layout ptr fsD, (N.of_nat (List.length fsD) * ptr)%N, ptr) /\
    emitted_struct_layout (map (type_sa R) (slot_types q fsB)) sB
    = Some (slot_layout ptr fsB, (N.of_nat (List.length fsB) * ptr)%N, ptr) /\
    firstn (List.length fsB) (slot_layout ptr fsD) = slot_layout ptr fsB /\
    (forall k f, nth_error fsB k = Some f ->
       nth_error (slot_layout ptr fsB) k = Some (sf_name f, (N.of_nat k * ptr)%N) /\
       nth_error (slot_layout ptr fsD) k = Some (sf_name f, (N.of_nat k * ptr)%N)).

(** ** the two tables: core statement, for any declared type [q] with its own block whose table
    the first base of [p] carries (its "origin") *)
Theorem emitted_vftable_prefix_core
        order ptr mods st0 st files
        p it0 gd td0 it r td fb bp itb rsb tdb bvt
        q itq0 gdq tdq0 itq rq tdq vtq :
  input_state ptr mods = Ok st0 -> NoDup (map fst mods) -> collision_free (st_reg st0) ->
  pyxis_resolve order ptr mods = BOk st -> write_all st = Ok files ->
  (* the derived type: declared, with its own vftable block *)
  reg_get (st_reg st0) p = Some it0 -> it_state it0 = Unresolved gd -> gi_inner gd = GIType td0 ->
  path_parent p <> Some [] -> declares_vftable td0 = true ->
  reg_get (st_reg st) p = Some it -> it_state it = Resolved r -> rs_inner r = IType td ->
  (* its first [#[base]] field, whose type has a vftable *)
  find r_is_base (td_regions td) = Some fb -> r_type fb = TRaw bp ->
  reg_get (st_reg st) bp = Some itb -> item_resolved itb = Some rsb -> rs_inner rsb = IType tdb ->
  td_vftable tdb = Some bvt ->
  (* the declared type whose block that table comes from *)
  reg_get (st_reg st0) q = Some itq0 -> it_state itq0 = Unresolved gdq -> gi_inner gdq = GIType tdq0 ->
  path_parent q <> Some [] -> declares_vftable tdq0 = true ->
  reg_get (st_reg st) q = Some itq -> it_state itq = Resolved rq -> rs_inner rq = IType tdq ->
  td_vftable tdq = Some vtq -> vt_functions vtq = vt_functions bvt -> vt_type vtq = vt_type bvt ->
  vftable_prefix_emitted ptr st files p td bvt q.
Proof.
  intros Hin HN Hcf Hres Hw Hg0 Hs0 Hty Hroot Hdecl Hg Hs Hi Hfb Hbt Hgb Hrb Hib Hbv
         Hgq0 Hsq0 Htyq Hrootq Hdeclq Hgq Hsq Hiq Hvtq Hfq Htq. unfold vftable_prefix_emitted. set (R := st_reg st).
  destruct (C06_whole_build_shared _ _ _ _ _ _ _ _ _ _ _ _ _ _ _ _ _ _ Hin Hcf Hres Hg0 Hs0 Hty Hg Hs Hi
              Hfb Hbt Hgb Hrb Hib Hbv)
    as (base_name & vt & R_mid & module & n & pending & vfs & _ & Hvt & _ & _ & Hstm & Hcase & _).
  pose proof (process_statements_declares _ _ _ _ _ _ Hstm) as Hd. rewrite Hdecl in Hd.
  destruct vfs as [fs|]; [|discriminate]. destruct Hcase as (Hfs & _ & Hpe & Hlen & _). subst fs.
  destruct (emitted_vftable_tokens _ _ _ _ _ _ _ _ _ _ _ _ _ _ Hin HN Hcf Hres Hw Hg0 Hs0 Hty Hroot Hg Hs Hi Hvt Hdecl)
    as (parentD & nameD & vpD & fD & itemsD & sD & efsD &
        HparD & HnD & HvpD & HtyD & HfileD & HitemsD & HfindD & _ & _ & HreprD & HfieldsD & HallD & HlayD).
  destruct (emitted_vftable_tokens _ _ _ _ _ _ _ _ _ _ _ _ _ _ Hin HN Hcf Hres Hw Hgq0 Hsq0 Htyq Hrootq Hgq Hsq Hiq Hvtq Hdeclq)
    as (parentB & nameB & vpB & fB & itemsB & sB & efsB &
        HparB & HnB & HvpB & HtyB & HfileB & HitemsB & HfindB & _ & _ & HreprB & HfieldsB & HallB & HlayB).
  rewrite Hfq in HallB, HlayB. rewrite Htq in HtyB.
  destruct (vftable_fields_prefix _ _ _ _ _ _ HallB HallD Hpe Hlen) as (Hfirst & Hle & Hpre).
  exists vt, parentD, nameD, vpD, fD, itemsD, sD, efsD, parentB, nameB, vpB, fB, itemsB, sB, efsB. cbn zeta.
  repeat (split; [assumption|]).
  destruct (prefix_equal_app _ _ Hpe Hlen) as (extra & Hex).
  split; [rewrite Hex; apply slot_layout_prefix|].
  intros k f Hk. split; [now apply slot_layout_nth|]. apply slot_layout_nth. rewrite Hex.
  rewrite nth_error_app1; [exact Hk|]. apply nth_error_Some. congruence.
Qed.

(** ** Part 3, when the base type itself declares the block *)
Lemma item_resolved_state it rs : item_resolved it = Some rs -> it_state it = Resolved rs.
Proof. unfold item_resolved. destruct (it_state it); intros H; inversion H; reflexivity. Qed.

Theorem emitted_vftable_prefix_whole_build
        order ptr mods st0 st files
        p it0 gd td0 it r td fb bp itb0 gdb tdb0 itb rsb tdb bvt :
  input_state ptr mods = Ok st0 -> NoDup (map fst mods) -> collision_free (st_reg st0) ->
  pyxis_resolve order ptr mods = BOk st -> write_all st = Ok files ->
  (* the derived type: declared, with its own vftable block *)
  reg_get (st_reg st0) p = Some it0 -> it_state it0 = Unresolved gd -> gi_inner gd = GIType td0 ->
  path_parent p <> Some [] -> declares_vftable td0 = true ->
  reg_get (st_reg st) p = Some it -> it_state it = Resolved r -> rs_inner r = IType td ->
  (* its first [#[base]] field, of a declared type with its own vftable block (in any module) *)
  find r_is_base (td_regions td) = Some fb -> r_type fb = TRaw bp ->
  reg_get (st_reg st0) bp = Some itb0 -> it_state itb0 = Unresolved gdb -> gi_inner gdb = GIType tdb0 ->
  path_parent bp <> Some [] -> declares_vftable tdb0 = true ->
  reg_get (st_reg st) bp = Some itb -> item_resolved itb = Some rsb -> rs_inner rsb = IType tdb ->
  td_vftable tdb = Some bvt ->
  vftable_prefix_emitted ptr st files p td bvt bp.
Proof.
  intros Hin HN Hcf Hres Hw Hg0 Hs0 Hty Hroot Hdecl Hg Hs Hi Hfb Hbt Hgb0 Hsb0 Htyb Hrootb Hdeclb Hgb Hrb Hib Hbv.
  eapply (emitted_vftable_prefix_core order ptr mods st0 st files p it0 gd td0 it r td fb bp itb rsb tdb bvt
                                      bp itb0 gdb tdb0 itb rsb tdb bvt); eauto using item_resolved_state.
Qed.

(** ** the origin of a vftable descriptor: the declared type whose block it comes from, through
    any number of first-base levels *)
Definition vft_origin (st0 st : sstate) (vt : tvftable) (q : path) : Prop :=
  exists itq0 gdq tdq0 itq rq tdq vtq,
    reg_get (st_reg st0) q = Some itq0 /\ it_state itq0 = Unresolved gdq /\ gi_inner gdq = GIType tdq0 /\
    declares_vftable tdq0 = true /\
    reg_get (st_reg st) q = Some itq /\ it_state itq = Resolved rq /\ rs_inner rq = IType tdq /\
    td_vftable tdq = Some vtq /\ vt_functions vtq = vt_functions vt /\ vt_type vtq = vt_type vt.

Section Origin.
  Variables (order : schedule) (ptr : N) (mods : list (path * gmodule)) (st0 st : sstate).
  Hypothesis Hin : input_state ptr mods = Ok st0.
  Hypothesis Hcf : collision_free (st_reg st0).
  Hypothesis Hres : pyxis_resolve order ptr mods = BOk st.

  Lemma declared_type_vft_origin p it0 gd td0 it r td vt :
    reg_get (st_reg st0) p = Some it0 -> it_state it0 = Unresolved gd -> gi_inner gd = GIType td0 ->
    reg_get (st_reg st) p = Some it -> it_state it = Resolved r -> rs_inner r = IType td ->
    td_vftable td = Some vt ->
    (forall fb bp itb rsb tdb bvt,
       find r_is_base (td_regions td) = Some fb -> r_type fb = TRaw bp ->
       reg_get (st_reg st) bp = Some itb -> item_resolved itb = Some rsb -> rs_inner rsb = IType tdb ->
       td_vftable tdb = Some bvt -> exists q, vft_origin st0 st bvt q) ->
    exists q, vft_origin st0 st vt q.
  Proof.
    intros Hg0 Hs0 Hty Hg Hs Hi Hvt Hbase.
    destruct (whole_build_first_base _ _ _ _ _ _ _ _ _ _ _ _ Hin Hcf Hres Hg0 Hs0 Hty Hg Hs Hi)
      as (m & m' & module & ta & n & pending & vfs & size & vr & vp &
          Hext0 & Hmm' & Hext & HJm & HJ & Hstm & Hrr & Hvp & Hvb & Hu8).
    pose proof (process_statements_declares _ _ _ _ _ _ Hstm) as Hd.
    destruct vfs as [fs|].
    - (* own block: the type is its own origin *)
      exists p, it0, gd, td0, it, r, td, vt. repeat (split; [assumption|]). split; reflexivity.
    - (* the table of the first base *)
      unfold vftable_build in Hvb. inv_bind Hvb. rename a into base.
      destruct base as [[base_name bvt]|]; inversion Hvb; subst; [|congruence].
      match goal with H : Some _ = td_vftable td |- _ => rewrite <- H in Hvt end.
      inversion Hvt; subst vt. clear Hvt.
      destruct (find r_is_base (td_regions td)) as [fb|] eqn:Hfb; [|cbn in Ha; inversion Ha].
      unfold opt_region_name_and_vftable in Ha. inv_bind Ha. rename a into x.
      destruct x as [[nm tdm]|]; [|inversion Ha]. cbn [option_map] in Ha.
      destruct (td_vftable tdm) as [bv|] eqn:Ebv; inversion Ha; subst nm bv. clear Ha.
      destruct (typedef_lookup_ext _ _ _ _ _ _ Hext HJm HJ Ha0) as (td' & Hl' & _ & Hv' & _).
      destruct (typedef_lookup_shape _ _ _ Hl') as (nm & bp & itb & _ & Hbt & Hgb & _ & rsb & Hrb & Hib).
      destruct (Hbase _ _ _ _ _ bvt eq_refl Hbt Hgb Hrb Hib) as (q & Ho); [congruence|].
      exists q. destruct Ho as (itq0 & gdq & tdq0 & itq & rq & tdq & vtq & A1 & A2 & A3 & A4 & A5 & A6 & A7 & A8 & A9 & A10).
      exists itq0, gdq, tdq0, itq, rq, tdq, vtq. cbn [vt_functions vt_type]. repeat (split; [assumption|]). assumption.
  Qed.

  Theorem vftable_origin : forall p it rs td vt,
    reg_get (st_reg st) p = Some it -> item_resolved it = Some rs -> rs_inner rs = IType td ->
    td_vftable td = Some vt -> exists q, vft_origin st0 st vt q.
  Proof.
    destruct (rank_final _ _ _ _ _ Hin Hres) as (rank & Hrank & _).
    assert (forall n p, (rank p < n)%nat -> forall it rs td vt,
              reg_get (st_reg st) p = Some it -> item_resolved it = Some rs -> rs_inner rs = IType td ->
              td_vftable td = Some vt -> exists q, vft_origin st0 st vt q) as H.
    { induction n as [|n IH]; intros p Hlt it rs td vt Hg Hr Hi Hvt; [lia|].
      destruct (final_type_cases _ _ _ _ _ Hin Hcf Hres _ _ _ _ Hg Hr Hi) as [(it0 & gd & td0 & Hg0 & Hs0 & Hty)|(_ & Hv)];
        [|congruence].
      eapply declared_type_vft_origin; eauto using item_resolved_state.
      intros fb bp itb rsb tdb bvt Hfb Hbt Hgb Hrb Hib Hbv.
      apply find_some in Hfb as [Hfin Hfbase].
      destruct (Hrank _ _ _ _ _ _ Hg Hr Hi Hfin Hfbase Hbt) as (_ & Hlt').
      eapply (IH bp); eauto. lia. }
    intros p it rs td vt. eapply (H (S (rank p))). lia.
  Qed.
End Origin.

(** ** Part 3 in general: the first base's table may itself be inherited; the struct that is a
    prefix is the [<Q>Vftable] of the declared type [Q] the table comes from.  No declared item may
    live in the root module (which gets no file). *)
Definition no_root_decl (st0 : sstate) : Prop :=
  forall q it0 gd, reg_get (st_reg st0) q = Some it0 -> it_state it0 = Unresolved gd -> path_parent q <> Some [].

Theorem emitted_vftable_prefix_whole_build_origin
        order ptr mods st0 st files p it0 gd td0 it r td fb bp itb rsb tdb bvt :
  input_state ptr mods = Ok st0 -> NoDup (map fst mods) -> collision_free (st_reg st0) ->
  pyxis_resolve order ptr mods = BOk st -> write_all st = Ok files ->
  no_root_decl st0 ->
  reg_get (st_reg st0) p = Some it0 -> it_state it0 = Unresolved gd -> gi_inner gd = GIType td0 ->
  declares_vftable td0 = true ->
  reg_get (st_reg st) p = Some it -> it_state it = Resolved r -> rs_inner r = IType td ->
  find r_is_base (td_regions td) = Some fb -> r_type fb = TRaw bp ->
  reg_get (st_reg st) bp = Some itb -> item_resolved itb = Some rsb -> rs_inner rsb = IType tdb ->
  td_vftable tdb = Some bvt ->
  exists q, vft_origin st0 st bvt q /\ vftable_prefix_emitted ptr st files p td bvt q.
Proof.
  intros Hin HN Hcf Hres Hw Hnr Hg0 Hs0 Hty Hdecl Hg Hs Hi Hfb Hbt Hgb Hrb Hib Hbv.
  destruct (vftable_origin _ _ _ _ _ Hin Hcf Hres _ _ _ _ _ Hgb Hrb Hib Hbv) as (q & Ho).
  exists q. split; [exact Ho|].
  destruct Ho as (itq0 & gdq & tdq0 & itq & rq & tdq & vtq & A1 & A2 & A3 & A4 & A5 & A6 & A7 & A8 & A9 & A10).
  eapply (emitted_vftable_prefix_core order ptr mods st0 st files p it0 gd td0 it r td fb bp itb rsb tdb bvt
                                      q itq0 gdq tdq0 itq rq tdq vtq); eauto.
Qed.

Print Assumptions sfunction_eqb_eq.
Print Assumptions prefix_equal_firstn.
Print Assumptions resolve_regions_body.
Print Assumptions emitted_shared_pointer_whole_build.
Print Assumptions emitted_own_pointer_whole_build.
Print Assumptions slot_prefix_eq_readers.
Print Assumptions vftable_fields_prefix.
Print Assumptions emitted_vftable_prefix_core.
Print Assumptions emitted_vftable_prefix_whole_build.
Print Assumptions vftable_origin.
Print Assumptions emitted_vftable_prefix_whole_build_origin.
