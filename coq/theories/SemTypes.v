(** * SemTypes: resolved types, regions, functions, items (mirror of src/semantic/types.rs,
    function.rs, type_definition/mod.rs (data), enum_definition.rs (data), module.rs (data)). *)
From PyxisModel Require Import Base Grammar.
Local Open Scope string_scope.

Inductive cc : Type := CC_C | CC_Cdecl | CC_Stdcall | CC_Fastcall | CC_Thiscall | CC_Vectorcall | CC_System.
Definition cc_to_string (c : cc) : string :=
  match c with
  | CC_C => "C" | CC_Cdecl => "cdecl" | CC_Stdcall => "stdcall" | CC_Fastcall => "fastcall"
  | CC_Thiscall => "thiscall" | CC_Vectorcall => "vectorcall" | CC_System => "system"
  end.
Definition cc_of_string (s : string) : option cc :=
  if String.eqb s "C" then Some CC_C else
  if String.eqb s "cdecl" then Some CC_Cdecl else
  if String.eqb s "stdcall" then Some CC_Stdcall else
  if String.eqb s "fastcall" then Some CC_Fastcall else
  if String.eqb s "thiscall" then Some CC_Thiscall else
  if String.eqb s "vectorcall" then Some CC_Vectorcall else
  if String.eqb s "system" then Some CC_System else None.
Definition cc_eqb (a b : cc) : bool := String.eqb (cc_to_string a) (cc_to_string b).

(** [Type::Unresolved] is not a constructor here: the only place pyxis stores it (extern values
    before resolution) keeps the grammar type beside an optional resolved one instead. *)
Inductive stype : Type :=
| TRaw (p : path)
| TConstPtr (t : stype)
| TMutPtr (t : stype)
| TArray (t : stype) (n : N)
| TFunction (c : cc) (args : list (string * stype)) (ret : option stype).

Fixpoint stype_eqb (a b : stype) : bool :=
  match a, b with
  | TRaw p, TRaw q => path_eqb p q
  | TConstPtr x, TConstPtr y => stype_eqb x y
  | TMutPtr x, TMutPtr y => stype_eqb x y
  | TArray x n, TArray y m => stype_eqb x y && N.eqb n m
  | TFunction c1 a1 r1, TFunction c2 a2 r2 =>
    cc_eqb c1 c2 &&
    (fix go (l1 l2 : list (string * stype)) : bool :=
       match l1, l2 with
       | [], [] => true
       | (n1, t1) :: r1', (n2, t2) :: r2' => String.eqb n1 n2 && stype_eqb t1 t2 && go r1' r2'
       | _, _ => false
       end) a1 a2 &&
    match r1, r2 with
    | None, None => true
    | Some x, Some y => stype_eqb x y
    | _, _ => false
    end
  | _, _ => false
  end.

Definition svis := vis.
Definition vis_eqb (a b : vis) : bool :=
  match a, b with Public, Public | Private, Private => true | _, _ => false end.

Inductive sarg : Type := SConstSelf | SMutSelf | SField (name : string) (t : stype).
Definition sarg_is_self (a : sarg) : bool := match a with SField _ _ => false | _ => true end.
Definition sarg_eqb (a b : sarg) : bool :=
  match a, b with
  | SConstSelf, SConstSelf | SMutSelf, SMutSelf => true
  | SField n t, SField m u => String.eqb n m && stype_eqb t u
  | _, _ => false
  end.

Inductive fbody : Type :=
| BAddress (a : N)
| BField (field fname : string)
| BVftable (fname : string).
Definition fbody_eqb (a b : fbody) : bool :=
  match a, b with
  | BAddress x, BAddress y => N.eqb x y
  | BField f g, BField f' g' => String.eqb f f' && String.eqb g g'
  | BVftable f, BVftable g => String.eqb f g
  | _, _ => false
  end.
Definition fbody_is_field (b : fbody) : bool := match b with BField _ _ => true | _ => false end.

Definition opt_eqb {A} (eqb : A -> A -> bool) (a b : option A) : bool :=
  match a, b with None, None => true | Some x, Some y => eqb x y | _, _ => false end.
Fixpoint list_eqb {A} (eqb : A -> A -> bool) (a b : list A) : bool :=
  match a, b with
  | [], [] => true
  | x :: a', y :: b' => eqb x y && list_eqb eqb a' b'
  | _, _ => false
  end.

Record sfunction := {
  sf_vis : vis; sf_name : string; sf_doc : option string; sf_body : fbody;
  sf_args : list sarg; sf_ret : option stype; sf_cc : cc }.
(** derived [PartialEq] on [Function]: all seven fields *)
Definition sfunction_eqb (a b : sfunction) : bool :=
  vis_eqb (sf_vis a) (sf_vis b) && String.eqb (sf_name a) (sf_name b) &&
  opt_eqb String.eqb (sf_doc a) (sf_doc b) && fbody_eqb (sf_body a) (sf_body b) &&
  list_eqb sarg_eqb (sf_args a) (sf_args b) && opt_eqb stype_eqb (sf_ret a) (sf_ret b) &&
  cc_eqb (sf_cc a) (sf_cc b).
Definition sf_is_internal (f : sfunction) : bool := starts_with "_" (sf_name f).
Definition sf_is_public (f : sfunction) : bool := vis_eqb (sf_vis f) Public.

Record region := {
  r_vis : vis; r_name : option string; r_doc : option string; r_type : stype; r_is_base : bool }.
Definition unnamed_region (t : stype) : region :=
  {| r_vis := Private; r_name := None; r_doc := None; r_type := t; r_is_base := false |}.

Record tvftable := {
  vt_functions : list sfunction; vt_base_field : option string; vt_type : stype }.

Record type_def := {
  td_regions : list region; td_doc : option string; td_assoc : list sfunction;
  td_vftable : option tvftable; td_singleton : option N;
  td_copyable : bool; td_cloneable : bool; td_defaultable : bool; td_packed : bool }.
Definition default_type_def : type_def :=
  {| td_regions := []; td_doc := None; td_assoc := []; td_vftable := None; td_singleton := None;
     td_copyable := false; td_cloneable := false; td_defaultable := false; td_packed := false |}.

Record enum_def := {
  ed_type : stype; ed_doc : option string; ed_fields : list (string * Z);
  ed_singleton : option N; ed_copyable : bool; ed_cloneable : bool; ed_defaultable : bool;
  ed_default_index : option nat }.

Inductive item_inner : Type := IType (td : type_def) | IEnum (ed : enum_def).
Definition inner_defaultable (i : item_inner) : bool :=
  match i with
  | IType td => td_defaultable td
  | IEnum ed => ed_defaultable ed && match ed_default_index ed with Some _ => true | None => false end
  end.

Record resolved := { rs_size : N; rs_align : N; rs_inner : item_inner }.
Inductive item_state : Type := Unresolved (d : gitemdef) | Resolved (r : resolved).
Inductive category : Type := Defined | Predefined | Extern.
Record item := { it_vis : vis; it_path : path; it_state : item_state; it_cat : category }.

Definition item_resolved (it : item) : option resolved :=
  match it_state it with Resolved r => Some r | Unresolved _ => None end.
Definition item_is_resolved (it : item) : bool :=
  match it_state it with Resolved _ => true | Unresolved _ => false end.
Definition item_is_predefined (it : item) : bool :=
  match it_cat it with Predefined => true | _ => false end.

Record registry := { reg_types : list (path * item); reg_ptr : N }.

Record sextern := {
  ev_vis : vis; ev_name : string; ev_gtype : gtype; ev_type : option stype; ev_address : N }.

Record smodule := {
  m_path : path;
  m_ast : gmodule;
  m_defpaths : list path;                      (* HashSet: a duplicate-free list *)
  m_extern_values : list sextern;
  m_impls : list (path * gfnblock);            (* HashMap keyed by item path *)
  m_backends : list (string * (option string * option string));  (* source order *)
  m_doc : option string }.
Definition default_module : smodule :=
  {| m_path := []; m_ast := empty_module; m_defpaths := []; m_extern_values := [];
     m_impls := []; m_backends := []; m_doc := None |}.
Definition module_scope (m : smodule) : list path := m_path m :: gm_uses (m_ast m).

Record sstate := { st_modules : list (path * smodule); st_reg : registry }.
