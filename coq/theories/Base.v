(** * Base: outcome monad, checked machine arithmetic, strings, paths, sorting.
    Stdlib only.  Mirrors src/util.rs and the formatting calls used by pyxis. *)
From Coq Require Export List String Ascii NArith ZArith Bool Lia.
From Coq Require Import DecimalString HexadecimalString DecimalN HexadecimalN.
Export ListNotations.
Local Open Scope string_scope.

Infix "+++" := String.append (right associativity, at level 60).

(** ** Outcomes.  [Defer] is the Rust [Ok(None)] ("retry once more types are resolved"). *)
Inductive outcome (A : Type) : Type :=
| Ok (a : A)
| Defer
| Err (msg : string)
| Panic (msg : string).
Arguments Ok {A} a. Arguments Defer {A}. Arguments Err {A} msg. Arguments Panic {A} msg.

Definition bind {A B} (x : outcome A) (f : A -> outcome B) : outcome B :=
  match x with Ok a => f a | Defer => Defer | Err m => Err m | Panic m => Panic m end.
Notation "'do' x <- e ; k" := (bind e (fun x => k)) (at level 200, x pattern, e at level 100, k at level 200).
Notation "'do_' e ; k" := (bind e (fun _ => k)) (at level 200, e at level 100, k at level 200).

Definition is_ok {A} (x : outcome A) : bool := match x with Ok _ => true | _ => false end.
Definition of_option {A} (o : option A) (e : outcome A) : outcome A :=
  match o with Some a => Ok a | None => e end.

Fixpoint mapM {A B} (f : A -> outcome B) (l : list A) : outcome (list B) :=
  match l with
  | [] => Ok []
  | a :: r => do b <- f a; do bs <- mapM f r; Ok (b :: bs)
  end.

(** ** usize arithmetic (64-bit host).  pyxis uses checked operations at every site the model
    mirrors (after the overflow fix); [None] is the overflow case. *)
Definition usize_max : N := 18446744073709551615%N.
Definition isize_min : Z := (-9223372036854775808)%Z.
Definition isize_max : Z := 9223372036854775807%Z.
Definition fits_usize (n : N) : bool := (n <=? usize_max)%N.
Definition checked_add (a b : N) : option N := if fits_usize (a + b) then Some (a + b)%N else None.
Definition checked_mul (a b : N) : option N := if fits_usize (a * b) then Some (a * b)%N else None.
Definition saturating_mul (a b : N) : N := if fits_usize (a * b) then (a * b)%N else usize_max.
(** [isize -> usize] via [try_into] *)
Definition z_to_usize (z : Z) : option N := if (z <? 0)%Z then None else Some (Z.to_N z).

(** src/util.rs: lcm over the field alignments.  The code folds [acc / gcd(acc, x) * x] with a
    saturating multiplication; [None] here is the saturated case (the result is then usize::MAX,
    which exceeds every power of two a usize can hold, so the caller's comparison fails). *)
Definition lcm2 (acc x : N) : option N :=
  match N.gcd acc x with 0%N => Some 0%N | g => checked_mul (acc / g) x end.
Fixpoint lcm_list_aux (l : list N) (acc : N) : option N :=
  match l with
  | [] => Some acc
  | x :: r => match lcm2 acc x with Some a => lcm_list_aux r a | None => None end
  end.
Definition lcm_list (l : list N) : option N := lcm_list_aux l 1%N.

Definition is_power_of_two (n : N) : bool :=
  match n with 0%N => false | Npos p => (N.eqb (N.pos p) (2 ^ N.log2 (N.pos p))) end.

(** ** Number formatting *)
Definition dec_of_N (n : N) : string := DecimalString.NilZero.string_of_uint (N.to_uint n).
Definition hex_of_N (n : N) : string := HexadecimalString.NilZero.string_of_uint (N.to_hex_uint n).
Definition dec_of_Z (z : Z) : string :=
  match z with
  | Z0 => "0"
  | Zpos p => dec_of_N (Npos p)
  | Zneg p => "-" ++ dec_of_N (Npos p)
  end.

(** decimal parsing (for the S-expression reader) *)
Definition digit_of_ascii (c : ascii) : option N :=
  let n := N_of_ascii c in
  if ((48 <=? n) && (n <=? 57))%N then Some (n - 48)%N else None.
Fixpoint N_of_dec_aux (s : string) (acc : N) : option N :=
  match s with
  | EmptyString => Some acc
  | String c r => match digit_of_ascii c with
                  | Some d => N_of_dec_aux r (acc * 10 + d)%N
                  | None => None
                  end
  end.
Definition N_of_dec (s : string) : option N :=
  match s with EmptyString => None | _ => N_of_dec_aux s 0%N end.
Definition Z_of_dec (s : string) : option Z :=
  match s with
  | String "-" r => option_map (fun n => Z.opp (Z.of_N n)) (N_of_dec r)
  | _ => option_map Z.of_N (N_of_dec s)
  end.

(** ** Strings *)
Definition str_eqb := String.eqb.
Definition starts_with (p s : string) : bool := String.prefix p s.
Fixpoint string_of_list (l : list ascii) : string :=
  match l with [] => EmptyString | c :: r => String c (string_of_list r) end.
Fixpoint list_of_string (s : string) : list ascii :=
  match s with EmptyString => [] | String c r => c :: list_of_string r end.
Fixpoint concat_sep (sep : string) (l : list string) : string :=
  match l with
  | [] => ""
  | [x] => x
  | x :: r => x ++ sep ++ concat_sep sep r
  end.
(** ASCII upper-casing (Rust's [to_uppercase] on ASCII input) *)
Definition upper_ascii (c : ascii) : ascii :=
  let n := N_of_ascii c in
  if ((97 <=? n) && (n <=? 122))%N then ascii_of_N (n - 32) else c.
Fixpoint upper (s : string) : string :=
  match s with EmptyString => EmptyString | String c r => String (upper_ascii c) (upper r) end.

(** split on a character ([str::split]) *)
Fixpoint split_on_aux (sep : ascii) (s : string) (cur : string) : list string :=
  match s with
  | EmptyString => [cur]
  | String c r => if Ascii.eqb c sep then cur :: split_on_aux sep r ""
                  else split_on_aux sep r (cur ++ String c "")
  end.
Definition split_on (sep : ascii) (s : string) : list string := split_on_aux sep s "".
Definition newline : ascii := ascii_of_N 10.

(** ** Paths *)
Definition path := list string.
Fixpoint path_eqb (a b : path) : bool :=
  match a, b with
  | [], [] => true
  | x :: a', y :: b' => String.eqb x y && path_eqb a' b'
  | _, _ => false
  end.
Lemma path_eqb_spec a b : reflect (a = b) (path_eqb a b).
Proof.
  revert b; induction a as [|x a IH]; intros [|y b]; simpl; try (constructor; congruence).
  destruct (String.eqb_spec x y) as [->|Hne]; simpl.
  - destruct (IH b) as [->|Hne]; constructor; congruence.
  - constructor; congruence.
Qed.
Lemma path_eqb_refl a : path_eqb a a = true.
Proof. destruct (path_eqb_spec a a); congruence. Qed.
Lemma path_eqb_eq a b : path_eqb a b = true <-> a = b.
Proof. destruct (path_eqb_spec a b); split; congruence. Qed.

(** Rust's derived [Ord] on [Vec<String>]: lexicographic, strings by bytes *)
Fixpoint path_compare (a b : path) : comparison :=
  match a, b with
  | [], [] => Eq
  | [], _ => Lt
  | _, [] => Gt
  | x :: a', y :: b' => match String.compare x y with Eq => path_compare a' b' | c => c end
  end.
Definition path_leb (a b : path) : bool := match path_compare a b with Gt => false | _ => true end.
Definition path_parent (p : path) : option path :=
  match p with [] => None | _ => Some (removelast p) end.
Definition path_last (p : path) : option string :=
  match p with [] => None | _ => Some (last p "") end.
Definition path_join (p : path) (s : string) : path := (p ++ [s])%list.
Definition path_to_string (p : path) : string := concat_sep "::" p.
Definition path_mem (p : path) (l : list path) : bool := existsb (path_eqb p) l.

(** ** Stable insertion sort by a key order *)
Section Sort.
  Context {A : Type} (leb : A -> A -> bool).
  Fixpoint insert_sorted (x : A) (l : list A) : list A :=
    match l with
    | [] => [x]
    | y :: r => if leb y x then y :: insert_sorted x r else x :: l
    end.
  (* stable: an element goes after every element that is <= it *)
  Definition sort (l : list A) : list A := fold_left (fun acc x => insert_sorted x acc) l [].
End Sort.

(** ** Association lists with unique keys (the registry and the module table) *)
Section Assoc.
  Context {V : Type}.
  Fixpoint alookup (k : path) (l : list (path * V)) : option V :=
    match l with
    | [] => None
    | (k', v) :: r => if path_eqb k k' then Some v else alookup k r
    end.
  Fixpoint ainsert (k : path) (v : V) (l : list (path * V)) : list (path * V) :=
    match l with
    | [] => [(k, v)]
    | (k', v') :: r => if path_eqb k k' then (k, v) :: r else (k', v') :: ainsert k v r
    end.
  Definition amem (k : path) (l : list (path * V)) : bool :=
    match alookup k l with Some _ => true | None => false end.
End Assoc.

(** the schedule hook: k-th permutation in the mixed-radix numbering of
    src/semantic/type_registry.rs (verif_hook::nth_permutation) *)
Fixpoint remove_nth {A} (n : nat) (l : list A) : list A :=
  match n, l with
  | _, [] => []
  | O, _ :: r => r
  | S n', x :: r => x :: remove_nth n' r
  end.
Fixpoint nth_perm_aux {A} (fuel : nat) (k : N) (l : list A) : list A :=
  match fuel with
  | O => []
  | S f =>
    match l with
    | [] => []
    | d :: _ =>
      let n := N.of_nat (List.length l) in
      let i := N.to_nat (k mod n)%N in
      nth i l d :: nth_perm_aux f (k / n)%N (remove_nth i l)
    end
  end.
Definition nth_perm {A} (k : N) (l : list A) : list A := nth_perm_aux (List.length l) k l.
