(** * ConfluencePerm: the outcome of the abstract resolution loop does not depend on the order of
    the item list either.

    Two instances of Confluence.v's loop: attempt functions that agree pointwise, item lists with the
    same members, any two permutation-valued order functions, any two sufficient fuels.  Both strict
    loops are characterised ([strict_char]) by one and the same ideal (the limit of the lax loop of
    the first instance), and an ideal mentions the item list only through membership. *)
From Coq Require Import List Arith Lia Bool Permutation.
From PyxisModel Require Import Confluence.
Import ListNotations.

Section ConfPerm.
  Variable K V : Type.
  Variable eqb : K -> K -> bool.
  Hypothesis eqb_spec : forall a b, reflect (a = b) (eqb a b).

  Variable att att' : st K V -> K -> res V.
  Hypothesis att_eq : forall R k, att R k = att' R k.
  Hypothesis M1 : forall R R' k v, le K V R R' -> R k = None -> R' k = None ->
    att R k = Done V v -> att R' k = Done V v.
  Hypothesis M2 : forall R R' k, le K V R R' -> R k = None -> R' k = None ->
    att R k = Fail V -> att R' k = Fail V.

  Variable items items' : list K.
  Hypothesis items_iff : forall k, In k items <-> In k items'.

  Lemma M1' R R' k v : le K V R R' -> R k = None -> R' k = None ->
    att' R k = Done V v -> att' R' k = Done V v.
  Proof. rewrite <- !att_eq. apply M1. Qed.
  Lemma M2' R R' k : le K V R R' -> R k = None -> R' k = None ->
    att' R k = Fail V -> att' R' k = Fail V.
  Proof. rewrite <- !att_eq. apply M2. Qed.

  Lemma steps_transfer R T : steps K V eqb att items R T -> steps K V eqb att' items' R T.
  Proof.
    induction 1 as [R | R k v T Hin Hk Ha Hs IH]; [constructor|].
    apply (steps_step K V eqb att' items' R k v T); [now apply items_iff | exact Hk | now rewrite <- att_eq | exact IH].
  Qed.

  Lemma maximal_transfer T : maximal K V att items T -> maximal K V att' items' T.
  Proof. intros H k v Hin Hk. rewrite <- att_eq. apply H; [now apply items_iff | exact Hk]. Qed.

  Lemma ideal_transfer R0 T : ideal K V eqb att items R0 T -> ideal K V eqb att' items' R0 T.
  Proof. intros [H1 H2]. split; [now apply steps_transfer | now apply maximal_transfer]. Qed.

  Lemma unres_nil_transfer T : unres K V items T = [] <-> unres K V items' T = [].
  Proof.
    split; intros H.
    - destruct (unres K V items' T) as [|k l] eqn:E; [reflexivity|]. exfalso.
      assert (In k (unres K V items' T)) as X by (rewrite E; now left).
      apply unres_in in X as [Hin Hk]. apply items_iff in Hin.
      assert (In k (unres K V items T)) as Y by (apply unres_in; tauto). rewrite H in Y. destruct Y.
    - destruct (unres K V items T) as [|k l] eqn:E; [reflexivity|]. exfalso.
      assert (In k (unres K V items T)) as X by (rewrite E; now left).
      apply unres_in in X as [Hin Hk]. apply items_iff in Hin.
      assert (In k (unres K V items' T)) as Y by (apply unres_in; tauto). rewrite H in Y. destruct Y.
  Qed.

  (** same class, and the same value at every item *)
  Definition same_outcome2 (a b : outcome K V) : Prop :=
    match a, b with
    | OOk _ _ R1, OOk _ _ R2 => forall k, In k items -> R1 k = R2 k
    | ONoProgress _ _ R1, ONoProgress _ _ R2 => forall k, In k items -> R1 k = R2 k
    | OFail _ _, OFail _ _ => True
    | _, _ => False
    end.

  Theorem order_independent_perm (o1 o2 : list K -> list K) :
    (forall l, Permutation (o1 l) l) -> (forall l, Permutation (o2 l) l) ->
    forall fuel fuel' R0, length (unres K V items R0) < fuel -> length (unres K V items' R0) < fuel' ->
    same_outcome2 (loop K V eqb att items o1 true fuel R0) (loop K V eqb att' items' o2 true fuel' R0).
  Proof.
    intros P1 P2 fuel fuel' R0 Hf Hf'.
    destruct (lax_ideal K V eqb eqb_spec att items o1 P1 fuel R0 Hf) as [T [_ [HS HM]]].
    assert (ideal K V eqb att items R0 T) as HT by (split; assumption).
    pose proof (ideal_transfer _ _ HT) as HT'.
    pose proof (steps_le K V eqb eqb_spec att items _ _ HS) as HL.
    pose proof (strict_char K V eqb eqb_spec att M1 M2 items o1 P1 R0 T HT fuel R0 (le_refl K V _) HL Hf) as C1.
    pose proof (strict_char K V eqb eqb_spec att' M1' M2' items' o2 P2 R0 T HT' fuel' R0 (le_refl K V _) HL Hf') as C2.
    destruct (loop K V eqb att items o1 true fuel R0) as [A|A| |],
             (loop K V eqb att' items' o2 true fuel' R0) as [B|B| |]; cbn [same_outcome2]; try contradiction; auto.
    - destruct C1 as [G1 _], C2 as [G2 _]. intros k Hk. rewrite G1 by exact Hk. symmetry. apply G2. now apply items_iff.
    - destruct C1 as [_ E], C2 as [_ [N _]]. apply N. now apply unres_nil_transfer.
    - destruct C1 as [_ E], C2 as [k [Hin [Hk _]]]. apply items_iff in Hin.
      assert (In k (unres K V items T)) as X by (apply unres_in; tauto). rewrite E in X. destruct X.
    - destruct C1 as [_ [N _]], C2 as [_ E]. apply N. now apply unres_nil_transfer.
    - destruct C1 as [G1 _], C2 as [G2 _]. intros k Hk. rewrite G1 by exact Hk. symmetry. apply G2. now apply items_iff.
    - destruct C1 as [_ [_ D]], C2 as [k [Hin [Hk F]]]. apply items_iff in Hin. rewrite <- att_eq in F.
      rewrite D in F; [discriminate | apply unres_in; tauto].
    - destruct C2 as [_ E], C1 as [k [Hin [Hk _]]]. apply items_iff in Hin.
      assert (In k (unres K V items' T)) as X by (apply unres_in; tauto). rewrite E in X. destruct X.
    - destruct C2 as [_ [_ D]], C1 as [k [Hin [Hk F]]]. apply items_iff in Hin. rewrite att_eq in F.
      rewrite D in F; [discriminate | apply unres_in; tauto].
  Qed.
End ConfPerm.
