(** * C19 on the EMITTED FILES: a module's bindings do not depend on unrelated definitions.

    The final statements.  Two inputs, the second with additional modules ([mods1 ++ extra]); the
    hypotheses are those of [Unrelated.pyxis_resolve_unrelated] (both inputs [collision_free] and
    clean, [no_capture], both builds accepted, any two permutation-valued schedules).  Then for
    every module of the first input the back end gives the SAME OUTCOME in both final states --
    the same file, or the same error, or the same panic ([module_file_unrelated]); and when the
    bigger build writes its files, the smaller one does too and each of its files is, with the
    same path and the same content, one of the bigger build's files ([write_all_unrelated]).

    Proof: UnrelatedFilesLift.v (same outcome unless the first is the model's own "hierarchy fuel
    exhausted" panic -- the two final registries have different sizes, hence different recursion
    fuels) and HierarchyFuel.v (that panic is unreachable on an accepted build). *)
From Coq Require Import List NArith ZArith Bool Lia String Permutation.
From PyxisModel Require Import Base Sexp Grammar SemTypes Registry Sem Emit SemLemmas
     EmitLemmas WholeBuild WholeBuildMore Monotone OrderIndep EmitInvariance FinalState OutputIndep Examples
     Unrelated UnrelatedStates EmitLocal UnrelatedGen UnrelatedFilesLift HierarchyFuel.
Import ListNotations.
Local Open Scope string_scope.
Local Open Scope list_scope.

(** ** one module *)
Theorem module_file_unrelated ptr mods1 extra st1 st2 o1 o2 t1 t2 :
  input_state ptr mods1 = Ok st1 -> input_state ptr (mods1 ++ extra) = Ok st2 ->
  collision_free (st_reg st1) -> collision_free (st_reg st2) ->
  clean_stateb st1 = true -> clean_stateb st2 = true ->
  no_capture st1 st2 extra = true ->
  (forall l, Permutation (o1 l) l) -> (forall l, Permutation (o2 l) l) ->
  pyxis_resolve o1 ptr mods1 = BOk t1 -> pyxis_resolve o2 ptr (mods1 ++ extra) = BOk t2 ->
  forall k m, alookup k (st_modules st1) = Some m ->
  exists m1 m2, alookup k (st_modules t1) = Some m1 /\ alookup k (st_modules t2) = Some m2 /\
                module_file t1 m1 = module_file t2 m2.
Proof.
  intros Hin1 Hin2 Hcf1 Hcf2 Hcl1 Hcl2 Hnc P1 P2 L1 L2 k m Hk.
  destruct (pyxis_resolve_unrelated_externs ptr mods1 extra st1 st2 o1 o2 t1 t2 Hin1 Hin2 Hcf1 Hcf2 Hcl1 Hcl2 Hnc P1 P2 L1 L2 k m Hk)
    as (m1 & m2 & Hl1 & Hl2 & _).
  exists m1, m2. split; [exact Hl1|]. split; [exact Hl2|]. symmetry.
  apply (module_file_unrelated_lift_closed ptr mods1 extra st1 st2 o1 o2 t1 t2 Hin1 Hin2 Hcf1 Hcf2 Hcl1 Hcl2 Hnc P1 P2 L1 L2
           k m m1 m2 _ Hk Hl1 Hl2 eq_refl).
  apply (module_file_not_fuel ptr mods1 st1 o1 t1 m1 Hin1 Hcf1 Hcl1 P1 L1).
Qed.

(** the form with the two module records given *)
Corollary module_file_unrelated_eq ptr mods1 extra st1 st2 o1 o2 t1 t2 :
  input_state ptr mods1 = Ok st1 -> input_state ptr (mods1 ++ extra) = Ok st2 ->
  collision_free (st_reg st1) -> collision_free (st_reg st2) ->
  clean_stateb st1 = true -> clean_stateb st2 = true ->
  no_capture st1 st2 extra = true ->
  (forall l, Permutation (o1 l) l) -> (forall l, Permutation (o2 l) l) ->
  pyxis_resolve o1 ptr mods1 = BOk t1 -> pyxis_resolve o2 ptr (mods1 ++ extra) = BOk t2 ->
  forall k m m1 m2, alookup k (st_modules st1) = Some m ->
    alookup k (st_modules t1) = Some m1 -> alookup k (st_modules t2) = Some m2 ->
    module_file t1 m1 = module_file t2 m2.
Proof.
  intros Hin1 Hin2 Hcf1 Hcf2 Hcl1 Hcl2 Hnc P1 P2 L1 L2 k m m1 m2 Hk Hl1 Hl2.
  destruct (module_file_unrelated ptr mods1 extra st1 st2 o1 o2 t1 t2 Hin1 Hin2 Hcf1 Hcf2 Hcl1 Hcl2 Hnc P1 P2 L1 L2 k m Hk)
    as (m1' & m2' & Hl1' & Hl2' & E). congruence.
Qed.

(** the Ok/Ok form: the two files are equal *)
Corollary module_file_unrelated_ok ptr mods1 extra st1 st2 o1 o2 t1 t2 :
  input_state ptr mods1 = Ok st1 -> input_state ptr (mods1 ++ extra) = Ok st2 ->
  collision_free (st_reg st1) -> collision_free (st_reg st2) ->
  clean_stateb st1 = true -> clean_stateb st2 = true ->
  no_capture st1 st2 extra = true ->
  (forall l, Permutation (o1 l) l) -> (forall l, Permutation (o2 l) l) ->
  pyxis_resolve o1 ptr mods1 = BOk t1 -> pyxis_resolve o2 ptr (mods1 ++ extra) = BOk t2 ->
  forall k m m1 m2 f1 f2, alookup k (st_modules st1) = Some m ->
    alookup k (st_modules t1) = Some m1 -> alookup k (st_modules t2) = Some m2 ->
    module_file t1 m1 = Ok f1 -> module_file t2 m2 = Ok f2 -> f1 = f2.
Proof.
  intros Hin1 Hin2 Hcf1 Hcf2 Hcl1 Hcl2 Hnc P1 P2 L1 L2 k m m1 m2 f1 f2 Hk Hl1 Hl2 H1 H2.
  pose proof (module_file_unrelated_eq ptr mods1 extra st1 st2 o1 o2 t1 t2 Hin1 Hin2 Hcf1 Hcf2 Hcl1 Hcl2 Hnc P1 P2 L1 L2
                k m m1 m2 Hk Hl1 Hl2) as E. congruence.
Qed.

(** ** all files *)
(** the module table of an accepted build has the keys of the input's, without duplicates *)
Lemma final_module_keys ptr mods st0 order t :
  input_state ptr mods = Ok st0 -> collision_free (st_reg st0) -> clean_stateb st0 = true ->
  (forall l, Permutation (order l) l) -> pyxis_resolve order ptr mods = BOk t ->
  map fst (st_modules t) = map fst (st_modules st0) /\ NoDup (map fst (st_modules t)).
Proof.
  intros Hin Hcf Hcl HP HL.
  destruct (run_facts ptr mods st0 Hin Hcf Hcl order t HP HL) as (s & A & _ & F & _ & (_ & _ & [HK _]) & _).
  destruct (input_state_wf _ _ _ Hin) as [_ [HN _]].
  assert (map fst (st_modules t) = map fst (st_modules st0)) as E by (rewrite (finish_build_keys _ _ F); exact HK).
  split; [exact E | now rewrite E].
Qed.

Lemma mapM_all_ok {A B} (f : A -> outcome B) : forall l,
  (forall a, In a l -> exists b, f a = Ok b) -> exists out, mapM f l = Ok out.
Proof.
  induction l as [|a l IH]; intros H; cbn [mapM]; [eauto|].
  destruct (H a (or_introl eq_refl)) as (b & ->). destruct IH as (out & ->); [intros; apply H; now right|].
  cbn [bind]. eauto.
Qed.

Definition write_one (st : sstate) (km : path * smodule) : outcome (option (string * sexp)) :=
  match fst km with
  | [] => Ok None
  | _ => do f <- module_file st (snd km); Ok (Some (out_path (fst km), f))
  end.

Lemma write_all_unfold st : write_all st =
  do files <- mapM (write_one st) (st_modules st);
  Ok (sort (fun a b => match String.compare (fst a) (fst b) with Gt => false | _ => true end) (somes files)).
Proof. reflexivity. Qed.

(** if the bigger build writes its files, so does the smaller one, and every file of the smaller
    build is -- same path, same content -- a file of the bigger build *)
Theorem write_all_unrelated ptr mods1 extra st1 st2 o1 o2 t1 t2 files2 :
  input_state ptr mods1 = Ok st1 -> input_state ptr (mods1 ++ extra) = Ok st2 ->
  collision_free (st_reg st1) -> collision_free (st_reg st2) ->
  clean_stateb st1 = true -> clean_stateb st2 = true ->
  no_capture st1 st2 extra = true ->
  (forall l, Permutation (o1 l) l) -> (forall l, Permutation (o2 l) l) ->
  pyxis_resolve o1 ptr mods1 = BOk t1 -> pyxis_resolve o2 ptr (mods1 ++ extra) = BOk t2 ->
  write_all t2 = Ok files2 ->
  exists files1, write_all t1 = Ok files1 /\ incl files1 files2.
Proof.
  intros Hin1 Hin2 Hcf1 Hcf2 Hcl1 Hcl2 Hnc P1 P2 L1 L2 W2.
  destruct (final_module_keys ptr mods1 st1 o1 t1 Hin1 Hcf1 Hcl1 P1 L1) as [HK1 HN1].
  rewrite write_all_unfold in W2. inv_bind W2. rename a into outs2. inversion W2; subst files2; clear W2.
  (* every module of the first final state is written, as in the second *)
  assert (forall km, In km (st_modules t1) -> exists b, write_one t1 km = Ok b /\ (forall x, b = Some x -> In (Some x) outs2)) as Hone.
  { intros [k m1] Hin. pose proof (alookup_of_in _ _ _ HN1 Hin) as Hl1.
    unfold write_one. cbn [fst snd]. destruct k as [|k0 k']; [exists None; split; [reflexivity | discriminate]|].
    assert (In (k0 :: k') (map fst (st_modules st1))) as Hkey by (rewrite <- HK1; apply (in_map fst _ _ Hin)).
    apply alookup_some_in_keys in Hkey. destruct (alookup (k0 :: k') (st_modules st1)) as [m|] eqn:Hk; [|congruence].
    destruct (module_file_unrelated ptr mods1 extra st1 st2 o1 o2 t1 t2 Hin1 Hin2 Hcf1 Hcf2 Hcl1 Hcl2 Hnc P1 P2 L1 L2 _ _ Hk)
      as (m1' & m2 & Hl1' & Hl2 & E). rewrite Hl1 in Hl1'. inversion Hl1'; subst m1'.
    destruct (alookup_in _ _ _ Hl2) as (k'' & Hin2' & ->).
    destruct (mapM_in_in _ _ _ Ha _ Hin2') as (b & Hb & Hw). unfold write_one in Hw. cbn [fst snd] in Hw.
    rewrite E. destruct (module_file t2 m2) as [f| | |]; cbn [bind] in Hw; try discriminate.
    inversion Hw; subst b. cbn [bind]. eexists. split; [reflexivity|]. intros x Hx. inversion Hx; subst x. exact Hb. }
  destruct (mapM_all_ok (write_one t1) (st_modules t1)) as (outs1 & Ho1).
  { intros km Hin. destruct (Hone km Hin) as (b & Hb & _). eauto. }
  exists (sort (fun a b => match String.compare (fst a) (fst b) with Gt => false | _ => true end) (somes outs1)).
  split; [rewrite write_all_unfold, Ho1; reflexivity|].
  intros x Hx. apply (Permutation_in _ (Permutation_sym (sort_perm _ _))) in Hx. apply in_somes in Hx.
  destruct (mapM_in_out _ _ _ Ho1 _ Hx) as (km & Hin & Hw). destruct (Hone km Hin) as (b & Hb & Hall).
  rewrite Hw in Hb. inversion Hb; subst b.
  apply (Permutation_in _ (sort_perm _ _)). apply in_somes. now apply Hall.
Qed.

(** both write: the files of the first are among the files of the second *)
Corollary write_all_unrelated_incl ptr mods1 extra st1 st2 o1 o2 t1 t2 files1 files2 :
  input_state ptr mods1 = Ok st1 -> input_state ptr (mods1 ++ extra) = Ok st2 ->
  collision_free (st_reg st1) -> collision_free (st_reg st2) ->
  clean_stateb st1 = true -> clean_stateb st2 = true ->
  no_capture st1 st2 extra = true ->
  (forall l, Permutation (o1 l) l) -> (forall l, Permutation (o2 l) l) ->
  pyxis_resolve o1 ptr mods1 = BOk t1 -> pyxis_resolve o2 ptr (mods1 ++ extra) = BOk t2 ->
  write_all t1 = Ok files1 -> write_all t2 = Ok files2 -> incl files1 files2.
Proof.
  intros Hin1 Hin2 Hcf1 Hcf2 Hcl1 Hcl2 Hnc P1 P2 L1 L2 W1 W2.
  destruct (write_all_unrelated ptr mods1 extra st1 st2 o1 o2 t1 t2 files2 Hin1 Hin2 Hcf1 Hcf2 Hcl1 Hcl2 Hnc P1 P2 L1 L2 W2)
    as (files1' & W1' & Hi). rewrite W1 in W1'. inversion W1'; subst files1'. exact Hi.
Qed.

Print Assumptions module_file_unrelated.
Print Assumptions write_all_unrelated.
Print Assumptions module_file_unrelated_lift_closed.
Print Assumptions hierarchy_fuel_enough.
Print Assumptions module_file_not_fuel.

(** ** non-vacuity *)
Definition file_of (r : build_result) (k : path) : option (outcome sexp) :=
  match r with
  | BOk t => match alookup k (st_modules t) with Some m => Some (module_file t m) | None => None end
  | _ => None
  end.
Definition same_ok_file (x y : option (outcome sexp)) : Prop :=
  match x, y with Some (Ok a), Some (Ok b) => a = b | _, _ => False end.
Definition files_of (r : build_result) : option (list (string * sexp)) :=
  match r with BOk t => match write_all t with Ok l => Some l | _ => None end | _ => None end.

(** the two inputs of Unrelated.v (module [a]; module [a] and the unrelated module [z]): both
    builds are accepted, the file of module [a] is produced in both, and is the same *)
Example unrelated_file_a :
  same_ok_file (file_of (pyxis_resolve (hook_schedule []) 4 unrel_mods1) ["a"])
               (file_of (pyxis_resolve (hook_schedule []) 4 (unrel_mods1 ++ unrel_extra)) ["a"]).
Proof. vm_compute. reflexivity. Qed.

(** the whole output: [a.rs] alone, and [a.rs], [z.rs]; the first list is included in the second *)
Example unrelated_write_all :
  match files_of (pyxis_resolve (hook_schedule []) 4 unrel_mods1),
        files_of (pyxis_resolve (hook_schedule []) 4 (unrel_mods1 ++ unrel_extra)) with
  | Some l1, Some l2 => (map fst l1 = ["a.rs"]) /\ (map fst l2 = ["a.rs"; "z.rs"]) /\ incl l1 l2
  | _, _ => False
  end.
Proof. vm_compute. split; [reflexivity|]. split; [reflexivity|]. intros x [<-|[]]. now left. Qed.

(** the theorem applies to these inputs, for any two schedules *)
Example unrelated_files_applies o1 o2 t1 t2 :
  (forall l, Permutation (o1 l) l) -> (forall l, Permutation (o2 l) l) ->
  pyxis_resolve o1 4 unrel_mods1 = BOk t1 -> pyxis_resolve o2 4 (unrel_mods1 ++ unrel_extra) = BOk t2 ->
  exists m1 m2, alookup ["a"] (st_modules t1) = Some m1 /\ alookup ["a"] (st_modules t2) = Some m2 /\
                module_file t1 m1 = module_file t2 m2.
Proof.
  intros P1 P2 L1 L2. destruct unrelated_no_capture as (st1 & st2 & H1 & H2 & C1 & C2 & K1 & K2 & _ & _ & Hnc).
  assert (exists m, alookup ["a"] (st_modules st1) = Some m) as (m & Hm).
  { vm_compute in H1. inversion H1; subst st1. vm_compute. eauto. }
  exact (module_file_unrelated 4 unrel_mods1 unrel_extra st1 st2 o1 o2 t1 t2 H1 H2
           (collision_freeb_sound _ C1) (collision_freeb_sound _ C2) K1 K2 Hnc P1 P2 L1 L2 ["a"] m Hm).
Qed.

(** a richer first input: the module [m] of WholeBuildMore.v (vftables, a two-level base-class
    hierarchy, an enum); the extra module [z] again.  The side conditions hold; the two final
    registries have 25 and 27 entries (so the back end runs with different recursion fuels); the
    file of [m] is the same, also under different schedules *)
Example unrelated_more_side_conditions :
  exists st1 st2,
    input_state 4 more_mods = Ok st1 /\ input_state 4 (more_mods ++ unrel_extra) = Ok st2 /\
    collision_freeb (st_reg st1) = true /\ collision_freeb (st_reg st2) = true /\
    clean_stateb st1 = true /\ clean_stateb st2 = true /\
    no_capture st1 st2 unrel_extra = true.
Proof. vm_compute. eexists. eexists. repeat split; reflexivity. Qed.

Example unrelated_more_file_m :
  same_ok_file (file_of (pyxis_resolve (hook_schedule []) 4 more_mods) ["m"])
               (file_of (pyxis_resolve (hook_schedule [3%N; 1%N]) 4 (more_mods ++ unrel_extra)) ["m"]).
Proof. vm_compute. reflexivity. Qed.

Example unrelated_more_reg_sizes :
  match pyxis_resolve (hook_schedule []) 4 more_mods, pyxis_resolve (hook_schedule []) 4 (more_mods ++ unrel_extra) with
  | BOk t1, BOk t2 => (List.length (reg_types (st_reg t1)) = 25) /\ (List.length (reg_types (st_reg t2)) = 27)
  | _, _ => False
  end.
Proof. vm_compute. split; reflexivity. Qed.
