(** Extraction of the executable model.  Directives used: those of ExtrOcamlBasic
    (bool, option, unit, prod, list, sumbool, andb, orb, negb inlined) and ExtrOcamlString
    (ascii -> char, string -> char list); numbers stay the extracted positive/N/Z datatypes. *)
From Coq Require Import Extraction ExtrOcamlBasic ExtrOcamlString.
From PyxisModel Require Import Base Sexp Grammar SemTypes Registry Sem Emit Driver.

Extraction "ocaml_model.ml" run_cases.
