(** * The converse of Stuck.v (C10, "if" and "exactly"): why an attempt defers.

    Part 1: N2 for the model's real attempt ([att_N2]): an attempt that defers does so because a
    field type names nothing ([undefinedb]), or because a by-value dependency is still unresolved,
    or because an unsigned 64-bit computation overflowed ([overflows]: an array type whose byte
    size, or a layout whose end offset, exceeds [usize_max]).
    Part 2: the no-progress list is self-supporting, and contains every self-supporting set.
    Part 3: no undefined item, no overflow, well-founded by-value embedding => never [BNoProgress]. *)
From Coq Require Import List NArith ZArith Bool Lia String Permutation.
From PyxisModel Require Import Base Grammar SemTypes Registry Sem SemLemmas PlacementLemmas ScopeLemmas
     TotalityLemmas NoPanic EmitLemmas WholeBuild Monotone OrderIndep Locality FinalState Examples Stuck.
From PyxisModel Require Confluence.
Import ListNotations.
Local Open Scope string_scope.
Local Open Scope list_scope.

(** ** why [size_of] is [None] *)

(** every (nested) array type of [t] whose element size is known has a byte size within usize *)
Fixpoint arr_fits (R : registry) (t : stype) : bool :=
  match t with
  | TArray t' n => arr_fits R t' &&
                   match size_of R t' with Some s => fits_usize (s * n) | None => true end
  | _ => true
  end.

(** [d] is not (known as) a resolved item of [R] *)
Definition unsized (R : registry) (d : path) : Prop :=
  forall it, reg_get R d = Some it -> item_is_resolved it = false.

Lemma size_none_cause R : forall t, size_of R t = None ->
  arr_fits R t = false \/ exists d, In d (byval_paths t) /\ unsized R d.
Proof.
  induction t as [p|t IH|t IH|t IH n|c args ret]; cbn [size_of arr_fits byval_paths]; intros H; try discriminate.
  - right. exists p. split; [now left|]. intros it Hg. rewrite Hg in H.
    unfold item_size, item_resolved, item_is_resolved in *. destruct (it_state it); [reflexivity | discriminate].
  - destruct (size_of R t) as [s|] eqn:Es.
    + left. unfold checked_mul in H. destruct (fits_usize (s * n)); [discriminate|]. apply andb_false_r.
    + destruct (IH eq_refl) as [Hf|Hd]; [left; now rewrite Hf | right; exact Hd].
Qed.

(** conversely, nothing else makes a size unknown *)
Lemma size_some_of_fits R : forall t, arr_fits R t = true ->
  (forall d, In d (byval_paths t) -> exists it, reg_get R d = Some it /\ item_is_resolved it = true) ->
  size_of R t <> None.
Proof.
  intros t Hf Hd Hn. destruct (size_none_cause R t Hn) as [E|(d & Hin & Hu)]; [congruence|].
  destruct (Hd d Hin) as (it & Hg & Hr). rewrite (Hu it Hg) in Hr. discriminate.
Qed.

(** ** the layout with unbounded integers *)
Definition wsize (R : registry) (t : stype) : N :=
  match size_of R t with Some s => s | None => 0%N end.
Definition wide_step (R : registry) (cur : N) (p : option N * region) : N :=
  ((match fst p with Some a => N.max a cur | None => cur end) + wsize R (r_type (snd p)))%N.
Definition wide_fields (R : registry) (start : N) (pending : list (option N * region)) : N :=
  fold_left (wide_step R) pending start.
(** the end offset of the item: after the vftable pointer ([start]), the fields at their declared
    addresses, and the padding up to the declared size *)
Definition wide_end (R : registry) (start : N) (ts : option N) (pending : list (option N * region)) : N :=
  match ts with
  | Some t => N.max (wide_fields R start pending) t
  | None => wide_fields R start pending
  end.

Lemma wide_step_ge R cur p : (cur <= wide_step R cur p)%N.
Proof. unfold wide_step. destruct (fst p); lia. Qed.

Lemma wide_fields_ge R : forall pending start, (start <= wide_fields R start pending)%N.
Proof.
  unfold wide_fields. induction pending as [|p pending IH]; intros start; cbn [fold_left]; [lia|].
  pose proof (wide_step_ge R start p). pose proof (IH (wide_step R start p)). lia.
Qed.

Lemma fits_le n : (n <= usize_max)%N -> fits_usize n = true.
Proof. unfold fits_usize. intros H. now apply N.leb_le. Qed.

Lemma regions_push_fit R acc r s :
  size_of R (r_type r) = Some s -> (snd acc + s <= usize_max)%N -> Forall (sized R) (fst acc) ->
  exists acc', regions_push R acc r = Some acc' /\ snd acc' = (snd acc + s)%N /\ Forall (sized R) (fst acc').
Proof.
  intros Hs Hle Hacc. unfold regions_push. rewrite Hs.
  destruct ((s =? 0)%N && stype_is_array (r_type r)) eqn:E.
  - exists acc. apply andb_prop in E as [E _]. apply N.eqb_eq in E. subst s.
    split; [reflexivity|]. split; [lia | exact Hacc].
  - unfold checked_add. rewrite (fits_le _ Hle). eexists. split; [reflexivity|]. cbn [fst snd].
    split; [reflexivity|]. apply Forall_app. split; [exact Hacc|]. constructor; [|constructor].
    unfold sized. congruence.
Qed.

Lemma padding_push_fit R acc n : reg_u8 R -> (snd acc + n <= usize_max)%N -> Forall (sized R) (fst acc) ->
  exists acc', regions_push R acc (unnamed_region (padding_type n)) = Some acc' /\
               snd acc' = (snd acc + n)%N /\ Forall (sized R) (fst acc').
Proof.
  intros Hu8 Hle Hacc. apply regions_push_fit; [|exact Hle | exact Hacc].
  cbn [unnamed_region r_type]. rewrite (padding_size_eq _ _ Hu8). unfold checked_mul.
  rewrite N.mul_1_l. rewrite fits_le by lia. reflexivity.
Qed.

Lemma push_pending_fit R acc p :
  reg_u8 R -> sized R (snd p) -> (wide_step R (snd acc) p <= usize_max)%N -> Forall (sized R) (fst acc) ->
  match push_pending R acc p with
  | Ok acc' => snd acc' = wide_step R (snd acc) p /\ Forall (sized R) (fst acc')
  | Err _ => True
  | _ => False
  end.
Proof.
  intros Hu8 Hs Hle Hacc. unfold push_pending, wide_step, wsize in *. unfold sized in Hs.
  destruct (size_of R (r_type (snd p))) as [s|] eqn:Es; [|congruence].
  destruct (fst p) as [off|].
  - destruct (off <? snd acc)%N eqn:Elt; [exact I|]. apply N.ltb_ge in Elt.
    rewrite N.max_l in Hle by exact Elt.
    destruct (padding_push_fit R acc (off - snd acc) Hu8 ltac:(lia) Hacc) as (acc1 & -> & H1 & Hacc1).
    cbn [defer_opt bind].
    destruct (regions_push_fit R acc1 (snd p) s Es ltac:(lia) Hacc1) as (acc2 & -> & H2 & Hacc2).
    cbn [defer_opt]. split; [|exact Hacc2]. rewrite N.max_l by exact Elt. lia.
  - cbn [bind]. destruct (regions_push_fit R acc (snd p) s Es Hle Hacc) as (acc2 & -> & H2 & Hacc2).
    cbn [defer_opt]. split; assumption.
Qed.

Lemma push_all_fit R : reg_u8 R -> forall pending acc,
  Forall (fun p => sized R (snd p)) pending -> (wide_fields R (snd acc) pending <= usize_max)%N ->
  Forall (sized R) (fst acc) ->
  match foldM (push_pending R) pending acc with
  | Ok acc' => snd acc' = wide_fields R (snd acc) pending /\ Forall (sized R) (fst acc')
  | Err _ => True
  | _ => False
  end.
Proof.
  intros Hu8. induction pending as [|p pending IH]; intros acc Hp Hle Hacc; cbn [foldM].
  - split; [reflexivity | exact Hacc].
  - apply Forall_cons_iff in Hp as [Hp1 Hp2]. unfold wide_fields in Hle. cbn [fold_left] in Hle.
    fold (wide_fields R (wide_step R (snd acc) p) pending) in Hle.
    pose proof (wide_fields_ge R pending (wide_step R (snd acc) p)) as Hge.
    pose proof (push_pending_fit R acc p Hu8 Hp1 ltac:(lia) Hacc) as H1.
    destruct (push_pending R acc p) as [acc1| |m|m]; cbn [bind]; try exact H1.
    destruct H1 as [E1 Hacc1]. rewrite <- E1 in Hle. specialize (IH acc1 Hp2 Hle Hacc1).
    destruct (foldM (push_pending R) pending acc1) as [acc2| |m|m]; try exact IH.
    destruct IH as [E2 Hacc2]. split; [|exact Hacc2]. rewrite E2, E1. reflexivity.
Qed.

Lemma name_regions_ok R : forall rs s0, Forall (sized R) rs -> exists x, name_regions R rs s0 = Ok x.
Proof.
  induction rs as [|r rs IH]; intros s0 H; cbn [name_regions]; [eauto|].
  apply Forall_cons_iff in H as [Hr Hrs]. unfold sized in Hr.
  destruct (size_of R (r_type r)) as [s|]; [|congruence].
  destruct (IH (s0 + s)%N Hrs) as (x & ->). cbn [bind]. eauto.
Qed.

(** the part of [resolve_regions] after the vftable: the placement of the regions *)
Definition layout_tail (R : registry) (vregion : option region) (ts : option N)
           (pending : list (option N * region)) : outcome (list region * N) :=
  do acc0 <- match vregion with
             | Some vr => defer_opt (regions_push R ([], 0%N) vr)
             | None => Ok ([], 0%N)
             end;
  do acc1 <- foldM (push_pending R) pending acc0;
  do acc2 <- match ts with
             | Some t => if (snd acc1 <? t)%N
                         then defer_opt (regions_push R acc1 (unnamed_region (padding_type (t - snd acc1))))
                         else Ok acc1
             | None => Ok acc1
             end;
  name_regions R (fst acc2) 0%N.

Definition vstart (R : registry) (vregion : option region) : N :=
  match vregion with Some _ => reg_ptr R | None => 0%N end.

Lemma layout_tail_fit R vregion ts pending :
  reg_u8 R -> (forall vr, vregion = Some vr -> exists ty, r_type vr = TConstPtr ty) ->
  Forall (fun p => sized R (snd p)) pending ->
  (wide_end R (vstart R vregion) ts pending <= usize_max)%N ->
  layout_tail R vregion ts pending <> Defer.
Proof.
  intros Hu8 Hvr Hp Hle. unfold layout_tail.
  assert (wide_fields R (vstart R vregion) pending <= usize_max)%N as Hle1.
  { unfold wide_end in Hle. destruct ts; lia. }
  pose proof (wide_fields_ge R pending (vstart R vregion)) as Hge.
  assert (exists acc0, match vregion with
                       | Some vr => defer_opt (regions_push R ([], 0%N) vr)
                       | None => Ok ([], 0%N)
                       end = Ok acc0 /\ snd acc0 = vstart R vregion /\ Forall (sized R) (fst acc0)) as (acc0 & -> & E0 & Hacc0).
  { destruct vregion as [vr|]; [|exists ([], 0%N); repeat split; constructor].
    destruct (Hvr vr eq_refl) as (ty & Ety).
    destruct (regions_push_fit R ([], 0%N) vr (reg_ptr R)) as (acc0 & -> & E0 & Hacc0).
    - rewrite Ety. reflexivity.
    - cbn [snd vstart] in *. lia.
    - constructor.
    - exists acc0. cbn [defer_opt snd] in *. repeat split; [rewrite E0; cbn [vstart]; lia | exact Hacc0]. }
  cbn [bind]. rewrite <- E0 in Hle1.
  pose proof (push_all_fit R Hu8 pending acc0 Hp Hle1 Hacc0) as H1.
  destruct (foldM (push_pending R) pending acc0) as [acc1| |m|m]; cbn [bind]; try discriminate; try contradiction.
  destruct H1 as [E1 Hacc1]. rewrite E0 in E1.
  assert (exists acc2, match ts with
                       | Some t => if (snd acc1 <? t)%N
                                   then defer_opt (regions_push R acc1 (unnamed_region (padding_type (t - snd acc1))))
                                   else Ok acc1
                       | None => Ok acc1
                       end = Ok acc2 /\ Forall (sized R) (fst acc2)) as (acc2 & -> & Hacc2).
  { destruct ts as [t|]; [|eauto]. destruct (snd acc1 <? t)%N eqn:Elt; [|eauto]. apply N.ltb_lt in Elt.
    unfold wide_end in Hle. rewrite <- E1 in Hle.
    destruct (padding_push_fit R acc1 (t - snd acc1) Hu8 ltac:(lia) Hacc1) as (acc2 & -> & _ & Hacc2).
    cbn [defer_opt]. eauto. }
  cbn [bind]. destruct (name_regions_ok R (fst acc2) 0%N Hacc2) as (x & ->). discriminate.
Qed.

(** the causes of a deferred placement *)
Lemma layout_tail_defer R vregion ts pending :
  reg_u8 R -> (forall vr, vregion = Some vr -> exists ty, r_type vr = TConstPtr ty) ->
  layout_tail R vregion ts pending = Defer ->
  Exists (fun p => size_of R (r_type (snd p)) = None) pending \/
  (usize_max < wide_end R (vstart R vregion) ts pending)%N.
Proof.
  intros Hu8 Hvr H.
  destruct (Exists_dec (fun p : option N * region => size_of R (r_type (snd p)) = None) pending) as [He|Hne].
  { intros p. destruct (size_of R (r_type (snd p))); [right; discriminate | left; reflexivity]. }
  - left; exact He.
  - right. destruct (N.ltb_spec usize_max (wide_end R (vstart R vregion) ts pending)) as [Hlt|Hge]; [exact Hlt|].
    exfalso. refine (layout_tail_fit R vregion ts pending Hu8 Hvr _ Hge H).
    apply Forall_forall. intros p Hin Hn. apply Hne. apply Exists_exists. exists p. split; [exact Hin | exact Hn].
Qed.

Lemma resolve_regions_defer st owner v ts pending vfs :
  resolve_regions st owner v ts pending vfs = Defer ->
  first_base_unresolved (st_reg st) (find r_is_base (map snd pending)) = true \/
  exists st' vt vr, first_base_unresolved (st_reg st) (find r_is_base (map snd pending)) = false /\
                    vftable_build st owner v (find r_is_base (map snd pending)) vfs = Ok (st', vt, vr) /\
                    layout_tail (st_reg st') vr ts pending = Defer.
Proof.
  unfold resolve_regions, layout_tail. intros H.
  destruct (first_base_unresolved _ _); [now left | right].
  pose proof (vftable_build_oe st owner v (find r_is_base (map snd pending)) vfs) as Hoe.
  destruct (vftable_build st owner v _ vfs) as [[[st' vt] vr]| | |]; cbn [oe] in Hoe; try contradiction; [|discriminate].
  cbn [bind] in H. exists st', vt, vr. split; [reflexivity|]. split; [reflexivity|].
  destruct (match vr with Some vr0 => _ | None => _ end) as [acc0| | |]; cbn [bind] in *; try discriminate; [|reflexivity].
  destruct (foldM (push_pending (st_reg st')) pending acc0) as [acc1| | |]; cbn [bind] in *; try discriminate; [|reflexivity].
  destruct (match ts with Some t => _ | None => _ end) as [acc2| | |]; cbn [bind] in *; try discriminate; [|reflexivity].
  destruct (name_regions (st_reg st') (fst acc2) 0%N) as [named| | |]; cbn [bind] in *; try discriminate; [|reflexivity].
  destruct ts as [t|]; [destruct (negb _)|]; discriminate.
Qed.

(** ** where a deferral comes from: statements, type attempts, enum attempts *)
Definition nd {A} (o : outcome A) : Prop := o <> Defer.

Lemma oe_nd {A} (o : outcome A) : oe o -> nd o.
Proof. destruct o; cbn; intros H; try discriminate; contradiction. Qed.

Lemma nd_bind {A B} (x : outcome A) (f : A -> outcome B) :
  nd x -> (forall a, x = Ok a -> nd (f a)) -> nd (bind x f).
Proof.
  intros Hx Hf. destruct x as [a| |e|e]; cbn [bind]; try discriminate.
  - apply Hf; reflexivity.
  - exfalso. apply Hx. reflexivity.
Qed.

Lemma bind_defer {A B} (x : outcome A) (f : A -> outcome B) :
  nd x -> bind x f = Defer -> exists a, x = Ok a /\ f a = Defer.
Proof.
  intros Hx H. destruct x as [a| |e|e]; cbn [bind] in H; try discriminate; [eauto|].
  exfalso. apply Hx. reflexivity.
Qed.

Lemma process_statement_defer R scope acc s : process_statement R scope acc s = Defer ->
  exists v name t, gs_field s = GField v name t /\ resolve_gtype R scope t = None.
Proof.
  unfold process_statement. destruct acc as [idx [pending vfs]]. destruct (gs_field s) as [v name t|fs]; intros H.
  - exists v, name, t. split; [reflexivity|].
    apply bind_defer in H as (doc & _ & H); [|apply oe_nd, attrs_doc_oe].
    apply bind_defer in H as (ab & _ & H); [|apply oe_nd, oe_foldM; intros; apply scan_field_attr_oe].
    destruct (resolve_gtype R scope t); [discriminate | reflexivity].
  - exfalso. destruct (negb _); [discriminate|].
    apply bind_defer in H as (sz & _ & H); [|apply oe_nd, oe_foldM; intros; apply scan_int_attr_oe].
    apply bind_defer in H as (out & _ & H); [discriminate | apply oe_nd, convert_functions_oe].
Qed.

Lemma process_statements_defer R scope : forall stmts acc,
  foldM (process_statement R scope) stmts acc = Defer -> In None (stmt_types R scope stmts).
Proof.
  induction stmts as [|s stmts IH]; intros acc H; cbn [foldM] in H; [discriminate|].
  unfold stmt_types. cbn [flat_map]. fold (stmt_types R scope stmts). apply in_or_app.
  destruct (process_statement R scope acc s) as [acc1| |m|m] eqn:E; cbn [bind] in H; try discriminate.
  - right. eapply IH; eauto.
  - left. destruct (process_statement_defer _ _ _ _ E) as (v & name & t & -> & ->). now left.
Qed.

Lemma check_fields_aligned_nd R : forall rs cur, nd (check_fields_aligned R rs cur).
Proof.
  induction rs as [|r rs IH]; intros cur; cbn [check_fields_aligned]; [discriminate|].
  destruct (align_of R (r_type r)), (size_of R (r_type r)); try discriminate.
  destruct (_ || _); [discriminate | apply IH].
Qed.

Lemma compute_alignment_nd R ta regions size : nd (compute_alignment R ta regions size).
Proof.
  unfold compute_alignment. destruct (ta_packed ta); [destruct (ta_align ta); discriminate|].
  destruct (negb _); [discriminate|]. destruct (lcm_list _); [|discriminate].
  destruct (_ <? _)%N; [discriminate|].
  apply nd_bind; [apply check_fields_aligned_nd|]. intros [] _. destruct (negb _); discriminate.
Qed.

Lemma type_build_defer st k v d : snd (type_build st k v d) = Defer ->
  exists parent module, path_parent k = Some parent /\ alookup parent (st_modules st) = Some module /\
    (foldM (process_statement (st_reg st) (module_scope module)) (gt_stmts d) (O, ([], None)) = Defer \/
     exists ta n pending vfs,
       foldM scan_type_attr (gt_attrs d) ta_init = Ok ta /\
       foldM (process_statement (st_reg st) (module_scope module)) (gt_stmts d) (O, ([], None))
         = Ok (n, (pending, vfs)) /\
       resolve_regions st k v (ta_size ta) pending vfs = Defer).
Proof.
  unfold type_build. intros H.
  destruct (path_parent k) as [parent|] eqn:Epar; [|discriminate].
  destruct (alookup parent (st_modules st)) as [module|] eqn:Emod; [|discriminate].
  exists parent, module. split; [reflexivity|]. split; [exact Emod|].
  match type of H with context [match ?pre with Ok _ => _ | Defer => _ | Err _ => _ | Panic _ => _ end] =>
    destruct pre as [[[doc ta] [pending vfs]]| | |] eqn:Epre end; try discriminate.
  - right. inv_bind Epre. inv_bind Epre. inv_bind Epre. destruct a1 as [n [pending' vfs']].
    inversion Epre; subst. clear Epre. exists ta, n, pending, vfs. split; [exact Ha0|]. split; [exact Ha1|].
    destruct (resolve_regions st k v (ta_size ta) pending vfs) as [[[[st' regions] vt] size]| | |] eqn:Err;
      try discriminate; [exfalso | reflexivity].
    cbn [snd] in H. revert H.
    apply nd_bind; [apply oe_nd, region_name_and_typedef_fold_oe|]. intros acc1 _.
    apply nd_bind.
    { destruct (alookup k (m_impls module)); [|discriminate]. apply oe_nd, oe_foldM. intros; apply add_impl_function_oe. }
    intros acc2 _. apply nd_bind.
    { destruct (ta_defaultable ta); [|discriminate]. apply oe_nd, oe_foldM. intros; apply check_defaultable_oe. }
    intros [] _. apply nd_bind; [apply compute_alignment_nd|]. intros al _. discriminate.
  - left. apply bind_defer in Epre as (doc & _ & Epre); [|apply oe_nd, attrs_doc_oe].
    apply bind_defer in Epre as (ta & _ & Epre); [|apply oe_nd, oe_foldM; intros; apply scan_type_attr_oe].
    destruct (foldM (process_statement _ _) _ _) as [x| | |]; cbn [bind] in Epre; try discriminate. reflexivity.
Qed.

Lemma enum_build_defer st k d : enum_build st k d = Defer ->
  exists parent module, path_parent k = Some parent /\ alookup parent (st_modules st) = Some module /\
    (resolve_gtype (st_reg st) (module_scope module) (ged_type d) = None \/
     exists ty, resolve_gtype (st_reg st) (module_scope module) (ged_type d) = Some ty /\
                size_of (st_reg st) ty = None).
Proof.
  unfold enum_build. intros H.
  destruct (path_parent k) as [parent|] eqn:Epar; [|discriminate].
  destruct (alookup parent (st_modules st)) as [module|] eqn:Emod; [|discriminate].
  exists parent, module. split; [reflexivity|]. split; [exact Emod|]. cbn zeta in H.
  destruct (resolve_gtype _ _ _) as [ty|]; [right | now left]. exists ty. split; [reflexivity|].
  destruct (size_of _ ty) as [size|]; [exfalso | reflexivity]. revert H.
  apply nd_bind; [apply oe_nd, enum_cases_oe|]. intros cases _.
  apply nd_bind; [apply oe_nd, attrs_doc_oe|]. intros doc _.
  apply nd_bind; [apply oe_nd, oe_foldM; intros; apply scan_enum_attr_oe|]. intros ea _.
  destruct (ea_defaultable ea), (snd cases); try discriminate; destruct (align_of _ ty); discriminate.
Qed.

(** ** sizes only read the input items named by value *)
Lemma byval_user_in R0 : forall t, byval_user R0 t -> forall d, In d (byval_paths t) -> user R0 d.
Proof.
  induction t as [p|t IH|t IH|t IH n|c args ret]; cbn [byval_user byval_paths]; intros Hb d Hd; try contradiction.
  - destruct Hd as [<-|[]]. exact Hb.
  - now apply IH.
Qed.

Section Agree.
  Variable R0 R R' : registry.
  Hypothesis Hptr : reg_ptr R = reg_ptr R'.
  Hypothesis Hsame : forall p, user R0 p -> reg_get R p = reg_get R' p.

  Lemma size_of_agree : forall t, byval_user R0 t -> size_of R t = size_of R' t.
  Proof.
    induction t as [p|t IH|t IH|t IH n|c args ret]; cbn [byval_user size_of]; intros Hb; try (now rewrite Hptr).
    - now rewrite (Hsame _ Hb).
    - now rewrite IH.
  Qed.

  Lemma arr_fits_agree : forall t, byval_user R0 t -> arr_fits R t = arr_fits R' t.
  Proof.
    induction t as [p|t IH|t IH|t IH n|c args ret]; cbn [byval_user arr_fits]; intros Hb; try reflexivity.
    now rewrite IH, size_of_agree.
  Qed.

  Lemma wide_fields_agree : forall pending start, Forall (fun p => rbu R0 (snd p)) pending ->
    wide_fields R start pending = wide_fields R' start pending.
  Proof.
    unfold wide_fields. induction pending as [|p pending IH]; intros start Hp; cbn [fold_left]; [reflexivity|].
    apply Forall_cons_iff in Hp as [Hp1 Hp2].
    assert (wide_step R start p = wide_step R' start p) as ->; [|now apply IH].
    unfold wide_step, wsize. now rewrite (size_of_agree _ Hp1).
  Qed.

  Lemma wide_end_agree start ts pending : Forall (fun p => rbu R0 (snd p)) pending ->
    wide_end R start ts pending = wide_end R' start ts pending.
  Proof. intros Hp. unfold wide_end. now rewrite (wide_fields_agree _ _ Hp). Qed.
End Agree.

(** ** the abstract loop: what a no-progress verdict says about the final state *)
Section AbsNoProgress.
  Variable K V : Type.
  Variable eqb : K -> K -> bool.
  Hypothesis eqb_spec : forall a b, reflect (a = b) (eqb a b).
  Variable att : Confluence.st K V -> K -> Confluence.res V.
  Variable items : list K.
  Variable order : list K -> list K.
  Hypothesis order_perm : forall l, Permutation (order l) l.

  Lemma strict_noprogress_steps : forall fuel R T,
    Confluence.loop K V eqb att items order true fuel R = Confluence.ONoProgress K V T ->
    Confluence.steps K V eqb att items R T /\ Confluence.unres K V items T <> [] /\
    forall k, In k (Confluence.unres K V items T) -> att T k = Confluence.Defer V.
  Proof.
    induction fuel as [|f IH]; intros R T H; cbn [Confluence.loop] in H; [discriminate|].
    destruct (Confluence.unres K V items R) as [|u us] eqn:EU; [discriminate|]. rewrite <- EU in H.
    destruct (Confluence.pass K V eqb att true R (order (Confluence.unres K V items R))) as [R'|] eqn:EP; [|discriminate].
    pose proof (Confluence.pass_steps K V eqb att items true _ _ _ (Confluence.order_incl K V items order order_perm R) EP) as HS.
    pose proof (Confluence.steps_le K V eqb eqb_spec att items _ _ HS) as HL.
    destruct (Nat.eqb_spec (List.length (Confluence.unres K V items R')) (List.length (Confluence.unres K V items R))) as [E|NE].
    - inversion H; subst T. clear H.
      destruct (Confluence.pass_noprogress K V eqb eqb_spec att true _ _ _ EP) as [ER A].
      { intros k Hin Hk. eapply Confluence.unres_eq; eauto.
        apply (Confluence.order_incl K V items order order_perm R); exact Hin. }
      subst R'. split; [constructor|]. split; [rewrite EU; discriminate|].
      intros k Hk. apply Confluence.unres_in in Hk as [Hin Hn].
      destruct (A k (Confluence.order_all K V items order order_perm R k Hin Hn) Hn) as [X|[X _]]; [exact X | discriminate].
    - destruct (IH _ _ H) as (HS' & HN & HD). split; [|split; assumption].
      eapply Confluence.steps_trans; eauto.
  Qed.
End AbsNoProgress.

Lemma in_items R k it gd :
  reg_get R k = Some it -> it_state it = Unresolved gd -> item_is_predefined it = false ->
  In k (reg_unresolved R).
Proof.
  intros Hg Hs Hp. unfold reg_get in Hg. destruct (alookup_in _ _ _ Hg) as (k' & Hin & ->).
  unfold reg_unresolved. apply in_map_iff. exists (k, it). split; [reflexivity|].
  apply filter_In. split; [exact Hin|]. cbn [snd]. unfold item_is_resolved. now rewrite Hp, Hs.
Qed.

(** ** N2 for the model's real attempt *)
Section Converse.
  Variable st0 : sstate.
  Let R0 := st_reg st0.
  Hypothesis Hcf : collision_free R0.
  Hypothesis Hu8r : reg_u8 R0.
  Hypothesis Hclean_mods : forall km, In km (st_modules st0) -> clean_module (snd km) = true.
  Hypothesis Hclean_defs : forall p it gd, reg_get R0 p = Some it -> it_state it = Unresolved gd -> clean_def gd = true.
  Hypothesis HK0 : keyed R0.
  Hypothesis HND : NoDup (map fst (reg_types R0)).
  (** an unresolved item of the input is not one of the predefined items *)
  Hypothesis Hud : unres_defined R0.

  Let Hu8 : user R0 ["u8"] := reg_u8_user R0 Hu8r.

  (** a field type of [k] contains an array type whose byte size exceeds usize *)
  Definition array_overflow (A : astate) (k : path) : Prop :=
    exists t, In (Some t) (item_types st0 k) /\ arr_fits (mark R0 A) t = false.

  (** the offset of [k]'s first declared field: the size of its own vftable pointer, if it gets one *)
  Definition own_vptr (A : astate) (k : path) (v : vis) (pending : list (option N * region))
             (vfs : option (list sfunction)) : N :=
    match vftable_build (conc st0 A) k v (find r_is_base (map snd pending)) vfs with
    | Ok (_, _, vr) => vstart R0 vr
    | _ => 0%N
    end.

  (** the fields of [k], laid out with unbounded integers, end beyond usize *)
  Definition layout_overflow (A : astate) (k : path) : Prop :=
    exists it gd scope td ta n pending vfs,
      reg_get R0 k = Some it /\ it_state it = Unresolved gd /\ item_scope st0 k = Some scope /\
      gi_inner gd = GIType td /\
      foldM scan_type_attr (gt_attrs td) ta_init = Ok ta /\
      foldM (process_statement R0 scope) (gt_stmts td) (O, ([], None)) = Ok (n, (pending, vfs)) /\
      (usize_max < wide_end (mark R0 A) (own_vptr A k (gi_vis gd) pending vfs) (ta_size ta) pending)%N.

  Definition overflows (A : astate) (k : path) : Prop := array_overflow A k \/ layout_overflow A k.

  Lemma mark_resolved_same A p it :
    reg_get R0 p = Some it -> item_is_resolved it = true -> reg_get (mark R0 A) p = Some it.
  Proof.
    intros Hg Hr. rewrite reg_get_mark, Hg. cbn [option_map]. f_equal. unfold mark_item. cbn [fst snd].
    unfold item_is_resolved in Hr. destruct (it_state it); [discriminate | reflexivity].
  Qed.

  Lemma mark_u8 A : reg_u8 (mark R0 A).
  Proof.
    pose proof Hu8r as H. unfold reg_u8 in H |- *. cbn [size_of] in H |- *.
    destruct (reg_get R0 ["u8"]) as [it|] eqn:Eg; [|discriminate].
    rewrite (mark_resolved_same A _ it Eg); [exact H|].
    unfold item_size, item_resolved, item_is_resolved in H |- *. destruct (it_state it); [discriminate | reflexivity].
  Qed.

  Lemma unsized_mark A d : user R0 d -> unsized (mark R0 A) d -> In d (items st0) /\ A d = None.
  Proof.
    intros Hu Hn. unfold user in Hu. destruct (reg_get R0 d) as [it0|] eqn:Eg; [|congruence].
    specialize (Hn (snd (mark_item A (d, it0)))). rewrite reg_get_mark, Eg in Hn. specialize (Hn eq_refl).
    unfold mark_item in Hn. cbn [fst snd] in Hn. destruct (it_state it0) as [gd|r] eqn:Es.
    - destruct (A d) as [r|]; [discriminate|]. split; [|reflexivity].
      eapply in_items; [exact Eg | exact Es | eapply Hud; eauto].
    - cbn [snd] in Hn. unfold item_is_resolved in Hn. rewrite Es in Hn. discriminate.
  Qed.

  Lemma dep_cause A k t d : In (Some t) (item_types st0 k) -> byval_user R0 t -> In d (byval_paths t) ->
    unsized (mark R0 A) d -> In d (deps st0 k) /\ In d (items st0) /\ A d = None.
  Proof.
    intros Ht Hb Hd Hn. split.
    - unfold deps. apply in_flat_map. exists (Some t). split; assumption.
    - apply unsized_mark; [eapply byval_user_in; eauto | exact Hn].
  Qed.

  Lemma size_cause A k t : In (Some t) (item_types st0 k) -> byval_user R0 t -> size_of (mark R0 A) t = None ->
    (exists d, In d (deps st0 k) /\ In d (items st0) /\ A d = None) \/ array_overflow A k.
  Proof.
    intros Ht Hb Hs. destruct (size_none_cause _ _ Hs) as [Hf|(d & Hd & Hn)].
    - right. exists t. split; assumption.
    - left. exists d. eapply dep_cause; eauto.
  Qed.

  Lemma item_types_eq k it gd parent module :
    reg_get R0 k = Some it -> it_state it = Unresolved gd -> path_parent k = Some parent ->
    alookup parent (st_modules st0) = Some module ->
    item_types st0 k = def_types R0 (module_scope module) gd /\ item_scope st0 k = Some (module_scope module).
  Proof.
    intros Hg Hs Hp Hm. unfold item_types, item_scope. fold R0. rewrite Hg, Hp, Hm. cbn [option_map]. now rewrite Hs.
  Qed.

  Lemma scope_clean' parent m : alookup parent (st_modules st0) = Some m -> forallb clean_path (module_scope m) = true.
  Proof.
    intros Hm. destruct (alookup_in _ _ _ Hm) as (k' & Hin & _). pose proof (Hclean_mods _ Hin) as Hc.
    unfold clean_module in Hc. cbn [snd] in Hc. apply andb_prop in Hc as [Hc _]. now apply andb_prop in Hc as [Hc _].
  Qed.

  Theorem att_N2 A k : att st0 A k = Confluence.Defer _ -> In k (items st0) -> A k = None ->
    undefinedb st0 k = true \/
    (exists d, In d (deps st0 k) /\ In d (items st0) /\ A d = None) \/
    overflows A k.
  Proof.
    intros H _ _. unfold att in H. fold R0 in H. destruct (reg_get R0 k) as [it|] eqn:Eg; [|discriminate].
    destruct (it_state it) as [gd|r0] eqn:Es; [|discriminate].
    assert (snd (attempt (conc st0 A) k gd) = Defer) as Hat.
    { destruct (snd (attempt (conc st0 A) k gd)); cbn [classify] in H; try discriminate. reflexivity. }
    clear H. pose proof (Hclean_defs _ _ _ Eg Es) as Hcd. unfold clean_def in Hcd.
    assert (chas R0 R0) as HC0 by (intros c _; reflexivity).
    unfold attempt in Hat. destruct (gi_inner gd) as [td|ed] eqn:Ety.
    - (* a type *)
      destruct (type_build_defer _ _ _ _ Hat) as (parent & module & Hpar & Hmod & Hcase).
      cbn [conc st_modules st_reg] in Hmod, Hcase. fold R0 in Hcase.
      pose proof (scope_clean' _ _ Hmod) as Hcs.
      destruct (item_types_eq _ _ _ _ _ Eg Es Hpar Hmod) as [Hty Hsc]. unfold def_types in Hty. rewrite Ety in Hty.
      rewrite (process_statements_reach R0 _ (chas_mark st0 A) _ Hcs _ _ Hcd) in Hcase.
      destruct Hcase as [Hdef|(ta & n & pending & vfs & Hta & Hstm & Hrr)].
      + left. unfold undefinedb. rewrite Hty. apply existsb_exists. exists None. split; [|reflexivity].
        eapply process_statements_defer; eauto.
      + right.
        destruct (process_statements_types _ _ _ _ _ _ _ _ _ Hstm) as (new & Hnew & Htypes).
        cbn [app] in Hnew. subst new. rewrite Htypes in Hty.
        assert (Forall (fun q => rbu R0 (snd q)) pending) as Hpend.
        { eapply (process_statements_rbu R0 R0); [exact HC0 | exact Hu8 | exact Hcs | exact Hcd | constructor | exact Hstm]. }
        assert (forall p, In p pending -> In (Some (r_type (snd p))) (item_types st0 k)) as Hin_ty.
        { intros p Hp. rewrite Hty. apply in_map_iff. exists p. split; [reflexivity | exact Hp]. }
        destruct (resolve_regions_defer _ _ _ _ _ _ Hrr) as [Hfb|(st' & vt & vr & Hfb & Hvb & Hlt)];
          cbn [conc st_reg] in Hfb; fold R0 in Hfb.
        * (* the first base is unresolved *)
          left. unfold first_base_unresolved in Hfb.
          destruct (find r_is_base (map snd pending)) as [r|] eqn:Ef; [|discriminate].
          apply find_some in Ef as [Hr _]. apply in_map_iff in Hr as (p & <- & Hp).
          destruct (r_type (snd p)) as [q| | | |] eqn:Et; try discriminate.
          destruct (reg_get (mark R0 A) q) as [itq|] eqn:Eq; [|discriminate]. apply negb_true_iff in Hfb.
          exists q. apply (dep_cause A k (r_type (snd p)) q).
          -- now apply Hin_ty.
          -- rewrite Forall_forall in Hpend. apply (Hpend p Hp).
          -- rewrite Et. now left.
          -- intros it' Hg'. fold R0 in Eq. rewrite Eq in Hg'. now inversion Hg'; subst.
        * (* the placement of the regions defers *)
          set (R' := st_reg st') in *.
          assert (reg_ptr R' = reg_ptr (mark R0 A) /\ forall p, user R0 p -> reg_get R' p = reg_get (mark R0 A) p) as [Hptr Hsame].
          { destruct (vftable_build_step _ _ _ _ _ _ _ _ Hvb) as [->|(fs & vit & _ & Hvi & Hadd)]; [split; reflexivity|].
            subst R'. rewrite (add_item_reg _ _ _ Hadd). cbn [conc st_reg]. split; [apply reg_ptr_add|].
            intros p Hp. apply reg_get_add_other. destruct (vftable_item_facts _ _ _ _ _ Hvi) as (Hvp & _).
            intros E. apply Hp. rewrite <- E. apply (Hcf k); [fold R0; congruence | exact Hvp]. }
          assert (reg_u8 R') as Hu8'.
          { unfold reg_u8. rewrite (size_of_agree R0 R' (mark R0 A) Hptr Hsame); [apply mark_u8 | exact Hu8]. }
          assert (forall vr0, vr = Some vr0 -> exists ty, r_type vr0 = TConstPtr ty) as Hvr.
          { intros vr0 ->. destruct (vftable_build_region _ _ _ _ _ _ _ _ Hvb) as (ty & -> & _). eexists. reflexivity. }
          destruct (layout_tail_defer R' vr (ta_size ta) pending Hu8' Hvr Hlt) as [Hex|Hov].
          -- apply Exists_exists in Hex as (p & Hp & Hsz).
             rewrite Forall_forall in Hpend.
             rewrite (size_of_agree R0 R' (mark R0 A) Hptr Hsame _ (Hpend p Hp)) in Hsz.
             destruct (size_cause A k _ (Hin_ty p Hp) (Hpend p Hp) Hsz) as [Hd|Ho]; [now left | right; now left].
          -- right. right. exists it, gd, (module_scope module), td, ta, n, pending, vfs.
             repeat (split; [assumption|]).
             rewrite (wide_end_agree R0 R' (mark R0 A) Hptr Hsame _ _ _ Hpend) in Hov.
             unfold own_vptr. rewrite Hvb. unfold vstart in *. rewrite Hptr in Hov. exact Hov.
    - (* an enum *)
      cbn [snd] in Hat. destruct (enum_build_defer _ _ _ Hat) as (parent & module & Hpar & Hmod & Hcase).
      cbn [conc st_modules st_reg] in Hmod, Hcase.
      pose proof (scope_clean' _ _ Hmod) as Hcs.
      destruct (item_types_eq _ _ _ _ _ Eg Es Hpar Hmod) as [Hty Hsc]. unfold def_types in Hty. rewrite Ety in Hty.
      rewrite (resolve_gtype_reach (st_reg st0) _ _ (chas_mark st0 A) Hcs _ Hcd) in Hcase. fold R0 in Hcase.
      destruct Hcase as [Hnone|(ty & Hres & Hsz)].
      + left. unfold undefinedb. rewrite Hty, Hnone. reflexivity.
      + right. rewrite Hres in Hty.
        assert (byval_user R0 ty) as Hb by (eapply (resolve_gtype_rbu R0 R0); eauto).
        assert (In (Some ty) (item_types st0 k)) as Hin by (rewrite Hty; now left).
        destruct (size_cause A k ty Hin Hb Hsz) as [Hd|Ho]; [now left | right; now left].
  Qed.

  (** ** the no-progress list *)
  Definition init : astate := fun _ => None.
  Definition reachable (A : astate) : Prop :=
    Confluence.steps path resolved path_eqb (att st0) (items st0) init A.

  (** a set of items that supports itself when an overflow in state [A] counts as a cause *)
  Definition self_supporting_in (A : astate) (S : path -> Prop) : Prop :=
    forall k, S k -> In k (items st0) /\
      (undefinedb st0 k = true \/ overflows A k \/ exists d, In d (deps st0 k) /\ S d).

  Definition self_supporting (S : path -> Prop) : Prop :=
    Confluence.self_supporting path (items st0) (deps st0) (undefinedb st0) S.

  Lemma self_supporting_weaken A S : self_supporting S -> self_supporting_in A S.
  Proof. intros HS k Hk. destruct (HS k Hk) as [Hin [U|D]]; split; auto. Qed.

  Theorem noprogress_exact order fuel l :
    (forall l, Permutation (order l) l) ->
    resolve_loop order fuel st0 = BNoProgress l ->
    exists A, reachable A /\ l <> [] /\
      (forall k, In k l <-> In k (items st0) /\ A k = None) /\
      self_supporting_in A (fun k => In k l) /\
      (forall S, self_supporting S -> forall k, S k -> In k l).
  Proof.
    intros Hperm Hres.
    pose proof (loop_sim st0 Hcf Hu8 Hclean_mods Hclean_defs HK0 HND order Hperm fuel st0 _ (sim_init st0 HK0)) as Hsim.
    rewrite Hres in Hsim.
    destruct (Confluence.loop path resolved path_eqb (att st0) (items st0) order true fuel (fun _ => None)) as [A|A| |] eqn:El;
      cbn [abs_result] in Hsim; try contradiction.
    destruct (strict_noprogress_steps path resolved path_eqb path_eqb_spec (att st0) (items st0) order Hperm _ _ _ El)
      as (Hsteps & Hne & Hdefer).
    assert (forall k, In k l <-> In k (items st0) /\ A k = None) as Hl.
    { intros k. rewrite <- Confluence.unres_in. split; intros Hk.
      - eapply Permutation_in; [exact Hsim | exact Hk].
      - eapply Permutation_in; [apply Permutation_sym; exact Hsim | exact Hk]. }
    exists A. split; [exact Hsteps|]. split.
    { intros ->. apply Permutation_nil in Hsim. congruence. }
    split; [exact Hl|]. split.
    - intros k Hk. apply Hl in Hk as [Hin Hn]. split; [exact Hin|].
      assert (att st0 A k = Confluence.Defer _) as Hd by (apply Hdefer, Confluence.unres_in; tauto).
      destruct (att_N2 A k Hd Hin Hn) as [U|[(d & Hd1 & Hd2 & Hd3)|O]]; [now left | | right; now left].
      right. right. exists d. split; [exact Hd1|]. apply Hl. tauto.
    - intros S HS k Hk. apply Hl. destruct (HS k Hk) as [Hin _]. split; [exact Hin|].
      eapply (Confluence.stuck_stays path resolved path_eqb path_eqb_spec (att st0) (items st0) (deps st0) (undefinedb st0));
        [intros R k' v Hd; eapply att_N1; eauto | exact Hsteps | exact HS | reflexivity | exact Hk].
  Qed.

  (** no unsigned overflow in any state the loop can reach *)
  Definition no_overflow : Prop :=
    forall A k, reachable A -> In k (items st0) -> A k = None -> ~ overflows A k.

  (** without overflow: the no-progress list IS the greatest self-supporting set of items *)
  Corollary noprogress_greatest_self_supporting order fuel l :
    (forall l, Permutation (order l) l) -> no_overflow ->
    resolve_loop order fuel st0 = BNoProgress l ->
    l <> [] /\ self_supporting (fun k => In k l) /\
    (forall S, self_supporting S -> forall k, S k -> In k l).
  Proof.
    intros Hperm Hno Hres. destruct (noprogress_exact order fuel l Hperm Hres) as (A & HA & Hne & Hl & Hss & Hgr).
    split; [exact Hne|]. split; [|exact Hgr].
    intros k Hk. destruct (Hss k Hk) as [Hin [U|[O|D]]]; split; auto.
    exfalso. apply Hl in Hk as [_ Hn]. exact (Hno A k HA Hin Hn O).
  Qed.

  (** ** the "if" direction *)
  Theorem no_self_supporting_no_noprogress order fuel :
    (forall l, Permutation (order l) l) -> no_overflow ->
    (forall S, self_supporting S -> forall k, ~ S k) ->
    forall l, resolve_loop order fuel st0 <> BNoProgress l.
  Proof.
    intros Hperm Hno Hnone l Hres.
    destruct (noprogress_greatest_self_supporting order fuel l Hperm Hno Hres) as (Hne & Hss & _).
    destruct l as [|k l']; [congruence|]. apply (Hnone _ Hss k). now left.
  Qed.

  (** by-value embedding restricted to the items of the input *)
  Definition embeds (d k : path) : Prop := In d (deps st0 k) /\ In d (items st0).

  Lemma acc_not_self_supporting S : self_supporting S ->
    (forall k, S k -> undefinedb st0 k = false) -> forall k, Acc embeds k -> ~ S k.
  Proof.
    intros HS Hdef k Hacc. induction Hacc as [k _ IH]. intros Hk.
    destruct (HS k Hk) as [_ [U|(d & Hd & Sd)]].
    - rewrite (Hdef k Hk) in U. discriminate.
    - destruct (HS d Sd) as [Hdi _]. apply (IH d); [split; assumption | exact Sd].
  Qed.

  Theorem wf_no_noprogress order fuel :
    (forall l, Permutation (order l) l) ->
    (forall k, In k (items st0) -> undefinedb st0 k = false) -> no_overflow ->
    (forall k, In k (items st0) -> Acc embeds k) ->
    forall l, resolve_loop order fuel st0 <> BNoProgress l.
  Proof.
    intros Hperm Hdef Hno Hacc. apply no_self_supporting_no_noprogress; [exact Hperm | exact Hno|].
    intros S HS k Hk. destruct (HS k Hk) as [Hin _].
    refine (acc_not_self_supporting S HS _ k (Hacc k Hin) Hk).
    intros k' Hk'. destruct (HS k' Hk') as [Hin' _]. auto.
  Qed.

  Lemma rank_acc (rank : path -> nat) :
    (forall k d, In k (items st0) -> embeds d k -> rank d < rank k) ->
    forall k, In k (items st0) -> Acc embeds k.
  Proof using.
    clear Hu8 Hcf Hu8r Hclean_mods Hclean_defs HK0 HND Hud.
    intros Hrank. assert (forall n k, rank k < n -> In k (items st0) -> Acc embeds k) as H.
    { induction n as [|n IH]; intros k Hlt Hin; [lia|]. constructor. intros d Hd.
      apply IH; [|apply Hd]. pose proof (Hrank k d Hin Hd). lia. }
    intros k Hin. apply (H (S (rank k))); [lia | exact Hin].
  Qed.

  Corollary ranked_no_noprogress order fuel (rank : path -> nat) :
    (forall l, Permutation (order l) l) ->
    (forall k, In k (items st0) -> undefinedb st0 k = false) -> no_overflow ->
    (forall k d, In k (items st0) -> In d (deps st0 k) -> In d (items st0) -> rank d < rank k) ->
    forall l, resolve_loop order fuel st0 <> BNoProgress l.
  Proof.
    intros Hperm Hdef Hno Hrank. apply wf_no_noprogress; auto.
    apply (rank_acc rank). intros k d Hk [Hd Hdi]. auto.
  Qed.
End Converse.

(** ** for the inputs of pyxis *)
Lemma finish_build_not_noprogress st l : finish_build st <> BNoProgress l.
Proof.
  unfold finish_build. destruct (negb _); [discriminate|]. destruct (mapM _ _); discriminate.
Qed.

Lemma pyxis_noprogress_loop order ptr mods st0 l :
  input_state ptr mods = Ok st0 -> pyxis_resolve order ptr mods = BNoProgress l ->
  resolve_loop order (S (List.length (reg_unresolved (st_reg st0)))) st0 = BNoProgress l.
Proof.
  intros Hin H. unfold pyxis_resolve in H. unfold input_state in Hin. rewrite Hin in H. unfold sem_build in H.
  destruct (resolve_loop order _ st0) as [st1| | | |] eqn:El; try discriminate; [|exact H].
  exfalso. exact (finish_build_not_noprogress _ _ H).
Qed.

Section Pyxis.
  Variable ptr : N.
  Variable mods : list (path * gmodule).
  Variable st0 : sstate.
  Hypothesis Hin : input_state ptr mods = Ok st0.
  Hypothesis Hcf : collision_free (st_reg st0).
  Hypothesis Hcl : clean_stateb st0 = true.
  Variable order : schedule.
  Hypothesis Hperm : forall l, Permutation (order l) l.

  (** the no-progress error of pyxis lists exactly the items that are still unresolved in the
      final state; the list supports itself (every member names nothing, overflows, or embeds
      another member by value) and contains every self-supporting set of items *)
  Theorem pyxis_noprogress_exact l :
    pyxis_resolve order ptr mods = BNoProgress l ->
    exists A, reachable st0 A /\ l <> [] /\
      (forall k, In k l <-> In k (items st0) /\ A k = None) /\
      self_supporting_in st0 A (fun k => In k l) /\
      (forall S, self_supporting st0 S -> forall k, S k -> In k l).
  Proof.
    intros H. destruct (clean_stateb_sound _ Hcl) as [Hm Hd].
    eapply (noprogress_exact st0 Hcf (input_state_u8 _ _ _ Hin) Hm Hd (input_state_keyed _ _ _ Hin)
              (input_state_nodup _ _ _ Hin) (proj1 (input_state_wf _ _ _ Hin)) order _ l Hperm).
    eapply pyxis_noprogress_loop; eauto.
  Qed.

  Theorem pyxis_noprogress_greatest l :
    no_overflow st0 -> pyxis_resolve order ptr mods = BNoProgress l ->
    l <> [] /\ self_supporting st0 (fun k => In k l) /\
    (forall S, self_supporting st0 S -> forall k, S k -> In k l).
  Proof.
    intros Hno H. destruct (clean_stateb_sound _ Hcl) as [Hm Hd].
    eapply (noprogress_greatest_self_supporting st0 Hcf (input_state_u8 _ _ _ Hin) Hm Hd (input_state_keyed _ _ _ Hin)
              (input_state_nodup _ _ _ Hin) (proj1 (input_state_wf _ _ _ Hin)) order _ l Hperm Hno).
    eapply pyxis_noprogress_loop; eauto.
  Qed.

  (** C10, "if": every name resolves, nothing overflows, by-value embedding is well founded
      => the front half ends in an accepted build or an error value, never in the no-progress error *)
  Theorem pyxis_wf_no_noprogress :
    (forall k, In k (items st0) -> undefinedb st0 k = false) -> no_overflow st0 ->
    (forall k, In k (items st0) -> Acc (embeds st0) k) ->
    match pyxis_resolve order ptr mods with
    | BOk _ | BErr _ => True
    | _ => False
    end.
  Proof.
    intros Hdef Hno Hacc. destruct (clean_stateb_sound _ Hcl) as [Hm Hd].
    pose proof (pyxis_resolve_total order ptr mods (fun l => Permutation_length (Hperm l))) as Htot.
    destruct (pyxis_resolve order ptr mods) as [st| |l| |] eqn:E; auto.
    eapply (wf_no_noprogress st0 Hcf (input_state_u8 _ _ _ Hin) Hm Hd (input_state_keyed _ _ _ Hin)
              (input_state_nodup _ _ _ Hin) (proj1 (input_state_wf _ _ _ Hin)) order _ Hperm Hdef Hno Hacc l).
    eapply pyxis_noprogress_loop; eauto.
  Qed.

  (** the same with the abstract criterion: no non-empty self-supporting set of items.  Together
      with [Stuck.pyxis_stuck_never_accepted] (a non-empty self-supporting set => never [BOk]) and
      [pyxis_noprogress_greatest] (a no-progress list is a non-empty self-supporting set) this is
      the "exactly" of C10, for inputs without overflow. *)
  Theorem pyxis_no_self_supporting_no_noprogress :
    no_overflow st0 -> (forall S, self_supporting st0 S -> forall k, ~ S k) ->
    match pyxis_resolve order ptr mods with
    | BOk _ | BErr _ => True
    | _ => False
    end.
  Proof.
    intros Hno Hnone. destruct (clean_stateb_sound _ Hcl) as [Hm Hd].
    pose proof (pyxis_resolve_total order ptr mods (fun l => Permutation_length (Hperm l))) as Htot.
    destruct (pyxis_resolve order ptr mods) as [st| |l| |] eqn:E; auto.
    eapply (no_self_supporting_no_noprogress st0 Hcf (input_state_u8 _ _ _ Hin) Hm Hd (input_state_keyed _ _ _ Hin)
              (input_state_nodup _ _ _ Hin) (proj1 (input_state_wf _ _ _ Hin)) order _ Hperm Hno Hnone l).
    eapply pyxis_noprogress_loop; eauto.
  Qed.

  Corollary pyxis_ranked_no_noprogress (rank : path -> nat) :
    (forall k, In k (items st0) -> undefinedb st0 k = false) -> no_overflow st0 ->
    (forall k d, In k (items st0) -> In d (deps st0 k) -> In d (items st0) -> rank d < rank k) ->
    match pyxis_resolve order ptr mods with
    | BOk _ | BErr _ => True
    | _ => False
    end.
  Proof.
    intros Hdef Hno Hrank. apply pyxis_wf_no_noprogress; auto.
    apply (rank_acc st0 rank). intros k d Hk [Hd Hdi]. auto.
  Qed.
End Pyxis.

(** ** a decidable sufficient condition for [no_overflow]: every by-value field type of the item
    is already resolved in the input (a predefined or extern type, or a pointer), so that its
    layout does not depend on the state, and that layout fits *)
Lemma wide_fields_ext R R' : forall pending start,
  Forall (fun p => size_of R (r_type (snd p)) = size_of R' (r_type (snd p))) pending ->
  wide_fields R start pending = wide_fields R' start pending.
Proof.
  unfold wide_fields. induction pending as [|p pending IH]; intros start Hp; cbn [fold_left]; [reflexivity|].
  apply Forall_cons_iff in Hp as [Hp1 Hp2].
  assert (wide_step R start p = wide_step R' start p) as ->; [|now apply IH].
  unfold wide_step, wsize. now rewrite Hp1.
Qed.

Lemma wide_fields_mono R : forall pending s s', (s <= s')%N ->
  (wide_fields R s pending <= wide_fields R s' pending)%N.
Proof.
  unfold wide_fields. induction pending as [|p pending IH]; intros s s' Hle; cbn [fold_left]; [exact Hle|].
  apply IH. unfold wide_step. destruct (fst p); lia.
Qed.

Section Static.
  Variable st0 : sstate.

  Definition fixedb (t : stype) : bool :=
    forallb (fun d => match reg_get (st_reg st0) d with Some it => item_is_resolved it | None => false end)
            (byval_paths t).

  Lemma size_of_mark_fixed A : forall t, fixedb t = true -> size_of (mark (st_reg st0) A) t = size_of (st_reg st0) t.
  Proof.
    unfold fixedb. induction t as [p|t IH|t IH|t IH n|c args ret]; cbn [byval_paths size_of forallb]; intros H;
      try reflexivity.
    - destruct (reg_get (st_reg st0) p) as [it|] eqn:Eg; [|discriminate]. rewrite andb_true_r in H.
      now rewrite (mark_resolved_same st0 A p it Eg H).
    - now rewrite IH.
  Qed.

  Lemma arr_fits_mark_fixed A : forall t, fixedb t = true -> arr_fits (mark (st_reg st0) A) t = arr_fits (st_reg st0) t.
  Proof.
    induction t as [p|t IH|t IH|t IH n|c args ret]; cbn [arr_fits]; intros H; try reflexivity.
    assert (fixedb t = true) as H' by exact H. now rewrite IH, size_of_mark_fixed.
  Qed.

  Definition static_okb (k : path) : bool :=
    forallb (fun o => match o with Some t => arr_fits (st_reg st0) t && fixedb t | None => true end) (item_types st0 k) &&
    match reg_get (st_reg st0) k, item_scope st0 k with
    | Some it, Some scope =>
      match it_state it with
      | Unresolved gd =>
        match gi_inner gd with
        | GIType td =>
          match foldM scan_type_attr (gt_attrs td) ta_init,
                foldM (process_statement (st_reg st0) scope) (gt_stmts td) (O, ([], None)) with
          | Ok ta, Ok (_, (pending, _)) =>
            forallb (fun p => fixedb (r_type (snd p))) pending &&
            (wide_end (st_reg st0) (reg_ptr (st_reg st0)) (ta_size ta) pending <=? usize_max)%N
          | _, _ => true
          end
        | GIEnum _ => true
        end
      | Resolved _ => true
      end
    | _, _ => true
    end.

  Lemma static_ok_no_overflow A k : static_okb k = true -> ~ overflows st0 A k.
  Proof.
    unfold static_okb. intros H. apply andb_prop in H as [H1 H2]. intros [(t & Ht & Hf)|Hl].
    - rewrite forallb_forall in H1. specialize (H1 _ Ht). cbn beta iota in H1. apply andb_prop in H1 as [Ha Hfx].
      rewrite (arr_fits_mark_fixed A t Hfx) in Hf. congruence.
    - destruct Hl as (it & gd & scope & td & ta & n & pending & vfs & Hg & Hs & Hsc & Hty & Hta & Hstm & Hov).
      rewrite Hg, Hsc, Hs, Hty, Hta, Hstm in H2.
      apply andb_prop in H2 as [Hfx Hle]. apply N.leb_le in Hle. rewrite forallb_forall in Hfx.
      assert (wide_fields (mark (st_reg st0) A) (own_vptr st0 A k (gi_vis gd) pending vfs) pending <=
              wide_fields (st_reg st0) (reg_ptr (st_reg st0)) pending)%N as Hw.
      { rewrite (wide_fields_ext (mark (st_reg st0) A) (st_reg st0)).
        - apply wide_fields_mono. unfold own_vptr.
          destruct (vftable_build _ _ _ _ _) as [[[st' vt] [vr|]]| | |]; cbn [vstart]; lia.
        - apply Forall_forall. intros p Hp. apply size_of_mark_fixed. auto. }
      unfold wide_end in *. destruct (ta_size ta); lia.
  Qed.

  Theorem static_no_overflow : forallb static_okb (items st0) = true -> no_overflow st0.
  Proof.
    intros H A k _ Hin _. rewrite forallb_forall in H. apply static_ok_no_overflow. auto.
  Qed.
End Static.

(** ** examples *)
(** an undefined field type: [A] names [Missing]; [B] embeds [A]; [C] only points to [B] *)
Definition undef_text : string := "(module (attrs) (uses) (extern_types) (extern_values) (defs (def pub ""A"" (type (attrs) (field (attrs) pub ""x"" (tid ""Missing"")))) (def pub ""B"" (type (attrs) (field (attrs) pub ""a"" (tid ""A"")))) (def pub ""C"" (type (attrs) (field (attrs) pub ""v"" (tid ""u32"")) (field (attrs) pub ""p"" (cptr (tid ""B"")))))) (impls) (backends))".
Definition undef_mods : list (path * gmodule) := [(["m"], Examples.module_of_text undef_text)].

Example undef_noprogress_list :
  pyxis_resolve (fun l => l) 4 undef_mods = BNoProgress [["m"; "A"]; ["m"; "B"]] /\
  pyxis_resolve (fun l => rev l) 4 undef_mods = BNoProgress [["m"; "B"]; ["m"; "A"]].
Proof. vm_compute. split; reflexivity. Qed.

Example undef_facts :
  exists st0, input_state 4 undef_mods = Ok st0 /\ collision_freeb (st_reg st0) = true /\ clean_stateb st0 = true /\
    items st0 = [["m"; "A"]; ["m"; "B"]; ["m"; "C"]] /\
    undefinedb st0 ["m"; "A"] = true /\ deps st0 ["m"; "B"] = [["m"; "A"]] /\
    undefinedb st0 ["m"; "C"] = false /\ deps st0 ["m"; "C"] = [["u32"]].
Proof. vm_compute. eexists. repeat split; reflexivity. Qed.

(** under EVERY schedule: if the no-progress error is raised, its list contains A and B *)
Example undef_in_every_noprogress_list order l : (forall l, Permutation (order l) l) ->
  pyxis_resolve order 4 undef_mods = BNoProgress l -> In ["m"; "A"] l /\ In ["m"; "B"] l.
Proof.
  intros Hperm Hres. destruct undef_facts as (st0 & Hin & Hcf & Hcl & Hitems & HuA & HdB & _).
  destruct (pyxis_noprogress_exact 4 undef_mods st0 Hin (collision_freeb_sound _ Hcf) Hcl order Hperm l Hres)
    as (A & _ & _ & _ & _ & Hgr).
  assert (self_supporting st0 (fun k => k = ["m"; "A"] \/ k = ["m"; "B"])) as HS.
  { intros k [->| ->]; (split; [rewrite Hitems; cbn; auto|]).
    - left. exact HuA.
    - right. exists ["m"; "A"]. rewrite HdB. split; [now left | now left]. }
  split; apply (Hgr _ HS); auto.
Qed.

(** an array whose byte size exceeds usize: deferred forever, reported as no progress *)
Definition big_text : string := "(module (attrs) (uses) (extern_types) (extern_values) (defs (def pub ""A"" (type (attrs) (field (attrs) pub ""x"" (array (tid ""u64"") 4611686018427387904))))) (impls) (backends))".
Definition big_mods : list (path * gmodule) := [(["m"], Examples.module_of_text big_text)].

Example big_overflows :
  pyxis_resolve (fun l => l) 4 big_mods = BNoProgress [["m"; "A"]] /\
  exists st0, input_state 4 big_mods = Ok st0 /\ undefinedb st0 ["m"; "A"] = false /\
              deps st0 ["m"; "A"] = [["u64"]] /\ array_overflow st0 (fun _ => None) ["m"; "A"].
Proof.
  split; [vm_compute; reflexivity|]. eexists. split; [vm_compute; reflexivity|].
  split; [vm_compute; reflexivity|]. split; [vm_compute; reflexivity|].
  exists (TArray (TRaw ["u64"]) 4611686018427387904%N). split; vm_compute; auto.
Qed.

(** pointer cycles are not by-value cycles: accepted (or an error value) under every schedule *)
Definition ptrcycle_text : string := "(module (attrs) (uses) (extern_types) (extern_values) (defs (def pub ""A"" (type (attrs) (field (attrs) pub ""b"" (cptr (tid ""B""))) (field (attrs) pub ""n"" (tid ""u32"")))) (def pub ""B"" (type (attrs) (field (attrs) pub ""a"" (mptr (tid ""A""))) (field (attrs) pub ""pad"" (unknown 12))))) (impls) (backends))".
Definition ptrcycle_mods : list (path * gmodule) := [(["m"], Examples.module_of_text ptrcycle_text)].

Definition ptrcycle_check : bool :=
  match input_state 4 ptrcycle_mods with
  | Ok st0 =>
    collision_freeb (st_reg st0) && clean_stateb st0 &&
    forallb (fun k => negb (undefinedb st0 k)) (items st0) &&
    forallb (static_okb st0) (items st0) &&
    forallb (fun k => forallb (fun d => negb (path_mem d (items st0))) (deps st0 k)) (items st0)
  | _ => false
  end.

Example ptrcycle_check_ok : ptrcycle_check = true.
Proof. vm_compute. reflexivity. Qed.

Example ptrcycle_resolves order : (forall l, Permutation (order l) l) ->
  match pyxis_resolve order 4 ptrcycle_mods with BOk _ | BErr _ => True | _ => False end.
Proof.
  intros Hperm. pose proof ptrcycle_check_ok as H. unfold ptrcycle_check in H.
  destruct (input_state 4 ptrcycle_mods) as [st0| | |] eqn:Hin; try discriminate H.
  apply andb_prop in H as [H Hnd]. apply andb_prop in H as [H Hst]. apply andb_prop in H as [H Hdef].
  apply andb_prop in H as [Hcf Hcl].
  rewrite forallb_forall in Hdef, Hnd.
  apply (pyxis_wf_no_noprogress 4 ptrcycle_mods st0 Hin (collision_freeb_sound _ Hcf) Hcl order Hperm).
  - intros k Hk. apply negb_true_iff. auto.
  - apply static_no_overflow. exact Hst.
  - intros k Hk. constructor. intros d [Hd Hdi]. exfalso.
    specialize (Hnd k Hk). rewrite forallb_forall in Hnd. specialize (Hnd d Hd).
    apply negb_true_iff in Hnd. assert (path_mem d (items st0) = true) as X by (apply path_mem_in; exact Hdi).
    congruence.
Qed.

Example ptrcycle_accepted : exists st, pyxis_resolve (fun l => l) 4 ptrcycle_mods = BOk st.
Proof. vm_compute. eexists. reflexivity. Qed.
