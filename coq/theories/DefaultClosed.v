(** * DefaultClosed: C13, the [Default] clause, on the FINAL REGISTRY of an accepted build.

    pyxis checks a type that carries [defaultable] with [check_defaultable], once, in the registry
    of the attempt that accepts it: every region's type has to bottom out, through arrays, in a
    registry item that is [inner_defaultable] -- or in an item that is not resolved yet.  This file
    proves that, in an accepted [collision_free] build, the check holds of the FINAL registry:

    - [type_build_default]: inversion of an accepted attempt -- with [defaultable], every region
      passed [check_defaultable] in the registry the attempt ends in, and every region has a size
      there (so the "not resolved yet" escape of [check_defaultable] is not taken:
      [check_defaultable_dflt]);
    - [DInv]: an invariant of the resolution loop ([DInv_step], lifted with
      [NoPanicBase.resolve_loop_lift]): every resolved [defaultable] struct of the registry has only
      regions that are [dflt_region]: arrays (any depth) of a path whose registry item is RESOLVED and
      [inner_defaultable]; and an item that is not of the input (a generated [<T>Vftable] struct) is
      not [inner_defaultable];
    - [final_default_closed]: the invariant holds of the final registry;
    - [input_defaultable_predefined]: the resolved items of the input registry that are
      [inner_defaultable] are the predefined ones (an extern type is NOT: pyxis rejects a
      [defaultable] type with a field of extern type);
    - [default_index_bound]: the default index of an accepted enum is the index of a variant;
    - [default_own_vftable_rejected]: an accepted [defaultable] struct has no vftable pointer of its
      own (its first region would be a raw pointer, which [check_defaultable] rejects);
      [default_regions_no_pointer]: and no pointer / function-pointer region at all. *)
From Coq Require Import List NArith ZArith Bool Lia String.
From PyxisModel Require Import Base Sexp Grammar SemTypes Registry Sem SemLemmas PlacementLemmas EnumLemmas
     WholeBuild NoPanicBase NoPanicNames FilesWhole.
Import ListNotations.
Local Open Scope string_scope.
Local Open Scope list_scope.

(** ** what [check_defaultable] establishes *)
(** the type of [r] is an array (of arrays ...) of a path whose item is resolved and defaultable *)
Definition dflt_region (R : registry) (r : region) : Prop :=
  exists q itq rsq, defaultable_path (r_type r) = Some q /\ reg_get R q = Some itq /\
    item_resolved itq = Some rsq /\ inner_defaultable (rs_inner rsq) = true.

Lemma sized_bottom R : forall t q, defaultable_path t = Some q -> size_of R t <> None ->
  exists it rs, reg_get R q = Some it /\ item_resolved it = Some rs.
Proof.
  induction t as [p|t IH|t IH|t IH n|c args ret]; intros q Hd Hs; cbn [defaultable_path] in Hd; try discriminate.
  - inversion Hd; subst q. cbn [size_of] in Hs. destruct (reg_get R p) as [it|]; [|congruence].
    unfold item_size in Hs. destruct (item_resolved it) as [rs|] eqn:Er; [eauto | cbn in Hs; congruence].
  - apply IH; [exact Hd|]. cbn [size_of] in Hs. destruct (size_of R t); [discriminate | congruence].
Qed.

Lemma check_defaultable_dflt R r :
  check_defaultable R r = Ok tt -> size_of R (r_type r) <> None -> dflt_region R r.
Proof.
  unfold check_defaultable. intros H Hs.
  destruct (defaultable_path (r_type r)) as [q|] eqn:Ed; [|discriminate].
  destruct (sized_bottom _ _ _ Ed Hs) as (it & rs & Hg & Hr). rewrite Hg, Hr in H.
  exists q, it, rs. repeat split; auto. destruct (inner_defaultable (rs_inner rs)); [reflexivity | discriminate].
Qed.

Lemma check_all_forall R : forall regions u,
  foldM (fun _ r => check_defaultable R r) regions u = Ok tt ->
  Forall (fun r => check_defaultable R r = Ok tt) regions.
Proof.
  induction regions as [|r rs IH]; intros u H; cbn [foldM] in H; [constructor|].
  inv_bind H. destruct a. constructor; [exact Ha | eapply IH; eauto].
Qed.

(** ** every region of an accepted struct has a size in the registry the attempt ends in *)
Lemma name_regions_sized R : forall rs s0 rs' s,
  name_regions R rs s0 = Ok (rs', s) -> Forall (fun r => size_of R (r_type r) <> None) rs'.
Proof.
  induction rs as [|r rs IH]; intros s0 rs' s H; cbn [name_regions] in H.
  - inversion H; constructor.
  - destruct (size_of R (r_type r)) as [rsz|] eqn:Es; [|discriminate]. inv_bind H. destruct a as [rest s1].
    inversion H; subst. cbn [fst]. constructor; [|eapply IH; eauto].
    destruct (r_name r); cbn [r_type]; congruence.
Qed.

Lemma resolve_regions_sized st owner v ts pending vfs st' regions vt size :
  resolve_regions st owner v ts pending vfs = Ok (st', regions, vt, size) ->
  Forall (fun r => size_of (st_reg st') (r_type r) <> None) regions.
Proof.
  unfold resolve_regions. intros H. destruct (first_base_unresolved _ _); [discriminate|].
  inv_bind H. destruct a as [[st1 vt1] vr1]. inv_bind H. inv_bind H. inv_bind H. inv_bind H.
  destruct a2 as [named sz]. cbn [fst snd] in *.
  assert (st' = st1 /\ regions = named) as [-> ->].
  { destruct ts as [t|]; [destruct (negb (sz =? t)%N); [discriminate|]|]; inversion H; auto. }
  eapply name_regions_sized; eauto.
Qed.

(** ** inversion of an accepted struct attempt, for [defaultable] *)
Theorem type_build_default st p v d st' rs :
  type_build st p v d = (st', Ok rs) ->
  exists td, rs_inner rs = IType td /\
    Forall (fun r => size_of (st_reg st') (r_type r) <> None) (td_regions td) /\
    (td_defaultable td = true ->
     Forall (fun r => check_defaultable (st_reg st') r = Ok tt) (td_regions td)).
Proof.
  unfold type_build. intros H.
  destruct (path_parent p) as [parent|]; [|inversion H].
  destruct (alookup parent (st_modules st)) as [module|]; [|inversion H].
  match type of H with context [match ?pre with Ok _ => _ | Defer => _ | Err _ => _ | Panic _ => _ end] =>
    destruct pre as [[[doc ta] [pending vfs]]| | |] eqn:Epre end; try (inversion H; fail).
  destruct (resolve_regions st p v (ta_size ta) pending vfs) as [[[[st1 regions] vt] size]| | |] eqn:Err;
    try (inversion H; fail).
  inversion H as [[Hst Hpost]]. subst st'. clear H.
  inv_bind Hpost. inv_bind Hpost. inv_bind Hpost. inv_bind Hpost.
  inversion Hpost; subst rs. clear Hpost. cbn [rs_inner].
  eexists. split; [reflexivity|]. cbn [td_regions td_defaultable].
  split; [eapply resolve_regions_sized; eauto|].
  intros Hd. rewrite Hd in Ha1. destruct a1. eapply check_all_forall; eauto.
Qed.

Corollary type_build_dflt_regions st p v d st' rs td :
  type_build st p v d = (st', Ok rs) -> rs_inner rs = IType td -> td_defaultable td = true ->
  Forall (dflt_region (st_reg st')) (td_regions td).
Proof.
  intros H Hi Hd. destruct (type_build_default _ _ _ _ _ _ H) as (td' & Hi' & Hsz & Hck).
  rewrite Hi in Hi'. inversion Hi'; subst td'. specialize (Hck Hd).
  rewrite Forall_forall in *. intros r Hr. apply check_defaultable_dflt; auto.
Qed.

(** ** PART 3: pointers cannot occur in a defaultable struct; in particular not its own vftable
    pointer *)
Theorem default_regions_no_pointer st p v d st' rs td :
  type_build st p v d = (st', Ok rs) -> rs_inner rs = IType td -> td_defaultable td = true ->
  Forall (fun r => exists q, defaultable_path (r_type r) = Some q) (td_regions td).
Proof.
  intros H Hi Hd. eapply Forall_impl; [|eapply type_build_dflt_regions; eauto].
  intros r (q & _ & _ & Hq & _). eauto.
Qed.

(** an accepted [defaultable] struct that has a vftable has it through its first base: the struct
    itself has no vftable pointer region ("defaultable + own vftable" is rejected) *)
Theorem default_own_vftable_rejected st p v d st' rs td vt :
  type_build st p v d = (st', Ok rs) -> reg_u8 (st_reg st') ->
  rs_inner rs = IType td -> td_defaultable td = true -> td_vftable td = Some vt ->
  vt_base_field vt <> None.
Proof.
  intros H Hu8 Hi Hd Hvt.
  pose proof (default_regions_no_pointer _ _ _ _ _ _ _ H Hi Hd) as Hnp.
  destruct (type_build_inv _ _ _ _ _ _ H) as
      (parent & module & doc & ta & n & pending & vfs & regions & vt' & size & funcs & A &
       _ & _ & _ & _ & Hrr & _ & Hrs).
  subst rs. cbn [rs_inner] in Hi. inversion Hi; subst td. clear Hi. cbn [td_regions td_vftable] in *. subst vt'.
  destruct (resolve_regions_offsets _ _ _ _ _ _ _ _ _ _ Hrr Hu8) as (start & [(_ & Hb)|(_ & ty & fs & Hhd & _)] & _).
  - apply Hb. reflexivity.
  - exfalso. destruct regions as [|r0 regions]; [discriminate|]. cbn [hd_error] in Hhd. inversion Hhd; subst r0.
    inversion Hnp as [|? ? (q & Hq) _]; subst. cbn in Hq. discriminate.
Qed.

(** ** the default index of an accepted enum is the index of a variant *)
Lemma default_indices_bound : forall stmts idx k,
  In k (default_indices stmts idx) -> (idx <= k < idx + List.length stmts)%nat.
Proof.
  induction stmts as [|s stmts IH]; intros idx k H; cbn [default_indices] in H; [destruct H|].
  apply in_app_or in H as [H|H].
  - destruct (is_default_stmt s); [|destruct H]. destruct H as [<-|[]]. cbn [List.length]. lia.
  - apply IH in H. cbn [List.length]. lia.
Qed.

Theorem default_index_bound st owner d rs ed k :
  enum_build st owner d = Ok rs -> rs_inner rs = IEnum ed -> ed_default_index ed = Some k ->
  (k < List.length (ed_fields ed))%nat /\ ed_defaultable ed = true.
Proof.
  intros H Hi Hk. destruct (enum_build_spec _ _ _ _ H) as (ed' & es & module & Hi' & _ & _ & _ & _ & _ & _ & Hlen & Hdef).
  rewrite Hi in Hi'. inversion Hi'; subst ed'. clear Hi'.
  destruct (default_indices (ged_stmts d) 0) as [|k' [|? ?]] eqn:Ed; [| |destruct Hdef].
  - destruct Hdef as [E _]. congruence.
  - destruct Hdef as [E Hd]. rewrite Hk in E. inversion E; subst k'. split; [|exact Hd].
    rewrite Hlen. assert (In k (default_indices (ged_stmts d) 0)) as X by (rewrite Ed; now left).
    apply default_indices_bound in X. lia.
Qed.

(** ** the resolved items of the input registry that are defaultable are the predefined ones *)
Definition dflt_predefined (R : registry) : Prop :=
  forall p it rs, reg_get R p = Some it -> item_resolved it = Some rs ->
    inner_defaultable (rs_inner rs) = true -> exists ns, In ns predefined_types /\ p = [fst ns].

Lemma add_item_dflt_predefined st it st' :
  dflt_predefined (st_reg st) ->
  (forall rs, item_resolved it = Some rs -> inner_defaultable (rs_inner rs) = true ->
              exists ns, In ns predefined_types /\ it_path it = [fst ns]) ->
  add_item st it = Ok st' -> dflt_predefined (st_reg st').
Proof.
  intros HT Hit H. rewrite (add_item_reg _ _ _ H). intros p it' rs Hg Hr Hd.
  destruct (path_eqb_spec (it_path it) p) as [<-|Hne].
  - rewrite reg_get_add_same in Hg. inversion Hg; subst. eapply Hit; eauto.
  - rewrite reg_get_add_other in Hg by exact Hne. eauto.
Qed.

Lemma sem_new_dflt_predefined ptr st : sem_new ptr = Ok st -> dflt_predefined (st_reg st).
Proof.
  unfold sem_new. intros H.
  refine (foldM_inv_in (fun s => dflt_predefined (st_reg s)) _ predefined_types _ _ _ _ H).
  - intros s ns s' Hin Hs Hadd. eapply add_item_dflt_predefined; [exact Hs | | exact Hadd].
    intros rs _ _. exists ns. split; [exact Hin | reflexivity].
  - intros p it rs Hg. discriminate.
Qed.

Lemma add_module_dflt_predefined st mp ast st' :
  dflt_predefined (st_reg st) -> add_module st mp ast = Ok st' -> dflt_predefined (st_reg st').
Proof.
  unfold add_module. intros HT H. inv_bind H. inv_bind H. inv_bind H.
  eapply (foldM_preserves (fun s => dflt_predefined (st_reg s))); [| |exact H].
  - intros s e s' Hs He. unfold add_extern_type in He. inv_bind He.
    destruct a2 as [[size|] [al|]]; try discriminate.
    destruct (reg_has _ _); [discriminate|]. eapply add_item_dflt_predefined; [exact Hs | | exact He].
    intros rs E Hd. cbn in E. inversion E; subst. cbn in Hd. discriminate.
  - eapply (foldM_preserves (fun s => dflt_predefined (st_reg s))); [| |exact Ha1].
    + intros s d s' Hs Hd. unfold add_definition in Hd. destruct (reg_has _ _); [discriminate|].
      eapply add_item_dflt_predefined; [exact Hs | | exact Hd]. intros rs E. discriminate.
    + exact HT.
Qed.

Theorem input_defaultable_predefined ptr mods st0 :
  input_state ptr mods = Ok st0 -> dflt_predefined (st_reg st0).
Proof.
  unfold input_state. intros H. inv_bind H.
  eapply (foldM_preserves (fun s => dflt_predefined (st_reg s))); [| |exact H].
  - intros s pm s2 Hs Hpm. cbn beta in Hpm. eapply add_module_dflt_predefined; eauto.
  - eapply sem_new_dflt_predefined; eauto.
Qed.

(** ** the invariant of the resolution loop *)
Definition item_dflt_closed (R : registry) (it : item) : Prop :=
  forall rs td, item_resolved it = Some rs -> rs_inner rs = IType td -> td_defaultable td = true ->
    Forall (dflt_region R) (td_regions td).

Definition gen_nondefault (R0 R : registry) : Prop :=
  forall q it rs, reg_get R q = Some it -> reg_get R0 q = None -> item_resolved it = Some rs ->
    inner_defaultable (rs_inner rs) = false.

Definition DInv (R0 : registry) (st : sstate) : Prop :=
  Inv R0 (st_reg st) /\ keyed (st_reg st) /\ gen_nondefault R0 (st_reg st) /\
  forall p it, reg_get (st_reg st) p = Some it -> item_dflt_closed (st_reg st) it.

(** the facts of [dflt_region] only look at resolved defaultable entries: they survive any change of
    the registry that keeps those entries *)
Lemma dflt_region_keep R R' r :
  (forall q it rs, reg_get R q = Some it -> item_resolved it = Some rs ->
     inner_defaultable (rs_inner rs) = true -> reg_get R' q = Some it) ->
  dflt_region R r -> dflt_region R' r.
Proof. intros HK (q & it & rs & Hd & Hg & Hr & Hi). exists q, it, rs. repeat split; eauto. Qed.

Lemma item_dflt_closed_keep R R' it :
  (forall q it rs, reg_get R q = Some it -> item_resolved it = Some rs ->
     inner_defaultable (rs_inner rs) = true -> reg_get R' q = Some it) ->
  item_dflt_closed R it -> item_dflt_closed R' it.
Proof.
  intros HK H rs td Hr Hi Hd. eapply Forall_impl; [|eapply H; eauto]. intros r. now apply dflt_region_keep.
Qed.

Lemma vftable_item_nondefault R owner v fs vit rs :
  vftable_item R owner v fs = Some vit -> item_resolved vit = Some rs -> inner_defaultable (rs_inner rs) = false.
Proof.
  unfold vftable_item. destruct (vftable_path owner); [|discriminate].
  intros H; inversion H; subst vit; clear H. cbn. intros E; inversion E; subst. reflexivity.
Qed.

Section Step.
  Variable R0 : registry.
  Hypothesis Hcf : collision_free R0.

  (** registering the vftable struct of [p] *)
  Lemma DInv_vstep st st' p it gd td :
    DInv R0 st -> reg_get (st_reg st) p = Some it -> it_state it = Unresolved gd -> gi_inner gd = GIType td ->
    vstep p td st st' ->
    gen_nondefault R0 (st_reg st') /\
    (forall p' it', reg_get (st_reg st') p' = Some it' -> item_dflt_closed (st_reg st') it').
  Proof.
    intros (HI & HK & HG & HC) Hg Hs Hty [->|v fs vit Hlen Hvi Hadd]; [split; assumption|].
    destruct (Inv_unresolved _ _ _ _ _ HI Hg Hs) as (it0 & Hg0 & Hs0).
    destruct (vftable_item_facts _ _ _ _ _ Hvi) as (Hvp & _).
    assert (reg_get R0 (it_path vit) = None) as Hnone by (eapply Hcf; eauto; congruence).
    rewrite (add_item_reg _ _ _ Hadd).
    assert (forall q itq rsq, reg_get (st_reg st) q = Some itq -> item_resolved itq = Some rsq ->
              inner_defaultable (rs_inner rsq) = true -> reg_get (reg_add (st_reg st) vit) q = Some itq) as Hkeep.
    { intros q itq rsq Hq Hr Hd. rewrite reg_get_add_other; [exact Hq|]. intros E. subst q.
      rewrite (HG _ _ _ Hq Hnone Hr) in Hd. discriminate. }
    split.
    - intros q itq rsq Hq Hn Hr. destruct (path_eqb_spec (it_path vit) q) as [<-|Hne].
      + rewrite reg_get_add_same in Hq. inversion Hq; subst itq. eapply vftable_item_nondefault; eauto.
      + rewrite reg_get_add_other in Hq by exact Hne. eapply HG; eauto.
    - intros q itq Hq. destruct (path_eqb_spec (it_path vit) q) as [<-|Hne].
      + rewrite reg_get_add_same in Hq. inversion Hq; subst itq. intros rs tdv Hr Hi Hd.
        pose proof (vftable_item_nondefault _ _ _ _ _ _ Hvi Hr) as X. rewrite Hi in X. cbn in X. congruence.
      + rewrite reg_get_add_other in Hq by exact Hne. eapply item_dflt_closed_keep; [exact Hkeep|]. eauto.
  Qed.

  Theorem DInv_step st p it gd st' o :
    DInv R0 st -> reg_get (st_reg st) p = Some it -> it_state it = Unresolved gd -> attempt st p gd = (st', o) ->
    match o with Ok r => DInv R0 (set_resolved st' p r) | Defer => DInv R0 st' | _ => True end.
  Proof.
    intros HD Hg Hs Hat. pose proof HD as (HI & HK & HG & HC).
    destruct (attempt_inv _ _ _ _ _ _ _ Hcf HI HK Hg Hs Hat) as (HI1 & HK1 & _ & Hback).
    destruct (Inv_unresolved _ _ _ _ _ HI Hg Hs) as (it0 & Hg0 & Hs0).
    assert (reg_get R0 p <> None) as Hp0 by congruence.
    assert (reg_get (st_reg st') p = Some it) as Hg1 by (rewrite Hback; [exact Hg | exact Hp0]).
    (* the state after the attempt itself *)
    assert (gen_nondefault R0 (st_reg st') /\
            (forall p' it', reg_get (st_reg st') p' = Some it' -> item_dflt_closed (st_reg st') it')) as (HG1 & HC1).
    { unfold attempt in Hat. destruct (gi_inner gd) as [td|ed] eqn:Ety.
      - eapply DInv_vstep; eauto. eapply type_build_step; eauto.
      - inversion Hat; subst. split; assumption. }
    assert (DInv R0 st') as HD1 by (split; [exact HI1 | split; [exact HK1 | split; assumption]]).
    destruct o as [r| | |]; auto.
    (* resolved: the entry of [p] is replaced *)
    destruct (set_resolved_inv R0 st' p it gd r Hcf HI1 HK1 Hg1 Hs) as (HI2 & HK2 & _ & (it2 & Hg2 & Hs2) & Hoth).
    cbn zeta in *.
    assert (forall q itq rsq, reg_get (st_reg st') q = Some itq -> item_resolved itq = Some rsq ->
              inner_defaultable (rs_inner rsq) = true ->
              reg_get (st_reg (set_resolved st' p r)) q = Some itq) as Hkeep.
    { intros q itq rsq Hq Hr _. rewrite Hoth; [exact Hq|]. intros ->. rewrite Hg1 in Hq. inversion Hq; subst itq.
      unfold item_resolved in Hr. rewrite Hs in Hr. discriminate. }
    split; [exact HI2|]. split; [exact HK2|]. split.
    - intros q itq rsq Hq Hn Hr. rewrite Hoth in Hq by congruence. eapply HG1; eauto.
    - intros q itq Hq. destruct (path_eqb_spec q p) as [->|Hne].
      + rewrite Hg2 in Hq. inversion Hq; subst itq. intros rs td Hr Hi Hd.
        unfold item_resolved in Hr. rewrite Hs2 in Hr. inversion Hr; subst rs.
        unfold attempt in Hat. destruct (gi_inner gd) as [td0|ed0].
        * eapply Forall_impl; [|eapply type_build_dflt_regions; eauto].
          intros r0. now apply dflt_region_keep.
        * inversion Hat; subst. destruct (enum_build_inner _ _ _ _ H1) as (ed & He). congruence.
      + rewrite Hoth in Hq by exact Hne. eapply item_dflt_closed_keep; [exact Hkeep|]. eauto.
  Qed.
End Step.

Lemma DInv_init ptr mods st0 : input_state ptr mods = Ok st0 -> DInv (st_reg st0) st0.
Proof.
  intros Hin. split; [apply Inv_init|]. split; [eapply input_state_keyed; eauto|]. split.
  - intros q it rs Hg Hn. congruence.
  - intros p it Hg rs td Hr Hi _.
    destruct (input_state_trivial _ _ _ Hin p it rs Hg Hr) as (_ & td' & Hi' & Hregs & _).
    rewrite Hi in Hi'. inversion Hi'; subst td'. rewrite Hregs. constructor.
Qed.

(** ** RESULT: in the final registry of an accepted build, every [defaultable] struct has only
    regions whose type is an array (of arrays ...) of a path naming a RESOLVED, [inner_defaultable]
    entry of that same registry; generated items are not defaultable *)
Theorem final_default_closed order ptr mods st0 st :
  input_state ptr mods = Ok st0 -> collision_free (st_reg st0) ->
  pyxis_resolve order ptr mods = BOk st ->
  gen_nondefault (st_reg st0) (st_reg st) /\
  forall p it rs td, reg_get (st_reg st) p = Some it -> item_resolved it = Some rs ->
    rs_inner rs = IType td -> td_defaultable td = true -> Forall (dflt_region (st_reg st)) (td_regions td).
Proof.
  intros Hin Hcf H. destruct (pyxis_resolve_input _ _ _ _ H) as (st0' & Hin' & Hb).
  rewrite Hin in Hin'. inversion Hin'; subst st0'. unfold sem_build in Hb.
  destruct (resolve_loop order _ st0) as [s| | | |] eqn:El; try discriminate.
  pose proof (resolve_loop_lift (DInv (st_reg st0)) (DInv_step _ Hcf) order _ _ _ (DInv_init _ _ _ Hin) El)
    as (_ & _ & HG & HC).
  rewrite (finish_build_reg _ _ Hb). split; [exact HG|].
  intros p it rs td Hg Hr Hi Hd. eapply HC; eauto.
Qed.


(** PART 3 on the whole build: in the final registry of an accepted build, a declared [defaultable]
    struct that has a vftable has it through its first base -- it never has a pointer of its own *)
Theorem default_own_vftable_rejected_whole order ptr mods st0 st p it0 gd td0 it r td vt :
  input_state ptr mods = Ok st0 -> collision_free (st_reg st0) ->
  pyxis_resolve order ptr mods = BOk st ->
  reg_get (st_reg st0) p = Some it0 -> it_state it0 = Unresolved gd -> gi_inner gd = GIType td0 ->
  reg_get (st_reg st) p = Some it -> it_state it = Resolved r -> rs_inner r = IType td ->
  td_defaultable td = true -> td_vftable td = Some vt -> vt_base_field vt <> None.
Proof.
  intros Hin Hcf Hres Hg0 Hs0 Hty Hg Hs Hi Hd Hvt.
  destruct (whole_build_type _ _ _ _ _ _ _ _ _ _ _ Hin Hcf Hres Hg0 Hs0 Hty Hg Hs) as (sm & sm' & He0 & Hat & He1 & _).
  eapply default_own_vftable_rejected; eauto.
  apply (reg_u8_ext (st_reg st0) (st_reg st0) (st_reg sm')); [eapply ext_trans; eauto | eapply input_state_u8; eauto].
Qed.

Print Assumptions type_build_default.
Print Assumptions default_own_vftable_rejected_whole.
Print Assumptions default_own_vftable_rejected.
Print Assumptions default_index_bound.
Print Assumptions input_defaultable_predefined.
Print Assumptions final_default_closed.
