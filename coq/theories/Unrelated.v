(** * C19, concrete: a module's bindings do not depend on unrelated definitions.

    Two inputs, the second with additional modules ([mods1 ++ extra]).  If the additional modules'
    items are invisible to the lookups of the first input ([no_capture], decidable) and both
    builds are accepted, every item of the first input is resolved to the same value in both --
    whatever the two schedules.  Frame.v gives the frame lemma for one attempt; this file proves
    what registration of [mods1 ++ extra] adds to the registration of [mods1], that the abstract
    attempt functions of OrderIndep.v for the two inputs agree on the items of the first, and
    applies [Locality.accepted_builds_agree]. *)
From Coq Require Import List NArith ZArith Bool Lia String Permutation.
From PyxisModel Require Import Base Grammar SemTypes Registry Sem SemLemmas ScopeLemmas
     PlacementLemmas TotalityLemmas EmitLemmas WholeBuild Monotone OrderIndep Locality Frame Examples.
From PyxisModel Require Confluence.
Import ListNotations.
Local Open Scope string_scope.
Local Open Scope list_scope.

(** ** registration of more modules extends the registration of fewer *)
Lemma path_parent_join mp n : path_parent (path_join mp n) = Some mp.
Proof.
  unfold path_parent, path_join. destruct (mp ++ [n]) eqn:E; [destruct mp; discriminate|].
  rewrite <- E, removelast_last. reflexivity.
Qed.

(** [st'] has the items of [st] (unchanged), and the modules of [st] outside [mps] (unchanged) *)
Record st_ext (mps : list path) (st st' : sstate) : Prop := {
  ext_ptr : reg_ptr (st_reg st') = reg_ptr (st_reg st);
  ext_reg : forall p it, reg_get (st_reg st) p = Some it -> reg_get (st_reg st') p = Some it;
  ext_mods : forall k, ~ In k mps -> alookup k (st_modules st') = alookup k (st_modules st) }.

Lemma st_ext_refl mps st : st_ext mps st st.
Proof. constructor; auto. Qed.

Lemma st_ext_trans mps a b c : st_ext mps a b -> st_ext mps b c -> st_ext mps a c.
Proof.
  intros [P1 R1 M1] [P2 R2 M2]. constructor.
  - congruence.
  - auto.
  - intros k Hk. rewrite M2, M1; auto.
Qed.

Lemma st_ext_incl mps mps' a b : incl mps mps' -> st_ext mps a b -> st_ext mps' a b.
Proof. intros Hi [P1 R1 M1]. constructor; auto. Qed.

Lemma reg_has_false_get R p : reg_has R p = false -> reg_get R p = None.
Proof. unfold reg_has, amem. fold (reg_get R p). destruct (reg_get R p); [discriminate | reflexivity]. Qed.
Lemma reg_get_none_has R p : reg_get R p = None -> reg_has R p = false.
Proof. unfold reg_has, amem. fold (reg_get R p). now intros ->. Qed.
Lemma reg_get_some_has R p it : reg_get R p = Some it -> reg_has R p = true.
Proof. unfold reg_has, amem. fold (reg_get R p). now intros ->. Qed.

Lemma add_fresh_item_ext st it st' mp :
  reg_has (st_reg st) (it_path it) = false -> path_parent (it_path it) = Some mp ->
  add_item st it = Ok st' -> st_ext [mp] st st'.
Proof.
  intros Hf Hp H. unfold add_item in H. rewrite Hp in H.
  destruct (alookup mp (st_modules st)) as [m|]; [|discriminate]. inversion H; subst st'; clear H.
  constructor; cbn [st_reg st_modules].
  - reflexivity.
  - intros p it' Hg. rewrite reg_get_add_other; [exact Hg|]. intros E. subst p.
    apply reg_has_false_get in Hf. congruence.
  - intros k Hk. apply alookup_ainsert_other. intros E. apply Hk. now left.
Qed.

Lemma add_definition_ext mp st d st' : add_definition mp st d = Ok st' -> st_ext [mp] st st'.
Proof.
  unfold add_definition. destruct (reg_has _ _) eqn:Eh; [discriminate|].
  apply add_fresh_item_ext; cbn [it_path]; [exact Eh | apply path_parent_join].
Qed.

Lemma add_extern_type_ext mp st e st' : add_extern_type mp st e = Ok st' -> st_ext [mp] st st'.
Proof.
  unfold add_extern_type. intros H. inv_bind H. destruct a as [[size|] [al|]]; try discriminate.
  destruct (reg_has _ _) eqn:Eh; [discriminate|]. revert H.
  apply add_fresh_item_ext; cbn [it_path]; [exact Eh | apply path_parent_join].
Qed.

Lemma add_module_ext st mp ast st' : add_module st mp ast = Ok st' -> st_ext [mp] st st'.
Proof.
  unfold add_module. intros H. inv_bind H. inv_bind H. inv_bind H.
  set (st1 := {| st_modules := ainsert mp a0 (st_modules st); st_reg := st_reg st |}) in *.
  assert (st_ext [mp] st st1) as H1.
  { constructor; cbn [st1 st_reg st_modules]; auto.
    intros k Hk. apply alookup_ainsert_other. intros E. apply Hk. now left. }
  eapply st_ext_trans; [exact H1|]. eapply st_ext_trans.
  - eapply (foldM_preserves (fun s => st_ext [mp] st1 s)); [| apply st_ext_refl | exact Ha1].
    intros s d s' Hs Hd. eapply st_ext_trans; [exact Hs | eapply add_definition_ext; eauto].
  - eapply (foldM_preserves (fun s => st_ext [mp] a1 s)); [| apply st_ext_refl | exact H].
    intros s e s' Hs He. eapply st_ext_trans; [exact Hs | eapply add_extern_type_ext; eauto].
Qed.

Lemma foldM_preserves_in {A S} (P : S -> Prop) (f : S -> A -> outcome S) : forall l,
  (forall s a s', In a l -> P s -> f s a = Ok s' -> P s') ->
  forall s s', P s -> foldM f l s = Ok s' -> P s'.
Proof.
  induction l as [|a l IH]; intros Hf s s' Hs H; cbn [foldM] in H.
  - now inversion H; subst.
  - inv_bind H. eapply IH; [| |exact H].
    + intros s1 b s2 Hb. apply Hf. now right.
    + eapply Hf; [now left | exact Hs | exact Ha].
Qed.

Lemma add_modules_ext extra st st' :
  foldM (fun st pm => add_module st (fst pm) (snd pm)) extra st = Ok st' -> st_ext (map fst extra) st st'.
Proof.
  intros H.
  eapply (foldM_preserves_in (fun s => st_ext (map fst extra) st s)); [| apply st_ext_refl | exact H].
  intros s pm s' Hin Hs Hpm. cbn beta in Hpm. eapply st_ext_trans; [exact Hs|].
  apply add_module_ext in Hpm. eapply st_ext_incl; [|exact Hpm].
  intros k [<-|[]]. now apply in_map.
Qed.

Lemma input_state_app ptr mods1 extra st1 st2 :
  input_state ptr mods1 = Ok st1 -> input_state ptr (mods1 ++ extra) = Ok st2 ->
  foldM (fun st pm => add_module st (fst pm) (snd pm)) extra st1 = Ok st2.
Proof.
  unfold input_state. intros H1 H2. inv_bind H1. inv_bind H2. rewrite Ha in Ha0. inversion Ha0; subst a0.
  rewrite foldM_app, H1 in H2. exact H2.
Qed.

(** ** every registered item lives in a registered module *)
Definition parented (st : sstate) : Prop :=
  forall p it, reg_get (st_reg st) p = Some it ->
    exists parent, path_parent p = Some parent /\ amem parent (st_modules st) = true.

Lemma amem_ainsert {V} k (v : V) l k' : amem k' l = true -> amem k' (ainsert k v l) = true.
Proof.
  unfold amem. destruct (path_eqb_spec k k') as [->|Hne].
  - now rewrite alookup_ainsert_same.
  - now rewrite alookup_ainsert_other.
Qed.

Lemma add_item_parented st it st' : parented st -> add_item st it = Ok st' -> parented st'.
Proof.
  intros HP H. unfold add_item in H. destruct (path_parent (it_path it)) as [parent|] eqn:Ep; [|discriminate].
  destruct (alookup parent (st_modules st)) as [m|] eqn:Em; [|discriminate]. inversion H; subst st'; clear H.
  intros p it' Hg. cbn [st_reg st_modules] in *.
  destruct (path_eqb_spec (it_path it) p) as [<-|Hne].
  - exists parent. split; [exact Ep|]. unfold amem. now rewrite alookup_ainsert_same.
  - rewrite reg_get_add_other in Hg by exact Hne. destruct (HP _ _ Hg) as (q & Hq & Hm).
    exists q. split; [exact Hq | now apply amem_ainsert].
Qed.

Lemma sem_new_parented ptr st : sem_new ptr = Ok st -> parented st.
Proof.
  unfold sem_new. apply (foldM_preserves parented).
  - intros s a s' Hs H. eapply add_item_parented; eauto.
  - intros p it H. discriminate.
Qed.

Lemma add_module_parented st mp ast st' : parented st -> add_module st mp ast = Ok st' -> parented st'.
Proof.
  unfold add_module. intros HP H. inv_bind H. inv_bind H. inv_bind H.
  eapply (foldM_preserves parented); [| |exact H].
  - intros s e s' Hs He. unfold add_extern_type in He. inv_bind He.
    destruct a2 as [[size|] [al|]]; try discriminate.
    destruct (reg_has _ _); [discriminate|]. eapply add_item_parented; eauto.
  - eapply (foldM_preserves parented); [| |exact Ha1].
    + intros s d s' Hs Hd. unfold add_definition in Hd. destruct (reg_has _ _); [discriminate|].
      eapply add_item_parented; eauto.
    + intros p it Hg. cbn [st_reg st_modules] in *. destruct (HP _ _ Hg) as (q & Hq & Hm).
      exists q. split; [exact Hq | now apply amem_ainsert].
Qed.

Lemma input_state_parented ptr mods st0 : input_state ptr mods = Ok st0 -> parented st0.
Proof.
  unfold input_state. intros H. inv_bind H.
  eapply (foldM_preserves parented); [| |exact H].
  - intros s pm s2 Hs Hpm. cbn beta in Hpm. eapply add_module_parented; eauto.
  - eapply sem_new_parented; eauto.
Qed.

(** ** the lookup candidates of an input state, and the no-capture condition *)
Definition parent_is (mp p : path) : bool :=
  match path_parent p with Some q => path_eqb q mp | None => false end.
Definition item_names (it : item) : list string :=
  match it_state it with Unresolved gd => def_names gd | Resolved _ => [] end.
(** the type names written in a module: in the definitions registered under it, in its impl
    blocks, in its extern values *)
Definition module_names (R : registry) (km : path * smodule) : list string :=
  flat_map (fun kv => if parent_is (fst km) (fst kv) then item_names (snd kv) else []) (reg_types R) ++
  flat_map (fun kb => flat_map fn_names (gb_fns (snd kb))) (m_impls (snd km)) ++
  flat_map (fun ev => gtype_names (ev_gtype ev)) (m_extern_values (snd km)).
(** its lookup candidates: the scope paths; for every name, the root and the scope paths that are
    modules, joined with the name *)
Definition module_cands (R : registry) (km : path * smodule) : list path :=
  module_scope (snd km) ++ flat_map (name_cands R (module_scope (snd km))) (module_names R km).
Definition state_cands (st : sstate) : list path :=
  ["u8"] :: flat_map (module_cands (st_reg st)) (st_modules st).

(** the extra modules are new modules, and no lookup candidate of the first input changes from
    absent to present (or back) in the second *)
Definition no_capture (st1 st2 : sstate) (extra : list (path * gmodule)) : bool :=
  forallb (fun pm => negb (amem (fst pm) (st_modules st1))) extra &&
  forallb (fun c => Bool.eqb (reg_has (st_reg st2) c) (reg_has (st_reg st1) c)) (state_cands st1).

Lemma no_capture_sound st1 st2 extra : no_capture st1 st2 extra = true ->
  (forall k, In k (map fst extra) -> amem k (st_modules st1) = false) /\
  (forall c, In c (state_cands st1) -> reg_has (st_reg st2) c = reg_has (st_reg st1) c).
Proof.
  unfold no_capture. intros H. apply andb_prop in H as [H1 H2]. rewrite forallb_forall in H1, H2. split.
  - intros k Hk. apply in_map_iff in Hk as (pm & <- & Hin). specialize (H1 _ Hin). now apply negb_true_iff in H1.
  - intros c Hc. specialize (H2 _ Hc). now apply eqb_prop in H2.
Qed.

Lemma in_reg_unresolved R k it gd :
  reg_get R k = Some it -> it_state it = Unresolved gd -> item_is_predefined it = false ->
  In k (reg_unresolved R).
Proof.
  intros Hg Hs Hp. unfold reg_get in Hg. destruct (alookup_in _ _ _ Hg) as (k' & Hin & ->).
  unfold reg_unresolved. apply in_map_iff. exists (k, it). split; [reflexivity|].
  apply filter_In. split; [exact Hin|]. cbn [snd]. unfold item_is_resolved. now rewrite Hp, Hs.
Qed.

(** ** the abstract attempt functions of the two inputs agree on the items of the first *)
Section Two.
  Variable st1 st2 : sstate.
  Variable mps : list path.
  Let R1 := st_reg st1.
  Let R2 := st_reg st2.
  Hypothesis Hext : st_ext mps st1 st2.
  Hypothesis Hfresh : forall k, In k mps -> amem k (st_modules st1) = false.
  Hypothesis Hpar : parented st1.
  Hypothesis Hnc : forall c, In c (state_cands st1) -> reg_has R2 c = reg_has R1 c.
  Hypothesis Hclean_mods : forall km, In km (st_modules st1) -> clean_module (snd km) = true.

  Definition candP (c : path) : Prop := In c (state_cands st1).

  Lemma cand_get c : candP c -> reg_get R2 c = reg_get R1 c.
  Proof.
    intros Hc. destruct (reg_get R1 c) as [it|] eqn:E1.
    - apply (ext_reg _ _ _ Hext). exact E1.
    - apply reg_has_false_get. rewrite (Hnc c Hc). now apply reg_get_none_has.
  Qed.

  Lemma mark_ragree A : ragree candP (mark R1 A) (mark R2 A).
  Proof.
    split.
    - cbn [mark reg_ptr]. symmetry. apply (ext_ptr _ _ _ Hext).
    - intros c Hc. rewrite !reg_get_mark. now rewrite (cand_get c Hc).
  Qed.

  Lemma scope_mods_mark A scope : scope_mods (mark R1 A) scope = scope_mods R1 scope.
  Proof. unfold scope_mods. apply filter_ext. intros c. now rewrite reg_has_mark. Qed.

  Lemma in_module_cands parent m c : alookup parent (st_modules st1) = Some m ->
    In c (module_cands R1 (parent, m)) -> candP c.
  Proof.
    intros Hm Hc. destruct (alookup_in _ _ _ Hm) as (k' & Hin & ->). unfold candP, state_cands. right.
    apply in_flat_map. exists (parent, m). split; [exact Hin | exact Hc].
  Qed.

  Lemma cands_lookup_ok A k it gd parent m :
    reg_get R1 k = Some it -> it_state it = Unresolved gd ->
    path_parent k = Some parent -> alookup parent (st_modules st1) = Some m ->
    lookup_ok candP (mark R1 A) m (def_names gd ++ impl_names m k) k.
  Proof.
    intros Hg Hs Hp Hm. split; [|split].
    - intros c Hc. apply (in_module_cands parent m c Hm). unfold module_cands. cbn [snd]. apply in_or_app. now left.
    - intros n Hn c Hc. apply (in_module_cands parent m c Hm). unfold module_cands. cbn [snd]. apply in_or_app. right.
      unfold name_cands in Hc. rewrite scope_mods_mark in Hc. apply in_flat_map. exists n. split; [|exact Hc].
      unfold module_names. cbn [fst snd]. apply in_app_or in Hn as [Hn|Hn]; apply in_or_app.
      + left. unfold reg_get in Hg. destruct (alookup_in _ _ _ Hg) as (k' & Hin & ->).
        apply in_flat_map. exists (k, it). split; [exact Hin|]. cbn [fst snd]. unfold parent_is. rewrite Hp, path_eqb_refl.
        unfold item_names. now rewrite Hs.
      + right. apply in_or_app. left. unfold impl_names in Hn. destruct (alookup k (m_impls m)) as [blk|] eqn:Eb; [|destruct Hn].
        destruct (alookup_in _ _ _ Eb) as (k' & Hin & _). apply in_flat_map. exists (k', blk). split; [exact Hin | exact Hn].
    - intros vp Hvp Hin. destruct (alookup_in _ _ _ Hm) as (k' & Hinm & _).
      pose proof (Hclean_mods _ Hinm) as Hc. unfold clean_module in Hc. cbn [snd] in Hc.
      apply andb_prop in Hc as [Hc _]. apply andb_prop in Hc as [Hc _]. rewrite forallb_forall in Hc.
      specialize (Hc _ Hin). rewrite (gen_path_not_clean _ _ Hvp) in Hc. discriminate.
  Qed.

  (** the frame lemma, for the two marked input states *)
  Lemma attempt_two A k it gd : reg_get R1 k = Some it -> it_state it = Unresolved gd ->
    snd (attempt (conc st1 A) k gd) = snd (attempt (conc st2 A) k gd).
  Proof.
    intros Hg Hs. destruct (Hpar _ _ Hg) as (parent & Hp & Hmem).
    apply (attempt_frame candP); cbn [conc st_reg st_modules]; fold R1 R2.
    - left. reflexivity.
    - apply mark_ragree.
    - intros q Hq. rewrite Hp in Hq. inversion Hq; subst q. unfold magree.
      rewrite (ext_mods _ _ _ Hext parent).
      + destruct (alookup parent (st_modules st1)); [apply mod_eq_refl | exact I].
      + intros Hin. rewrite (Hfresh _ Hin) in Hmem. discriminate.
    - intros q m Hq Hm. eapply cands_lookup_ok; eauto.
  Qed.

  Theorem att_agree A k : user R1 k -> att st1 A k = att st2 A k.
  Proof.
    intros Hu. unfold att. fold R1 R2. destruct (reg_get R1 k) as [it|] eqn:Eg; [|exfalso; apply Hu; exact Eg].
    assert (reg_get R2 k = Some it) as -> by (apply (ext_reg _ _ _ Hext); exact Eg).
    destruct (it_state it) as [gd|r] eqn:Es; [|reflexivity].
    f_equal. now apply (attempt_two A k it gd).
  Qed.
End Two.

(** ** both builds accepted => the items of the first input have the same value in both *)
(** the side conditions of OrderIndep.v for one input state *)
Record good_input (st0 : sstate) : Prop := {
  gi_cf : collision_free (st_reg st0);
  gi_u8 : user (st_reg st0) ["u8"];
  gi_mods : forall km, In km (st_modules st0) -> clean_module (snd km) = true;
  gi_defs : forall p it gd, reg_get (st_reg st0) p = Some it -> it_state it = Unresolved gd -> clean_def gd = true;
  gi_keyed : keyed (st_reg st0);
  gi_nodup : NoDup (map fst (reg_types (st_reg st0))) }.

Lemma input_good ptr mods st0 :
  input_state ptr mods = Ok st0 -> collision_free (st_reg st0) -> clean_stateb st0 = true -> good_input st0.
Proof.
  intros Hin Hcf Hcl. destruct (clean_stateb_sound _ Hcl) as [Hm Hd]. constructor; auto.
  - apply reg_u8_user. eapply input_state_u8; eauto.
  - eapply input_state_keyed; eauto.
  - eapply input_state_nodup; eauto.
Qed.

Lemma items_incl st1 st2 mps : NoDup (map fst (reg_types (st_reg st1))) -> st_ext mps st1 st2 ->
  incl (items st1) (items st2).
Proof.
  intros HND Hext k Hk. destruct (items_spec st1 HND k Hk) as (it & gd & Hg & Hs & Hp).
  unfold items. eapply in_reg_unresolved; [apply (ext_reg _ _ _ Hext); exact Hg | exact Hs | exact Hp].
Qed.

(** both loops accepted: the two final states stand for abstract states that agree on the items
    of the first input (registration facts as explicit hypotheses) *)
Lemma accepted_sims st1 st2 mps o1 o2 fuel1 fuel2 s1 s2 :
  good_input st1 -> good_input st2 ->
  st_ext mps st1 st2 -> (forall k, In k mps -> amem k (st_modules st1) = false) -> parented st1 ->
  (forall c, In c (state_cands st1) -> reg_has (st_reg st2) c = reg_has (st_reg st1) c) ->
  (forall l, Permutation (o1 l) l) -> (forall l, Permutation (o2 l) l) ->
  resolve_loop o1 fuel1 st1 = BOk s1 -> resolve_loop o2 fuel2 st2 = BOk s2 ->
  exists A1 A2, sim st1 s1 A1 /\ sim st2 s2 A2 /\ forall k, In k (items st1) -> A1 k = A2 k.
Proof.
  intros [Hcf1 Hu1 Hm1 Hd1 HK1 HN1] [Hcf2 Hu2 Hm2 Hd2 HK2 HN2] Hext Hfresh Hpar Hnc P1 P2 L1 L2.
  pose proof (loop_sim st1 Hcf1 Hu1 Hm1 Hd1 HK1 HN1 o1 P1 fuel1 st1 _ (sim_init st1 HK1)) as S1.
  pose proof (loop_sim st2 Hcf2 Hu2 Hm2 Hd2 HK2 HN2 o2 P2 fuel2 st2 _ (sim_init st2 HK2)) as S2.
  rewrite L1 in S1. rewrite L2 in S2.
  destruct (Confluence.loop path resolved path_eqb (att st1) (items st1) o1 true fuel1 (fun _ => None)) as [A1|A1| |] eqn:E1;
    cbn [abs_result] in S1; try contradiction.
  destruct (Confluence.loop path resolved path_eqb (att st2) (items st2) o2 true fuel2 (fun _ => None)) as [A2|A2| |] eqn:E2;
    cbn [abs_result] in S2; try contradiction.
  exists A1, A2. split; [exact S1|]. split; [exact S2|]. intros k Hk.
  apply (accepted_builds_agree path resolved path_eqb path_eqb_spec (att st1) (att st2) (items st1) (items st2)
           (items_incl st1 st2 mps HN1 Hext)) with (o1 := o1) (o2 := o2) (fuel1 := fuel1) (fuel2 := fuel2)
           (R0 := fun _ => None); auto.
  - intros A k' Hk'. apply (att_agree st1 st2 mps Hext Hfresh Hpar Hnc Hm1).
    destruct (items_spec st1 HN1 k' Hk') as (it & gd & Hg & _). unfold user. congruence.
  - apply (att_M1 st2 Hcf2 Hu2 Hm2 Hd2).
Qed.

(** two states standing for abstract states that agree on the items of the first input hold the
    same item at every key of the first input *)
Lemma sims_user_agree st1 st2 mps s1 A1 s2 A2 :
  NoDup (map fst (reg_types (st_reg st2))) -> st_ext mps st1 st2 ->
  sim st1 s1 A1 -> sim st2 s2 A2 -> (forall k, In k (items st1) -> A1 k = A2 k) ->
  forall p, user (st_reg st1) p -> reg_get (st_reg s1) p = reg_get (st_reg s2) p.
Proof.
  intros HN2 Hext S1 S2 Hagree p Hp.
  assert (user (st_reg st2) p) as Hp2.
  { unfold user in *. destruct (reg_get (st_reg st1) p) as [it|] eqn:Eg; [|congruence].
    rewrite (ext_reg _ _ _ Hext _ _ Eg). discriminate. }
  rewrite (sim_user _ _ _ S1 p Hp), (sim_user _ _ _ S2 p Hp2), !reg_get_mark.
  unfold user in Hp. destruct (reg_get (st_reg st1) p) as [it|] eqn:Eg; [|congruence].
  rewrite (ext_reg _ _ _ Hext _ _ Eg). cbn [option_map]. f_equal. unfold mark_item. cbn [fst snd].
  destruct (it_state it) as [gd|r] eqn:Es; [|reflexivity].
  destruct (in_dec (list_eq_dec string_dec) p (items st1)) as [Hin|Hn].
  - rewrite (Hagree p Hin). reflexivity.
  - assert (A1 p = None) as ->.
    { destruct (A1 p) eqn:Ea; [|reflexivity]. exfalso. apply Hn. apply (sim_supp _ _ _ S1). congruence. }
    assert (A2 p = None) as ->; [|reflexivity].
    destruct (A2 p) eqn:Ea; [|reflexivity]. exfalso. apply Hn.
    assert (In p (items st2)) as Hin2 by (apply (sim_supp _ _ _ S2); congruence).
    destruct (items_spec st2 HN2 p Hin2) as (it2 & gd2 & Hg2 & Hs2 & Hp2').
    rewrite (ext_reg _ _ _ Hext _ _ Eg) in Hg2. inversion Hg2; subst it2.
    unfold items. eapply in_reg_unresolved; eauto.
Qed.

(** the version with the facts about registration as explicit hypotheses: any two input states,
    the second extending the first *)
Theorem resolve_loop_unrelated_partial st1 st2 mps o1 o2 fuel1 fuel2 s1 s2 :
  good_input st1 -> good_input st2 ->
  st_ext mps st1 st2 -> (forall k, In k mps -> amem k (st_modules st1) = false) -> parented st1 ->
  (forall c, In c (state_cands st1) -> reg_has (st_reg st2) c = reg_has (st_reg st1) c) ->
  (forall l, Permutation (o1 l) l) -> (forall l, Permutation (o2 l) l) ->
  resolve_loop o1 fuel1 st1 = BOk s1 -> resolve_loop o2 fuel2 st2 = BOk s2 ->
  forall p, user (st_reg st1) p -> reg_get (st_reg s1) p = reg_get (st_reg s2) p.
Proof.
  intros G1 G2 Hext Hfresh Hpar Hnc P1 P2 L1 L2.
  destruct (accepted_sims st1 st2 mps o1 o2 fuel1 fuel2 s1 s2 G1 G2 Hext Hfresh Hpar Hnc P1 P2 L1 L2)
    as (A1 & A2 & S1 & S2 & Hagree).
  eapply sims_user_agree; eauto. apply (gi_nodup _ G2).
Qed.

(** *** C19 for the model: the resolution loop *)
Theorem resolve_loop_unrelated ptr mods1 extra st1 st2 o1 o2 fuel1 fuel2 s1 s2 :
  input_state ptr mods1 = Ok st1 -> input_state ptr (mods1 ++ extra) = Ok st2 ->
  collision_free (st_reg st1) -> collision_free (st_reg st2) ->
  clean_stateb st1 = true -> clean_stateb st2 = true ->
  no_capture st1 st2 extra = true ->
  (forall l, Permutation (o1 l) l) -> (forall l, Permutation (o2 l) l) ->
  resolve_loop o1 fuel1 st1 = BOk s1 -> resolve_loop o2 fuel2 st2 = BOk s2 ->
  forall p, user (st_reg st1) p -> reg_get (st_reg s1) p = reg_get (st_reg s2) p.
Proof.
  intros Hin1 Hin2 Hcf1 Hcf2 Hcl1 Hcl2 Hnc P1 P2 L1 L2.
  destruct (no_capture_sound _ _ _ Hnc) as [Hfresh Hcands].
  apply (resolve_loop_unrelated_partial st1 st2 (map fst extra) o1 o2 fuel1 fuel2 s1 s2);
    eauto using input_good, input_state_parented.
  apply add_modules_ext. eapply input_state_app; eauto.
Qed.

(** *** C19 for the model, whole front half: [pyxis_resolve] on [mods1] and on [mods1 ++ extra],
    both accepted, under any two permutation-valued order functions: every item of [mods1] (and
    every predefined item) has the same resolved value in both final registries *)
Theorem pyxis_resolve_unrelated ptr mods1 extra st1 st2 o1 o2 t1 t2 :
  input_state ptr mods1 = Ok st1 -> input_state ptr (mods1 ++ extra) = Ok st2 ->
  collision_free (st_reg st1) -> collision_free (st_reg st2) ->
  clean_stateb st1 = true -> clean_stateb st2 = true ->
  no_capture st1 st2 extra = true ->
  (forall l, Permutation (o1 l) l) -> (forall l, Permutation (o2 l) l) ->
  pyxis_resolve o1 ptr mods1 = BOk t1 -> pyxis_resolve o2 ptr (mods1 ++ extra) = BOk t2 ->
  forall p, user (st_reg st1) p -> reg_get (st_reg t1) p = reg_get (st_reg t2) p.
Proof.
  intros Hin1 Hin2 Hcf1 Hcf2 Hcl1 Hcl2 Hnc P1 P2 L1 L2 p Hp.
  destruct (pyxis_resolve_input _ _ _ _ L1) as (st1' & Hin1' & B1). rewrite Hin1 in Hin1'. inversion Hin1'; subst st1'.
  destruct (pyxis_resolve_input _ _ _ _ L2) as (st2' & Hin2' & B2). rewrite Hin2 in Hin2'. inversion Hin2'; subst st2'.
  unfold sem_build in B1, B2.
  destruct (resolve_loop o1 _ st1) as [s1| | | |] eqn:E1; try discriminate.
  destruct (resolve_loop o2 _ st2) as [s2| | | |] eqn:E2; try discriminate.
  rewrite (finish_build_reg _ _ B1), (finish_build_reg _ _ B2).
  exact (resolve_loop_unrelated ptr mods1 extra st1 st2 o1 o2 _ _ s1 s2 Hin1 Hin2 Hcf1 Hcf2 Hcl1 Hcl2 Hnc P1 P2 E1 E2 p Hp).
Qed.

(** ** non-vacuity *)
(** module [a]: [type A { x: u32, b: B }  type B { y: u32 }]; the unrelated module [z] also
    defines a [B] (and a [Z]); [a] does not import [z], so nothing of [z] is a lookup candidate *)
Definition unrel_a_text : string := "(module (attrs) (uses) (extern_types) (extern_values) (defs (def pub ""A"" (type (attrs) (field (attrs) pub ""x"" (tid ""u32"")) (field (attrs) pub ""b"" (tid ""B"")))) (def pub ""B"" (type (attrs) (field (attrs) pub ""y"" (tid ""u32""))))) (impls) (backends))".
Definition unrel_z_text : string := "(module (attrs) (uses) (extern_types) (extern_values) (defs (def pub ""Z"" (type (attrs) (field (attrs) pub ""q"" (tid ""u64"")))) (def pub ""B"" (type (attrs) (field (attrs) pub ""w"" (tid ""u64""))))) (impls) (backends))".
Definition unrel_mods1 : list (path * gmodule) := [(["a"], Examples.module_of_text unrel_a_text)].
Definition unrel_extra : list (path * gmodule) := [(["z"], Examples.module_of_text unrel_z_text)].

Example unrelated_no_capture :
  exists st1 st2,
    input_state 4 unrel_mods1 = Ok st1 /\ input_state 4 (unrel_mods1 ++ unrel_extra) = Ok st2 /\
    collision_freeb (st_reg st1) = true /\ collision_freeb (st_reg st2) = true /\
    clean_stateb st1 = true /\ clean_stateb st2 = true /\
    items st1 = [["a"; "A"]; ["a"; "B"]] /\
    items st2 = [["a"; "A"]; ["a"; "B"]; ["z"; "Z"]; ["z"; "B"]] /\
    no_capture st1 st2 unrel_extra = true.
Proof. vm_compute. eexists. eexists. repeat split; reflexivity. Qed.

(** the theorem applies: both builds are accepted, and [a::A], [a::B] get the same values *)
Example unrelated_applies o1 o2 t1 t2 :
  (forall l, Permutation (o1 l) l) -> (forall l, Permutation (o2 l) l) ->
  pyxis_resolve o1 4 unrel_mods1 = BOk t1 -> pyxis_resolve o2 4 (unrel_mods1 ++ unrel_extra) = BOk t2 ->
  reg_get (st_reg t1) ["a"; "A"] = reg_get (st_reg t2) ["a"; "A"] /\
  reg_get (st_reg t1) ["a"; "B"] = reg_get (st_reg t2) ["a"; "B"].
Proof.
  intros P1 P2 L1 L2. destruct unrelated_no_capture as (st1 & st2 & H1 & H2 & C1 & C2 & K1 & K2 & I1 & _ & Hnc).
  pose proof (pyxis_resolve_unrelated 4 unrel_mods1 unrel_extra st1 st2 o1 o2 t1 t2 H1 H2
                (collision_freeb_sound _ C1) (collision_freeb_sound _ C2) K1 K2 Hnc P1 P2 L1 L2) as Hall.
  assert (forall k, In k (items st1) -> user (st_reg st1) k) as Hu.
  { intros k Hk. destruct (items_spec st1 (input_state_nodup _ _ _ H1) k Hk) as (it & gd & Hg & _). unfold user. congruence. }
  split; apply Hall, Hu; rewrite I1; cbn; auto.
Qed.

Example unrelated_accepted :
  (exists t1, pyxis_resolve (hook_schedule []) 4 unrel_mods1 = BOk t1) /\
  (exists t2, pyxis_resolve (hook_schedule []) 4 (unrel_mods1 ++ unrel_extra) = BOk t2).
Proof. vm_compute. split; eexists; reflexivity. Qed.

(** a capture, detected: [a] imports the modules [z] and [y] (in this order) and names [Q], which
    only [y] defines in the first input; the extra module [z] defines a [Q] too, which wins *)
Definition capt_a_text : string := "(module (attrs) (uses (path ""z"") (path ""y"")) (extern_types) (extern_values) (defs (def pub ""A"" (type (attrs) (field (attrs) pub ""q"" (tid ""Q""))))) (impls) (backends))".
Definition capt_y_text : string := "(module (attrs) (uses) (extern_types) (extern_values) (defs (def pub ""Q"" (type (attrs) (field (attrs) pub ""x"" (tid ""u32""))))) (impls) (backends))".
Definition capt_z_text : string := "(module (attrs) (uses) (extern_types) (extern_values) (defs (def pub ""Q"" (type (attrs) (field (attrs) pub ""x"" (tid ""u64""))))) (impls) (backends))".
Definition capt_mods1 : list (path * gmodule) :=
  [(["a"], Examples.module_of_text capt_a_text); (["y"], Examples.module_of_text capt_y_text)].
Definition capt_extra : list (path * gmodule) := [(["z"], Examples.module_of_text capt_z_text)].

Definition size_in (r : build_result) (p : path) : option N :=
  match r with BOk st => option_map rs_size (Examples.resolved_of st p) | _ => None end.

Example capture_detected :
  exists st1 st2,
    input_state 4 capt_mods1 = Ok st1 /\ input_state 4 (capt_mods1 ++ capt_extra) = Ok st2 /\
    no_capture st1 st2 capt_extra = false /\
    size_in (pyxis_resolve (hook_schedule []) 4 capt_mods1) ["a"; "A"] = Some 4%N /\
    size_in (pyxis_resolve (hook_schedule []) 4 (capt_mods1 ++ capt_extra)) ["a"; "A"] = Some 8%N.
Proof. vm_compute. eexists. eexists. repeat split; reflexivity. Qed.
