(** * FinalState: what the final state of an accepted build is, beyond the resolved input items.

    - facts about input states ([input_state]): unresolved items are not predefined; the module table
      has unique keys and duplicate-free [m_defpaths];
    - an accepted loop leaves no unresolved item;
    - the loop invariant [DInv]: a module's [m_defpaths] is duplicate-free and is, as a set, its
      initial [m_defpaths] plus the generated (non-input) registry keys whose parent is the module;
      everything else of a module (including backends and doc) is unchanged;
    - two accepted runs agree on the whole registry as a map ([final_regs_agree]). *)
From Coq Require Import List NArith ZArith Bool Lia String Permutation.
From PyxisModel Require Import Base Grammar SemTypes Registry Sem SemLemmas ScopeLemmas
     PlacementLemmas TotalityLemmas EmitLemmas WholeBuild Monotone OrderIndep.
From PyxisModel Require Confluence.
Import ListNotations.
Local Open Scope string_scope.
Local Open Scope list_scope.

(** ** association-list helpers *)
Lemma in_ainsert {V} k (v : V) kv : forall l, In kv (ainsert k v l) -> kv = (k, v) \/ In kv l.
Proof.
  induction l as [|[k' v'] l IH]; cbn [ainsert].
  - intros [E|[]]; auto.
  - destruct (path_eqb k k'); cbn [In].
    + intros [E|H]; auto.
    + intros [E|H]; auto. destruct (IH H); auto.
Qed.

Lemma ainsert_keys_same {V} k (v v' : V) : forall l, alookup k l = Some v' -> map fst (ainsert k v l) = map fst l.
Proof.
  induction l as [|[k1 v1] l IH]; cbn [alookup ainsert]; [discriminate|].
  destruct (path_eqb_spec k k1) as [->|Hne]; cbn [map fst]; [reflexivity|].
  intros H. now rewrite IH.
Qed.

Lemma alookup_some_in_keys {V} k : forall (l : list (path * V)), alookup k l <> None <-> In k (map fst l).
Proof.
  induction l as [|[k1 v1] l IH]; cbn [alookup map fst In]; [tauto|].
  destruct (path_eqb_spec k k1) as [->|Hne].
  - split; [now left | discriminate].
  - rewrite IH. split; [now right | intros [E|H]; [congruence | exact H]].
Qed.

Lemma alookup_same_length {V} (l1 l2 : list (path * V)) :
  NoDup (map fst l1) -> NoDup (map fst l2) -> (forall p, alookup p l1 = alookup p l2) ->
  List.length l1 = List.length l2.
Proof.
  intros H1 H2 H. rewrite <- (map_length fst l1), <- (map_length fst l2).
  apply Permutation_length. apply NoDup_Permutation; auto.
  intros k. rewrite <- !alookup_some_in_keys. now rewrite H.
Qed.

(** ** facts about input states *)
Definition unres_defined (R : registry) : Prop :=
  forall p it gd, reg_get R p = Some it -> it_state it = Unresolved gd -> item_is_predefined it = false.

Definition mods_wf (ms : list (path * smodule)) : Prop :=
  NoDup (map fst ms) /\ forall km, In km ms -> NoDup (m_defpaths (snd km)).

Definition input_wf (st : sstate) : Prop := unres_defined (st_reg st) /\ mods_wf (st_modules st).

Lemma path_mem_in p l : path_mem p l = true <-> In p l.
Proof.
  unfold path_mem. rewrite existsb_exists. split.
  - intros (q & Hq & E). apply path_eqb_eq in E. now subst.
  - intros H. exists p. split; [exact H | apply path_eqb_refl].
Qed.

Lemma nodup_snoc {A} (l : list A) a : NoDup l -> ~ In a l -> NoDup (l ++ [a]).
Proof.
  intros H Hn. induction H as [|x l Hx Hd IH]; cbn [app].
  - constructor; [intros [] | constructor].
  - constructor.
    + rewrite in_app_iff. intros [Hin|[E|[]]]; [contradiction | subst; apply Hn; now left].
    + apply IH. intros Hin; apply Hn; now right.
Qed.

Lemma add_defpath_nodup p m : NoDup (m_defpaths m) -> NoDup (m_defpaths (add_defpath p m)).
Proof.
  intros H. unfold add_defpath. cbn [m_defpaths]. destruct (path_mem p (m_defpaths m)) eqn:E; [exact H|].
  apply nodup_snoc; [exact H|]. intros Hin. apply path_mem_in in Hin. congruence.
Qed.

Lemma add_defpath_in p m q : In q (m_defpaths (add_defpath p m)) <-> In q (m_defpaths m) \/ q = p.
Proof.
  unfold add_defpath. cbn [m_defpaths]. destruct (path_mem p (m_defpaths m)) eqn:E.
  - apply path_mem_in in E. split; [auto | intros [H| ->]; auto].
  - rewrite in_app_iff. cbn [In]. split; [intros [H|[H|[]]]; auto | intros [H|H]; auto].
Qed.

Lemma add_item_input_wf st it st' :
  input_wf st -> (forall gd, it_state it = Unresolved gd -> item_is_predefined it = false) ->
  add_item st it = Ok st' -> input_wf st'.
Proof.
  intros [HU [HN HD]] Hit H. unfold add_item in H.
  destruct (path_parent (it_path it)) as [parent|]; [|discriminate].
  destruct (alookup parent (st_modules st)) as [m|] eqn:Em; [|discriminate].
  inversion H; subst st'; clear H. unfold input_wf, mods_wf. cbn [st_modules st_reg]. split; [|split].
  - intros p it' gd Hg Hs. destruct (path_eqb_spec (it_path it) p) as [<-|Hne].
    + rewrite reg_get_add_same in Hg. inversion Hg; subst it'. eauto.
    + rewrite reg_get_add_other in Hg by exact Hne. eauto.
  - now apply ainsert_nodup.
  - intros km Hin. destruct (in_ainsert _ _ _ _ Hin) as [->|Hin'].
    + cbn [snd]. apply add_defpath_nodup. destruct (alookup_in _ _ _ Em) as (k' & Hin' & _).
      apply (HD _ Hin').
    + auto.
Qed.

Lemma sem_new_input_wf ptr st : sem_new ptr = Ok st -> input_wf st.
Proof.
  unfold sem_new. apply (foldM_preserves input_wf).
  - intros s ns s' Hs H. eapply add_item_input_wf; [exact Hs | | exact H]. cbn. discriminate.
  - split; [intros p it gd H; discriminate|]. cbn [st_modules]. split.
    + cbn. constructor; [intros [] | constructor].
    + intros km [<-|[]]. cbn. constructor.
Qed.

Lemma add_module_input_wf st mp ast st' : input_wf st -> add_module st mp ast = Ok st' -> input_wf st'.
Proof.
  unfold add_module. intros HW H. inv_bind H. inv_bind H. inv_bind H.
  eapply (foldM_preserves input_wf); [| |exact H].
  - intros s e s' Hs He. unfold add_extern_type in He. inv_bind He.
    destruct a2 as [[size|] [al|]]; try discriminate.
    destruct (reg_has _ _); [discriminate|]. eapply add_item_input_wf; [exact Hs | | exact He]. cbn. discriminate.
  - eapply (foldM_preserves input_wf); [| |exact Ha1].
    + intros s d s' Hs Hd. unfold add_definition in Hd. destruct (reg_has _ _); [discriminate|].
      eapply add_item_input_wf; [exact Hs | | exact Hd]. cbn. reflexivity.
    + destruct HW as [HU [HN HD]]. split; [exact HU|]. cbn [st_modules]. split; [now apply ainsert_nodup|].
      intros km Hin. destruct (in_ainsert _ _ _ _ Hin) as [->|Hin']; [|auto].
      cbn [snd]. unfold module_new in Ha0. inv_bind Ha0. inversion Ha0; subst a0. cbn. constructor.
Qed.

Lemma input_state_wf ptr mods st0 : input_state ptr mods = Ok st0 -> input_wf st0.
Proof.
  unfold input_state. intros H. inv_bind H.
  eapply (foldM_preserves input_wf); [| |exact H].
  - intros s pm s2 Hs Hpm. cbn beta in Hpm. eapply add_module_input_wf; eauto.
  - eapply sem_new_input_wf; eauto.
Qed.

(** ** an accepted loop leaves no unresolved item *)
Lemma resolve_loop_ok_unresolved order : (forall l, Permutation (order l) l) ->
  forall fuel st st', resolve_loop order fuel st = BOk st' -> reg_unresolved (st_reg st') = [].
Proof.
  intros HP. induction fuel as [|fuel IH]; intros st st' H; cbn [resolve_loop] in H; [discriminate|].
  destruct (order (reg_unresolved (st_reg st))) as [|p0 ps] eqn:Eo.
  - inversion H; subst. pose proof (HP (reg_unresolved (st_reg st'))) as P. rewrite Eo in P.
    now apply Permutation_nil in P.
  - destruct (resolve_pass st (p0 :: ps)) as [st1|res] eqn:Ep; [|subst; exfalso; eapply resolve_pass_abort_not_ok; eauto].
    destruct (Nat.eqb _ _); [discriminate|]. eauto.
Qed.

(** ** the loop invariant on the module table *)
Definition mod_same (m m0 : smodule) : Prop :=
  m_path m = m_path m0 /\ m_ast m = m_ast m0 /\ m_impls m = m_impls m0 /\
  m_extern_values m = m_extern_values m0 /\ m_backends m = m_backends m0 /\ m_doc m = m_doc m0.

Lemma mod_same_refl m : mod_same m m.
Proof. repeat split. Qed.

Section Loop.
  Variable st0 : sstate.
  Let R0 := st_reg st0.
  Let ms0 := st_modules st0.
  Hypothesis Hcf : collision_free R0.

  (** [p] is a generated item registered in [R] that belongs to module [k] *)
  Definition gen_in (R : registry) (k p : path) : Prop :=
    reg_get R0 p = None /\ reg_get R p <> None /\ path_parent p = Some k.

  Definition DInv (st : sstate) : Prop :=
    map fst (st_modules st) = map fst ms0 /\
    forall k m, alookup k (st_modules st) = Some m ->
      exists m0, alookup k ms0 = Some m0 /\ mod_same m m0 /\ NoDup (m_defpaths m) /\
        forall p, In p (m_defpaths m) <-> In p (m_defpaths m0) \/ gen_in (st_reg st) k p.

  Lemma DInv_init : mods_wf ms0 -> DInv st0.
  Proof.
    intros [_ HD]. split; [reflexivity|]. intros k m Hm. exists m. split; [exact Hm|]. split; [apply mod_same_refl|].
    split.
    - destruct (alookup_in _ _ _ Hm) as (k' & Hin & _). apply (HD _ Hin).
    - intros p. split; [auto|]. intros [H|(Hn & Hs & _)]; [exact H|]. fold R0 in Hs. contradiction.
  Qed.

  Lemma DInv_add_item st it st' :
    DInv st -> reg_get R0 (it_path it) = None -> add_item st it = Ok st' -> DInv st'.
  Proof.
    intros [HK HD] Hnew H. unfold add_item in H.
    destruct (path_parent (it_path it)) as [parent|] eqn:Epar; [|discriminate].
    destruct (alookup parent (st_modules st)) as [m|] eqn:Em; [|discriminate].
    inversion H; subst st'; clear H. unfold DInv. cbn [st_modules st_reg]. split.
    - rewrite (ainsert_keys_same _ _ _ _ Em). exact HK.
    - intros k m' Hm'. destruct (path_eqb_spec parent k) as [<-|Hne].
      + rewrite alookup_ainsert_same in Hm'. inversion Hm'; subst m'; clear Hm'.
        destruct (HD _ _ Em) as (m0 & Hm0 & Hsame & Hnd & Hset).
        exists m0. split; [exact Hm0|]. split; [exact Hsame|]. split; [now apply add_defpath_nodup|].
        intros p. rewrite add_defpath_in, Hset. unfold gen_in.
        destruct (path_eqb_spec (it_path it) p) as [<-|Hp].
        * rewrite reg_get_add_same. split; [|auto]. intros _. right. repeat split; [exact Hnew | discriminate | exact Epar].
        * rewrite reg_get_add_other by exact Hp. split; [intros [H|E]; [exact H | congruence] | auto].
      + rewrite alookup_ainsert_other in Hm' by exact Hne.
        destruct (HD _ _ Hm') as (m0 & Hm0 & Hsame & Hnd & Hset).
        exists m0. split; [exact Hm0|]. split; [exact Hsame|]. split; [exact Hnd|].
        intros p. rewrite Hset. unfold gen_in.
        destruct (path_eqb_spec (it_path it) p) as [<-|Hp].
        * rewrite Epar. split; (intros [H|(H1 & H2 & H3)]; [now left | congruence]).
        * rewrite reg_get_add_other by exact Hp. tauto.
  Qed.

  Lemma DInv_same_keys st st' :
    DInv st -> st_modules st' = st_modules st ->
    (forall p, reg_get (st_reg st') p <> None <-> reg_get (st_reg st) p <> None) -> DInv st'.
  Proof.
    intros [HK HD] Hm Hr. split; [now rewrite Hm|]. rewrite Hm. intros k m Hk.
    destruct (HD _ _ Hk) as (m0 & Hm0 & Hsame & Hnd & Hset).
    exists m0. split; [exact Hm0|]. split; [exact Hsame|]. split; [exact Hnd|].
    intros p. rewrite Hset. unfold gen_in. rewrite Hr. tauto.
  Qed.

  (** the state invariant carried through the loop *)
  Definition LInv (st : sstate) : Prop := Inv R0 (st_reg st) /\ keyed (st_reg st) /\ DInv st.

  Lemma attempt_LInv st p it gd st' o :
    LInv st -> reg_get (st_reg st) p = Some it -> it_state it = Unresolved gd ->
    attempt st p gd = (st', o) ->
    LInv st' /\ reg_get (st_reg st') p = Some it.
  Proof.
    intros (HI & HK & HD) Hg Hs H.
    destruct (attempt_inv _ _ _ _ _ _ _ Hcf HI HK Hg Hs H) as (HI' & HK' & _ & Hback).
    destruct (Inv_unresolved _ _ _ _ _ HI Hg Hs) as (it0 & Hg0 & Hs0).
    split; [split; [exact HI' | split; [exact HK'|]]|].
    - unfold attempt in H. destruct (gi_inner gd) as [td|ed].
      + destruct (type_build_step _ _ _ _ _ _ H) as [->|v fs vit _ Hvi Hadd]; [exact HD|].
        eapply DInv_add_item; [exact HD | | exact Hadd].
        destruct (vftable_item_facts _ _ _ _ _ Hvi) as (Hvp & _).
        apply (Hcf p); [fold R0 in Hg0; rewrite Hg0; discriminate | exact Hvp].
      + inversion H; subst. exact HD.
    - rewrite Hback; [exact Hg|]. fold R0 in Hg0. rewrite Hg0. discriminate.
  Qed.

  Lemma set_resolved_LInv st p it gd r :
    LInv st -> reg_get (st_reg st) p = Some it -> it_state it = Unresolved gd ->
    LInv (set_resolved st p r).
  Proof.
    intros (HI & HK & HD) Hg Hs.
    destruct (set_resolved_inv R0 st p it gd r Hcf HI HK Hg Hs) as (HI2 & HK2 & _ & (it2 & Hg2 & _) & Hoth).
    split; [exact HI2 | split; [exact HK2|]].
    eapply DInv_same_keys; [exact HD | apply set_resolved_modules|].
    intros q. destruct (path_eqb_spec q p) as [->|Hne].
    - rewrite Hg2, Hg. split; discriminate.
    - now rewrite (Hoth q Hne).
  Qed.

  Lemma resolve_pass_LInv : forall ps st st', LInv st -> resolve_pass st ps = inl st' -> LInv st'.
  Proof.
    induction ps as [|p ps IH]; intros st st' HL H; cbn [resolve_pass] in H.
    - now inversion H; subst.
    - destruct (reg_get (st_reg st) p) as [it|] eqn:Hg; [|discriminate].
      destruct (it_state it) as [gd|r0] eqn:Hs; [|now apply IH with (st := st)].
      destruct (attempt st p gd) as [st1 o] eqn:Hat.
      destruct (attempt_LInv _ _ _ _ _ _ HL Hg Hs Hat) as (HL1 & Hg1).
      destruct o as [r| |m|m]; try discriminate.
      + eapply IH; [|exact H]. eapply set_resolved_LInv; eauto.
      + eapply IH; [|exact H]. exact HL1.
  Qed.

  Lemma resolve_loop_LInv order : forall fuel st st', LInv st -> resolve_loop order fuel st = BOk st' -> LInv st'.
  Proof.
    induction fuel as [|fuel IH]; intros st st' HL H; cbn [resolve_loop] in H; [discriminate|].
    destruct (order (reg_unresolved (st_reg st))) as [|p0 ps] eqn:Eo.
    - now inversion H; subst.
    - destruct (resolve_pass st (p0 :: ps)) as [st1|res] eqn:Ep; [|subst; exfalso; eapply resolve_pass_abort_not_ok; eauto].
      destruct (Nat.eqb _ _); [discriminate|].
      eapply IH; [|exact H]. eapply resolve_pass_LInv; eauto.
  Qed.

  Lemma LInv_init : keyed R0 -> mods_wf ms0 -> LInv st0.
  Proof. intros HK HW. split; [apply Inv_init | split; [exact HK | now apply DInv_init]]. Qed.
End Loop.

(** ** one accepted run *)
Lemma vftable_item_ptr R1 R2 owner v fs : reg_ptr R1 = reg_ptr R2 ->
  vftable_item R1 owner v fs = vftable_item R2 owner v fs.
Proof. intros H. unfold vftable_item. now rewrite H. Qed.

Section Runs.
  Variables (ptr : N) (mods : list (path * gmodule)) (st0 : sstate).
  Let R0 := st_reg st0.
  Hypothesis Hin : input_state ptr mods = Ok st0.
  Hypothesis Hcf : collision_free R0.
  Hypothesis Hclean : clean_stateb st0 = true.

  Definition loop_fuel : nat := S (List.length (reg_unresolved R0)).

  Lemma pyxis_resolve_sem_build order : pyxis_resolve order ptr mods = sem_build order st0.
  Proof. unfold pyxis_resolve. unfold input_state in Hin. now rewrite Hin. Qed.

  (** what is known of an accepted run: the state [s] at the end of the loop stands for an abstract
      state, satisfies the loop invariant, and has no unresolved item; [finish_build] keeps its
      registry *)
  Lemma run_facts order t :
    (forall l, Permutation (order l) l) -> pyxis_resolve order ptr mods = BOk t ->
    exists s A, resolve_loop order loop_fuel st0 = BOk s /\ finish_build s = BOk t /\
                sim st0 s A /\ LInv st0 s /\ reg_unresolved (st_reg s) = [].
  Proof.
    intros HP H. rewrite pyxis_resolve_sem_build in H. unfold sem_build in H. fold R0 in H. fold loop_fuel in H.
    destruct (resolve_loop order loop_fuel st0) as [s| | | |] eqn:El; try discriminate.
    destruct (clean_stateb_sound _ Hclean) as [Hm Hd].
    pose proof (input_state_keyed _ _ _ Hin) as HK0.
    pose proof (input_state_nodup _ _ _ Hin) as HND.
    pose proof (reg_u8_user _ (input_state_u8 _ _ _ Hin)) as Hu8.
    destruct (input_state_wf _ _ _ Hin) as [HU HW].
    pose proof (loop_sim st0 Hcf Hu8 Hm Hd HK0 HND order HP loop_fuel _ _ (sim_init st0 HK0)) as S.
    rewrite El in S.
    destruct (Confluence.loop _ _ _ _ _ order _ _ _) as [A|A| |]; cbn [abs_result] in S; try contradiction.
    exists s, A. split; [reflexivity|]. split; [exact H|]. split; [exact S|]. split.
    - eapply resolve_loop_LInv; [exact Hcf | | exact El]. now apply LInv_init.
    - eapply resolve_loop_ok_unresolved; eauto.
  Qed.

  (** every unresolved item of the input is resolved at the end of an accepted loop *)
  Lemma user_resolved s A p it0 gd :
    sim st0 s A -> reg_unresolved (st_reg s) = [] ->
    reg_get R0 p = Some it0 -> it_state it0 = Unresolved gd ->
    exists it r, reg_get (st_reg s) p = Some it /\ it_state it = Resolved r.
  Proof.
    intros HS HU Hg0 Hs0.
    destruct (input_state_wf _ _ _ Hin) as [HUD _].
    assert (user R0 p) as Hu by (unfold user; congruence).
    pose proof (sim_user _ _ _ HS p Hu) as Hg. rewrite reg_get_mark in Hg. fold R0 in Hg. rewrite Hg0 in Hg.
    cbn [option_map] in Hg. unfold mark_item in Hg. cbn [fst snd] in Hg. rewrite Hs0 in Hg.
    destruct (A p) as [r|]; cbn [snd] in Hg.
    - eexists. exists r. split; [exact Hg | reflexivity].
    - exfalso. assert (In p (reg_unresolved (st_reg s))) as X; [|rewrite HU in X; destruct X].
      unfold reg_unresolved. apply in_map_iff. exists (p, it0). split; [reflexivity|].
      apply filter_In. unfold reg_get in Hg. destruct (alookup_in _ _ _ Hg) as (k' & Hin' & ->).
      split; [exact Hin'|]. cbn [snd]. rewrite (HUD _ _ _ Hg0 Hs0). unfold item_is_resolved. now rewrite Hs0.
  Qed.

  (** a generated item of one accepted run is, literally, in every other accepted run *)
  Lemma gen_item_transfer o1 o2 t1 t2 p it1 :
    (forall l, Permutation (o1 l) l) -> (forall l, Permutation (o2 l) l) ->
    pyxis_resolve o1 ptr mods = BOk t1 -> pyxis_resolve o2 ptr mods = BOk t2 ->
    (forall q, user R0 q -> reg_get (st_reg t1) q = reg_get (st_reg t2) q) ->
    reg_get R0 p = None -> reg_get (st_reg t1) p = Some it1 -> reg_get (st_reg t2) p = Some it1.
  Proof.
    intros P1 P2 H1 H2 Hag Hnone Hg1.
    destruct (run_facts o1 t1 P1 H1) as (s1 & A1 & _ & F1 & S1 & _ & U1).
    destruct (run_facts o2 t2 P2 H2) as (s2 & A2 & _ & F2 & S2 & _ & U2).
    pose proof (finish_build_reg _ _ F1) as E1. pose proof (finish_build_reg _ _ F2) as E2.
    destruct (sim_inv _ _ _ S1) as [Hp1 HI1]. destruct (sim_inv _ _ _ S2) as [Hp2 _].
    rewrite E1 in Hg1. specialize (HI1 _ _ Hg1). fold R0 in HI1. rewrite Hnone in HI1.
    destruct HI1 as (owner & it0 & gd & td & n & rs & Hg0 & Hs0 & Hty & Hvp & Hlen & _).
    destruct Hlen as (s & rest & gfs & _ & _ & _ & _ & Hst & Hf & _).
    destruct (user_resolved _ _ _ _ _ S1 U1 Hg0 Hs0) as (ito & r & Hgo1 & Hso1).
    assert (reg_get (st_reg t2) owner = Some ito) as Hgo2.
    { rewrite <- Hag by (unfold user; congruence). now rewrite E1. }
    rewrite <- E1 in Hgo1.
    destruct (whole_build_vftable o1 ptr mods st0 t1 owner it0 gd td ito r s rest gfs Hin Hcf H1 Hg0 Hs0 Hty Hgo1 Hso1 Hst Hf)
      as (_ & _ & _ & fs1 & vp1 & vit1 & td1 & vt1 & _ & _ & _ & _ & Hvp1 & Hvi1 & Hgv1 & Hi1 & Hvt1 & Hfs1 & _).
    destruct (whole_build_vftable o2 ptr mods st0 t2 owner it0 gd td ito r s rest gfs Hin Hcf H2 Hg0 Hs0 Hty Hgo2 Hso1 Hst Hf)
      as (_ & _ & _ & fs2 & vp2 & vit2 & td2 & vt2 & _ & _ & _ & _ & Hvp2 & Hvi2 & Hgv2 & Hi2 & Hvt2 & Hfs2 & _).
    rewrite Hvp in Hvp1, Hvp2. inversion Hvp1; subst vp1. inversion Hvp2; subst vp2.
    rewrite Hi1 in Hi2. inversion Hi2; subst td2. rewrite Hvt1 in Hvt2. inversion Hvt2; subst vt2.
    rewrite Hfs1 in Hfs2. subst fs2.
    rewrite (vftable_item_ptr (st_reg t1) (st_reg t2)) in Hvi1 by (rewrite E1, E2; congruence).
    rewrite Hvi1 in Hvi2. inversion Hvi2; subst vit2.
    rewrite <- E1 in Hg1. rewrite Hg1 in Hgv1. inversion Hgv1; subst vit1. exact Hgv2.
  Qed.

  (** ** two accepted runs end with the same registry, as a map *)
  Theorem final_regs_agree o1 o2 t1 t2 :
    (forall l, Permutation (o1 l) l) -> (forall l, Permutation (o2 l) l) ->
    pyxis_resolve o1 ptr mods = BOk t1 -> pyxis_resolve o2 ptr mods = BOk t2 ->
    forall p, reg_get (st_reg t1) p = reg_get (st_reg t2) p.
  Proof.
    intros P1 P2 H1 H2.
    pose proof (pyxis_resolve_order_independent ptr mods st0 o1 o2 Hin Hcf Hclean P1 P2) as OI.
    rewrite H1, H2 in OI. cbn [same_build] in OI. fold R0 in OI.
    intros p. destruct (reg_get R0 p) as [it0|] eqn:E0; [apply OI; unfold user; congruence|].
    destruct (reg_get (st_reg t1) p) as [it1|] eqn:E1.
    - symmetry. eapply (gen_item_transfer o1 o2 t1 t2); eauto.
    - destruct (reg_get (st_reg t2) p) as [it2|] eqn:E2; [|reflexivity].
      rewrite <- E1. eapply (gen_item_transfer o2 o1 t2 t1); eauto.
      intros q Hq. symmetry. now apply OI.
  Qed.

  (** and with the same number of registry entries *)
  Theorem final_regs_length o1 o2 t1 t2 :
    (forall l, Permutation (o1 l) l) -> (forall l, Permutation (o2 l) l) ->
    pyxis_resolve o1 ptr mods = BOk t1 -> pyxis_resolve o2 ptr mods = BOk t2 ->
    List.length (reg_types (st_reg t1)) = List.length (reg_types (st_reg t2)).
  Proof.
    intros P1 P2 H1 H2.
    pose proof (final_regs_agree o1 o2 t1 t2 P1 P2 H1 H2) as Hag.
    destruct (run_facts o1 t1 P1 H1) as (s1 & A1 & _ & F1 & S1 & _ & _).
    destruct (run_facts o2 t2 P2 H2) as (s2 & A2 & _ & F2 & S2 & _ & _).
    pose proof (input_state_nodup _ _ _ Hin) as HND.
    apply alookup_same_length.
    - rewrite (finish_build_reg _ _ F1). eapply evolves_nodup; [exact HND | apply (sim_ev _ _ _ S1)].
    - rewrite (finish_build_reg _ _ F2). eapply evolves_nodup; [exact HND | apply (sim_ev _ _ _ S2)].
    - exact Hag.
  Qed.
End Runs.
