(** * Locality of chaotic iteration (C19, abstract): adding items that the old items' attempts do
    not look at leaves the old items' results unchanged. *)
From Coq Require Import List Bool Lia Permutation.
From PyxisModel Require Import Confluence.
Import ListNotations.

Section Local.
  Variable K V : Type.
  Variable eqb : K -> K -> bool.
  Hypothesis eqb_spec : forall a b, reflect (a = b) (eqb a b).
  (** two builds: the second has more items, and possibly another attempt function *)
  Variable att1 att2 : st K V -> K -> res V.
  Variable items1 items2 : list K.
  Hypothesis Hsub : incl items1 items2.
  (** locality: on the items of the first build the two attempt functions agree, in every state *)
  Hypothesis Hloc : forall R k, In k items1 -> att1 R k = att2 R k.
  Hypothesis M1 : forall R R' k v, le K V R R' -> R k = None -> R' k = None ->
                                   att2 R k = Done V v -> att2 R' k = Done V v.

  Lemma steps_incl R T : steps K V eqb att1 items1 R T -> steps K V eqb att2 items2 R T.
  Proof.
    induction 1 as [R | R k v T Hin Hk Ha Hs IH]; [constructor|].
    eapply steps_step; eauto. rewrite <- Hloc; assumption.
  Qed.

  (** nothing reachable by steps leaves the ideal *)
  Lemma steps_below R0 T : ideal K V eqb att2 items2 R0 T -> forall R T',
    le K V R0 R -> le K V R T -> steps K V eqb att2 items2 R T' -> le K V T' T.
  Proof.
    intros HI R T' H0 HR Hs. revert H0 HR. induction Hs as [R | R k v T' Hin Hk Ha Hs IH]; intros H0 HR; [exact HR|].
    apply IH.
    - eapply le_trans; [exact H0 | apply (le_upd K V eqb eqb_spec); exact Hk].
    - eapply (step_below K V eqb eqb_spec att2 M1 items2); eauto.
  Qed.

  Lemma strict_ok_steps att items order : forall fuel R T,
    (forall l, Permutation (order l) l) ->
    loop K V eqb att items order true fuel R = OOk K V T ->
    steps K V eqb att items R T /\ unres K V items T = [].
  Proof.
    induction fuel as [|f IH]; intros R T Hp H; cbn [loop] in H; [discriminate|].
    destruct (unres K V items R) as [|u us] eqn:EU.
    - inversion H; subst. split; [constructor | exact EU].
    - rewrite <- EU in H. destruct (pass K V eqb att true R (order (unres K V items R))) as [R'|] eqn:EP; [|discriminate].
      destruct (Nat.eqb _ _); [discriminate|].
      destruct (IH _ _ Hp H) as [Hs Hu]. split; [|exact Hu].
      eapply steps_trans; [|exact Hs]. eapply pass_steps; [|exact EP].
      intros x Hx. apply (Permutation_in _ (Hp _)) in Hx. apply unres_in in Hx. tauto.
  Qed.

  (** both builds accepted => every item of the first build has the same value in both *)
  Theorem accepted_builds_agree o1 o2 fuel1 fuel2 R0 T1 T2 :
    (forall l, Permutation (o1 l) l) -> (forall l, Permutation (o2 l) l) ->
    loop K V eqb att1 items1 o1 true fuel1 R0 = OOk K V T1 ->
    loop K V eqb att2 items2 o2 true fuel2 R0 = OOk K V T2 ->
    forall k, In k items1 -> T1 k <> None /\ T1 k = T2 k.
  Proof.
    intros P1 P2 H1 H2 k Hk.
    destruct (strict_ok_steps _ _ _ _ _ _ P1 H1) as [S1 U1].
    destruct (strict_ok_steps _ _ _ _ _ _ P2 H2) as [S2 U2].
    assert (T1 k <> None) as Hk1.
    { intros E. assert (In k (unres K V items1 T1)) as X by (apply unres_in; tauto). rewrite U1 in X. destruct X. }
    split; [exact Hk1|].
    (* T2 is an ideal of the second build *)
    assert (ideal K V eqb att2 items2 R0 T2) as HI.
    { split; [exact S2|]. intros j v Hj Hn. exfalso.
      assert (In j (unres K V items2 T2)) as X by (apply unres_in; tauto). rewrite U2 in X. destruct X. }
    assert (le K V R0 R0) as L0 by (intros a b Hab; exact Hab).
    assert (le K V R0 T2) as L2 by (eapply steps_le; eauto).
    pose proof (steps_below R0 T2 HI R0 T1 L0 L2 (steps_incl _ _ S1)) as Hle.
    destruct (T1 k) as [v|] eqn:E; [|congruence]. symmetry. apply Hle. exact E.
  Qed.
End Local.
