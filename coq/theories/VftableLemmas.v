(** * Lemmas about vftable construction (C04, C06) *)
From Coq Require Import List NArith ZArith Bool Lia String.
From PyxisModel Require Import Base Grammar SemTypes Registry Sem SemLemmas FunctionLemmas.
Import ListNotations.
Local Open Scope N_scope.

(** ** padding *)
Fixpoint nseq (start : N) (n : nat) : list N :=
  match n with O => [] | S n' => start :: nseq (start + 1) n' end.

Lemma pad_vfuncs_spec : forall n out,
  pad_vfuncs n out = out ++ map padding_fn (nseq (N.of_nat (List.length out)) n).
Proof.
  induction n as [|n IH]; intros out; cbn [pad_vfuncs nseq map].
  - now rewrite app_nil_r.
  - rewrite IH, <- app_assoc. cbn [app]. f_equal. f_equal. f_equal. f_equal.
    rewrite app_length. cbn [List.length]. lia.
Qed.

Lemma nseq_length start n : List.length (nseq start n) = n.
Proof. revert start; induction n; intros; cbn; auto. Qed.

Lemma nth_error_nseq : forall n start k, (k < n)%nat -> nth_error (nseq start n) k = Some (start + N.of_nat k).
Proof.
  induction n as [|n IH]; intros start k Hk; [lia|].
  destruct k as [|k]; cbn [nseq nth_error].
  - f_equal. lia.
  - rewrite IH by lia. f_equal. lia.
Qed.

Lemma pad_to_spec target out :
  let len := N.of_nat (List.length out) in
  pad_to target out = out ++ map padding_fn (nseq len (N.to_nat (target - len))) /\
  N.of_nat (List.length (pad_to target out)) = N.max target len.
Proof.
  cbn zeta. unfold pad_to. rewrite pad_vfuncs_spec. split; [reflexivity|].
  rewrite app_length, map_length, nseq_length. lia.
Qed.

(** ** SPEC: which slot every declared virtual function gets *)
Definition int_attr (name : string) (a : gattr) : option Z :=
  match a with
  | AFn n [EInt v] => if String.eqb n name then Some v else None
  | _ => None
  end.
Definition index_attr := int_attr "index".
Definition declared_index (attrs : list gattr) : option Z := last_some index_attr attrs None.

(** positions: [#[index(i)]] means slot i; otherwise the slot after the predecessor (0 for the
    first); an index below that position is a contradiction ([None]) *)
Fixpoint slot_plan (idxs : list (option N)) (next : N) : option (list N * N) :=
  match idxs with
  | [] => Some ([], next)
  | i :: r =>
    let pos := match i with Some k => k | None => next end in
    if pos <? next then None
    else match slot_plan r (pos + 1) with
         | Some (ps, e) => Some (pos :: ps, e)
         | None => None
         end
  end.

Lemma scan_int_spec name : forall attrs acc r,
  foldM (scan_int_attr name) attrs acc = Ok r ->
  match last_some (int_attr name) attrs None with
  | Some z => option_map Some (z_to_usize z) = Some r
  | None => r = acc
  end.
Proof.
  assert (G : forall attrs acc r (ia : option Z),
    foldM (scan_int_attr name) attrs acc = Ok r ->
    match ia with Some z => option_map Some (z_to_usize z) = Some acc | None => True end ->
    match last_some (int_attr name) attrs ia with
    | Some z => option_map Some (z_to_usize z) = Some r
    | None => r = acc
    end).
  { induction attrs as [|a attrs IH]; intros acc r ia H Hia; cbn [foldM] in H.
    - inversion H; subst. unfold last_some. cbn. destruct ia; auto.
    - inv_bind H. unfold last_some in *. cbn [fold_left].
      assert (match int_attr name a with
              | Some z => option_map Some (z_to_usize z) = Some a0
              | None => a0 = acc end) as Hstep.
      { unfold scan_int_attr, int_attr in *. destruct a as [?|n [|[v|?|?] [|? ?]]|? ?];
          try (inversion Ha; reflexivity).
        destruct (String.eqb n name); [|inversion Ha; reflexivity].
        destruct (z_to_usize v); inversion Ha. reflexivity. }
      destruct (int_attr name a) as [z|] eqn:Ei.
      + specialize (IH a0 r (Some z) H Hstep).
        pose proof (last_some_acc (int_attr name) attrs z) as K. unfold last_some in K.
        destruct (fold_left _ attrs (Some z)); [exact IH | congruence].
      + subst a0. exact (IH acc r ia H Hia). }
  intros attrs acc r H. exact (G attrs acc r None H I).
Qed.

Lemma scan_index_spec : forall attrs acc r,
  foldM scan_index_attr attrs acc = Ok r ->
  match last_some index_attr attrs None with
  | Some z => option_map Some (z_to_usize z) = Some r
  | None => r = acc
  end.
Proof. exact (scan_int_spec "index"). Qed.

(** the index a function declares, as a usize (negative values are rejected by the scan) *)
Definition fn_index (f : gfunction) : option (option N) :=
  match declared_index (gf_attrs f) with
  | Some z => option_map Some (z_to_usize z)
  | None => Some None
  end.

Lemma convert_one_spec R scope out f out' :
  convert_one R scope out f = Ok out' ->
  exists idx sf,
    fn_index f = Some idx /\ function_build R scope true f = Ok sf /\
    let len := N.of_nat (List.length out) in
    let pos := match idx with Some k => k | None => len end in
    len <= pos /\
    out' = out ++ map padding_fn (nseq len (N.to_nat (pos - len))) ++ [sf] /\
    N.of_nat (List.length out') = pos + 1.
Proof.
  unfold convert_one. intros H. inv_bind H. rename a into idx. inv_bind H. rename a into out1.
  inv_bind H. rename a into sf. inversion H; subst out'. clear H.
  pose proof (scan_index_spec _ _ _ Ha) as Hidx.
  exists idx, sf. split.
  { unfold fn_index, declared_index. destruct (last_some index_attr (gf_attrs f) None); [exact Hidx | now subst]. }
  split; [exact Ha1|]. cbn zeta.
  destruct idx as [i|].
  - destruct (i <? N.of_nat (List.length out)) eqn:E; [discriminate|]. inversion Ha0; subst out1.
    destruct (pad_to_spec i out) as [-> Hlen]. split; [lia|]. split; [now rewrite <- app_assoc|].
    rewrite !app_length, map_length, nseq_length. cbn [List.length]. lia.
  - inversion Ha0; subst out1. split; [lia|]. rewrite N.sub_diag. cbn [N.to_nat nseq map app].
    split; [reflexivity|]. rewrite app_length. cbn [List.length]. lia.
Qed.

(** ** C04 (slots): every declared virtual function sits in the slot the plan assigns, every other
    slot is a placeholder named after its own position *)
Definition is_placeholder (k : N) (f : sfunction) : Prop := f = padding_fn k.

Theorem convert_functions_slots R scope : forall fs out0 out,
  foldM (convert_one R scope) fs out0 = Ok out ->
  exists idxs positions e,
    map fn_index fs = map Some idxs /\
    slot_plan idxs (N.of_nat (List.length out0)) = Some (positions, e) /\
    N.of_nat (List.length out) = e /\
    (exists tail, out = out0 ++ tail) /\
    Forall2 (fun f pos => exists sf, function_build R scope true f = Ok sf /\
                                     nth_error out (N.to_nat pos) = Some sf) fs positions /\
    (forall k, (List.length out0 <= k < List.length out)%nat -> ~ In (N.of_nat k) positions ->
               nth_error out k = Some (padding_fn (N.of_nat k))).
Proof.
  induction fs as [|f fs IH]; intros out0 out H; cbn [foldM] in H.
  - inversion H; subst. exists [], [], (N.of_nat (List.length out)). cbn.
    repeat split; auto; try (exists []; now rewrite app_nil_r); try constructor. intros k Hk. lia.
  - inv_bind H. rename a into out1.
    destruct (convert_one_spec _ _ _ _ _ Ha) as (idx & sf & Hidx & Hsf & Hle & Hout1 & Hlen1).
    cbn zeta in *.
    destruct (IH _ _ H) as (idxs & positions & e & Hmap & Hplan & He & (tail & Htail) & Hall & Hpad).
    set (len := N.of_nat (List.length out0)) in *.
    set (pos := match idx with Some k => k | None => len end) in *.
    exists (idx :: idxs), (pos :: positions), e.
    cbn [map slot_plan]. rewrite Hidx, Hmap. fold pos.
    assert ((pos <? len) = false) as -> by lia.
    rewrite Hlen1 in Hplan. rewrite Hplan.
    split; [reflexivity|]. split; [reflexivity|]. split; [exact He|].
    split; [exists (map padding_fn (nseq len (N.to_nat (pos - len))) ++ [sf] ++ tail); subst out out1; now rewrite <- !app_assoc|].
    assert (Hnth_out1 : forall k x, nth_error out1 k = Some x -> nth_error out k = Some x).
    { intros k x Hx. subst out. rewrite nth_error_app1; [exact Hx|]. apply nth_error_Some. congruence. }
    assert (Hposlen : N.to_nat pos = (List.length out0 + N.to_nat (pos - len))%nat) by lia.
    split.
    + constructor.
      * exists sf. split; [exact Hsf|]. apply Hnth_out1. subst out1.
        rewrite nth_error_app2 by lia. rewrite nth_error_app2 by (rewrite map_length, nseq_length; lia).
        rewrite map_length, nseq_length.
        replace (N.to_nat pos - List.length out0 - N.to_nat (pos - len))%nat with O by lia. reflexivity.
      * exact Hall.
    + intros k Hk Hnin. assert (N.of_nat k <> pos /\ ~ In (N.of_nat k) positions) as [Hne Hnin'].
      { split; intros X; apply Hnin; [left; now symmetry | right; exact X]. }
      destruct (Nat.lt_ge_cases k (List.length out1)) as [Hlt|Hge].
      * apply Hnth_out1. subst out1.
        rewrite nth_error_app2 by lia.
        assert (k - List.length out0 < N.to_nat (pos - len))%nat as Hin.
        { rewrite !app_length, map_length, nseq_length in Hlt. cbn [List.length] in Hlt. lia. }
        rewrite nth_error_app1 by (rewrite map_length, nseq_length; exact Hin).
        rewrite nth_error_map, (nth_error_nseq _ _ _ Hin). cbn [option_map]. f_equal. f_equal. lia.
      * apply Hpad; [lia | exact Hnin'].
Qed.
