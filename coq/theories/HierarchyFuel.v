(** * HierarchyFuel: the back end's base-class recursion never runs out of fuel on an accepted build.

    [Emit.dfs_hierarchy] is structurally recursive on a fuel; [module_file] gives it
    [S (number of registry entries)].  This file proves that this is enough for every item of the
    final registry of an accepted build of a [collision_free], clean input: the by-value base of a
    type has to be resolved (its size known) before the type itself can be, so the base-class chain
    below the [n]-th resolved item has at most [n] user items, plus possibly one predefined/extern
    leaf.

    The argument runs on the abstract iteration of OrderIndep.v ([Confluence.steps]): the invariant
    [Phi A] says that fuel [S (number of items resolved in A)] suffices, in the marked input registry
    [mark R0 A], for every item resolved in [A]; [EmitLocal.dfs_local] carries results from
    [mark R0 A] to [mark R0 (upd A k v)] and finally to the registry of the final state. *)
From Coq Require Import List NArith ZArith Bool Lia String Permutation.
From PyxisModel Require Import Base Sexp Grammar SemTypes Registry Sem Emit SemLemmas ScopeLemmas
     PlacementLemmas TotalityLemmas EnumLemmas EmitLemmas WholeBuild Monotone OrderIndep Locality Frame
     FinalState Unrelated UnrelatedStates EmitLocal UnrelatedGen UnrelatedFilesLift.
From PyxisModel Require Confluence.
Import ListNotations.
Local Open Scope string_scope.
Local Open Scope list_scope.

Lemma rnt_not_panic R r m : region_name_and_typedef R r <> Panic m.
Proof.
  unfold region_name_and_typedef. destruct (r_name r); [|discriminate].
  destruct (r_type r); try discriminate. destruct (reg_get R p) as [it|]; [|discriminate].
  destruct (item_resolved it) as [rs|]; [|discriminate]. destruct (rs_inner rs); discriminate.
Qed.

Lemma foldM_not_fuel {A S} (g : S -> A -> outcome S) : forall l,
  (forall s a, In a l -> not_fuel (g s a)) -> forall s, not_fuel (foldM g l s).
Proof.
  induction l as [|a l IH]; intros H s; cbn [foldM]; [exact I|].
  pose proof (H s a (or_introl eq_refl)) as Ha. destruct (g s a) as [s'| | |]; cbn [bind]; try exact Ha.
  apply IH. intros; apply H; now right.
Qed.

Lemma dfs_S_not_fuel R td fields fu :
  (forall reg name btd, In reg (td_regions td) -> r_is_base reg = true ->
     region_name_and_typedef R reg = Ok (Some (name, btd)) ->
     not_fuel (dfs_hierarchy fu R btd (fields ++ [name]))) ->
  not_fuel (dfs_hierarchy (S fu) R td fields).
Proof.
  intros H. cbn [dfs_hierarchy]. apply foldM_not_fuel. intros out reg Hin. cbn beta.
  destruct (negb (r_is_base reg)) eqn:Eb; [exact I|]. apply negb_false_iff in Eb.
  destruct (region_name_and_typedef R reg) as [[[name btd]|]| |m|m] eqn:Er; cbn [bind]; try exact I.
  - specialize (H reg name btd Hin Eb Er). destruct (dfs_hierarchy fu R btd (fields ++ [name])); cbn [bind]; auto.
  - exfalso. eapply rnt_not_panic; eauto.
Qed.

Lemma dfs_nil_not_fuel R td fields fu : td_regions td = [] -> not_fuel (dfs_hierarchy (S fu) R td fields).
Proof. intros E. cbn [dfs_hierarchy]. rewrite E. exact I. Qed.

Lemma filter_length_lt {A} (f g : A -> bool) k : forall l,
  (forall x, f x = true -> g x = true) -> In k l -> f k = false -> g k = true ->
  S (List.length (filter f l)) <= List.length (filter g l).
Proof.
  intros l Hfg. assert (forall l', List.length (filter f l') <= List.length (filter g l')) as Hle.
  { induction l' as [|x l' IH]; cbn [filter]; [lia|]. destruct (f x) eqn:Ef.
    - rewrite (Hfg x Ef). cbn [List.length]. lia.
    - destruct (g x); cbn [List.length]; lia. }
  induction l as [|x l IH]; intros Hin Hf Hg; [destruct Hin|]. cbn [filter]. destruct Hin as [->|Hin].
  - rewrite Hf, Hg. cbn [List.length]. specialize (Hle l). lia.
  - specialize (IH Hin Hf Hg). destruct (f x) eqn:Ef.
    + rewrite (Hfg x Ef). cbn [List.length]. lia.
    + destruct (g x); cbn [List.length]; lia.
Qed.

Lemma filter_length_le {A} (f : A -> bool) l : List.length (filter f l) <= List.length l.
Proof. induction l as [|x l IH]; cbn [filter]; [lia|]. destruct (f x); cbn [List.length]; lia. Qed.

Lemma ainsert_length_ge {V} k (v : V) : forall l, List.length l <= List.length (ainsert k v l).
Proof.
  induction l as [|[k' v'] l IH]; cbn [ainsert List.length]; [lia|].
  destruct (path_eqb k k'); cbn [List.length]; lia.
Qed.

Lemma evolves_length l0 l : evolves l0 l -> List.length l0 <= List.length l.
Proof.
  induction 1 as [|l k v _ IH _]; [lia|]. pose proof (ainsert_length_ge k v l). lia.
Qed.

Section Fuel.
  Variable st0 : sstate.
  Let R0 := st_reg st0.
  Hypothesis G : good_input st0.
  Hypothesis Hplain : resolved_plain st0.

  Notation steps := (Confluence.steps path resolved path_eqb (att st0) (items st0)).
  Notation le := (Confluence.le path resolved).
  Notation upd := (Confluence.upd path resolved path_eqb).
  Notation empty := (fun _ : path => @None resolved).

  Definition isres (A : astate) (k : path) : bool := match A k with Some _ => true | None => false end.
  Definition NA (A : astate) : nat := List.length (filter (isres A) (items st0)).
  Definition resolvedIn (A : astate) (q : path) : Prop :=
    exists it rs, reg_get (mark R0 A) q = Some it /\ item_resolved it = Some rs.
  Definition Qf (A : astate) (q : path) : Prop := candP st0 q /\ resolvedIn A q.

  Lemma mark_resolved_mono A A' q it rs : le A A' ->
    reg_get (mark R0 A) q = Some it -> item_resolved it = Some rs -> reg_get (mark R0 A') q = Some it.
  Proof.
    intros Hle Hg Hr. rewrite reg_get_mark in *. destruct (reg_get R0 q) as [it0|]; cbn [option_map] in *; [|discriminate].
    inversion Hg; subst it. f_equal. unfold mark_item in *. cbn [fst snd] in *.
    destruct (it_state it0) as [gd|r0] eqn:Es; [|reflexivity].
    destruct (A q) as [r|] eqn:Ea.
    - now rewrite (Hle _ _ Ea).
    - cbn [snd] in Hr. unfold item_resolved in Hr. rewrite Es in Hr. discriminate.
  Qed.

  Lemma Qf_mono A A' q : le A A' -> Qf A q -> Qf A' q.
  Proof.
    intros Hle [Hc (it & rs & Hg & Hr)]. split; [exact Hc|]. exists it, rs. split; [|exact Hr].
    eapply mark_resolved_mono; eauto.
  Qed.

  Lemma Qf_agree A A' : le A A' -> forall q, Qf A q -> reg_get (mark R0 A) q = reg_get (mark R0 A') q.
  Proof.
    intros Hle q [_ (it & rs & Hg & Hr)]. rewrite Hg. symmetry. eapply mark_resolved_mono; eauto.
  Qed.

  (** every by-value path of a type resolved by the abstract attempt at [A] is a candidate that is
      resolved in [A] *)
  Lemma att_done_bases A k r td : att st0 A k = Confluence.Done _ r -> rs_inner r = IType td ->
    forall reg q, In reg (td_regions td) -> r_type reg = TRaw q -> Qf A q.
  Proof.
    intros Hatt Hi reg q Hreg Ht.
    assert (candP st0 q) as Hc.
    { pose proof (att_done_regions st0 A k r td (gi_mods _ G) Hatt Hi) as Hall.
      rewrite Forall_forall in Hall. specialize (Hall reg Hreg). unfold rtyP in Hall. now rewrite Ht in Hall. }
    split; [exact Hc|].
    unfold att in Hatt. fold R0 in Hatt. destruct (reg_get R0 k) as [it|] eqn:Eg; [|discriminate].
    destruct (it_state it) as [gd|r0] eqn:Es; [|discriminate].
    destruct (snd (attempt (conc st0 A) k gd)) as [r'| | |] eqn:Ea; cbn [classify] in Hatt; try discriminate.
    inversion Hatt; subst r'. clear Hatt. unfold attempt in Ea. destruct (gi_inner gd) as [gtd|ed] eqn:Ety.
    2:{ cbn [snd] in Ea. destruct (enum_build_spec _ _ _ _ Ea) as (ed' & _ & _ & He & _). congruence. }
    destruct (type_build (conc st0 A) k (gi_vis gd) gtd) as [st' o] eqn:Etb. cbn [snd] in Ea. subst o.
    destruct (type_build_inv _ _ _ _ _ _ Etb) as
        (parent & module & doc & ta & n & pending & vfs & regions & vt & size & funcs & Al &
         Hpar & Hmod & Hta & Hst & Hrr & Hca & Hr).
    subst r. cbn [rs_inner] in Hi. inversion Hi; subst td. cbn [td_regions] in Hreg.
    pose proof (resolve_regions_sizes _ _ _ _ _ _ _ _ _ _ Hrr) as Hsz. rewrite Forall_forall in Hsz.
    specialize (Hsz reg Hreg). rewrite Ht in Hsz. cbn [size_of] in Hsz.
    destruct (reg_get (st_reg st') q) as [itq|] eqn:Eq; [|congruence].
    unfold item_size in Hsz. destruct (item_resolved itq) as [rsq|] eqn:Erq; [|cbn in Hsz; congruence].
    exists itq, rsq. split; [|exact Erq].
    destruct (type_build_step _ _ _ _ _ _ Etb) as [->|v fs vit _ Hvi Hadd]; [exact Eq|].
    rewrite (add_item_reg _ _ _ Hadd) in Eq. cbn [conc st_reg] in Eq. fold R0 in Eq.
    rewrite reg_get_add_other in Eq; [exact Eq|].
    intros E. destruct (vftable_item_facts _ _ _ _ _ Hvi) as (Hvp & _).
    pose proof (gen_path_not_clean _ _ Hvp) as Hnc. rewrite E in Hnc.
    rewrite (cand_clean st0 G q Hc) in Hnc. discriminate.
  Qed.

  Lemma just A k r : steps empty A -> A k = Some r ->
    exists A'', le A'' A /\ att st0 A'' k = Confluence.Done _ r.
  Proof.
    intros Hs Hk.
    destruct (Confluence.steps_just path resolved path_eqb path_eqb_spec _ _ _ _ Hs k r Hk)
      as [Hx|(_ & A'' & _ & Hle & _ & Hatt)]; [discriminate|]. eauto.
  Qed.

  Lemma Qf_closed A : steps empty A -> forall q it, Qf A q -> reg_get (mark R0 A) q = Some it -> itemQ (Qf A) it.
  Proof.
    intros Hs q it _ Hg rs td Hr Hi reg q' Hin Hb Ht.
    rewrite reg_get_mark in Hg. destruct (reg_get R0 q) as [it0|] eqn:E0; cbn [option_map] in Hg; [|discriminate].
    inversion Hg; subst it; clear Hg. unfold mark_item in Hr. cbn [fst snd] in Hr.
    destruct (it_state it0) as [gd|r0] eqn:Es.
    - destruct (A q) as [ra|] eqn:Ea; cbn [snd] in Hr.
      + unfold item_resolved in Hr. cbn [it_state] in Hr. inversion Hr; subst ra; clear Hr.
        destruct (just A q rs Hs Ea) as (A'' & Hle & Hatt).
        eapply Qf_mono; [exact Hle|]. eapply att_done_bases; eauto.
      + unfold item_resolved in Hr. rewrite Es in Hr. discriminate.
    - cbn [snd] in Hr. unfold item_resolved in Hr. rewrite Es in Hr. inversion Hr; subst r0.
      rewrite (Hplain q it0 E0 rs td Es Hi) in Hin. destruct Hin.
  Qed.

  (** fuel [S (NA A)] suffices, in [mark R0 A], for everything resolved in [A] *)
  Definition Phi (A : astate) : Prop :=
    forall k r td fields, A k = Some r -> rs_inner r = IType td ->
      not_fuel (dfs_hierarchy (S (NA A)) (mark R0 A) td fields).

  Lemma NA_upd A k v : In k (items st0) -> A k = None -> S (NA A) <= NA (upd A k v).
  Proof.
    intros Hin Hn. unfold NA. apply (filter_length_lt (isres A) (isres (upd A k v)) k); auto.
    - intros x Hx. unfold isres in *. destruct (A x) as [rx|] eqn:Ex; [|discriminate].
      now rewrite (Confluence.le_upd path resolved path_eqb path_eqb_spec A k v Hn x rx Ex).
    - unfold isres. now rewrite Hn.
    - unfold isres. now rewrite (Confluence.upd_same path resolved path_eqb path_eqb_spec).
  Qed.

  Lemma Phi_step A k v : steps empty A -> Phi A -> In k (items st0) -> A k = None ->
    att st0 A k = Confluence.Done _ v -> Phi (upd A k v).
  Proof.
    intros Hs HPhi Hin Hn Hatt k' r td fields Hk' Hi. set (A' := upd A k v) in *.
    assert (le A A') as Hle by (apply (Confluence.le_upd path resolved path_eqb path_eqb_spec); exact Hn).
    pose proof (NA_upd A k v Hin Hn) as HN. fold A' in HN.
    assert (forall td0 fields0 f, basesQ (Qf A) td0 -> not_fuel (dfs_hierarchy f (mark R0 A) td0 fields0) ->
              forall f', f <= f' -> not_fuel (dfs_hierarchy f' (mark R0 A') td0 fields0)) as Htr.
    { intros td0 fields0 f Hb Hnf f' Hf.
      rewrite (dfs_local (Qf A) (mark R0 A) (mark R0 A') (Qf_agree A A' Hle) (Qf_closed A Hs)
                 f td0 fields0 f' _ Hb Hf eq_refl Hnf). exact Hnf. }
    destruct (path_eqb_spec k' k) as [->|Hne].
    - unfold A' in Hk'. rewrite (Confluence.upd_same path resolved path_eqb path_eqb_spec) in Hk'.
      inversion Hk'; subst v; clear Hk'.
      destruct (NA A') as [|n'] eqn:En; [lia|].
      apply dfs_S_not_fuel. intros reg name btd Hreg Hb Hrnt.
      destruct (rnt_inv _ _ _ _ Hrnt) as (q' & it' & rs' & Ht & Hg' & Hr' & Hi').
      pose proof (att_done_bases A k r td Hatt Hi reg q' Hreg Ht) as HQ.
      rewrite <- (Qf_agree A A' Hle q' HQ) in Hg'.
      pose proof (Qf_closed A Hs q' it' HQ Hg' rs' btd Hr' Hi') as Hbq.
      apply (Htr btd _ (S (NA A))); [exact Hbq | | lia].
      rewrite reg_get_mark in Hg'. destruct (reg_get R0 q') as [it0|] eqn:E0; cbn [option_map] in Hg'; [|discriminate].
      inversion Hg'; subst it'; clear Hg'. unfold mark_item in Hr'. cbn [fst snd] in Hr'.
      destruct (it_state it0) as [gd|r0] eqn:Es.
      + destruct (A q') as [ra|] eqn:Ea; cbn [snd] in Hr'.
        * unfold item_resolved in Hr'. cbn [it_state] in Hr'. inversion Hr'; subst ra. eapply HPhi; eauto.
        * unfold item_resolved in Hr'. rewrite Es in Hr'. discriminate.
      + cbn [snd] in Hr'. unfold item_resolved in Hr'. rewrite Es in Hr'. inversion Hr'; subst r0.
        apply dfs_nil_not_fuel. eapply Hplain; eauto.
    - unfold A' in Hk'. rewrite (Confluence.upd_other path resolved path_eqb path_eqb_spec) in Hk' by exact Hne.
      destruct (just A k' r Hs Hk') as (A'' & Hle'' & Hatt'').
      assert (basesQ (Qf A) td) as Hb.
      { intros reg q' Hreg _ Ht. eapply Qf_mono; [exact Hle''|]. eapply att_done_bases; eauto. }
      apply (Htr td fields (S (NA A))); [exact Hb | eapply HPhi; eauto | lia].
  Qed.

  Lemma Phi_steps R T : steps R T -> steps empty R -> Phi R -> Phi T.
  Proof.
    induction 1 as [R | R k v T Hin Hk Ha Hs IH]; intros H0 HPhi; [exact HPhi|].
    apply IH.
    - eapply Confluence.steps_trans; [exact H0|]. eapply Confluence.steps_step; eauto. constructor.
    - apply Phi_step; assumption.
  Qed.

  Lemma Phi_final A : steps empty A -> Phi A.
  Proof.
    intros Hs. eapply Phi_steps; [exact Hs | constructor |]. intros k r td fields H. discriminate.
  Qed.

  (** *** transfer to a concrete state that stands for [A] *)
  Variable s : sstate.
  Variable A : astate.
  Hypothesis HS : sim st0 s A.
  Hypothesis Hsteps : steps empty A.
  Hypothesis Hgen : forall p it rs td, reg_get R0 p = None -> reg_get (st_reg s) p = Some it ->
    item_resolved it = Some rs -> rs_inner rs = IType td -> forall r, In r (td_regions td) -> r_is_base r = false.

  Lemma NA_le_reg : NA A <= List.length (reg_types (st_reg s)).
  Proof.
    unfold NA. etransitivity; [apply filter_length_le|]. unfold items, reg_unresolved. rewrite map_length.
    etransitivity; [apply filter_length_le|]. apply evolves_length. apply (sim_ev _ _ _ HS).
  Qed.

  Lemma final_dfs_not_fuel p it rs td fields :
    reg_get (st_reg s) p = Some it -> item_resolved it = Some rs -> rs_inner rs = IType td ->
    not_fuel (dfs_hierarchy (S (List.length (reg_types (st_reg s)))) (st_reg s) td fields).
  Proof.
    intros Hg Hr Hi. destruct (reg_get R0 p) as [it0|] eqn:E0.
    - assert (user (st_reg st0) p) as Hu by (unfold user; fold R0; congruence).
      rewrite (sim_user _ _ _ HS p Hu), reg_get_mark in Hg. fold R0 in Hg. rewrite E0 in Hg.
      cbn [option_map] in Hg. inversion Hg; subst it; clear Hg.
      unfold mark_item in Hr. cbn [fst snd] in Hr. destruct (it_state it0) as [gd|r0] eqn:Es.
      + destruct (A p) as [ra|] eqn:Ea; cbn [snd] in Hr.
        * unfold item_resolved in Hr. cbn [it_state] in Hr. inversion Hr; subst ra; clear Hr.
          pose proof (Phi_final A Hsteps p rs td fields Ea Hi) as Hnf.
          destruct (just A p rs Hsteps Ea) as (A'' & Hle'' & Hatt'').
          assert (basesQ (Qf A) td) as Hb.
          { intros reg q' Hreg _ Ht. eapply Qf_mono; [exact Hle''|]. eapply att_done_bases; eauto. }
          rewrite (dfs_local (Qf A) (mark R0 A) (st_reg s)) with (f1 := S (NA A)) (o := dfs_hierarchy (S (NA A)) (mark R0 A) td fields);
            auto.
          -- intros q [_ (itq & rsq & Hgq & _)]. symmetry. apply (sim_user _ _ _ HS).
             unfold user. fold R0. rewrite reg_get_mark in Hgq. destruct (reg_get R0 q); [discriminate | discriminate].
          -- apply Qf_closed. exact Hsteps.
          -- pose proof NA_le_reg. lia.
        * unfold item_resolved in Hr. rewrite Es in Hr. discriminate.
      + cbn [snd] in Hr. unfold item_resolved in Hr. rewrite Es in Hr. inversion Hr; subst r0.
        apply dfs_nil_not_fuel. eapply Hplain; eauto.
    - apply dfs_S_not_fuel. intros reg name btd Hreg Hb _.
      rewrite (Hgen p it rs td E0 Hg Hr Hi reg Hreg) in Hb. discriminate.
  Qed.
End Fuel.

(** ** the theorem for accepted builds *)
Theorem hierarchy_fuel_enough ptr mods st0 order t :
  input_state ptr mods = Ok st0 -> collision_free (st_reg st0) -> clean_stateb st0 = true ->
  (forall l, Permutation (order l) l) -> pyxis_resolve order ptr mods = BOk t ->
  forall p it rs td fields,
    reg_get (st_reg t) p = Some it -> item_resolved it = Some rs -> rs_inner rs = IType td ->
    not_fuel (dfs_hierarchy (S (List.length (reg_types (st_reg t)))) (st_reg t) td fields).
Proof.
  intros Hin Hcf Hcl HP HL p it rs td fields Hg Hr Hi.
  pose proof (input_good _ _ _ Hin Hcf Hcl) as G. destruct G as [Hcf' Hu Hm Hd HK HN].
  pose proof (run_facts ptr mods st0 Hin Hcf Hcl order t HP HL) as (s & A' & El & F & _ & _ & _).
  pose proof (loop_sim st0 Hcf Hu Hm Hd HK HN order HP (loop_fuel st0) st0 _ (sim_init st0 HK)) as S.
  rewrite El in S.
  destruct (Confluence.loop path resolved path_eqb (att st0) (items st0) order true (loop_fuel st0) (fun _ => None))
    as [A|A| |] eqn:E; cbn [abs_result] in S; try contradiction.
  destruct (strict_ok_steps path resolved path_eqb (att st0) (items st0) order _ _ _ HP E) as [Hsteps _].
  pose proof (finish_build_reg _ _ F) as Et. rewrite Et in *.
  apply (final_dfs_not_fuel st0 (input_good _ _ _ Hin Hcf Hcl) (input_state_resolved_plain _ _ _ Hin) s A S Hsteps)
    with (p := p) (it := it) (rs := rs); auto.
  intros p' it' rs' td' Hn Hg' Hr' Hi'. rewrite <- Et in Hg'.
  eapply (gen_item_no_base ptr mods st0 t order Hin Hcf Hcl HP HL); eauto.
Qed.

(** ** consequently: the back end never reports the model's fuel panic on an accepted build *)
Lemma not_fuel_bind {A B} (x : outcome A) (k : A -> outcome B) :
  not_fuel x -> (forall a, x = Ok a -> not_fuel (k a)) -> not_fuel (bind x k).
Proof. intros Hx Hk. destruct x; cbn [bind]; auto. Qed.

Lemma mapM_not_fuel {A B} (f : A -> outcome B) : forall l,
  (forall a, In a l -> not_fuel (f a)) -> not_fuel (mapM f l).
Proof.
  induction l as [|a l IH]; intros H; cbn [mapM]; [exact I|].
  apply not_fuel_bind; [apply H; now left|]. intros b _.
  apply not_fuel_bind; [apply IH; intros; apply H; now right|]. intros; exact I.
Qed.

Lemma invalid_ident_not_fuel {A} : not_fuel (@Panic A "invalid identifier").
Proof. cbn. unfold fuel_msg. discriminate. Qed.

Lemma region_field_not_fuel r : not_fuel (region_field r).
Proof.
  unfold region_field. destruct (r_name r); [|exact I]. destruct (negb _); [apply invalid_ident_not_fuel|].
  destruct (negb _); exact I.
Qed.

Lemma build_function_not_fuel f : not_fuel (build_function f).
Proof.
  unfold build_function. destruct (negb _); [apply invalid_ident_not_fuel|]. destruct (negb _); exact I.
Qed.

Lemma vftable_accessor_not_fuel vt : not_fuel (vftable_accessor vt).
Proof.
  unfold vftable_accessor. destruct (negb _); [exact I|]. destruct (vt_base_field vt); [|exact I].
  destruct (negb _); [apply invalid_ident_not_fuel | exact I].
Qed.

Lemma enum_variants_not_fuel : forall fs idx di, not_fuel (enum_variants fs idx di).
Proof.
  induction fs as [|[n z] fs IH]; intros idx di; cbn [enum_variants]; [exact I|].
  destruct (negb _); [apply invalid_ident_not_fuel|]. apply not_fuel_bind; [apply IH | intros; exact I].
Qed.

Lemma build_enum_not_fuel p size v ed : not_fuel (build_enum p size v ed).
Proof.
  unfold build_enum. destruct (path_last p); [|exact I]. destruct (negb _); [apply invalid_ident_not_fuel|].
  destruct (negb _); [exact I|]. destruct (negb _); [apply invalid_ident_not_fuel|].
  apply not_fuel_bind; [apply enum_variants_not_fuel | intros; exact I].
Qed.

Lemma build_extern_value_not_fuel ev : not_fuel (build_extern_value ev).
Proof.
  unfold build_extern_value. destruct (ev_type ev); [|cbn; unfold fuel_msg; discriminate].
  destruct (negb _); [apply invalid_ident_not_fuel|]. destruct (negb _); exact I.
Qed.

Lemma conversions_not_fuel R fuel name td :
  not_fuel (dfs_hierarchy fuel R td []) -> not_fuel (conversions R fuel name td).
Proof.
  intros H. unfold conversions. apply not_fuel_bind; [exact H|]. intros h _.
  destruct (negb _); [apply invalid_ident_not_fuel|]. destruct (negb _); exact I.
Qed.

Lemma build_type_not_fuel R fuel p size al v td :
  not_fuel (dfs_hierarchy fuel R td []) -> not_fuel (build_type R fuel p size al v td).
Proof.
  intros H. unfold build_type. destruct (path_last p) as [name|]; [|exact I].
  destruct (negb _); [apply invalid_ident_not_fuel|].
  apply not_fuel_bind; [apply mapM_not_fuel; intros; apply region_field_not_fuel|]. intros fields _.
  destruct (negb _); [apply invalid_ident_not_fuel|].
  apply not_fuel_bind.
  { destruct (td_vftable td); [|exact I]. apply not_fuel_bind; [apply vftable_accessor_not_fuel | intros; exact I]. }
  intros acc _. apply not_fuel_bind; [apply mapM_not_fuel; intros; apply build_function_not_fuel|]. intros assoc _.
  apply not_fuel_bind.
  { destruct (td_vftable td); [|exact I]. apply mapM_not_fuel; intros; apply build_function_not_fuel. }
  intros vfns _. apply not_fuel_bind; [now apply conversions_not_fuel | intros; exact I].
Qed.

Lemma build_item_not_fuel R fuel it :
  (forall rs td, item_resolved it = Some rs -> rs_inner rs = IType td -> not_fuel (dfs_hierarchy fuel R td [])) ->
  not_fuel (build_item R fuel it).
Proof.
  intros H. unfold build_item. destruct (item_resolved it) as [rs|]; [|exact I].
  destruct (it_cat it); try exact I. destruct (rs_inner rs) as [td|ed] eqn:Ei.
  - apply build_type_not_fuel. eapply H; eauto.
  - apply build_enum_not_fuel.
Qed.

Theorem module_file_not_fuel ptr mods st0 order t m :
  input_state ptr mods = Ok st0 -> collision_free (st_reg st0) -> clean_stateb st0 = true ->
  (forall l, Permutation (order l) l) -> pyxis_resolve order ptr mods = BOk t ->
  not_fuel (module_file t m).
Proof.
  intros Hin Hcf Hcl HP HL. unfold module_file. cbn zeta.
  apply not_fuel_bind.
  - apply mapM_not_fuel. intros it Hit. destruct (in_module_definitions _ _ _ Hit) as (p & _ & Hg).
    apply build_item_not_fuel. intros rs td Hr Hi.
    eapply (hierarchy_fuel_enough ptr mods st0 order t); eauto.
  - intros items _. apply not_fuel_bind; [apply mapM_not_fuel; intros; apply build_extern_value_not_fuel|].
    intros evs _. destruct (negb _); exact I.
Qed.

Theorem write_all_not_fuel ptr mods st0 order t :
  input_state ptr mods = Ok st0 -> collision_free (st_reg st0) -> clean_stateb st0 = true ->
  (forall l, Permutation (order l) l) -> pyxis_resolve order ptr mods = BOk t ->
  not_fuel (write_all t).
Proof.
  intros Hin Hcf Hcl HP HL. unfold write_all. apply not_fuel_bind; [|intros; exact I].
  apply mapM_not_fuel. intros [k m] _. cbn [fst snd]. destruct k; [exact I|].
  apply not_fuel_bind; [|intros; exact I]. eapply module_file_not_fuel; eauto.
Qed.
