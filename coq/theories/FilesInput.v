(** * FilesInput: what [input_state] registers for each module of the input (for C14, end to end).

    - the keys of the module table of the input state are the root [[]] followed by the paths of
      the input modules other than the root, in input order ([input_state_keys]);
    - for every input module [(k, gm)] (module paths pairwise distinct): the module table holds, at
      [k], a module whose backend blocks are [gm]'s, whose [m_defpaths] are exactly the paths
      [k ++ [name]] of the definitions and extern types [gm] declares; the registry holds at these
      paths the unresolved [Defined] item of the definition, resp. a resolved [Extern] item; and the
      declared names are pairwise distinct ([input_module_facts]). *)
From Coq Require Import List NArith ZArith Bool Lia String Permutation.
From PyxisModel Require Import Base Sexp Grammar SemTypes Registry Sem SemLemmas Emit EmitLemmas
     WholeBuild OrderIndep FinalState Unrelated.
Import ListNotations.
Local Open Scope string_scope.
Local Open Scope list_scope.

(** ** keys of the module table *)
Definition nonroot (k : path) : bool := match k with [] => false | _ => true end.

Lemma amem_cons {V} k k' (v' : V) l :
  amem k ((k', v') :: l) = if path_eqb k k' then true else amem k l.
Proof. unfold amem. cbn [alookup]. now destruct (path_eqb k k'). Qed.

Lemma ainsert_keys {V} k (v : V) : forall l,
  map fst (ainsert k v l) = if amem k l then map fst l else map fst l ++ [k].
Proof.
  induction l as [|[k' v'] l IH]; [reflexivity|].
  cbn [ainsert]. rewrite amem_cons. destruct (path_eqb_spec k k') as [->|Hne]; cbn [map fst]; [reflexivity|].
  rewrite IH. now destruct (amem k l).
Qed.

Lemma amem_in_keys {V} k (l : list (path * V)) : amem k l = true <-> In k (map fst l).
Proof.
  rewrite <- alookup_some_in_keys. unfold amem. destruct (alookup k l); split; congruence.
Qed.

Lemma add_item_keys st it st' : add_item st it = Ok st' -> map fst (st_modules st') = map fst (st_modules st).
Proof.
  unfold add_item. destruct (path_parent (it_path it)) as [parent|]; [|discriminate].
  destruct (alookup parent (st_modules st)) as [m|] eqn:Em; [|discriminate].
  intros H; inversion H; subst st'. cbn [st_modules]. eapply ainsert_keys_same; eauto.
Qed.

Lemma sem_new_keys ptr st : sem_new ptr = Ok st -> map fst (st_modules st) = [[]].
Proof.
  unfold sem_new. apply (foldM_preserves (fun s => map fst (st_modules s) = [[]])).
  - intros s ns s' Hs H. now rewrite (add_item_keys _ _ _ H).
  - reflexivity.
Qed.

Lemma add_module_keys st mp ast st' : add_module st mp ast = Ok st' ->
  map fst (st_modules st') =
  if amem mp (st_modules st) then map fst (st_modules st) else map fst (st_modules st) ++ [mp].
Proof.
  unfold add_module. intros H. inv_bind H. inv_bind H. inv_bind H.
  rewrite <- (ainsert_keys mp a0 (st_modules st)).
  eapply (foldM_preserves (fun s => map fst (st_modules s) = map fst (ainsert mp a0 (st_modules st)))); [| |exact H].
  - intros s e s' Hs He. unfold add_extern_type in He. inv_bind He.
    destruct a2 as [[size|] [al|]]; try discriminate.
    destruct (reg_has _ _); [discriminate|]. now rewrite (add_item_keys _ _ _ He).
  - eapply (foldM_preserves (fun s => map fst (st_modules s) = map fst (ainsert mp a0 (st_modules st)))); [| |exact Ha1].
    + intros s d s' Hs Hd. unfold add_definition in Hd. destruct (reg_has _ _); [discriminate|].
      now rewrite (add_item_keys _ _ _ Hd).
    + reflexivity.
Qed.

Lemma filter_nonroot_snoc_root l : filter nonroot (l ++ [[]]) = filter nonroot l.
Proof. rewrite filter_app. cbn [filter nonroot]. apply app_nil_r. Qed.

Lemma add_modules_keys : forall mods st st' done,
  foldM (fun st pm => add_module st (fst pm) (snd pm)) mods st = Ok st' ->
  map fst (st_modules st) = [] :: filter nonroot done -> NoDup (done ++ map fst mods) ->
  map fst (st_modules st') = [] :: filter nonroot (done ++ map fst mods).
Proof.
  induction mods as [|[mp ast] mods IH]; intros st st' done H Hk HN; cbn [foldM map fst] in *.
  - inversion H; subst. now rewrite app_nil_r.
  - inv_bind H. cbn [fst snd] in Ha.
    replace (done ++ mp :: map fst mods) with ((done ++ [mp]) ++ map fst mods) in * by (now rewrite <- app_assoc).
    apply (IH a st' (done ++ [mp]) H); [|exact HN].
    rewrite (add_module_keys _ _ _ _ Ha).
    destruct mp as [|s mp].
    + assert (amem [] (st_modules st) = true) as -> by (apply amem_in_keys; rewrite Hk; now left).
      now rewrite filter_nonroot_snoc_root.
    + destruct (amem (s :: mp) (st_modules st)) eqn:Em.
      * exfalso. apply amem_in_keys in Em. rewrite Hk in Em. destruct Em as [Em|Em]; [discriminate|].
        apply filter_In in Em as [Em _].
        rewrite <- app_assoc in HN. apply NoDup_remove_2 in HN. apply HN. apply in_or_app. now left.
      * rewrite Hk, filter_app. reflexivity.
Qed.

(** the module table of the input state: the root, then the input modules other than the root *)
Theorem input_state_keys ptr mods st0 :
  input_state ptr mods = Ok st0 -> NoDup (map fst mods) ->
  map fst (st_modules st0) = [] :: filter nonroot (map fst mods).
Proof.
  unfold input_state. intros H HN. inv_bind H.
  apply (add_modules_keys mods a st0 [] H); [|exact HN].
  now rewrite (sem_new_keys _ _ Ha).
Qed.

(** ** registering fresh items under one module *)
Lemma mod_same_trans a b c : mod_same a b -> mod_same b c -> mod_same a c.
Proof.
  intros (A1 & A2 & A3 & A4 & A5 & A6) (B1 & B2 & B3 & B4 & B5 & B6). repeat split; congruence.
Qed.

Lemma add_defpath_same p m : mod_same (add_defpath p m) m.
Proof. repeat split. Qed.

Section FreshFold.
  Context {A : Type} (f : sstate -> A -> outcome sstate) (nm : A -> string) (P : A -> item -> Prop)
          (k : path).
  Hypothesis Hf : forall st a st', f st a = Ok st' ->
    reg_has (st_reg st) (path_join k (nm a)) = false /\
    exists it, it_path it = path_join k (nm a) /\ P a it /\ add_item st it = Ok st'.

  Lemma fresh_fold : forall l st st', foldM f l st = Ok st' ->
    forall m, alookup k (st_modules st) = Some m ->
    exists m', alookup k (st_modules st') = Some m' /\ mod_same m' m /\
      (forall p, In p (m_defpaths m') <->
                 In p (m_defpaths m) \/ In p (map (fun a => path_join k (nm a)) l)) /\
      (forall a, In a l -> exists it, reg_get (st_reg st') (path_join k (nm a)) = Some it /\ P a it) /\
      NoDup (map nm l) /\
      (forall a, In a l -> reg_get (st_reg st) (path_join k (nm a)) = None) /\
      (forall p it, reg_get (st_reg st) p = Some it -> reg_get (st_reg st') p = Some it).
  Proof.
    induction l as [|a l IH]; intros st st' H m Hm; cbn [foldM] in H.
    - inversion H; subst st'. exists m. split; [exact Hm|]. split; [apply mod_same_refl|].
      split; [intros p; cbn [map In]; tauto|]. split; [intros a []|]. split; [constructor|].
      split; [intros a []|auto].
    - inv_bind H. rename a0 into s1, Ha into Hs1.
      destruct (Hf _ _ _ Hs1) as (Hfresh & it & Hpath & HP & Hadd).
      apply reg_has_false_get in Hfresh.
      assert (st_reg s1 = reg_add (st_reg st) it) as Hreg by (eapply add_item_reg; eauto).
      assert (alookup k (st_modules s1) = Some (add_defpath (it_path it) m)) as Hm1.
      { unfold add_item in Hadd. rewrite Hpath, path_parent_join, Hm in Hadd.
        inversion Hadd; subst s1. cbn [st_modules]. rewrite Hpath. apply alookup_ainsert_same. }
      destruct (IH _ _ H _ Hm1) as (m' & Hm' & Hsame & Hset & Hitems & Hnd & Hnone & Hkeep).
      assert (reg_get (st_reg s1) (path_join k (nm a)) = Some it) as Hg1.
      { rewrite Hreg, <- Hpath. apply reg_get_add_same. }
      exists m'. split; [exact Hm'|]. split; [eapply mod_same_trans; [exact Hsame | apply add_defpath_same]|].
      split; [|split; [|split; [|split]]].
      + intros p. rewrite Hset, add_defpath_in, Hpath. cbn [map In]. intuition congruence.
      + intros a' [<-|Hin]; [|now apply Hitems]. exists it. split; [apply Hkeep; exact Hg1 | exact HP].
      + cbn [map]. constructor; [|exact Hnd]. intros Hin. apply in_map_iff in Hin as (a' & Hn & Hin).
        pose proof (Hnone _ Hin) as X. rewrite Hn, Hg1 in X. discriminate.
      + intros a' [<-|Hin]; [exact Hfresh|]. pose proof (Hnone _ Hin) as X.
        destruct (path_eqb_spec (it_path it) (path_join k (nm a'))) as [E|Hne].
        * rewrite <- E, Hpath, Hg1 in X. discriminate.
        * rewrite Hreg, reg_get_add_other in X by exact Hne. exact X.
      + intros p itp Hg. apply Hkeep. rewrite Hreg, reg_get_add_other; [exact Hg|].
        rewrite Hpath. intros E. subst p. congruence.
  Qed.
End FreshFold.

(** ** one module *)
Definition def_item (k : path) (d : gitemdef) : item :=
  {| it_vis := gi_vis d; it_path := path_join k (gi_name d); it_state := Unresolved d; it_cat := Defined |}.

Definition def_paths (k : path) (gm : gmodule) : list path :=
  map (fun d => path_join k (gi_name d)) (gm_defs gm).
Definition extern_paths (k : path) (gm : gmodule) : list path :=
  map (fun e : string * list gattr => path_join k (fst e)) (gm_extern_types gm).
Definition backends_of (gm : gmodule) : list (string * (option string * option string)) :=
  map (fun b => (gbk_name b, (gbk_pro b, gbk_epi b))) (gm_backends gm).

(** what the input state [st] holds for the input module [(k, gm)] *)
Record module_registered (st : sstate) (k : path) (gm : gmodule) (m : smodule) : Prop := {
  mr_lookup : alookup k (st_modules st) = Some m;
  mr_backends : m_backends m = backends_of gm;
  mr_defpaths : forall p, In p (m_defpaths m) <-> In p (def_paths k gm) \/ In p (extern_paths k gm);
  mr_defs : forall d, In d (gm_defs gm) -> reg_get (st_reg st) (path_join k (gi_name d)) = Some (def_item k d);
  mr_externs : forall e, In e (gm_extern_types gm) ->
     exists it, reg_get (st_reg st) (path_join k (fst e)) = Some it /\ it_cat it = Extern /\
                item_is_resolved it = true;
  mr_names : NoDup (map gi_name (gm_defs gm) ++ map fst (gm_extern_types gm)) }.

Lemma nodup_app {A} (l1 l2 : list A) :
  NoDup l1 -> NoDup l2 -> (forall x, In x l1 -> ~ In x l2) -> NoDup (l1 ++ l2).
Proof.
  induction 1 as [|a l1 Ha _ IH]; intros H2 Hd; cbn [app]; [exact H2|].
  constructor.
  - rewrite in_app_iff. intros [X|X]; [contradiction | apply (Hd a); [now left | exact X]].
  - apply IH; [exact H2|]. intros x Hx. apply Hd. now right.
Qed.

Lemma path_join_inj k a b : path_join k a = path_join k b -> a = b.
Proof. unfold path_join. intros H. apply app_inv_head in H. now inversion H. Qed.

Lemma add_module_facts st k gm st' :
  add_module st k gm = Ok st' -> exists m, module_registered st' k gm m.
Proof.
  unfold add_module. intros H. inv_bind H. rename a into evs. inv_bind H. rename a into mnew, Ha0 into Hnew.
  inv_bind H. rename a into st2, Ha0 into Hdefs.
  set (st1 := {| st_modules := ainsert k mnew (st_modules st); st_reg := st_reg st |}) in *.
  assert (alookup k (st_modules st1) = Some mnew) as Hm1 by apply alookup_ainsert_same.
  destruct (fresh_fold (add_definition k) gi_name (fun d it => it = def_item k d) k) with
      (l := gm_defs gm) (st := st1) (st' := st2) (m := mnew)
    as (m2 & Hm2 & Hsame2 & Hset2 & Hitems2 & Hnd2 & Hnone2 & Hkeep2); [|exact Hdefs|exact Hm1|].
  { intros s d s' Hd. unfold add_definition in Hd. destruct (reg_has _ _) eqn:Eh; [discriminate|].
    split; [reflexivity|]. eexists. split; [|split; [reflexivity | exact Hd]]. reflexivity. }
  destruct (fresh_fold (add_extern_type k) (fun e : string * list gattr => fst e)
                       (fun e it => it_cat it = Extern /\ item_is_resolved it = true) k) with
      (l := gm_extern_types gm) (st := st2) (st' := st') (m := m2)
    as (m3 & Hm3 & Hsame3 & Hset3 & Hitems3 & Hnd3 & Hnone3 & Hkeep3); [|exact H|exact Hm2|].
  { intros s e s' He. unfold add_extern_type in He. inv_bind He.
    destruct a as [[size|] [al|]]; try discriminate.
    destruct (reg_has _ _) eqn:Eh; [discriminate|].
    split; [reflexivity|]. eexists. split; [|split; [|exact He]]; [reflexivity | split; reflexivity]. }
  exists m3. constructor.
  - exact Hm3.
  - destruct Hsame3 as (_ & _ & _ & _ & -> & _). destruct Hsame2 as (_ & _ & _ & _ & -> & _).
    unfold module_new in Hnew. inv_bind Hnew. inversion Hnew; subst mnew. reflexivity.
  - intros p. rewrite Hset3, Hset2. unfold def_paths, extern_paths.
    unfold module_new in Hnew. inv_bind Hnew. inversion Hnew; subst mnew. cbn [m_defpaths In]. tauto.
  - intros d Hd. destruct (Hitems2 _ Hd) as (it & Hg & ->). apply Hkeep3. exact Hg.
  - intros e He. destruct (Hitems3 _ He) as (it & Hg & Hc & Hr). eauto.
  - apply nodup_app; [exact Hnd2 | exact Hnd3|].
    intros n Hn1 Hn2. apply in_map_iff in Hn1 as (d & <- & Hd). apply in_map_iff in Hn2 as (e & Hn & He).
    destruct (Hitems2 _ Hd) as (it & Hg & _). pose proof (Hnone3 _ He) as X. rewrite Hn, Hg in X. discriminate.
Qed.

(** ** every module of the input *)
Theorem input_module_facts ptr mods st0 k gm :
  input_state ptr mods = Ok st0 -> NoDup (map fst mods) -> In (k, gm) mods ->
  exists m0, module_registered st0 k gm m0.
Proof.
  intros H HN Hin. destruct (in_split _ _ Hin) as (l1 & l2 & ->).
  unfold input_state in H. inv_bind H. rewrite foldM_app in H. inv_bind H. cbn [foldM fst snd] in H. inv_bind H.
  rename a1 into stb, Ha1 into Hb.
  destruct (add_module_facts _ _ _ _ Hb) as (m & [Hl Hbk Hdp Hdefs Hext Hnames]).
  pose proof (add_modules_ext _ _ _ H) as [_ Hreg Hmods].
  assert (~ In k (map fst l2)) as Hk.
  { rewrite map_app in HN. cbn [map fst] in HN. apply NoDup_remove_2 in HN.
    intros X. apply HN. apply in_or_app. now right. }
  exists m. constructor.
  - rewrite (Hmods k Hk). exact Hl.
  - exact Hbk.
  - exact Hdp.
  - intros d Hd. apply Hreg. now apply Hdefs.
  - intros e He. destruct (Hext _ He) as (it & Hg & Hc & Hr). exists it. split; [now apply Hreg | auto].
  - exact Hnames.
Qed.

Print Assumptions input_state_keys.
Print Assumptions input_module_facts.
