(** * Parsing inverts printing (C18), for the type / expression / attribute sub-languages *)
From Coq Require Import List NArith ZArith Bool String Lia.
From PyxisModel Require Import Base Grammar Syntax.
Import ListNotations.
Local Open Scope string_scope.
Local Open Scope list_scope.

Lemma usize_of_N n : (n <= 18446744073709551615)%N -> usize_of (Z.of_N n) = Some n.
Proof.
  intros Hn. unfold usize_of.
  assert ((Z.of_N n <? 0)%Z = false) as -> by (apply Z.ltb_ge; apply N2Z.is_nonneg).
  assert ((18446744073709551615 <? Z.of_N n)%Z = false) as -> by (apply Z.ltb_ge; lia).
  cbn [orb]. now rewrite N2Z.id.
Qed.

Lemma type_ident_tail_stops rest acc : stops_type_ident rest -> type_ident_tail rest acc = (acc, rest).
Proof.
  destruct rest as [|[s|z|s|s|d ts] r]; cbn; try tauto; intros H; try reflexivity.
  destruct H as [N1 N2]. apply String.eqb_neq in N1, N2. now rewrite N1, N2.
Qed.

(** ** types *)
Theorem parse_print_type : forall t fuel rest,
  wf_type t -> stops_type_ident rest -> (type_depth t <= fuel)%nat ->
  parse_type fuel (print_type t ++ rest) = Some (t, rest).
Proof.
  induction t as [t IH|t IH|t IH n|s|n]; intros fuel rest Hwf Hstop Hf;
    (destruct fuel as [|f]; [cbn in Hf; lia|]); cbn [print_type app parse_type type_depth wf_type] in *.
  - rewrite String.eqb_refl. cbn [String.eqb Ascii.eqb Bool.eqb]. rewrite IH by (auto; lia). reflexivity.
  - rewrite String.eqb_refl. cbn [String.eqb Ascii.eqb Bool.eqb]. rewrite IH by (auto; lia). reflexivity.
  - (* the array's inner tokens are followed by [; n], which stops the identifier loop *)
    destruct Hwf as [Hwf Hn].
    rewrite (IH f [KPunct ";"; KInt (Z.of_N n)]); [| exact Hwf | cbn; split; discriminate | lia].
    rewrite String.eqb_refl, usize_of_N by exact Hn. reflexivity.
  - destruct Hwf as [Hs Hwf]. rewrite Hs. cbn [negb]. apply String.eqb_neq in Hwf. rewrite Hwf.
    rewrite (type_ident_tail_stops _ _ Hstop). reflexivity.
  - change (syn_ident "unknown") with true. cbn [negb String.eqb Ascii.eqb Bool.eqb andb]. rewrite usize_of_N by exact Hwf. reflexivity.
Qed.

(** ** expressions and attribute lists *)
Lemma parse_print_expr e rest : wf_expr e -> parse_expr (print_expr e ++ rest) = Some (e, rest).
Proof. destruct e; cbn [wf_expr print_expr app parse_expr]; intros H; try reflexivity; now rewrite H. Qed.

Lemma parse_print_exprs : forall es fuel,
  Forall wf_expr es -> (List.length es < fuel)%nat ->
  parse_exprs fuel (sep_by (KPunct ",") (map print_expr es)) = Some es.
Proof.
  induction es as [|e es IH]; intros fuel Hwf Hf; (destruct fuel as [|f]; [lia|]); cbn [map sep_by parse_exprs].
  - reflexivity.
  - inversion Hwf as [|? ? He Hes]; subst. destruct es as [|e2 es'].
    + cbn [map sep_by]. pose proof (parse_print_expr e [] He) as Hp. rewrite app_nil_r in Hp.
      destruct (print_expr e) eqn:E; [destruct e; discriminate|]. rewrite Hp. reflexivity.
    + cbn [map sep_by] in *.
      pose proof (parse_print_expr e (KPunct "," :: sep_by (KPunct ",") (print_expr e2 :: map print_expr es')) He) as Hp.
      destruct (print_expr e ++ KPunct "," :: _) eqn:E; [destruct e; discriminate|].
      rewrite Hp. cbn [is_comma String.eqb Ascii.eqb Bool.eqb].
      rewrite IH by (auto; cbn in *; lia). reflexivity.
Qed.

Lemma sep_by_length_ge es : (List.length es <= List.length (sep_by (KPunct ",") (map print_expr es)))%nat.
Proof.
  induction es as [|e [|e2 es'] IH]; cbn [map sep_by List.length] in *; [lia | destruct e; cbn; lia |].
  rewrite app_length. destruct e; cbn [print_expr List.length] in *; lia.
Qed.

Lemma parse_print_attr_part a rest : wf_attr a ->
  (match rest with KPunct p :: _ => p <> "=" | KGroup Paren _ :: _ => False | _ => True end) ->
  parse_attr_part (print_attr_part a ++ rest) = Some (a, rest).
Proof.
  intros Hwf Hrest. destruct a as [n|n args|n e]; cbn [print_attr_part app parse_attr_part wf_attr] in *.
  - rewrite Hwf. cbn [negb]. destruct rest as [|[s|z|s|p|d ts] r]; try reflexivity.
    + apply String.eqb_neq in Hrest. now rewrite Hrest.
    + destruct d; [destruct Hrest | reflexivity | reflexivity].
  - destruct Hwf as [Hn Ha]. rewrite Hn. cbn [negb].
    rewrite parse_print_exprs; [reflexivity | exact Ha |]. pose proof (sep_by_length_ge args). lia.
  - destruct Hwf as [Hn He]. rewrite Hn. cbn [negb]. rewrite String.eqb_refl. rewrite parse_print_expr by exact He. reflexivity.
Qed.

Theorem parse_print_attrs : forall l fuel rest,
  Forall wf_attr l ->
  (match rest with KPunct p :: _ => p <> "#" | _ => True end) ->
  (List.length l < fuel)%nat ->
  parse_attrs fuel (print_attrs l ++ rest) = Some (l, rest).
Proof.
  induction l as [|a l IH]; intros fuel rest Hwf Hrest Hf; (destruct fuel as [|f]; [lia|]);
    cbn [print_attrs flat_map app parse_attrs].
  - destruct rest as [|[s|z|s|p|d ts] r]; try reflexivity.
    apply String.eqb_neq in Hrest. now rewrite Hrest.
  - inversion Hwf as [|? ? Ha Hl]; subst. cbn [String.eqb Ascii.eqb Bool.eqb].
    assert (parse_attr_parts (S (List.length (print_attr_part a))) (print_attr_part a) = Some [a]) as ->.
    { cbn [parse_attr_parts]. pose proof (parse_print_attr_part a [] Ha I) as Hp. rewrite app_nil_r in Hp.
      destruct (print_attr_part a) eqn:E; [destruct a; discriminate|]. rewrite Hp. reflexivity. }
    fold (print_attrs l). rewrite IH by (auto; cbn in Hf; lia). reflexivity.
Qed.
