(** * Totality: the model's explicit panic sites are unreachable (C12) *)
From Coq Require Import List NArith ZArith Bool Lia String.
From PyxisModel Require Import Base Grammar SemTypes Registry Sem SemLemmas.
Import ListNotations.

(** a type whose size is known also has a known alignment *)
Lemma size_known_align_known R : forall t s, size_of R t = Some s -> exists a, align_of R t = Some a.
Proof.
  induction t as [p|t IH|t IH|t IH n|c args ret]; intros s H; cbn [size_of align_of] in *.
  - destruct (reg_get R p) as [it|]; [|discriminate]. unfold item_size, item_align in *.
    destruct (item_resolved it); [|discriminate]. cbn. eauto.
  - eauto.
  - eauto.
  - destruct (size_of R t) as [s0|]; [|discriminate]. eapply IH; eauto.
  - eauto.
Qed.

(** the [unwrap]s of the per-field alignment check cannot fail once every region has a size *)
Lemma check_fields_aligned_no_panic R : forall rs cur,
  Forall (fun r => size_of R (r_type r) <> None) rs ->
  forall m, check_fields_aligned R rs cur <> Panic m.
Proof.
  induction rs as [|r rs IH]; intros cur Hall m; cbn [check_fields_aligned]; [discriminate|].
  inversion Hall as [|? ? Hr Hrs]; subst.
  destruct (size_of R (r_type r)) as [s|] eqn:Es; [|congruence].
  destruct (size_known_align_known _ _ _ Es) as [a Ea]. rewrite Ea.
  destruct ((a =? 0)%N || negb (cur mod a =? 0)%N); [discriminate|]. apply IH. exact Hrs.
Qed.

Lemma name_regions_sizes R : forall rs s0 rs' s,
  name_regions R rs s0 = Ok (rs', s) -> Forall (fun r => size_of R (r_type r) <> None) rs'.
Proof.
  induction rs as [|r rs IH]; intros s0 rs' s H; cbn [name_regions] in H.
  - inversion H. constructor.
  - destruct (size_of R (r_type r)) as [rsz|] eqn:Es; [|discriminate].
    inv_bind H. destruct a as [rest s1]. inversion H; subst. constructor; [|eapply IH; eauto].
    destruct (r_name r); cbn; congruence.
Qed.

Theorem compute_alignment_no_panic R ta regions size :
  Forall (fun r => size_of R (r_type r) <> None) regions ->
  forall m, compute_alignment R ta regions size <> Panic m.
Proof.
  intros Hall m. unfold compute_alignment.
  destruct (ta_packed ta); [destruct (ta_align ta); discriminate|].
  destruct (negb _); [discriminate|].
  destruct (lcm_list _); [|discriminate].
  destruct (_ <? _)%N; [discriminate|].
  destruct (check_fields_aligned R regions 0) as [[]| | |m'] eqn:E; cbn [bind]; try discriminate.
  - destruct (negb _); discriminate.
  - exfalso. eapply check_fields_aligned_no_panic; eauto.
Qed.

(** the resolved regions of resolve_regions always have sizes *)
Lemma resolve_regions_sizes st owner v ts pending vfs st' regions vt size :
  resolve_regions st owner v ts pending vfs = Ok (st', regions, vt, size) ->
  Forall (fun r => size_of (st_reg st') (r_type r) <> None) regions.
Proof.
  unfold resolve_regions. intros H.
  destruct (first_base_unresolved _ _); [discriminate|].
  inv_bind H. destruct a as [[st1 vt1] vr1]. inv_bind H. inv_bind H. inv_bind H. inv_bind H.
  destruct a2 as [named sz]. cbn [fst snd] in *.
  assert (st' = st1 /\ regions = named) as [-> ->].
  { destruct ts as [t|]; [destruct (negb (sz =? t)%N); [discriminate|]|]; inversion H; auto. }
  eapply name_regions_sizes; eauto.
Qed.

(** ** the resolution loop never runs out of fuel: every round that goes on has strictly fewer
    unresolved items *)
Definition unres_kv (kv : path * item) : bool :=
  negb (item_is_predefined (snd kv)) && negb (item_is_resolved (snd kv)).
Definition ucount (R : registry) : nat := List.length (reg_unresolved R).

Lemma ucount_filter R : ucount R = List.length (filter unres_kv (reg_types R)).
Proof. unfold ucount, reg_unresolved. now rewrite map_length. Qed.

Lemma ainsert_resolved_count k v : item_is_resolved v = true -> forall l,
  (List.length (filter unres_kv (ainsert k v l)) <= List.length (filter unres_kv l))%nat.
Proof.
  intros Hv. assert (unres_kv (k, v) = false) as Hk by (unfold unres_kv; cbn; rewrite Hv; apply andb_false_r).
  induction l as [|[k' v'] l IH]; cbn [ainsert filter].
  - rewrite Hk. cbn. lia.
  - destruct (path_eqb k k').
    + cbn [filter]. rewrite Hk. destruct (unres_kv (k', v')); cbn; lia.
    + cbn [filter]. destruct (unres_kv (k', v')); cbn; lia.
Qed.

Lemma reg_add_resolved_count R it : item_is_resolved it = true -> (ucount (reg_add R it) <= ucount R)%nat.
Proof. intros H. rewrite !ucount_filter. unfold reg_add. cbn [reg_types]. now apply ainsert_resolved_count. Qed.

Lemma add_item_count st it st' : add_item st it = Ok st' -> item_is_resolved it = true ->
  (ucount (st_reg st') <= ucount (st_reg st))%nat.
Proof.
  unfold add_item. destruct (path_parent (it_path it)); [|discriminate].
  destruct (alookup _ _); [|discriminate]. intros H Hr. inversion H; subst. cbn [st_reg].
  now apply reg_add_resolved_count.
Qed.

Lemma vftable_build_count st owner v fb vfs st' vt vr :
  vftable_build st owner v fb vfs = Ok (st', vt, vr) -> (ucount (st_reg st') <= ucount (st_reg st))%nat.
Proof.
  unfold vftable_build. destruct vfs as [fs|].
  - destruct (vftable_item (st_reg st) owner v fs) as [vit|] eqn:Ei; [|intros H; inversion H; subst; lia].
    intros H. inv_bind H. rename a into st1. inv_bind H.
    assert (item_is_resolved vit = true) as Hres.
    { unfold vftable_item in Ei. destruct (vftable_path owner); [|discriminate]. inversion Ei. reflexivity. }
    pose proof (add_item_count _ _ _ Ha Hres) as Hle.
    destruct a as [[bn bv]|].
    + destruct (_ <? _)%nat; [discriminate|]. destruct (negb _); [discriminate|]. inversion H; subst. exact Hle.
    + inversion H; subst. exact Hle.
  - intros H. inv_bind H. destruct a as [[bn bv]|]; inversion H; subst; lia.
Qed.

Lemma resolve_regions_count st owner v ts pending vfs st' regions vt size :
  resolve_regions st owner v ts pending vfs = Ok (st', regions, vt, size) ->
  (ucount (st_reg st') <= ucount (st_reg st))%nat.
Proof.
  unfold resolve_regions. intros H. destruct (first_base_unresolved _ _); [discriminate|].
  inv_bind H. destruct a as [[st1 vt1] vr1]. inv_bind H. inv_bind H. inv_bind H. inv_bind H.
  destruct a2 as [named sz]. cbn [fst snd] in *.
  assert (st' = st1) as ->.
  { destruct ts as [t|]; [destruct (negb (sz =? t)%N); [discriminate|]|]; inversion H; auto. }
  eapply vftable_build_count; eauto.
Qed.

Lemma type_build_count st p v d st' o :
  type_build st p v d = (st', o) -> (ucount (st_reg st') <= ucount (st_reg st))%nat.
Proof.
  unfold type_build. intros H.
  destruct (path_parent p) as [parent|]; [|inversion H; subst; lia].
  destruct (alookup parent (st_modules st)) as [module|]; [|inversion H; subst; lia].
  match type of H with context [match ?pre with Ok _ => _ | Defer => _ | Err _ => _ | Panic _ => _ end] =>
    destruct pre as [[[doc ta] [pending vfs]]| | |] end; try (inversion H; subst; lia).
  destruct (resolve_regions st p v (ta_size ta) pending vfs) as [[[[st1 regions] vt] size]| | |] eqn:Err;
    try (inversion H; subst; lia).
  - inversion H; subst. eapply resolve_regions_count; eauto.
  - destruct (first_base_unresolved _ _); [inversion H; subst; lia|].
    destruct (vftable_build st p v _ vfs) as [[[st2 vt2] vr2]| | |] eqn:Ev; inversion H; subst; try lia.
    eapply vftable_build_count; eauto.
Qed.

Lemma set_resolved_count st p r : (ucount (st_reg (set_resolved st p r)) <= ucount (st_reg st))%nat.
Proof.
  unfold set_resolved. destruct (reg_get (st_reg st) p); [|lia]. cbn [st_reg].
  apply reg_add_resolved_count. reflexivity.
Qed.

Lemma attempt_count st p d st' o : attempt st p d = (st', o) -> (ucount (st_reg st') <= ucount (st_reg st))%nat.
Proof.
  unfold attempt. destruct (gi_inner d).
  - apply type_build_count.
  - intros H; inversion H; subst. lia.
Qed.

Lemma resolve_pass_count : forall ps st st',
  resolve_pass st ps = inl st' -> (ucount (st_reg st') <= ucount (st_reg st))%nat.
Proof.
  induction ps as [|p ps IH]; intros st st' H; cbn [resolve_pass] in H.
  - inversion H; subst. lia.
  - destruct (reg_get (st_reg st) p) as [it|]; [|discriminate].
    destruct (it_state it) as [d|r]; [|eauto].
    destruct (attempt st p d) as [st1 [r| |m|m]] eqn:Ea; try discriminate.
    + specialize (IH _ _ H). pose proof (attempt_count _ _ _ _ _ Ea). pose proof (set_resolved_count st1 p r). lia.
    + specialize (IH _ _ H). pose proof (attempt_count _ _ _ _ _ Ea). lia.
Qed.

Lemma resolve_pass_abort_not_fuel : forall ps st r, resolve_pass st ps = inr r -> r <> BFuel.
Proof.
  induction ps as [|p ps IH]; intros st r H; cbn [resolve_pass] in H; [discriminate|].
  destruct (reg_get (st_reg st) p) as [it|]; [|inversion H; discriminate].
  destruct (it_state it) as [d|r0]; [|eauto].
  destruct (attempt st p d) as [st1 [r1| |m|m]]; eauto; inversion H; discriminate.
Qed.

Theorem resolve_loop_fuel_suffices (order : schedule) :
  (forall l, List.length (order l) = List.length l) ->
  forall fuel st, (ucount (st_reg st) < fuel)%nat -> resolve_loop order fuel st <> BFuel.
Proof.
  intros Hord. induction fuel as [|f IH]; intros st Hlt; [lia|].
  cbn [resolve_loop].
  destruct (order (reg_unresolved (st_reg st))) as [|x xs] eqn:Eo; [discriminate|].
  destruct (resolve_pass st (x :: xs)) as [st'|r] eqn:Ep.
  - destruct (Nat.eqb _ _) eqn:En; [discriminate|].
    apply IH. apply Nat.eqb_neq in En. pose proof (resolve_pass_count _ _ _ Ep) as Hle.
    assert (List.length (x :: xs) = ucount (st_reg st)) as Hl.
    { rewrite <- Eo, Hord. reflexivity. }
    unfold ucount in *. lia.
  - eapply resolve_pass_abort_not_fuel; eauto.
Qed.

(** the whole resolution: the fuel given by [sem_build] is enough for every schedule *)
Theorem sem_build_never_out_of_fuel order st :
  (forall l, List.length (order l) = List.length l) -> sem_build order st <> BFuel.
Proof.
  intros Hord. unfold sem_build.
  destruct (resolve_loop order _ st) eqn:E; try discriminate.
  - unfold finish_build. destruct (negb _); [discriminate|]. destruct (mapM _ _); discriminate.
  - exfalso. eapply resolve_loop_fuel_suffices; [exact Hord | | exact E]. unfold ucount. lia.
Qed.

(** the schedules the hook can install preserve the number of items *)
Lemma remove_nth_length {A} : forall (l : list A) i, (i < List.length l)%nat ->
  List.length (remove_nth i l) = pred (List.length l).
Proof.
  induction l as [|x l IH]; intros i Hi; [cbn in Hi; lia|].
  destruct i as [|i]; cbn [remove_nth List.length]; [reflexivity|].
  rewrite IH by (cbn in Hi; lia). cbn in Hi. destruct l; cbn in *; lia.
Qed.

Lemma nth_perm_aux_length {A} : forall fuel k (l : list A), List.length l = fuel ->
  List.length (nth_perm_aux fuel k l) = fuel.
Proof.
  induction fuel as [|f IH]; intros k l Hl; cbn [nth_perm_aux]; [reflexivity|].
  destruct l as [|d l']; [discriminate|]. cbn [List.length]. f_equal. apply IH.
  set (n := N.of_nat (List.length (d :: l'))).
  assert (N.to_nat (k mod n) < List.length (d :: l'))%nat as Hi.
  { assert (n <> 0)%N by (unfold n; cbn [List.length]; lia).
    pose proof (N.mod_lt k n H). unfold n in *. lia. }
  rewrite remove_nth_length by exact Hi. rewrite Hl. reflexivity.
Qed.

Lemma sort_length {A} (leb : A -> A -> bool) (l : list A) : List.length (sort leb l) = List.length l.
Proof.
  unfold sort.
  assert (G : forall l acc, List.length (fold_left (fun acc x => insert_sorted leb x acc) l acc)
                            = (List.length l + List.length acc)%nat).
  { induction l0 as [|x l0 IH]; intros acc; cbn [fold_left List.length]; [reflexivity|].
    rewrite IH.
    assert (List.length (insert_sorted leb x acc) = S (List.length acc)) as ->; [|lia].
    induction acc as [|y acc IHa]; cbn [insert_sorted List.length]; [reflexivity|].
    destruct (leb y x); cbn [List.length]; [now rewrite IHa | reflexivity]. }
  rewrite G. cbn. lia.
Qed.

Theorem hook_schedule_length ks l : List.length (hook_schedule ks l) = List.length l.
Proof.
  unfold hook_schedule, nth_perm. rewrite nth_perm_aux_length by reflexivity. apply sort_length.
Qed.
