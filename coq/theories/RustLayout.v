(** * RustLayout (SPEC SIDE): how the Rust compiler lays out the emitted fragment.
    Written from the Rust Reference, "Type layout": the repr(C) struct algorithm, the [packed] and
    [align(N)] modifiers, primitive representations for enums, arrays, pointers.
    Independent of pyxis: nothing here mentions regions or the registry. *)
From Coq Require Import List NArith ZArith Bool Lia.
Import ListNotations.
Local Open Scope N_scope.

(** a field type as the layout algorithm sees it: (size, alignment) *)
Definition sa := (N * N)%type.

Definition round_up (x a : N) : N := if (x mod a =? 0) then x else (x / a + 1) * a.

(** repr(C): "start with a current offset of 0; for each field in declaration order, add padding
    until the offset is a multiple of the field's alignment; that is the field's offset; advance by
    the field's size.  The struct's alignment is the largest field alignment (at least the
    [align(N)] modifier); its size is the final offset rounded up to that alignment." *)
Fixpoint place (cur maxal : N) (fs : list sa) : list N * N * N :=
  match fs with
  | [] => ([], cur, maxal)
  | (sz, al) :: r =>
    let off := round_up cur al in
    let '(offs, e, m) := place (off + sz) (N.max maxal al) r in
    (off :: offs, e, m)
  end.
(** [#[repr(C, align(A))]]: offsets, size, alignment *)
Definition struct_layout (attr : N) (fs : list sa) : list N * N * N :=
  let '(offs, e, m) := place 0 attr fs in (offs, round_up e m, m).

(** [#[repr(C, packed)]]: every field alignment is lowered to 1, so no padding at all *)
Definition packed_layout (fs : list sa) : list N * N * N :=
  struct_layout 1 (map (fun f => (fst f, 1)) fs).

(** the values the algorithm should produce when nothing has to be padded *)
Fixpoint prefix_sums (cur : N) (fs : list sa) : list N :=
  match fs with [] => [] | (sz, _) :: r => cur :: prefix_sums (cur + sz) r end.
Fixpoint total (cur : N) (fs : list sa) : N :=
  match fs with [] => cur | (sz, _) :: r => total (cur + sz) r end.

(** primitive types on the targets pyxis addresses (x86 / x86-64 *-pc-windows-msvc; also the
    x86-64 linux host used by the oracles): size = alignment for every scalar; [c_void] is a
    one-byte enum. *)
Definition prim_layout (name : list nat) : option sa := None. (* table lives in RustLayoutPrims *)

(** [#[repr(int)]] field-less enum: the layout of the integer type; a discriminant written
    [v as _] is the value wrapped into the integer type's range *)
Definition wrap_unsigned (bits : N) (v : Z) : Z := (v mod 2 ^ Z.of_N bits)%Z.
Definition wrap_signed (bits : N) (v : Z) : Z :=
  let m := (2 ^ Z.of_N bits)%Z in
  let u := (v mod m)%Z in
  if (u <? m / 2)%Z then u else (u - m)%Z.
Definition cast_discr (signed : bool) (bits : N) (v : Z) : Z :=
  if signed then wrap_signed bits v else wrap_unsigned bits v.
Definition int_range (signed : bool) (bits : N) : Z * Z :=
  if signed then (- 2 ^ (Z.of_N bits - 1), 2 ^ (Z.of_N bits - 1) - 1)%Z
  else (0, 2 ^ Z.of_N bits - 1)%Z.
Definition in_range (signed : bool) (bits : N) (v : Z) : bool :=
  let '(lo, hi) := int_range signed bits in ((lo <=? v) && (v <=? hi))%Z.

(** arrays: [size_of::<[T; n]>() = n * size_of::<T>()], alignment of the element *)
Definition array_layout (elem : sa) (n : N) : sa := (fst elem * n, snd elem).
