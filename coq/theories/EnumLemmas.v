(** * Lemmas about enum_definition::build (C08, C20) *)
From Coq Require Import List NArith ZArith Bool Lia String.
From PyxisModel Require Import Base Grammar SemTypes Registry Sem SemLemmas RustLayout.
Import ListNotations.
Local Open Scope Z_scope.

(** SPEC: the discriminant of each variant: the written one, else predecessor + 1, else 0 *)
Fixpoint values_spec (es : list (option Z)) (next : Z) : list Z :=
  match es with
  | [] => []
  | Some v :: r => v :: values_spec r (v + 1)
  | None :: r => next :: values_spec r (next + 1)
  end.

Definition case_value (s : genumstmt) : option (option Z) :=
  match ge_expr s with
  | Some (EInt v) => Some (Some v)
  | Some _ => None
  | None => Some None
  end.
Fixpoint all_some {A} (l : list (option A)) : option (list A) :=
  match l with
  | [] => Some []
  | Some a :: r => option_map (cons a) (all_some r)
  | None :: _ => None
  end.

(** SPEC: the index of the variant carrying [#[default]] *)
Definition is_default_stmt (s : genumstmt) : bool := negb (Nat.eqb (has_default_marker (ge_attrs s)) 0).

(** which variants carry the marker, as indices *)
Fixpoint default_indices (stmts : list genumstmt) (idx : nat) : list nat :=
  match stmts with
  | [] => []
  | s :: r => (if is_default_stmt s then [idx] else []) ++ default_indices r (S idx)
  end.

Lemma enum_cases_spec : forall stmts last next idx fields di fields' di',
  enum_cases stmts last idx fields di = Ok (fields', di') ->
  (last = Some next \/ last = None) ->
  exists es,
    all_some (map case_value stmts) = Some es /\
    fields' = (fields ++ combine (map ge_name stmts) (values_spec es next))%list /\
    List.length (values_spec es next) = List.length stmts /\
    (* the default marker: at most one in total, and di' is its index *)
    match di, default_indices stmts idx with
    | None, [] => di' = None
    | None, [k] => di' = Some k
    | Some k, [] => di' = Some k
    | _, _ => False
    end.
Proof.
  induction stmts as [|s stmts IH]; intros last next idx fields di fields' di' H Hl; cbn [enum_cases] in H.
  - inversion H; subst. exists []. cbn. rewrite app_nil_r. repeat split; auto. destruct di'; auto.
  - inv_bind H. rename a into value. inv_bind H. rename a into di1.
    assert (exists ov, case_value s = Some ov /\ value = match ov with Some v => v | None => next end) as (ov & Hov & Hval).
    { unfold case_value. destruct (ge_expr s) as [[v|?|?]|]; try discriminate.
      - assert (value = v) as -> by congruence. exists (Some v). auto.
      - destruct Hl as [->| ->]; [|discriminate]. assert (value = next) as -> by congruence. exists None. auto. }
    destruct (IH _ (value + 1) _ _ _ _ _ H) as (es & Hes & Hf & Hlen & Hdi).
    { destruct (value <? isize_max); auto. }
    exists (ov :: es). cbn [map all_some]. rewrite Hov, Hes. cbn [option_map].
    split; [reflexivity|].
    assert (values_spec (ov :: es) next = value :: values_spec es (value + 1)) as ->.
    { destruct ov; subst value; reflexivity. }
    split; [rewrite Hf, <- app_assoc; reflexivity|]. split; [cbn; lia|].
    cbn [default_indices]. unfold is_default_stmt.
    destruct (has_default_marker (ge_attrs s)) as [|[|n]] eqn:Em; cbn [Nat.eqb negb app].
    + inversion Ha0; subst di1. exact Hdi.
    + destruct di as [k|]; [discriminate|]. inversion Ha0; subst di1.
      destruct (default_indices stmts (S idx)) as [|? ?]; [exact Hdi | destruct Hdi].
    + destruct di; discriminate.
Qed.

(** ** enum_build: discriminants, representation, default as declared (C08) *)
Theorem enum_build_spec st owner d rs :
  enum_build st owner d = Ok rs ->
  exists ed es module,
    rs_inner rs = IEnum ed /\
    alookup (removelast owner) (st_modules st) = Some module /\
    (* representation: the declared base type, with its size and alignment *)
    resolve_gtype (st_reg st) (module_scope module) (ged_type d) = Some (ed_type ed) /\
    size_of (st_reg st) (ed_type ed) = Some (rs_size rs) /\
    align_of (st_reg st) (ed_type ed) = Some (rs_align rs) /\
    (* discriminants *)
    all_some (map case_value (ged_stmts d)) = Some es /\
    ed_fields ed = combine (map ge_name (ged_stmts d)) (values_spec es 0) /\
    List.length (ed_fields ed) = List.length (ged_stmts d) /\
    (* default variant *)
    match default_indices (ged_stmts d) O with
    | [] => ed_default_index ed = None /\ ed_defaultable ed = false
    | [k] => ed_default_index ed = Some k /\ ed_defaultable ed = true
    | _ => False
    end.
Proof.
  unfold enum_build. intros H.
  destruct (path_parent owner) as [parent|] eqn:Ep; [|discriminate].
  assert (parent = removelast owner) as ->.
  { unfold path_parent in Ep. destruct owner; inversion Ep. reflexivity. }
  destruct (alookup _ (st_modules st)) as [module|] eqn:Em; [|discriminate].
  destruct (resolve_gtype _ _ _) as [ty|] eqn:Et; [|discriminate].
  destruct (size_of _ ty) as [size|] eqn:Es; [|discriminate].
  inv_bind H. destruct a as [fields di]. inv_bind H. rename a into doc. inv_bind H. rename a into ea.
  destruct (enum_cases_spec _ _ 0 _ _ _ _ _ Ha ltac:(left; reflexivity)) as (es & Hes & Hf & Hlen & Hdi).
  cbn [snd fst app] in *.
  destruct (align_of _ ty) as [al|] eqn:Eal.
  2:{ destruct (ea_defaultable ea); destruct di; discriminate. }
  assert (exists ed, Ok {| rs_size := size; rs_align := al; rs_inner := IEnum ed |} = Ok rs /\
                     ed_type ed = ty /\ ed_fields ed = fields /\ ed_default_index ed = di /\
                     ed_defaultable ed = ea_defaultable ea /\
                     (ea_defaultable ea = true <-> di <> None)) as (ed & Hrs & Ht & Hfs & Hd & Hdf & Hiff).
  { destruct (ea_defaultable ea) eqn:Ed; destruct di as [k|] eqn:Edi; try discriminate;
      (eexists; split; [exact H|]; cbn; repeat split; auto; try discriminate; try congruence). }
  inversion Hrs; subst rs. cbn [rs_inner rs_size rs_align].
  exists ed, es, module. rewrite Ht, Hfs, Hd, Hdf.
  repeat split; auto.
  - subst fields. rewrite combine_length, map_length. rewrite Hlen. apply Nat.min_id.
  - destruct (default_indices (ged_stmts d) 0) as [|k [|? ?]]; try (destruct Hdi; fail).
    + subst di. split; [reflexivity|]. destruct (ea_defaultable ea); [|reflexivity].
      exfalso. apply (proj1 Hiff eq_refl). reflexivity.
    + subst di. split; [reflexivity|]. apply Hiff. discriminate.
Qed.

(** ** what [v as _] means under repr(base): an in-range value is unchanged *)
Lemma cast_in_range signed bits v : (0 < bits)%N -> in_range signed bits v = true -> cast_discr signed bits v = v.
Proof.
  intros Hb. unfold in_range, int_range, cast_discr, wrap_signed, wrap_unsigned.
  assert (0 < 2 ^ Z.of_N bits) as Hpos2 by (apply Z.pow_pos_nonneg; lia).
  destruct signed; intros Hr; apply andb_prop in Hr as [H1 H2]; apply Z.leb_le in H1, H2.
  - assert (2 ^ Z.of_N bits = 2 * 2 ^ (Z.of_N bits - 1)) as E.
    { rewrite <- Z.pow_succ_r by lia. f_equal. lia. }
    set (m := 2 ^ Z.of_N bits) in *. set (hm := 2 ^ (Z.of_N bits - 1)) in *.
    assert (m / 2 = hm) as -> by (rewrite E, Z.mul_comm, Z.div_mul; lia).
    destruct (Z_lt_le_dec v 0) as [Hneg|Hpos].
    + assert (v mod m = v + m) as ->.
      { symmetry. apply (Z.mod_unique_pos _ _ (-1)); lia. }
      destruct (v + m <? hm) eqn:E2; lia.
    + rewrite Z.mod_small by lia. destruct (v <? hm) eqn:E2; lia.
  - apply Z.mod_small. lia.
Qed.
