(** * FilesRead: reading the declarations and the opaque text of an emitted file back (C14).

    READERS (they only look at constructors and compare atoms; they do not mention the printers):
    - [decl_of e]: [("struct", name)] / [("enum", name)] if [e] is a struct / an enum item
      ([item_kind], [struct_name], [enum_name] of EmitReaders.v), [None] for every other item;
    - [read_opaque e]: the text of an opaque (verbatim Rust) item;
    - [file_decls f], [file_opaques f], [file_prologue f], [file_epilogue f] on a whole file.

    PROVED about the back end (Emit.v), for any state:
    - [build_item_decls]: what [build_item] emits for a registry item reads back as exactly one
      declaration -- [(kind, last path segment)] -- if the item is [Defined], and as nothing if it is
      predefined or extern; none of the emitted items is opaque text;
    - [module_file_read]: the items of a module's file are: the opaque prologue, then a body
      without opaque items whose declarations are those of [module_definitions], then the opaque
      epilogue;
    - [rust_text_of_backends]: the prologue/epilogue text is the newline-join of the [Some]
      prologues/epilogues of the blocks named "rust", in order;
    - [write_all_struct]: the files are, up to order, one file per module of the state other than
      the root, in module-table order. *)
From Coq Require Import List NArith ZArith Bool Lia String Permutation.
From PyxisModel Require Import Base Sexp Grammar SemTypes Registry Sem SemLemmas FunctionLemmas Emit
     EmitLemmas EmitReaders EmitShape EmitFinal EmitFind FilesInput.
Import ListNotations.
Local Open Scope string_scope.
Local Open Scope list_scope.

(** ** the readers *)
Definition decl_of (e : sexp) : option (string * string) :=
  match item_kind e with
  | Some k =>
    if String.eqb k "struct" then option_map (pair "struct") (struct_name e)
    else if String.eqb k "enum" then option_map (pair "enum") (enum_name e)
    else None
  | None => None
  end.

Definition read_opaque (e : sexp) : option string :=
  match e with
  | SList [Atom k; Str s] => if String.eqb k "opaque" then Some s else None
  | _ => None
  end.

(** the (kind, name) pairs of the struct and enum items of a file, in file order *)
Definition file_decls (f : sexp) : list (string * string) :=
  match file_items f with Some items => all_somes decl_of items | None => [] end.
(** the opaque texts of a file, in file order *)
Definition file_opaques (f : sexp) : list string :=
  match file_items f with Some items => all_somes read_opaque items | None => [] end.
(** the text the file starts with (after the header attributes) / ends with *)
Definition file_prologue (f : sexp) : option string :=
  match file_items f with Some (e :: _) => read_opaque e | _ => None end.
Definition file_epilogue (f : sexp) : option string :=
  match file_items f with Some (e :: r) => read_opaque (last r e) | _ => None end.

Definition opaque (s : string) : sexp := SList [Atom "opaque"; Str s].
Definition not_opaque (e : sexp) : Prop := read_opaque e = None.

Lemma read_opaque_opaque s : read_opaque (opaque s) = Some s.
Proof. reflexivity. Qed.
Lemma decl_of_opaque s : decl_of (opaque s) = None.
Proof. reflexivity. Qed.

Lemma kind_not_opaque e k : item_kind e = Some k -> k <> "opaque" -> not_opaque e.
Proof.
  unfold not_opaque, read_opaque, item_kind. intros Hk Hne.
  destruct e as [a|s|[|[k'|s'|l'] [|[a2|s2|l2] [|x r]]]]; try reflexivity.
  inversion Hk; subst k'. destruct (String.eqb_spec k "opaque"); [contradiction | reflexivity].
Qed.

Lemma decl_of_other e k : item_kind e = Some k -> k <> "struct" -> k <> "enum" -> decl_of e = None.
Proof.
  unfold decl_of. intros -> H1 H2.
  destruct (String.eqb_spec k "struct"); [contradiction|]. destruct (String.eqb_spec k "enum"); [contradiction|].
  reflexivity.
Qed.

(** ** what one registry item emits *)
Definition item_decl (it : item) : list (string * string) :=
  match it_cat it, item_resolved it, path_last (it_path it) with
  | Defined, Some rs, Some n => [(match rs_inner rs with IType _ => "struct" | IEnum _ => "enum" end, n)]
  | _, _, _ => []
  end.

Lemma all_somes_forall_none {A B} (f : A -> option B) (P : A -> Prop) l :
  (forall a, P a -> f a = None) -> Forall P l -> all_somes f l = [].
Proof. intros H F. apply all_somes_none. eapply Forall_impl; [|exact F]. exact H. Qed.

Lemma impl_or_const_no_decl e : is_impl_or_const e -> decl_of e = None.
Proof. intros [H|H]; eapply decl_of_other; eauto; discriminate. Qed.
Lemma impl_or_const_not_opaque e : is_impl_or_const e -> not_opaque e.
Proof. intros [H|H]; eapply kind_not_opaque; eauto; discriminate. Qed.

Lemma size_check_no_decl name size cs : size_check_shape name size cs -> all_somes decl_of cs = [].
Proof.
  intros [[_ ->]|(_ & c & -> & Hk & _)]; [reflexivity|]. cbn [all_somes].
  rewrite (decl_of_other _ _ Hk); [reflexivity | discriminate | discriminate].
Qed.
Lemma size_check_not_opaque name size cs : size_check_shape name size cs -> Forall not_opaque cs.
Proof.
  intros [[_ ->]|(_ & c & -> & Hk & _)]; [constructor|]. constructor; [|constructor].
  eapply kind_not_opaque; [exact Hk | discriminate].
Qed.

Theorem build_item_decls R fuel it its :
  build_item R fuel it = Ok its ->
  all_somes decl_of its = item_decl it /\ Forall not_opaque its.
Proof.
  intros H. unfold item_decl. pose proof H as H0. unfold build_item in H.
  destruct (item_resolved it) as [rs|] eqn:Er; [|discriminate].
  destruct (it_cat it) eqn:Ec; try (inversion H; subst its; split; [reflexivity | constructor]).
  destruct (rs_inner rs) as [td|ed] eqn:Ei.
  - destruct (build_item_struct_shape _ _ _ _ _ _ Er Ec Ei H0) as (name & s & checks & rest & Hname & -> & Hsh & Hck & Hrest).
    rewrite Hname. destruct Hsh as [Hk Hn _ _ _ _ _]. split.
    + cbn [all_somes]. unfold decl_of at 1. rewrite Hk, Hn. cbn [String.eqb Ascii.eqb Bool.eqb option_map].
      rewrite all_somes_app, (size_check_no_decl _ _ _ Hck),
        (all_somes_forall_none _ _ _ impl_or_const_no_decl Hrest). reflexivity.
    + constructor; [eapply kind_not_opaque; [exact Hk | discriminate]|].
      apply Forall_app. split; [eapply size_check_not_opaque; eauto|].
      eapply Forall_impl; [|exact Hrest]. apply impl_or_const_not_opaque.
  - destruct (build_item_enum_shape _ _ _ _ _ _ Er Ec Ei H0) as (name & s & checks & rest & Hname & -> & Hsh & Hck & Hrest).
    rewrite Hname. destruct Hsh as [Hk Hn _ _ _ _ _]. split.
    + cbn [all_somes]. unfold decl_of at 1. rewrite Hk, Hn. cbn [String.eqb Ascii.eqb Bool.eqb option_map].
      rewrite all_somes_app, (size_check_no_decl _ _ _ Hck),
        (all_somes_forall_none _ _ _ impl_or_const_no_decl Hrest). reflexivity.
    + constructor; [eapply kind_not_opaque; [exact Hk | discriminate]|].
      apply Forall_app. split; [eapply size_check_not_opaque; eauto|].
      eapply Forall_impl; [|exact Hrest]. apply impl_or_const_not_opaque.
Qed.

Lemma build_items_decls R fuel : forall l items,
  mapM (build_item R fuel) l = Ok items ->
  all_somes decl_of (List.concat items) = flat_map item_decl l /\ Forall not_opaque (List.concat items).
Proof.
  induction l as [|it l IH]; intros items H; cbn [mapM] in H.
  - inversion H; subst. split; [reflexivity | constructor].
  - inv_bind H. inv_bind H. inversion H; subst items; clear H.
    destruct (build_item_decls _ _ _ _ Ha) as [D1 O1]. destruct (IH _ Ha0) as [D2 O2].
    cbn [List.concat flat_map]. rewrite all_somes_app, D1, D2. split; [reflexivity|].
    apply Forall_app. auto.
Qed.

(** an extern-value accessor is a function *)
Lemma build_extern_value_kind ev e : build_extern_value ev = Ok e -> item_kind e = Some "fn".
Proof.
  unfold build_extern_value. destruct (ev_type ev); [|discriminate].
  destruct (negb _); [discriminate|]. destruct (negb _); [discriminate|].
  intros H; inversion H; reflexivity.
Qed.

Lemma extern_values_read : forall l evs,
  mapM build_extern_value l = Ok evs -> all_somes decl_of evs = [] /\ Forall not_opaque evs.
Proof.
  induction l as [|ev l IH]; intros evs H; cbn [mapM] in H.
  - inversion H; subst. split; [reflexivity | constructor].
  - inv_bind H. inv_bind H. inversion H; subst evs; clear H.
    pose proof (build_extern_value_kind _ _ Ha) as Hk. destruct (IH _ Ha0) as [D O].
    cbn [all_somes]. rewrite (decl_of_other _ _ Hk) by discriminate. split; [exact D|].
    constructor; [eapply kind_not_opaque; [exact Hk | discriminate] | exact O].
Qed.

(** ** a module's file *)
Theorem module_file_read st m f :
  module_file st m = Ok f ->
  exists body,
    file_items f = Some (opaque (prologue_text m) :: body ++ [opaque (epilogue_text m)]) /\
    Forall not_opaque body /\
    all_somes decl_of body = flat_map item_decl (module_definitions (st_reg st) m).
Proof.
  intros H. destruct (module_file_shape _ _ _ H) as (items & evs & Hitems & Hevs & ->).
  destruct (build_items_decls _ _ _ _ Hitems) as [D1 O1].
  destruct (extern_values_read _ _ Hevs) as [D2 O2].
  exists (List.concat items ++ evs). split; [|split].
  - unfold file_items, opaque. cbn [tagged String.eqb Ascii.eqb Bool.eqb app]. now rewrite <- app_assoc.
  - apply Forall_app. auto.
  - rewrite all_somes_app, D1, D2. apply app_nil_r.
Qed.

(** the whole-file readers on such a file *)
Lemma all_somes_snoc {A B} (f : A -> option B) l a :
  all_somes f (l ++ [a]) = all_somes f l ++ match f a with Some b => [b] | None => [] end.
Proof. rewrite all_somes_app. cbn [all_somes]. now destruct (f a). Qed.

Lemma file_readers f pro body epi :
  file_items f = Some (opaque pro :: body ++ [opaque epi]) -> Forall not_opaque body ->
  file_decls f = all_somes decl_of body /\ file_opaques f = [pro; epi] /\
  file_prologue f = Some pro /\ file_epilogue f = Some epi.
Proof.
  intros Hf Hb. unfold file_decls, file_opaques, file_prologue, file_epilogue. rewrite Hf.
  split; [|split; [|split]].
  - cbn [all_somes]. rewrite decl_of_opaque, all_somes_snoc, decl_of_opaque. apply app_nil_r.
  - cbn [all_somes]. rewrite read_opaque_opaque, all_somes_snoc, read_opaque_opaque.
    now rewrite (all_somes_none _ _ Hb).
  - reflexivity.
  - now rewrite last_last.
Qed.

(** ** the opaque text, from the backend blocks of the source module *)
Definition rust_backends (gm : gmodule) : list gbackend :=
  filter (fun b => String.eqb (gbk_name b) "rust") (gm_backends gm).
(** the [Some] prologues (epilogues) of the blocks named "rust", in source order, joined by a line
    break *)
Definition rust_prologue (gm : gmodule) : string := concat_sep newline_s (somes (map gbk_pro (rust_backends gm))).
Definition rust_epilogue (gm : gmodule) : string := concat_sep newline_s (somes (map gbk_epi (rust_backends gm))).

Lemma rust_blocks_of_backends m gm :
  m_backends m = backends_of gm ->
  map fst (rust_blocks m) = map gbk_pro (rust_backends gm) /\
  map snd (rust_blocks m) = map gbk_epi (rust_backends gm).
Proof.
  unfold rust_blocks, rust_backends, backends_of. intros ->.
  induction (gm_backends gm) as [|b bs [IH1 IH2]]; [split; reflexivity|].
  cbn [map filter fst]. destruct (String.eqb (gbk_name b) "rust"); cbn [map fst snd]; [|auto].
  now rewrite IH1, IH2.
Qed.

Theorem rust_text_of_backends m gm :
  m_backends m = backends_of gm ->
  prologue_text m = rust_prologue gm /\ epilogue_text m = rust_epilogue gm.
Proof.
  intros H. destruct (rust_blocks_of_backends _ _ H) as [H1 H2].
  unfold prologue_text, epilogue_text, rust_prologue, rust_epilogue. now rewrite H1, H2.
Qed.

(** ** all files *)
Definition file_of (kf : path * sexp) : string * sexp := (out_path (fst kf), snd kf).
Definition nonroot_mod (km : path * smodule) : bool := nonroot (fst km).

Theorem write_all_struct st files :
  write_all st = Ok files ->
  exists fs : list (path * sexp),
    Permutation files (map file_of fs) /\
    Forall2 (fun kf km => fst kf = fst km /\ module_file st (snd km) = Ok (snd kf))
            fs (filter nonroot_mod (st_modules st)).
Proof.
  unfold write_all. intros H. inv_bind H. inversion H; subst files; clear H.
  assert (exists fs : list (path * sexp), somes a = map file_of fs /\
            Forall2 (fun kf km => fst kf = fst km /\ module_file st (snd km) = Ok (snd kf))
                    fs (filter nonroot_mod (st_modules st))) as (fs & E & F).
  { revert a Ha. induction (st_modules st) as [|[k m] ms IH]; intros a Ha; cbn [mapM] in Ha.
    - inversion Ha; subst. exists []. split; [reflexivity | constructor].
    - inv_bind Ha. inv_bind Ha. inversion Ha; subst a; clear Ha.
      destruct (IH _ Ha1) as (fs & E & F). cbn [fst snd] in Ha0. cbn [filter nonroot_mod fst].
      destruct k as [|s k]; cbn [nonroot].
      + inversion Ha0; subst a0. cbn [somes]. eauto.
      + inv_bind Ha0. inversion Ha0; subst a0.
        match goal with Hm : module_file st m = Ok ?x |- _ => exists ((s :: k, x) :: fs); split;
          [cbn [somes map file_of fst snd]; now rewrite E
          |constructor; [split; [reflexivity | exact Hm] | exact F]] end. }
  exists fs. split; [|exact F]. rewrite <- E. apply Permutation_sym, sort_perm.
Qed.

Lemma filter_map_fst {V} (l : list (path * V)) :
  map fst (filter (fun kv => nonroot (fst kv)) l) = filter nonroot (map fst l).
Proof.
  induction l as [|[k v] l IH]; [reflexivity|]. cbn [filter map fst].
  destruct (nonroot k); cbn [map fst]; now rewrite IH.
Qed.

Lemma Forall2_fst_eq {A B C} (P : A * B -> A * C -> Prop) l1 l2 :
  (forall a b, P a b -> fst a = fst b) -> Forall2 P l1 l2 -> map fst l1 = map fst l2.
Proof. intros HP. induction 1 as [|a b l1 l2 Hab _ IH]; cbn [map]; [reflexivity|]. now rewrite (HP _ _ Hab), IH. Qed.

Lemma Forall2_in_l {A B} (P : A -> B -> Prop) l1 l2 a :
  Forall2 P l1 l2 -> In a l1 -> exists b, In b l2 /\ P a b.
Proof.
  induction 1 as [|x y l1 l2 Hxy _ IH]; intros Hin; [destruct Hin|].
  destruct Hin as [<-|Hin]; [exists y; split; [now left | exact Hxy]|].
  destruct (IH Hin) as (b & Hb & HP). exists b. split; [now right | exact HP].
Qed.
Lemma Forall2_in_r {A B} (P : A -> B -> Prop) l1 l2 b :
  Forall2 P l1 l2 -> In b l2 -> exists a, In a l1 /\ P a b.
Proof.
  induction 1 as [|x y l1 l2 Hxy _ IH]; intros Hin; [destruct Hin|].
  destruct Hin as [<-|Hin]; [exists x; split; [now left | exact Hxy]|].
  destruct (IH Hin) as (a & Ha & HP). exists a. split; [now right | exact HP].
Qed.

Print Assumptions build_item_decls.
Print Assumptions module_file_read.
Print Assumptions rust_text_of_backends.
Print Assumptions write_all_struct.
