(** * RustExec (SPEC SIDE): what the emitted wrapper bodies do when run.

    A tiny operational reading of the body shapes the back end prints (backends/rust.rs,
    build_function / vftable accessor / singleton / extern accessor), over an abstract machine:
    [mem a] is the pointer-sized word stored at address [a]; [callee target abi args] is the value a
    foreign function at address [target] returns.  Every emitted wrapper performs calls only through
    these; an execution yields the list of calls made and the returned word.

    Shapes (the token templates are in Emit.v, [function_body_tokens]):
    - address call:   let f: extern "abi" fn(args) = transmute(A); f(self as ptr?, a0, a1, ...)
    - vftable call:   let f = ( * self.vftable() ).NAME; f(self as ptr, a0, ...)
    - field forward:  self.FIELD.NAME(a0, ...)            -- the receiver becomes &self.FIELD
    - vftable accessor (own):   self.vftable              -- load the pointer field
    - vftable accessor (base):  self.FIELD.vftable()      -- the accessor of the sub-object
    - enum singleton:           (A as *const Self).read() -- the value stored at A
    Field addresses are the repr(C) offsets of RustLayout (no padding, by C01/C02). *)
From Coq Require Import List NArith Bool String.
From PyxisModel Require Import Base Grammar SemTypes Registry.
Import ListNotations.
Local Open Scope N_scope.

Inductive event : Type := ECall (target : N) (abi : cc) (args : list N).

Section Exec.
  Variable R : registry.
  Variable mem : N -> N.
  Variable callee : N -> cc -> list N -> N.

  Definition typedef_of (p : path) : option type_def :=
    match reg_get R p with
    | Some it => match item_resolved it with
                 | Some rs => match rs_inner rs with IType td => Some td | IEnum _ => None end
                 | None => None
                 end
    | None => None
    end.

  (** byte offset of the field [name] of a struct with these regions: sum of the preceding sizes *)
  Fixpoint field_offset (rs : list region) (name : string) (cur : N) : option (N * stype) :=
    match rs with
    | [] => None
    | r :: rest =>
      match size_of R (r_type r) with
      | None => None
      | Some s =>
        if match r_name r with Some n => String.eqb n name | None => false end
        then Some (cur, r_type r)
        else field_offset rest name (cur + s)
      end
    end.

  (** position of the slot named [name] in a table *)
  Fixpoint slot_index (fs : list sfunction) (name : string) (k : N) : option N :=
    match fs with
    | [] => None
    | f :: rest => if String.eqb (sf_name f) name then Some k else slot_index rest name (k + 1)
    end.

  (** the methods a type's inherent impl offers: non-internal associated functions, then
      non-internal virtual-function wrappers *)
  Definition methods (td : type_def) : list sfunction :=
    filter (fun f => negb (starts_with "_" (sf_name f))) (td_assoc td) ++
    match td_vftable td with
    | Some vt => filter (fun f => negb (starts_with "_" (sf_name f))) (vt_functions vt)
    | None => []
    end.
  Definition find_method (td : type_def) (name : string) : option sfunction :=
    find (fun f => String.eqb (sf_name f) name) (methods td).

  (** the words passed: a pointer to the receiver for a self argument, the caller's values for the rest *)
  Fixpoint bind_args (args : list sarg) (self : N) (vals : list N) : list N :=
    match args with
    | [] => []
    | SField _ _ :: r => match vals with v :: vs => v :: bind_args r self vs | [] => bind_args r self [] end
    | _ :: r => self :: bind_args r self vals
    end.

  (** value of [self.vftable()] for an object of type [p] at address [self] *)
  Fixpoint vftable_ptr (fuel : nat) (p : path) (self : N) : option N :=
    match fuel with
    | O => None
    | S fu =>
      match typedef_of p with
      | None => None
      | Some td =>
        match td_vftable td with
        | None => None
        | Some vt =>
          match vt_base_field vt with
          | None => match field_offset (td_regions td) "vftable" 0 with
                    | Some (off, _) => Some (mem (self + off))
                    | None => None
                    end
          | Some b => match field_offset (td_regions td) b 0 with
                      | Some (off, TRaw bp) => vftable_ptr fu bp (self + off)
                      | _ => None
                      end
          end
        end
      end
    end.

  (** calling method [name] of type [p] on the object at [self] with argument words [vals] *)
  Fixpoint call_method (fuel : nat) (p : path) (name : string) (self : N) (vals : list N)
    : option (list event * N) :=
    match fuel with
    | O => None
    | S fu =>
      match typedef_of p with
      | None => None
      | Some td =>
        match find_method td name with
        | None => None
        | Some f =>
          match sf_body f with
          | BAddress a =>
            let args := bind_args (sf_args f) self vals in
            Some ([ECall a (sf_cc f) args], callee a (sf_cc f) args)
          | BVftable slot =>
            match vftable_ptr fuel p self, td_vftable td with
            | Some vp, Some vt =>
              match slot_index (vt_functions vt) slot 0 with
              | Some k =>
                let target := mem (vp + k * reg_ptr R) in
                let args := bind_args (sf_args f) self vals in
                Some ([ECall target (sf_cc f) args], callee target (sf_cc f) args)
              | None => None
              end
            | _, _ => None
            end
          | BField b g =>
            match field_offset (td_regions td) b 0 with
            | Some (off, TRaw bp) => call_method fu bp g (self + off) vals
            | _ => None
            end
          end
        end
      end
    end.

  (** singleton accessors and extern values *)
  Definition singleton_get (addr : N) : option N :=            (* struct: Option<&'static mut Self> *)
    if mem addr =? 0 then None else Some (mem addr).
  Definition enum_singleton_get (addr : N) : N := mem addr.    (* enum: the value stored at addr *)
  Definition extern_get (addr : N) : N := addr.                (* &'static mut T at addr *)
End Exec.
