(** * Monotonicity of one attempt (the M1/M2 of Confluence.v, for the model's real [attempt]).

    If an attempt on an item does not defer in some reachable state, it gives the same result in
    every reachable state that knows at least the same resolved input items.  Side conditions (both
    decidable): [collision_free] (WholeBuild.v) and [clean]: no module path, use path or type name
    written in the input ends in "Vftable" -- otherwise a lookup can hit a generated vftable struct,
    which exists only after its owner was attempted (open findings F4b, F7b: pyxis itself is order
    dependent there). *)
From Coq Require Import List NArith ZArith Bool Lia ZifyBool ZifyN String Ascii.
From PyxisModel Require Import Base Grammar SemTypes Registry Sem RustLayout LayoutLemmas SemLemmas
     PlacementLemmas ScopeLemmas VftableLemmas TotalityLemmas WholeBuild.
Import ListNotations.
Local Open Scope string_scope.
Local Open Scope list_scope.
Local Open Scope N_scope.

(** ** names ending in "Vftable" *)
Definition ends_with (suf s : string) : bool :=
  let n := String.length s in let m := String.length suf in
  if (m <=? n)%nat then String.eqb (substring (n - m) m s) suf else false.
Definition ends_vft (s : string) : bool := ends_with "Vftable" s.

Lemma substring_all s : substring 0 (String.length s) s = s.
Proof. induction s as [|c s IH]; cbn; [reflexivity | now rewrite IH]. Qed.

Lemma substring_skip a b n : substring (String.length a) n (a +++ b) = substring 0 n b.
Proof. induction a as [|c a IH]; cbn; [reflexivity | exact IH]. Qed.

Lemma ends_with_append a suf : ends_with suf (a +++ suf) = true.
Proof.
  unfold ends_with. rewrite string_length_append.
  replace (String.length suf <=? String.length a + String.length suf)%nat with true
    by (symmetry; apply Nat.leb_le; lia).
  replace (String.length a + String.length suf - String.length suf)%nat with (String.length a) by lia.
  rewrite substring_skip, substring_all. apply String.eqb_refl.
Qed.

Definition clean_path (p : path) : bool :=
  match path_last p with Some l => negb (ends_vft l) | None => true end.

Lemma gen_path_not_clean owner vp : vftable_path owner = Some vp -> clean_path vp = false.
Proof.
  intros H. apply vftable_path_some in H as [_ ->]. unfold clean_path, path_last.
  destruct (removelast owner ++ [last owner "" +++ "Vftable"]) eqn:E; [destruct (removelast owner); discriminate|].
  rewrite <- E, last_last. unfold ends_vft. now rewrite ends_with_append.
Qed.

Fixpoint clean_gtype (t : gtype) : bool :=
  match t with
  | GIdent s => negb (ends_vft s)
  | GConstPtr t' | GMutPtr t' | GArray t' _ => clean_gtype t'
  | GUnknown _ => true
  end.

Section Mono.
  Variable R0 : registry.
  Definition user (p : path) : Prop := reg_get R0 p <> None.

  (** a reachable registry: the invariant of WholeBuild.v plus presence of every input item *)
  Definition reach (R : registry) : Prop := Inv R0 R /\ present R0 R.

  Lemma reach_clean_has R c : reach R -> clean_path c = true -> reg_has R c = reg_has R0 c.
  Proof.
    intros [[_ HI] HP] Hc. unfold reg_has, amem. fold (reg_get R c). fold (reg_get R0 c).
    destruct (reg_get R0 c) as [it0|] eqn:E0.
    - specialize (HP c). rewrite E0 in HP. destruct (reg_get R c); [reflexivity|]. exfalso. apply HP; congruence.
    - destruct (reg_get R c) as [it|] eqn:E; [|reflexivity].
      specialize (HI _ _ E). rewrite E0 in HI.
      destruct HI as (owner & ? & ? & ? & ? & ? & _ & _ & _ & Hvp & _).
      rewrite (gen_path_not_clean _ _ Hvp) in Hc. discriminate.
  Qed.

  (** lookups only ever ask about clean paths; on those, a reachable registry has the input's keys *)
  Definition chas (R : registry) : Prop := forall c, clean_path c = true -> reg_has R c = reg_has R0 c.
  Lemma reach_chas R : reach R -> chas R.
  Proof. intros HR c Hc. now apply reach_clean_has. Qed.
  Lemma chas_add R it : chas R -> clean_path (it_path it) = false -> chas (reg_add R it).
  Proof.
    intros HC Hn c Hc. rewrite <- (HC c Hc). unfold reg_has, amem. fold (reg_get (reg_add R it) c). fold (reg_get R c).
    rewrite reg_get_add_other; [reflexivity|]. intros E. rewrite E in Hn. congruence.
  Qed.

  Lemma path_last_join ip name : path_last (path_join ip name) = Some name.
  Proof.
    unfold path_last, path_join. destruct (ip ++ [name]) eqn:E; [destruct ip; discriminate|].
    rewrite <- E, last_last. reflexivity.
  Qed.

  Lemma resolve_string_reach R scope name :
    chas R -> forallb clean_path scope = true -> ends_vft name = false ->
    resolve_string R scope name = resolve_string R0 scope name.
  Proof.
    intros HR Hs Hn. unfold resolve_string. rewrite forallb_forall in Hs.
    assert (filter (reg_has R) scope = filter (reg_has R0) scope) as ->.
    { apply filter_ext_in. intros p Hp. apply HR; auto. }
    assert (filter (fun p => negb (reg_has R p)) scope = filter (fun p => negb (reg_has R0 p)) scope) as ->.
    { apply filter_ext_in. intros p Hp. f_equal. apply HR; auto. }
    destruct (find (last_is name) (rev (filter (reg_has R0) scope))); [reflexivity|]. f_equal.
    set (cands := map (fun ip => path_join ip name) ([] :: filter (fun p => negb (reg_has R0 p)) scope)).
    assert (forall c, In c cands -> reg_has R c = reg_has R0 c) as Hc.
    { intros c Hin. apply in_map_iff in Hin as (ip & <- & _). apply HR.
      unfold clean_path. rewrite path_last_join, Hn. reflexivity. }
    clearbody cands. induction cands as [|c cands IH]; cbn [find]; [reflexivity|].
    rewrite (Hc c (or_introl eq_refl)). destruct (reg_has R0 c); [reflexivity|]. apply IH.
    intros c' Hin. apply Hc. now right.
  Qed.

  Lemma resolve_gtype_reach R scope : chas R -> forallb clean_path scope = true -> forall t,
    clean_gtype t = true -> resolve_gtype R scope t = resolve_gtype R0 scope t.
  Proof.
    intros HR Hs. induction t as [t IH|t IH|t IH n|s|n]; cbn [clean_gtype resolve_gtype]; intros Hc;
      try (now rewrite IH); [|reflexivity].
    apply resolve_string_reach; auto. now apply negb_true_iff.
  Qed.
End Mono.

(** ** generic: a computation that does not defer is reproduced *)
Lemma bind_nd {A B} (x : outcome A) (f : A -> outcome B) o :
  bind x f = o -> o <> Defer ->
  (exists a, x = Ok a /\ f a = o) \/ (exists m, x = Err m /\ o = Err m) \/ (exists m, x = Panic m /\ o = Panic m).
Proof.
  intros H Hn. destruct x as [a| |m|m]; cbn [bind] in H; subst.
  - left; eauto.
  - congruence.
  - right; left; eauto.
  - right; right; eauto.
Qed.

Lemma foldM_mono {A S} (f f' : S -> A -> outcome S) (P : A -> Prop) :
  (forall a s o, P a -> f s a = o -> o <> Defer -> f' s a = o) ->
  forall l s o, Forall P l -> foldM f l s = o -> o <> Defer -> foldM f' l s = o.
Proof.
  intros Hf. induction l as [|a l IH]; intros s o HP H Hn; cbn [foldM] in *; [exact H|].
  apply Forall_cons_iff in HP as [Pa Pl].
  destruct (bind_nd _ _ _ H Hn) as [(s1 & Hs1 & Ho)|[(m & Hm & ->)|(m & Hm & ->)]].
  - rewrite (Hf _ _ _ Pa Hs1) by discriminate. cbn [bind]. eauto.
  - rewrite (Hf _ _ _ Pa Hm) by discriminate. reflexivity.
  - rewrite (Hf _ _ _ Pa Hm) by discriminate. reflexivity.
Qed.

Lemma foldM_ext_in {A S} (f f' : S -> A -> outcome S) :
  forall l, (forall a s, In a l -> f s a = f' s a) -> forall s, foldM f l s = foldM f' l s.
Proof.
  induction l as [|a l IH]; intros H s; cbn [foldM]; [reflexivity|].
  rewrite (H a s (or_introl eq_refl)). destruct (f' s a); cbn [bind]; auto.
  apply IH. intros; apply H; now right.
Qed.

Lemma mapM_ext_in {A B} (f f' : A -> outcome B) :
  forall l, (forall a, In a l -> f a = f' a) -> mapM f l = mapM f' l.
Proof.
  induction l as [|a l IH]; intros H; cbn [mapM]; [reflexivity|].
  rewrite (H a (or_introl eq_refl)), IH; [reflexivity|]. intros; apply H; now right.
Qed.

(** ** two registries: [R'] knows every resolved input item of [R] *)
Section Reg.
  Variable R0 R R' : registry.
  Definition usub : Prop :=
    reg_ptr R = reg_ptr R' /\
    forall p it, user R0 p -> reg_get R p = Some it -> item_is_resolved it = true -> reg_get R' p = Some it.
  Hypothesis Hu : usub.

  (** by-value positions of a resolved type name input items only *)
  Fixpoint byval_user (t : stype) : Prop :=
    match t with
    | TRaw p => user R0 p
    | TArray t' _ => byval_user t'
    | _ => True
    end.

  Lemma size_mono : forall t s, byval_user t -> size_of R t = Some s -> size_of R' t = Some s.
  Proof.
    destruct Hu as [Hp He]. induction t as [p|t IH|t IH|t IH n|c args ret]; intros s Hb H; cbn [size_of byval_user] in *;
      try (rewrite <- Hp; exact H).
    - destruct (reg_get R p) as [it|] eqn:E; [|discriminate].
      unfold item_size, item_resolved in H. destruct (it_state it) as [d|r] eqn:Es; [discriminate|].
      rewrite (He p it Hb E); [unfold item_size, item_resolved; now rewrite Es|].
      unfold item_is_resolved. now rewrite Es.
    - destruct (size_of R t) as [s0|]; [|discriminate]. rewrite (IH s0 Hb eq_refl). exact H.
  Qed.

  Lemma align_mono : forall t a, byval_user t -> align_of R t = Some a -> align_of R' t = Some a.
  Proof.
    destruct Hu as [Hp He]. induction t as [p|t IH|t IH|t IH n|c args ret]; intros a Hb H; cbn [align_of byval_user] in *;
      try (rewrite <- Hp; exact H); auto.
    destruct (reg_get R p) as [it|] eqn:E; [|discriminate].
    unfold item_align, item_resolved in H. destruct (it_state it) as [d|r] eqn:Es; [discriminate|].
    rewrite (He p it Hb E); [unfold item_align, item_resolved; now rewrite Es|].
    unfold item_is_resolved. now rewrite Es.
  Qed.

  Definition rbu (r : region) : Prop := byval_user (r_type r).

  Lemma regions_push_mono acc r acc' :
    rbu r -> regions_push R acc r = Some acc' -> regions_push R' acc r = Some acc'.
  Proof.
    unfold regions_push, rbu. intros Hb H. destruct (size_of R (r_type r)) as [s|] eqn:Es; [|discriminate].
    now rewrite (size_mono _ _ Hb Es).
  Qed.

  Hypothesis Hu8 : user R0 ["u8"].

  Lemma rbu_padding n : rbu (unnamed_region (padding_type n)).
  Proof. exact Hu8. Qed.

  Lemma push_pending_mono acc p o :
    rbu (snd p) -> push_pending R acc p = o -> o <> Defer -> push_pending R' acc p = o.
  Proof.
    unfold push_pending. intros Hb H Hn.
    destruct (bind_nd _ _ _ H Hn) as [(acc1 & H1 & Ho)|[(m & Hm & ->)|(m & Hm & ->)]].
    - assert (match fst p with
              | Some offset => if offset <? snd acc then Err "attempted to insert padding, but overlapped with existing region"
                               else defer_opt (regions_push R' acc (unnamed_region (padding_type (offset - snd acc))))
              | None => Ok acc end = Ok acc1) as ->.
      { destruct (fst p) as [off|]; [|exact H1]. destruct (off <? snd acc); [exact H1|].
        apply defer_opt_ok in H1. now rewrite (regions_push_mono _ _ _ (rbu_padding _) H1). }
      cbn [bind]. destruct (regions_push R acc1 (snd p)) as [a|] eqn:E; cbn [defer_opt] in Ho; [|congruence].
      now rewrite (regions_push_mono _ _ _ Hb E).
    - destruct (fst p) as [off|]; [|discriminate]. destruct (off <? snd acc); [|destruct (regions_push R _ _); discriminate].
      now rewrite Hm.
    - destruct (fst p) as [off|]; [|discriminate]. destruct (off <? snd acc); [discriminate|destruct (regions_push R _ _); discriminate].
  Qed.

  Lemma name_regions_mono : forall rs s0 o,
    Forall rbu rs -> name_regions R rs s0 = o -> o <> Defer -> name_regions R' rs s0 = o.
  Proof.
    induction rs as [|r rs IH]; intros s0 o Hb H Hn; cbn [name_regions] in *; [exact H|].
    apply Forall_cons_iff in Hb as [Hr Hrs].
    destruct (size_of R (r_type r)) as [s|] eqn:Es; [|congruence].
    rewrite (size_mono _ _ Hr Es).
    destruct (bind_nd _ _ _ H Hn) as [(x & Hx & Ho)|[(m & Hm & ->)|(m & Hm & ->)]].
    - rewrite (IH _ _ Hrs Hx) by discriminate. exact Ho.
    - rewrite (IH _ _ Hrs Hm) by discriminate. reflexivity.
    - rewrite (IH _ _ Hrs Hm) by discriminate. reflexivity.
  Qed.

  (** *** after the regions are sized, everything that is read is the same in both registries *)
  Definition sized_rbu (r : region) : Prop := rbu r /\ size_of R (r_type r) <> None.

  Lemma sized_raw_resolved : forall t p, defaultable_path t = Some p -> byval_user t -> size_of R t <> None ->
    user R0 p /\ exists it, reg_get R p = Some it /\ item_is_resolved it = true.
  Proof.
    induction t as [q|t IH|t IH|t IH n|c args ret]; intros p Hd Hb Hs; cbn [defaultable_path byval_user size_of] in *;
      try discriminate.
    - inversion Hd; subst q. split; [exact Hb|]. destruct (reg_get R p) as [it|]; [|congruence].
      exists it. split; [reflexivity|]. unfold item_size, item_resolved, item_is_resolved in *.
      destruct (it_state it); [cbn in Hs; congruence | reflexivity].
    - apply IH; auto. destruct (size_of R t); congruence.
  Qed.

  Lemma sa_eq r : sized_rbu r ->
    size_of R' (r_type r) = size_of R (r_type r) /\ align_of R' (r_type r) = align_of R (r_type r).
  Proof.
    intros [Hb Hs]. destruct (size_of R (r_type r)) as [s|] eqn:Es; [|congruence].
    destruct (size_known_align_known _ _ _ Es) as [a Ea].
    now rewrite (size_mono _ _ Hb Es), (align_mono _ _ Hb Ea), Ea.
  Qed.

  Lemma region_name_and_typedef_eq r : sized_rbu r ->
    region_name_and_typedef R' r = region_name_and_typedef R r.
  Proof.
    intros [Hb Hs]. unfold region_name_and_typedef. destruct (r_name r); [|reflexivity].
    unfold rbu in Hb. destruct (r_type r) as [p|t|t|t n|c args ret] eqn:Et; try reflexivity.
    destruct (sized_raw_resolved (TRaw p) p eq_refl Hb Hs) as (Hup & it & Hg & Hr).
    destruct Hu as [_ He]. now rewrite Hg, (He _ _ Hup Hg Hr).
  Qed.

  Lemma inject_bases_eq : forall bases i acc, Forall sized_rbu bases ->
    inject_bases R' bases i acc = inject_bases R bases i acc.
  Proof.
    induction bases as [|b bases IH]; intros i acc H; cbn [inject_bases]; [reflexivity|].
    apply Forall_cons_iff in H as [Hb Hbs]. rewrite (region_name_and_typedef_eq _ Hb).
    destruct (region_name_and_typedef R b) as [[[bn td]|]| | |]; cbn [bind]; auto.
  Qed.

  Lemma check_defaultable_eq r : sized_rbu r -> check_defaultable R' r = check_defaultable R r.
  Proof.
    intros [Hb Hs]. unfold check_defaultable. destruct (defaultable_path (r_type r)) as [p|] eqn:Ed; [|reflexivity].
    destruct (sized_raw_resolved _ _ Ed Hb Hs) as (Hup & it & Hg & Hr).
    destruct Hu as [_ He]. now rewrite Hg, (He _ _ Hup Hg Hr).
  Qed.

  Lemma check_defaultable_fold_eq : forall regions u, Forall sized_rbu regions ->
    foldM (fun _ r => check_defaultable R' r) regions u = foldM (fun _ r => check_defaultable R r) regions u.
  Proof.
    intros regions u H. apply foldM_ext_in. intros r s Hin. apply check_defaultable_eq.
    rewrite Forall_forall in H. auto.
  Qed.

  Lemma check_fields_aligned_eq : forall rs cur, Forall sized_rbu rs ->
    check_fields_aligned R' rs cur = check_fields_aligned R rs cur.
  Proof.
    induction rs as [|r rs IH]; intros cur H; cbn [check_fields_aligned]; [reflexivity|].
    apply Forall_cons_iff in H as [Hr Hrs]. destruct (sa_eq _ Hr) as [-> ->].
    destruct (align_of R (r_type r)); [|reflexivity]. destruct (size_of R (r_type r)); [|reflexivity].
    destruct (_ || _); [reflexivity|]. auto.
  Qed.

  Lemma flat_aligns_eq : forall rs, Forall sized_rbu rs -> flat_aligns R' rs = flat_aligns R rs.
  Proof.
    induction rs as [|r rs IH]; intros H; cbn [flat_aligns]; [reflexivity|].
    apply Forall_cons_iff in H as [Hr Hrs]. destruct (sa_eq _ Hr) as [_ ->]. now rewrite IH.
  Qed.

  Lemma compute_alignment_eq ta regions size : Forall sized_rbu regions ->
    compute_alignment R' ta regions size = compute_alignment R ta regions size.
  Proof.
    intros H. unfold compute_alignment. destruct Hu as [Hp _].
    rewrite (flat_aligns_eq _ H), (check_fields_aligned_eq _ _ H), <- Hp.
    assert (match regions with
            | [r] => match align_of R' (r_type r) with Some a => a | None => reg_ptr R end
            | _ => reg_ptr R end =
            match regions with
            | [r] => match align_of R (r_type r) with Some a => a | None => reg_ptr R end
            | _ => reg_ptr R end) as ->; [|reflexivity].
    destruct regions as [|r [|r2 rest]]; try reflexivity.
    apply Forall_cons_iff in H as [Hr _]. now destruct (sa_eq _ Hr) as [_ ->].
  Qed.
End Reg.

(** ** cleanliness of descriptions, and the registry-independent first phase *)
Definition clean_arg (a : garg) : bool := match a with GNamed _ t => clean_gtype t | _ => true end.
Definition clean_fn (f : gfunction) : bool :=
  forallb clean_arg (gf_args f) && match gf_ret f with Some t => clean_gtype t | None => true end.
Definition clean_stmt (s : gstatement) : bool :=
  match gs_field s with GField _ _ t => clean_gtype t | GVftable fs => forallb clean_fn fs end.
Definition clean_def (gd : gitemdef) : bool :=
  match gi_inner gd with
  | GIType td => forallb clean_stmt (gt_stmts td)
  | GIEnum ed => clean_gtype (ged_type ed)
  end.
Definition clean_module (m : smodule) : bool :=
  forallb clean_path (module_scope m) &&
  forallb (fun kb => forallb clean_fn (gb_fns (snd kb))) (m_impls m) &&
  (forallb (fun kb => clean_path (fst kb)) (m_impls m) &&
   forallb (fun ev => clean_gtype (ev_gtype ev)) (m_extern_values m)).

Section Pre.
  Variable R0 R : registry.
  Hypothesis HR : chas R0 R.
  Variable scope : list path.
  Hypothesis Hs : forallb clean_path scope = true.

  Lemma function_build_reach v f : clean_fn f = true ->
    function_build R scope v f = function_build R0 scope v f.
  Proof.
    unfold clean_fn. intros Hc. apply andb_prop in Hc as [Ha Hr]. unfold function_build.
    destruct (attrs_doc (gf_attrs f)) as [doc| | |]; cbn [bind]; try reflexivity.
    destruct (foldM _ _ _) as [stt| | |]; cbn [bind]; try reflexivity.
    destruct (fst stt); [|reflexivity].
    assert (mapM (resolve_arg R scope) (gf_args f) = mapM (resolve_arg R0 scope) (gf_args f)) as ->.
    { apply mapM_ext_in. intros ga Hin. rewrite forallb_forall in Ha. specialize (Ha _ Hin).
      destruct ga as [| |n t]; cbn [resolve_arg clean_arg] in *; try reflexivity.
      now rewrite (resolve_gtype_reach _ _ _ HR Hs). }
    destruct (mapM _ _); cbn [bind]; try reflexivity.
    destruct (gf_ret f) as [t|]; [|reflexivity]. now rewrite (resolve_gtype_reach _ _ _ HR Hs).
  Qed.

  Lemma convert_functions_reach sz fs : forallb clean_fn fs = true ->
    convert_functions R scope sz fs = convert_functions R0 scope sz fs.
  Proof.
    intros Hc. unfold convert_functions.
    assert (foldM (convert_one R scope) fs [] = foldM (convert_one R0 scope) fs []) as ->; [|reflexivity].
    apply foldM_ext_in. intros f out Hin. rewrite forallb_forall in Hc. unfold convert_one.
    now rewrite function_build_reach by auto.
  Qed.

  Lemma process_statement_reach acc s : clean_stmt s = true ->
    process_statement R scope acc s = process_statement R0 scope acc s.
  Proof.
    unfold clean_stmt, process_statement. destruct acc as [idx [pending vfs]].
    destruct (gs_field s) as [v name t|fs]; intros Hc.
    - now rewrite (resolve_gtype_reach _ _ _ HR Hs).
    - destruct (negb (Nat.eqb idx 0)); [reflexivity|].
      destruct (foldM scan_vftable_size_attr (gs_attrs s) None) as [sz| | |]; cbn [bind]; try reflexivity.
      now rewrite convert_functions_reach.
  Qed.

  Lemma process_statements_reach stmts acc : forallb clean_stmt stmts = true ->
    foldM (process_statement R scope) stmts acc = foldM (process_statement R0 scope) stmts acc.
  Proof.
    intros Hc. apply foldM_ext_in. intros s a Hin. rewrite forallb_forall in Hc. apply process_statement_reach. auto.
  Qed.
End Pre.

(** ** what a clean name resolves to is an input item *)
Lemma resolve_string_clean R scope name p :
  forallb clean_path scope = true -> ends_vft name = false ->
  resolve_string R scope name = Some (TRaw p) -> clean_path p = true.
Proof.
  intros Hs Hn. unfold resolve_string. rewrite forallb_forall in Hs.
  destruct (find (last_is name) (rev (filter (reg_has R) scope))) as [q|] eqn:E.
  - intros H; inversion H; subst. apply find_some in E as [Hin _].
    apply in_rev, filter_In in Hin. apply Hs. tauto.
  - destruct (find (reg_has R) _) as [q|] eqn:E2; cbn; [|discriminate].
    intros H; inversion H; subst. apply find_some in E2 as [Hin _].
    apply in_map_iff in Hin as (ip & <- & _). unfold clean_path. now rewrite path_last_join, Hn.
Qed.

Lemma has_user R0 R p : chas R0 R -> clean_path p = true -> reg_has R p = true -> user R0 p.
Proof.
  intros HR Hc Hh. rewrite (HR _ Hc) in Hh. unfold user, reg_has, amem in *.
  fold (reg_get R0 p) in Hh. destruct (reg_get R0 p); [discriminate | discriminate].
Qed.

Lemma resolve_gtype_rbu R0 R scope :
  chas R0 R -> user R0 ["u8"] -> forallb clean_path scope = true -> forall t t',
  clean_gtype t = true -> resolve_gtype R scope t = Some t' -> byval_user R0 t'.
Proof.
  intros HR Hu8 Hs. induction t as [t IH|t IH|t IH n|s|n]; intros t' Hc H; cbn [clean_gtype resolve_gtype] in *.
  - destruct (resolve_gtype R scope t); inversion H; subst. exact I.
  - destruct (resolve_gtype R scope t); inversion H; subst. exact I.
  - destruct (resolve_gtype R scope t) as [x|] eqn:E; inversion H; subst. cbn. eauto.
  - apply negb_true_iff in Hc. destruct (resolve_string_raw _ _ _ _ H) as [p ->]. cbn.
    eapply has_user; eauto using resolve_string_clean, resolve_string_has.
  - inversion H; subst. exact Hu8.
Qed.

Lemma process_statements_rbu R0 R scope :
  chas R0 R -> user R0 ["u8"] -> forallb clean_path scope = true ->
  forall stmts idx pending vfs n pending' vfs',
    forallb clean_stmt stmts = true -> Forall (fun p => rbu R0 (snd p)) pending ->
    foldM (process_statement R scope) stmts (idx, (pending, vfs)) = Ok (n, (pending', vfs')) ->
    Forall (fun p => rbu R0 (snd p)) pending'.
Proof.
  intros HR Hu8 Hs. induction stmts as [|s stmts IH]; intros idx pending vfs n pending' vfs' Hc Hp H; cbn [foldM] in H.
  - now inversion H; subst.
  - cbn [forallb] in Hc. apply andb_prop in Hc as [Hc1 Hc2]. inv_bind H. destruct a as [idx1 [pending1 vfs1]].
    eapply IH; [exact Hc2 | | exact H].
    unfold process_statement, clean_stmt in *. destruct (gs_field s) as [v name t|gfs].
    + inv_bind Ha. inv_bind Ha. destruct (resolve_gtype R scope t) as [t'|] eqn:Et; [|discriminate].
      inversion Ha; subst. apply Forall_app. split; [exact Hp|]. constructor; [|constructor].
      cbn [snd]. unfold rbu. cbn [r_type]. eapply resolve_gtype_rbu; eauto.
    + destruct (negb _); [discriminate|]. inv_bind Ha. inv_bind Ha. inversion Ha; subst. exact Hp.
Qed.

(** ** the state-changing part: the vftable item *)
Definition mods_agree (ms ms' : list (path * smodule)) : Prop :=
  forall k, match alookup k ms, alookup k ms' with
            | Some m, Some m' => mod_eq m m'
            | None, None => True
            | _, _ => False
            end.

Lemma mods_agree_insert ms ms' k m m' :
  mods_agree ms ms' -> mod_eq m m' -> mods_agree (ainsert k m ms) (ainsert k m' ms').
Proof.
  intros Ha He q. destruct (path_eqb_spec k q) as [<-|Hne].
  - now rewrite !alookup_ainsert_same.
  - rewrite !alookup_ainsert_other by exact Hne. apply Ha.
Qed.

Lemma add_item_mono R0 st st' it o :
  usub R0 (st_reg st) (st_reg st') -> mods_agree (st_modules st) (st_modules st') ->
  ~ user R0 (it_path it) -> add_item st it = o ->
  match o with
  | Ok st1 => exists st1', add_item st' it = Ok st1' /\ usub R0 (st_reg st1) (st_reg st1') /\
                           mods_agree (st_modules st1) (st_modules st1')
  | Err m => add_item st' it = Err m
  | _ => False
  end.
Proof.
  intros [Hp He] Hm Hnu. unfold add_item. destruct (path_parent (it_path it)) as [parent|]; [|intros <-; reflexivity].
  specialize (Hm parent) as Hmp.
  destruct (alookup parent (st_modules st)) as [m|], (alookup parent (st_modules st')) as [m'|]; try contradiction;
    [|intros <-; reflexivity].
  intros <-. eexists. split; [reflexivity|]. cbn [st_reg st_modules]. split.
  - split; [exact Hp|]. intros p itp Hup Hg Hr.
    assert (it_path it <> p) as Hne by (intros E; subst p; contradiction).
    rewrite reg_get_add_other in * by exact Hne. auto.
  - apply mods_agree_insert; [exact Hm|]. destruct Hmp as (A & B & C & D). repeat split; assumption.
Qed.

Lemma opt_rnv_shape R fb :
  match opt_region_name_and_vftable R fb with Defer | Panic _ => False | _ => True end.
Proof.
  unfold opt_region_name_and_vftable. destruct fb as [b|]; [|exact I].
  unfold region_name_and_typedef. destruct (r_name b); [|exact I].
  destruct (r_type b); try exact I. destruct (reg_get R p) as [it|]; [|exact I].
  destruct (item_resolved it) as [rs|]; [|exact I]. destruct (rs_inner rs); exact I.
Qed.

Section St.
  Variable R0 : registry.
  Hypothesis Hcf : collision_free R0.
  Hypothesis Hu8 : user R0 ["u8"].

  Lemma rnt_eq R R' r : usub R0 R R' -> rbu R0 r ->
    (forall p, r_type r = TRaw p -> exists it, reg_get R p = Some it /\ item_is_resolved it = true) ->
    region_name_and_typedef R' r = region_name_and_typedef R r.
  Proof.
    intros [_ He] Hb Hres. unfold region_name_and_typedef. destruct (r_name r); [|reflexivity].
    unfold rbu in Hb. destruct (r_type r) as [p|t|t|t n|c args ret] eqn:Et; try reflexivity.
    destruct (Hres p eq_refl) as (it & Hg & Hr). now rewrite Hg, (He _ _ Hb Hg Hr).
  Qed.

  Lemma fbu_false_resolved R fb : present R0 R -> first_base_unresolved R (Some fb) = false -> rbu R0 fb ->
    forall p, r_type fb = TRaw p -> exists it, reg_get R p = Some it /\ item_is_resolved it = true.
  Proof.
    intros HP Hf Hb p Et. unfold first_base_unresolved in Hf. unfold rbu in Hb. rewrite Et in *. cbn in Hb.
    specialize (HP p Hb). destruct (reg_get R p) as [it|]; [|congruence].
    exists it. split; [reflexivity|]. now apply negb_false_iff in Hf.
  Qed.

  Lemma vftable_build_mono st st' owner v fb vfs o :
    usub R0 (st_reg st) (st_reg st') -> mods_agree (st_modules st) (st_modules st') ->
    present R0 (st_reg st) -> user R0 owner ->
    first_base_unresolved (st_reg st) fb = false -> (forall b, fb = Some b -> rbu R0 b) ->
    vftable_build st owner v fb vfs = o ->
    match o with
    | Ok (st1, vt, vr) => exists st1', vftable_build st' owner v fb vfs = Ok (st1', vt, vr) /\
                                       usub R0 (st_reg st1) (st_reg st1') /\
                                       mods_agree (st_modules st1) (st_modules st1')
    | Err m => vftable_build st' owner v fb vfs = Err m
    | _ => False
    end.
  Proof.
    intros Hus Hm HP Huo Hf Hfb. 
    assert (forall R1 R1', usub R0 R1 R1' -> (forall p, user R0 p -> reg_get R1 p = reg_get (st_reg st) p) ->
              opt_region_name_and_vftable R1' fb = opt_region_name_and_vftable R1 fb) as Hopt.
    { intros R1 R1' Hus1 Hsame. unfold opt_region_name_and_vftable. destruct fb as [b|]; [|reflexivity].
      rewrite (rnt_eq R1 R1' b Hus1 (Hfb _ eq_refl)); [reflexivity|].
      intros p Et. pose proof (Hfb _ eq_refl) as Hb. unfold rbu in Hb. rewrite Et in Hb. cbn in Hb.
      rewrite (Hsame p Hb). eapply fbu_false_resolved; eauto. }
    unfold vftable_build. destruct vfs as [fs|].
    - pose proof Hus as [Hp He].
      assert (vftable_item (st_reg st') owner v fs = vftable_item (st_reg st) owner v fs) as ->.
      { unfold vftable_item. now rewrite Hp. }
      destruct (vftable_item (st_reg st) owner v fs) as [vit|] eqn:Ei.
      2:{ intros <-. eexists. split; [reflexivity|]. split; [split; assumption | exact Hm]. }
      destruct (vftable_item_facts _ _ _ _ _ Ei) as (Hvp & _).
      assert (~ user R0 (it_path vit)) as Hnu.
      { intros Hu. unfold user in Hu. apply Hu. apply (Hcf owner); [exact Huo | exact Hvp]. }
      pose proof (add_item_mono R0 st st' vit (add_item st vit) (conj Hp He) Hm Hnu eq_refl) as Hadd.
      destruct (add_item st vit) as [st1| |m|m] eqn:Ea; try contradiction.
      2:{ intros <-. cbn [bind]. now rewrite Hadd. }
      destruct Hadd as (st1' & Ea' & Hus1 & Hm1). rewrite Ea'. cbn [bind].
      rewrite (Hopt (st_reg st1) (st_reg st1') Hus1).
      2:{ intros p Hup. rewrite (add_item_reg _ _ _ Ea). apply reg_get_add_other. intros E; subst p; contradiction. }
      pose proof (opt_rnv_shape (st_reg st1) fb) as Hshape.
      destruct (opt_region_name_and_vftable (st_reg st1) fb) as [[[bn bv]|]| | |]; cbn [bind]; intros <-; auto.
      + destruct (_ <? _)%nat; [reflexivity|]. destruct (negb _); [reflexivity|]. eauto.
      + eauto.
    - rewrite (Hopt (st_reg st) (st_reg st') Hus (fun _ _ => eq_refl)).
      pose proof (opt_rnv_shape (st_reg st) fb) as Hshape.
      destruct (opt_region_name_and_vftable (st_reg st) fb) as [[[bn bv]|]| | |]; cbn [bind]; intros <-; eauto.
  Qed.

  (** the regions that come out of [resolve_regions] name input items by value *)
  Lemma regions_push_rbu R acc r acc' : Forall (rbu R0) (fst acc) -> rbu R0 r ->
    regions_push R acc r = Some acc' -> Forall (rbu R0) (fst acc').
  Proof.
    unfold regions_push. intros Ha Hr. destruct (size_of R (r_type r)); [|discriminate].
    destruct (_ && _); [intros H; now inversion H; subst|].
    destruct (checked_add _ _); [|discriminate]. intros H; inversion H; subst. cbn [fst].
    apply Forall_app. split; [exact Ha | constructor; [exact Hr | constructor]].
  Qed.

  Lemma push_pending_rbu R acc p acc' : Forall (rbu R0) (fst acc) -> rbu R0 (snd p) ->
    push_pending R acc p = Ok acc' -> Forall (rbu R0) (fst acc').
  Proof.
    unfold push_pending. intros Ha Hr H. inv_bind H. apply defer_opt_ok in H.
    eapply regions_push_rbu; [| exact Hr | exact H].
    destruct (fst p) as [off|]; [|now inversion Ha0; subst].
    destruct (off <? snd acc); [discriminate|]. apply defer_opt_ok in Ha0.
    eapply regions_push_rbu; [exact Ha | | exact Ha0]. exact Hu8.
  Qed.

  Lemma push_all_rbu R : forall pending acc acc', Forall (rbu R0) (fst acc) ->
    Forall (fun p => rbu R0 (snd p)) pending ->
    foldM (push_pending R) pending acc = Ok acc' -> Forall (rbu R0) (fst acc').
  Proof.
    induction pending as [|p pending IH]; intros acc acc' Ha Hp H; cbn [foldM] in H; [now inversion H; subst|].
    apply Forall_cons_iff in Hp as [Hp1 Hp2]. inv_bind H. eapply IH; [| exact Hp2 | exact H].
    eapply push_pending_rbu; eauto.
  Qed.

  Lemma name_regions_rbu R : forall rs s0 rs' s, Forall (rbu R0) rs ->
    name_regions R rs s0 = Ok (rs', s) -> Forall (rbu R0) rs'.
  Proof.
    induction rs as [|r rs IH]; intros s0 rs' s Hb H; cbn [name_regions] in H; [inversion H; constructor|].
    apply Forall_cons_iff in Hb as [Hr Hrs]. destruct (size_of R (r_type r)); [|discriminate].
    inv_bind H. destruct a as [rest s1]. inversion H; subst. constructor; [|eapply IH; eauto].
    destruct (r_name r); exact Hr.
  Qed.

  Lemma resolve_regions_mono st st' owner v ts pending vfs o :
    usub R0 (st_reg st) (st_reg st') -> mods_agree (st_modules st) (st_modules st') ->
    present R0 (st_reg st) -> user R0 owner ->
    Forall (fun p => rbu R0 (snd p)) pending ->
    resolve_regions st owner v ts pending vfs = o -> o <> Defer ->
    match o with
    | Ok (st1, regions, vt, size) =>
        (exists st1', resolve_regions st' owner v ts pending vfs = Ok (st1', regions, vt, size) /\
                      usub R0 (st_reg st1) (st_reg st1')) /\
        Forall (rbu R0) regions
    | Err m => resolve_regions st' owner v ts pending vfs = Err m
    | Panic m => resolve_regions st' owner v ts pending vfs = Panic m
    | Defer => False
    end.
  Proof.
    intros Hus Hm HP Huo Hpend H Hn. unfold resolve_regions in *.
    set (fb := find r_is_base (map snd pending)) in *.
    assert (forall b, fb = Some b -> rbu R0 b) as Hfb.
    { intros b Eb. subst fb. apply find_some in Eb as [Hin _]. apply in_map_iff in Hin as (p & <- & Hin).
      rewrite Forall_forall in Hpend. auto. }
    destruct (first_base_unresolved (st_reg st) fb) eqn:Ef; [congruence|].
    assert (first_base_unresolved (st_reg st') fb = false) as ->.
    { destruct fb as [b|] eqn:Eb; [|reflexivity].
      pose proof (Hfb b eq_refl) as Hb. unfold first_base_unresolved.
      destruct (r_type b) as [p| | | |] eqn:Et; try reflexivity.
      destruct (fbu_false_resolved _ _ HP Ef Hb p Et) as (it & Hg & Hr).
      unfold rbu in Hb. rewrite Et in Hb. cbn in Hb.
      destruct Hus as [_ He]. rewrite (He _ _ Hb Hg Hr). now rewrite Hr. }
    pose proof (vftable_build_mono st st' owner v fb vfs _ Hus Hm HP Huo Ef Hfb eq_refl) as Hvb.
    destruct (bind_nd _ _ _ H Hn) as [([[st1 vt1] vr1] & Hv & Ho)|[(m & Hv & ->)|(m & Hv & ->)]];
      rewrite Hv in Hvb; try contradiction; [|now rewrite Hvb].
    destruct Hvb as (st1' & Hv' & Hus1 & Hm1). rewrite Hv'. cbn [bind]. clear H.
    set (R1 := st_reg st1) in *. set (R1' := st_reg st1') in *.
    (* the vftable pointer region *)
    destruct (bind_nd _ _ _ Ho Hn) as [(acc0 & H0 & Ho1)|[(m & H0 & ->)|(m & H0 & ->)]].
    2:{ destruct vr1; [destruct (regions_push R1 _ _); discriminate | discriminate]. }
    2:{ destruct vr1; [destruct (regions_push R1 _ _); discriminate | discriminate]. }
    assert (match vr1 with Some vr => defer_opt (regions_push R1' ([], 0) vr) | None => Ok ([], 0) end = Ok acc0
            /\ Forall (rbu R0) (fst acc0)) as [-> Hacc0].
    { destruct vr1 as [vr|]; [|inversion H0; subst; split; [reflexivity | constructor]].
      apply defer_opt_ok in H0.
      assert (rbu R0 vr) as Hvr.
      { unfold vftable_build in Hv. destruct vfs as [fs|].
        - destruct (vftable_item (st_reg st) owner v fs); [|inversion Hv].
          inv_bind Hv. inv_bind Hv. destruct a0 as [[bn bv]|].
          + destruct (_ <? _)%nat; [discriminate|]. destruct (negb _); [discriminate|]. inversion Hv.
          + inversion Hv; subst. exact I.
        - inv_bind Hv. destruct a as [[bn bv]|]; inversion Hv. }
      rewrite (regions_push_mono R0 R1 R1' Hus1 _ _ _ Hvr H0). split; [reflexivity|].
      eapply (regions_push_rbu R1 ([], 0)); [constructor | exact Hvr | exact H0]. }
    cbn [bind].
    (* the declared fields *)
    destruct (bind_nd _ _ _ Ho1 Hn) as [(acc1 & H1 & Ho2)|[(m & H1 & ->)|(m & H1 & ->)]].
    2:{ rewrite (foldM_mono (push_pending R1) (push_pending R1') (fun p => rbu R0 (snd p))
                            (fun a s o Pa => push_pending_mono R0 R1 R1' Hus1 Hu8 s a o Pa) _ _ _ Hpend H1) by discriminate.
        reflexivity. }
    2:{ rewrite (foldM_mono (push_pending R1) (push_pending R1') (fun p => rbu R0 (snd p))
                            (fun a s o Pa => push_pending_mono R0 R1 R1' Hus1 Hu8 s a o Pa) _ _ _ Hpend H1) by discriminate.
        reflexivity. }
    rewrite (foldM_mono (push_pending R1) (push_pending R1') (fun p => rbu R0 (snd p))
                        (fun a s o Pa => push_pending_mono R0 R1 R1' Hus1 Hu8 s a o Pa) _ _ _ Hpend H1) by discriminate.
    cbn [bind]. pose proof (push_all_rbu R1 _ _ _ Hacc0 Hpend H1) as Hacc1.
    (* padding up to the declared size *)
    destruct (bind_nd _ _ _ Ho2 Hn) as [(acc2 & H2 & Ho3)|[(m & H2 & ->)|(m & H2 & ->)]].
    2:{ destruct ts as [t|]; [|discriminate]. destruct (snd acc1 <? t); [|discriminate].
        destruct (regions_push R1 _ _); discriminate. }
    2:{ destruct ts as [t|]; [|discriminate]. destruct (snd acc1 <? t); [|discriminate].
        destruct (regions_push R1 _ _); discriminate. }
    assert (match ts with
            | Some t => if snd acc1 <? t
                        then defer_opt (regions_push R1' acc1 (unnamed_region (padding_type (t - snd acc1))))
                        else Ok acc1
            | None => Ok acc1 end = Ok acc2 /\ Forall (rbu R0) (fst acc2)) as [-> Hacc2].
    { destruct ts as [t|]; [|inversion H2; subst; auto].
      destruct (snd acc1 <? t); [|inversion H2; subst; auto].
      apply defer_opt_ok in H2.
      rewrite (regions_push_mono R0 R1 R1' Hus1 _ _ _ (rbu_padding R0 Hu8 _) H2). split; [reflexivity|].
      eapply regions_push_rbu; [exact Hacc1 | apply (rbu_padding R0 Hu8) | exact H2]. }
    cbn [bind].
    (* naming *)
    destruct (bind_nd _ _ _ Ho3 Hn) as [(named & H3 & Ho4)|[(m & H3 & ->)|(m & H3 & ->)]].
    2:{ now rewrite (name_regions_mono R0 R1 R1' Hus1 _ _ _ Hacc2 H3) by discriminate. }
    2:{ now rewrite (name_regions_mono R0 R1 R1' Hus1 _ _ _ Hacc2 H3) by discriminate. }
    rewrite (name_regions_mono R0 R1 R1' Hus1 _ _ _ Hacc2 H3) by discriminate. cbn [bind].
    destruct named as [nrs nsz]. pose proof (name_regions_rbu R1 _ _ _ _ Hacc2 H3) as Hnamed.
    cbn [fst snd] in *.
    destruct ts as [t|].
    - destruct (negb (nsz =? t)); rewrite <- Ho4; [reflexivity|]. split; [eauto | exact Hnamed].
    - rewrite <- Ho4. split; [eauto | exact Hnamed].
  Qed.

  Lemma resolve_regions_chas st owner v ts pending vfs st1 regions vt size :
    chas R0 (st_reg st) -> resolve_regions st owner v ts pending vfs = Ok (st1, regions, vt, size) ->
    chas R0 (st_reg st1).
  Proof.
    intros HC H. destruct (resolve_regions_step _ _ _ _ _ _ _ _ _ _ H) as [->|(fs & vit & _ & Hvi & Hadd)]; [exact HC|].
    rewrite (add_item_reg _ _ _ Hadd). apply chas_add; [exact HC|].
    destruct (vftable_item_facts _ _ _ _ _ Hvi) as (Hvp & _). eapply gen_path_not_clean; eauto.
  Qed.

  (** *** M1 and M2 for a type: an attempt that does not defer gives the same result in every
      state that knows at least the same resolved input items *)
  Lemma type_build_mono st st' p v d o :
    usub R0 (st_reg st) (st_reg st') -> mods_agree (st_modules st) (st_modules st') ->
    present R0 (st_reg st) -> chas R0 (st_reg st) -> chas R0 (st_reg st') -> user R0 p ->
    (forall parent m, path_parent p = Some parent -> alookup parent (st_modules st) = Some m ->
                      clean_module m = true) ->
    forallb clean_stmt (gt_stmts d) = true ->
    snd (type_build st p v d) = o -> o <> Defer -> snd (type_build st' p v d) = o.
  Proof.
    intros Hus Hm HP HC HC' Hup Hcm Hcd H Hn. unfold type_build in *.
    destruct (path_parent p) as [parent|] eqn:Epar; [|exact H].
    specialize (Hm parent) as Hmp. specialize (Hcm parent).
    destruct (alookup parent (st_modules st)) as [module|] eqn:Emod,
             (alookup parent (st_modules st')) as [module'|] eqn:Emod'; try contradiction; [|exact H].
    destruct Hmp as (Hmpath & Hmast & Hmimpls & Hmevs).
    assert (module_scope module' = module_scope module) as Hscope by (unfold module_scope; congruence).
    specialize (Hcm module eq_refl eq_refl). unfold clean_module in Hcm. apply andb_prop in Hcm as [Hcm _].
    apply andb_prop in Hcm as [Hcs Hci].
    rewrite Hscope, <- Hmimpls.
    rewrite (process_statements_reach R0 (st_reg st') HC' _ Hcs _ _ Hcd).
    rewrite (process_statements_reach R0 (st_reg st) HC _ Hcs _ _ Hcd) in H.
    set (pre := bind (attrs_doc (gt_attrs d)) _) in *.
    destruct pre as [[[doc ta] [pending vfs]]| | |] eqn:Epre; try exact H.
    assert (Forall (fun q => rbu R0 (snd q)) pending) as Hpend.
    { subst pre. inv_bind Epre. inv_bind Epre. inv_bind Epre. destruct a1 as [n [pending1 vfs1]].
      inversion Epre; subst.
      eapply (process_statements_rbu R0 R0); [intros c _; reflexivity | exact Hu8 | exact Hcs | exact Hcd | constructor | exact Ha1]. }
    pose proof (resolve_regions_mono st st' p v (ta_size ta) pending vfs _ Hus Hm HP Hup Hpend eq_refl) as Hrr.
    destruct (resolve_regions st p v (ta_size ta) pending vfs) as [[[[st1 regions] vt] size]| |m|m] eqn:Err;
      cbn [snd] in H.
    - destruct (Hrr ltac:(discriminate)) as ((st1' & Hrr' & Hus1) & Hrbu). rewrite Hrr'. cbn [snd].
      pose proof (resolve_regions_sizes _ _ _ _ _ _ _ _ _ _ Err) as Hsized.
      assert (Forall (sized_rbu R0 (st_reg st1)) regions) as Hsr.
      { rewrite Forall_forall in *. intros r Hin. split; auto. }
      pose proof (resolve_regions_chas _ _ _ _ _ _ _ _ _ _ HC Err) as HC1.
      pose proof (resolve_regions_chas _ _ _ _ _ _ _ _ _ _ HC' Hrr') as HC1'.
      rewrite (inject_bases_eq R0 _ _ Hus1).
      2:{ rewrite Forall_forall in *. intros r Hin. apply filter_In in Hin as [Hin _]. auto. }
      rewrite <- H. destruct (inject_bases (st_reg st1) _ _ _) as [acc1| | |]; cbn [bind]; try reflexivity.
      assert (match alookup p (m_impls module) with
              | Some blk => foldM (add_impl_function (st_reg st1') (module_scope module)) (gb_fns blk) acc1
              | None => Ok acc1 end =
              match alookup p (m_impls module) with
              | Some blk => foldM (add_impl_function (st_reg st1) (module_scope module)) (gb_fns blk) acc1
              | None => Ok acc1 end) as ->.
      { destruct (alookup p (m_impls module)) as [blk|] eqn:Eb; [|reflexivity].
        assert (forallb clean_fn (gb_fns blk) = true) as Hcb.
        { rewrite forallb_forall in Hci. destruct (alookup_in _ _ _ Eb) as (k' & Hin & _).
          apply (Hci _ Hin). }
        apply foldM_ext_in. intros f acc Hin. unfold add_impl_function.
        rewrite forallb_forall in Hcb.
        now rewrite (function_build_reach R0 _ HC1' _ Hcs), (function_build_reach R0 _ HC1 _ Hcs) by auto. }
      destruct (match alookup p (m_impls module) with Some _ => _ | None => _ end) as [acc2| | |]; cbn [bind]; try reflexivity.
      rewrite (check_defaultable_fold_eq R0 _ _ Hus1 _ _ Hsr).
      destruct (if ta_defaultable ta then _ else _) as [[]| | |]; cbn [bind]; try reflexivity.
      now rewrite (compute_alignment_eq R0 _ _ Hus1 _ _ _ Hsr).
    - cbn [snd] in H. congruence.
    - rewrite (Hrr ltac:(discriminate)). exact H.
    - rewrite (Hrr ltac:(discriminate)). exact H.
  Qed.

  Lemma enum_build_mono st st' p d o :
    usub R0 (st_reg st) (st_reg st') -> mods_agree (st_modules st) (st_modules st') ->
    chas R0 (st_reg st) -> chas R0 (st_reg st') ->
    (forall parent m, path_parent p = Some parent -> alookup parent (st_modules st) = Some m ->
                      clean_module m = true) ->
    clean_gtype (ged_type d) = true ->
    enum_build st p d = o -> o <> Defer -> enum_build st' p d = o.
  Proof.
    intros Hus Hm HC HC' Hcm Hcd H Hn. unfold enum_build in *.
    destruct (path_parent p) as [parent|] eqn:Epar; [|exact H].
    specialize (Hm parent) as Hmp. specialize (Hcm parent).
    destruct (alookup parent (st_modules st)) as [module|] eqn:Emod,
             (alookup parent (st_modules st')) as [module'|] eqn:Emod'; try contradiction; [|exact H].
    destruct Hmp as (Hmpath & Hmast & Hmimpls & Hmevs).
    assert (module_scope module' = module_scope module) as Hscope by (unfold module_scope; congruence).
    specialize (Hcm module eq_refl eq_refl). unfold clean_module in Hcm. apply andb_prop in Hcm as [Hcm _].
    apply andb_prop in Hcm as [Hcs _].
    rewrite Hscope. rewrite (resolve_gtype_reach R0 _ _ HC' Hcs _ Hcd).
    rewrite (resolve_gtype_reach R0 _ _ HC Hcs _ Hcd) in H.
    destruct (resolve_gtype R0 (module_scope module) (ged_type d)) as [ty|] eqn:Et; [|congruence].
    assert (byval_user R0 ty) as Hb.
    { eapply (resolve_gtype_rbu R0 R0); [intros c _; reflexivity | exact Hu8 | exact Hcs | exact Hcd | exact Et]. }
    destruct (size_of (st_reg st) ty) as [size|] eqn:Es; [|congruence].
    rewrite (size_mono R0 _ _ Hus _ _ Hb Es).
    destruct (size_known_align_known _ _ _ Es) as [a Ea]. rewrite Ea in H.
    now rewrite (align_mono R0 _ _ Hus _ _ Hb Ea).
  Qed.

  (** *** M1 + M2 for the model's [attempt] *)
  Theorem attempt_mono st st' p gd o :
    usub R0 (st_reg st) (st_reg st') -> mods_agree (st_modules st) (st_modules st') ->
    present R0 (st_reg st) -> chas R0 (st_reg st) -> chas R0 (st_reg st') -> user R0 p ->
    (forall parent m, path_parent p = Some parent -> alookup parent (st_modules st) = Some m ->
                      clean_module m = true) ->
    clean_def gd = true ->
    snd (attempt st p gd) = o -> o <> Defer -> snd (attempt st' p gd) = o.
  Proof.
    intros Hus Hm HP HC HC' Hup Hcm Hcd. unfold attempt, clean_def in *. destruct (gi_inner gd) as [td|ed].
    - apply type_build_mono; assumption.
    - cbn [snd]. apply enum_build_mono; assumption.
  Qed.
End St.
