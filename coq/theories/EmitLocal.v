(** * EmitLocal: the back end reads the registry LOCALLY, and its recursion fuel is irrelevant.

    [EmitInvariance.build_item_same] needs two registries that agree everywhere and the same fuel.
    Here: [build_item] of an item reads the registry only along the chain of base-class regions
    ([dfs_hierarchy] -> [region_name_and_typedef]); two registries that agree on a set [Q] of paths
    closed under "base regions of the type stored at a [Q] path" give the same result on every item
    whose base regions lie in [Q] -- and a larger fuel gives the same result, unless the result with
    the smaller fuel is the model's own "fuel exhausted" panic (the only fuel-dependent outcome). *)
From Coq Require Import List String NArith Bool Lia Permutation.
From PyxisModel Require Import Base Sexp Grammar SemTypes Registry Sem Emit SemLemmas.
Import ListNotations.
Local Open Scope string_scope.
Local Open Scope list_scope.

Definition fuel_msg : string := "model: hierarchy fuel exhausted".

(** an outcome that is not the model's "hierarchy fuel exhausted" panic *)
Definition not_fuel {A} (o : outcome A) : Prop :=
  match o with Panic m => m <> fuel_msg | _ => True end.

Lemma not_fuel_ok {A} (a : A) : not_fuel (Ok a).
Proof. exact I. Qed.

Lemma bind_lift {A B} (x1 x2 : outcome A) (k : A -> outcome B) o :
  (forall ox, x1 = ox -> not_fuel ox -> x2 = ox) -> bind x1 k = o -> not_fuel o -> bind x2 k = o.
Proof.
  intros H Hb Hn. destruct x1 as [a| |m|m]; cbn [bind] in Hb.
  - rewrite (H (Ok a) eq_refl I). exact Hb.
  - rewrite (H Defer eq_refl I). exact Hb.
  - rewrite (H (Err m) eq_refl I). exact Hb.
  - subst o. cbn [not_fuel] in Hn. rewrite (H (Panic m) eq_refl Hn). reflexivity.
Qed.

Lemma bind_not_fuel {A B} (x : outcome A) (k : A -> outcome B) :
  not_fuel (bind x k) -> not_fuel x.
Proof. destruct x; cbn; auto. Qed.

Lemma foldM_lift {A S} (g1 g2 : S -> A -> outcome S) : forall l,
  (forall s a o, In a l -> g1 s a = o -> not_fuel o -> g2 s a = o) ->
  forall s o, foldM g1 l s = o -> not_fuel o -> foldM g2 l s = o.
Proof.
  induction l as [|a l IH]; intros H s o Hf Hn; cbn [foldM] in *; [exact Hf|].
  assert (forall s a o, In a l -> g1 s a = o -> not_fuel o -> g2 s a = o) as H'
      by (intros; eapply H; eauto; now right).
  destruct (g1 s a) as [s'| |m|m] eqn:E; cbn [bind] in Hf.
  - rewrite (H s a _ (or_introl eq_refl) E I). cbn [bind]. now apply IH.
  - rewrite (H s a _ (or_introl eq_refl) E I). exact Hf.
  - rewrite (H s a _ (or_introl eq_refl) E I). exact Hf.
  - subst o. rewrite (H s a _ (or_introl eq_refl) E Hn). reflexivity.
Qed.

Lemma mapM_lift {A B} (f1 f2 : A -> outcome B) : forall l,
  (forall a o, In a l -> f1 a = o -> not_fuel o -> f2 a = o) ->
  forall o, mapM f1 l = o -> not_fuel o -> mapM f2 l = o.
Proof.
  induction l as [|a l IH]; intros H o Hm Hn; cbn [mapM] in *; [exact Hm|].
  assert (forall a o, In a l -> f1 a = o -> not_fuel o -> f2 a = o) as H'
      by (intros; eapply H; eauto; now right).
  destruct (f1 a) as [b| |m|m] eqn:E; cbn [bind] in Hm.
  - rewrite (H a _ (or_introl eq_refl) E I). cbn [bind].
    assert (not_fuel (mapM f1 l)) as Hn' by (subst o; eapply bind_not_fuel; eauto).
    now rewrite (IH H' _ eq_refl Hn').
  - rewrite (H a _ (or_introl eq_refl) E I). exact Hm.
  - rewrite (H a _ (or_introl eq_refl) E I). exact Hm.
  - subst o. rewrite (H a _ (or_introl eq_refl) E Hn). reflexivity.
Qed.

Lemma rnt_inv R r name td : region_name_and_typedef R r = Ok (Some (name, td)) ->
  exists p it rs, r_type r = TRaw p /\ reg_get R p = Some it /\ item_resolved it = Some rs /\
                  rs_inner rs = IType td.
Proof.
  unfold region_name_and_typedef. destruct (r_name r) as [n|]; [|discriminate].
  destruct (r_type r) as [p| | | |]; try discriminate.
  destruct (reg_get R p) as [it|] eqn:Eg; [|discriminate].
  destruct (item_resolved it) as [rs|] eqn:Er; [|discriminate].
  destruct (rs_inner rs) as [td'|] eqn:Ei; [|discriminate].
  intros H; inversion H; subst. exists p, it, rs. repeat split; auto.
Qed.

Section Local.
  Variable Q : path -> Prop.
  Variables R1 R2 : registry.

  (** the by-value base-class regions of a type lie in [Q] *)
  Definition basesQ (td : type_def) : Prop :=
    forall r p, In r (td_regions td) -> r_is_base r = true -> r_type r = TRaw p -> Q p.
  Definition itemQ (it : item) : Prop :=
    forall rs td, item_resolved it = Some rs -> rs_inner rs = IType td -> basesQ td.

  Hypothesis Hag : forall p, Q p -> reg_get R1 p = reg_get R2 p.
  Hypothesis Hcl : forall p it, Q p -> reg_get R1 p = Some it -> itemQ it.

  Lemma rnt_local r : (forall p, r_type r = TRaw p -> Q p) ->
    region_name_and_typedef R1 r = region_name_and_typedef R2 r.
  Proof.
    intros Hr. unfold region_name_and_typedef. destruct (r_name r); [|reflexivity].
    destruct (r_type r) as [p| | | |]; try reflexivity. now rewrite (Hag p (Hr p eq_refl)).
  Qed.

  Lemma dfs_local : forall f1 td fields f2 o, basesQ td -> f1 <= f2 ->
    dfs_hierarchy f1 R1 td fields = o -> not_fuel o -> dfs_hierarchy f2 R2 td fields = o.
  Proof.
    induction f1 as [|f1 IH]; intros td fields f2 o Hb Hle Hd Hn; cbn [dfs_hierarchy] in Hd.
    - subst o. exfalso. apply Hn. reflexivity.
    - destruct f2 as [|f2]; [lia|]. cbn [dfs_hierarchy].
      eapply foldM_lift; [|exact Hd|exact Hn].
      intros out r o' Hin Ho' Hn'. cbn beta in *.
      destruct (negb (r_is_base r)) eqn:Eb; [exact Ho'|]. apply negb_false_iff in Eb.
      rewrite <- (rnt_local r (fun p Hp => Hb r p Hin Eb Hp)).
      destruct (region_name_and_typedef R1 r) as [[[name btd]|]| | |] eqn:Er; cbn [bind] in *; try exact Ho'.
      destruct (rnt_inv _ _ _ _ Er) as (p & it & rs & Ht & Hg & Hr & Hi).
      assert (basesQ btd) as Hb' by (eapply Hcl; eauto).
      eapply bind_lift; [|exact Ho'|exact Hn'].
      intros ox Hox Hnx. eapply IH; eauto. lia.
  Qed.

  Lemma conversions_local f1 f2 name td o : basesQ td -> f1 <= f2 ->
    conversions R1 f1 name td = o -> not_fuel o -> conversions R2 f2 name td = o.
  Proof.
    intros Hb Hle Hc Hn. unfold conversions in *. eapply bind_lift; [|exact Hc|exact Hn].
    intros ox Hox Hnx. eapply dfs_local; eauto.
  Qed.

  Lemma build_type_local f1 f2 p size al v td o : basesQ td -> f1 <= f2 ->
    build_type R1 f1 p size al v td = o -> not_fuel o -> build_type R2 f2 p size al v td = o.
  Proof.
    intros Hb Hle Hc Hn. unfold build_type in *. destruct (path_last p) as [name|]; [|exact Hc].
    destruct (negb (ident_ok name)); [exact Hc|].
    destruct (mapM region_field (td_regions td)) as [fields| | |]; cbn [bind] in *; try exact Hc.
    destruct (negb (ident_ok _)); [exact Hc|].
    destruct (match td_vftable td with Some vt => _ | None => Ok [] end) as [acc| | |]; cbn [bind] in *; try exact Hc.
    destruct (mapM build_function _) as [assoc| | |]; cbn [bind] in *; try exact Hc.
    destruct (match td_vftable td with Some vt => _ | None => Ok [] end) as [vfns| | |]; cbn [bind] in *; try exact Hc.
    eapply bind_lift; [|exact Hc|exact Hn].
    intros ox Hox Hnx. eapply conversions_local; eauto.
  Qed.

  Lemma build_item_local f1 f2 it o : itemQ it -> f1 <= f2 ->
    build_item R1 f1 it = o -> not_fuel o -> build_item R2 f2 it = o.
  Proof.
    intros Hq Hle Hb Hn. unfold build_item in *. destruct (item_resolved it) as [rs|] eqn:Er; [|exact Hb].
    destruct (it_cat it); try exact Hb. destruct (rs_inner rs) as [td|ed] eqn:Ei; [|exact Hb].
    eapply build_type_local; eauto.
  Qed.
End Local.

(** with equal fuel and symmetric hypotheses: plain equality *)
Lemma build_item_local_eq (Q : path -> Prop) R1 R2 fuel it :
  (forall p, Q p -> reg_get R1 p = reg_get R2 p) ->
  (forall p it', Q p -> reg_get R1 p = Some it' -> itemQ Q it') ->
  itemQ Q it -> build_item R1 fuel it = build_item R2 fuel it.
Proof.
  intros Hag Hcl Hq.
  assert (forall p it', Q p -> reg_get R2 p = Some it' -> itemQ Q it') as Hcl2
      by (intros p it' Hp Hg; rewrite <- (Hag p Hp) in Hg; eauto).
  assert (forall p, Q p -> reg_get R2 p = reg_get R1 p) as Hag2 by (intros; symmetry; auto).
  destruct (build_item R1 fuel it) as [l| |m|m] eqn:E1.
  - symmetry. eapply (build_item_local Q R1 R2); eauto. exact I.
  - symmetry. eapply (build_item_local Q R1 R2); eauto. exact I.
  - symmetry. eapply (build_item_local Q R1 R2); eauto. exact I.
  - destruct (string_dec m fuel_msg) as [->|Hne].
    + destruct (build_item R2 fuel it) as [l2| |m2|m2] eqn:E2.
      * rewrite (build_item_local Q R2 R1 Hag2 Hcl2 fuel fuel it _ Hq (le_n _) E2 I) in E1. discriminate.
      * rewrite (build_item_local Q R2 R1 Hag2 Hcl2 fuel fuel it _ Hq (le_n _) E2 I) in E1. discriminate.
      * rewrite (build_item_local Q R2 R1 Hag2 Hcl2 fuel fuel it _ Hq (le_n _) E2 I) in E1. discriminate.
      * destruct (string_dec m2 fuel_msg) as [->|Hne2]; [reflexivity|].
        rewrite (build_item_local Q R2 R1 Hag2 Hcl2 fuel fuel it _ Hq (le_n _) E2 Hne2) in E1. now inversion E1.
    + symmetry. eapply (build_item_local Q R1 R2); eauto.
Qed.

(** ** a module's item list, and its file *)
From PyxisModel Require Import EmitLemmas WholeBuild SortUnique EmitInvariance.

Lemma module_definitions_local R1 R2 m1 m2 :
  keyed R1 -> (forall p, In p (m_defpaths m1) -> reg_get R1 p = reg_get R2 p) ->
  Permutation (m_defpaths m1) (m_defpaths m2) ->
  module_definitions R1 m1 = module_definitions R2 m2.
Proof.
  intros HK Hag HP.
  rewrite (module_definitions_same R1 R1 m1 m2 (fun p => eq_refl) HK HP).
  unfold module_definitions. f_equal. f_equal. apply map_ext_in. intros p Hp. apply Hag.
  eapply Permutation_in; [apply Permutation_sym; exact HP | exact Hp].
Qed.

Lemma in_module_definitions R m it : In it (module_definitions R m) ->
  exists p, In p (m_defpaths m) /\ reg_get R p = Some it.
Proof.
  intros H. apply (Permutation_in _ (module_definitions_perm R m)) in H.
  apply in_somes in H. apply in_map_iff in H as (p & Hg & Hp). eauto.
Qed.

(** the file of [m1] in state [s1] and of [m2] in state [s2] (a state with at least as many
    registry entries): same outcome, unless the first is the model's fuel panic *)
Lemma module_file_lift (Q : path -> Prop) s1 s2 m1 m2 o :
  (forall p, Q p -> reg_get (st_reg s1) p = reg_get (st_reg s2) p) ->
  (forall p it, Q p -> reg_get (st_reg s1) p = Some it -> itemQ Q it) ->
  (forall it, In it (module_definitions (st_reg s1) m1) -> itemQ Q it) ->
  module_definitions (st_reg s1) m1 = module_definitions (st_reg s2) m2 ->
  m_doc m1 = m_doc m2 -> m_backends m1 = m_backends m2 -> m_extern_values m1 = m_extern_values m2 ->
  List.length (reg_types (st_reg s1)) <= List.length (reg_types (st_reg s2)) ->
  module_file s1 m1 = o -> not_fuel o -> module_file s2 m2 = o.
Proof.
  intros Hag Hcl Hits Hdefs Hd Hb He Hlen H Hn. unfold module_file in *. cbn zeta in *.
  rewrite <- Hdefs, <- He, <- Hd.
  assert (prologue_text m2 = prologue_text m1) as -> by (unfold prologue_text, rust_blocks; now rewrite Hb).
  assert (epilogue_text m2 = epilogue_text m1) as -> by (unfold epilogue_text, rust_blocks; now rewrite Hb).
  eapply bind_lift; [|exact H|exact Hn].
  intros ox Hox Hnx. eapply mapM_lift; [|exact Hox|exact Hnx].
  intros it o' Hin Ho' Hn'.
  eapply (build_item_local Q (st_reg s1) (st_reg s2) Hag Hcl); [apply Hits; exact Hin | apply le_n_S; exact Hlen | exact Ho' | exact Hn'].
Qed.
