(** * EmitVftExamples: non-vacuity of EmitVftLayout.v.

    - the Reference's algorithm on pointer fields (closed instances of [struct_layout_fnptrs]);
    - the emitted [BaseVftable] of the input of Examples.v at pointer width 4 (the input is
      written for a 32-bit target and is rejected at width 8): layout computed
      from the emitted item, the registry's record of the generated item, the emitted size check;
      the function [g] declared with [#[index(3)]] is the field at byte offset [3 * ptr];
    - a second input with an EMPTY vftable block ([ZVftable]: no field, size 0, alignment = pointer
      width from [repr(C, align(ptr))] alone, no size check) and a block with [#[size(3)]] and one
      indexed function ([SVftable]: two placeholders);
    - the hypotheses of [emitted_vftable_layout_whole_build] hold on both inputs. *)
From Coq Require Import List String NArith ZArith Bool Permutation.
From PyxisModel Require Import Base Sexp Grammar SemTypes Registry Sem Emit Driver Examples RustLayout
     VftableLemmas WholeBuild OrderIndep EmitReaders EmitShape EmitFinal EmitLayout EmitShapeExamples
     EmitFnReaders EmitFnShape EmitFnFinal EmitFnExamples EmitVftLayout.
Import ListNotations.
Local Open Scope string_scope.
Local Open Scope list_scope.

(** ** Part 1: the algorithm *)
Example ex_layout_three_slots :
  struct_layout 8 (repeat (8, 8) 3)%N = ([0; 8; 16], 24, 8)%N /\
  struct_layout 4 (repeat (4, 4) 4)%N = ([0; 4; 8; 12], 16, 4)%N.
Proof. vm_compute. split; reflexivity. Qed.

(** no slot: size 0; the alignment comes from [align(ptr)] alone (without it: 1) *)
Example ex_layout_no_slot :
  struct_layout 8 []%N = ([], 0, 8)%N /\ struct_layout 1 [] = ([], 0, 1)%N.
Proof. vm_compute. split; reflexivity. Qed.

(** ** Part 2: [m::BaseVftable] ([f], two placeholders, [#[index(3)] g]) *)
Definition size_align_of (st : sstate) (p : path) : option (N * N) :=
  option_map (fun r => (rs_size r, rs_align r)) (resolved_of st p).

(** the layout computed from the emitted struct, with the (size, alignment) the final registry
    gives to the field types: slot k at k * 4; size 16; alignment 4 *)
Example ex_BaseVftable_layout_4 :
  bindo (ex_field_sas 4 ["m"; "BaseVftable"])
        (fun sas => bindo (ex_struct 4 "BaseVftable") (emitted_struct_layout sas)) =
  Some ([("f", 0); ("_vfunc_1", 4); ("_vfunc_2", 8); ("g", 12)], 16, 4)%N.
Proof. vm_compute. reflexivity. Qed.

(** every field type of the emitted struct is (ptr, ptr), and the attribute is [align(ptr)] *)
Example ex_BaseVftable_fields :
  ex_field_sas 4 ["m"; "BaseVftable"] = Some (repeat (4, 4) 4)%N /\
  bindo (ex_struct 4 "BaseVftable") struct_repr = Some (ReprAlign 4).
Proof. vm_compute. split; reflexivity. Qed.

(** the registry's record of the generated item: the same (size, alignment) *)
Example ex_BaseVftable_resolved :
  bindo (ex_state 4) (fun st => size_align_of st ["m"; "BaseVftable"]) = Some (16, 4)%N.
Proof. vm_compute. reflexivity. Qed.

(** the emitted size check of [BaseVftable] carries that size *)
Example ex_BaseVftable_size_check :
  option_map (fun items => filter (fun c => String.eqb (snd (fst (fst c))) "BaseVftable")
                                  (all_somes read_size_check items)) (ex_items 4)
  = Some [("_BaseVftable_size_check", "BaseVftable", 16, 16)%N].
Proof. vm_compute. reflexivity. Qed.

(** [slot_layout] (the value the theorems give) on the slot list of the final registry *)
Definition ex_slot_layout (ptr : N) (st : sstate) (p : path) : option (list (string * N)) :=
  bindo (resolved_of st p) (fun r =>
    match rs_inner r with
    | IType td => option_map (fun vt => slot_layout ptr (vt_functions vt)) (td_vftable td)
    | IEnum _ => None
    end).
Example ex_Base_slot_layout :
  bindo (ex_state 4) (fun st => ex_slot_layout 4 st ["m"; "Base"]) =
  Some [("f", 0); ("_vfunc_1", 4); ("_vfunc_2", 8); ("g", 12)]%N.
Proof. vm_compute. reflexivity. Qed.

(** the slot plan of the declared block: [f] (no index) at 0, [g] ([#[index(3)]]) at 3 *)
Example ex_Base_plan :
  slot_plan [None; Some 3%N] 0 = Some ([0; 3], 4)%N.
Proof. reflexivity. Qed.

(** ** Part 3: an empty table, and a table with [#[size(3)]]
<<
pub type Z { vftable {} }
pub type S { #[size(3)] vftable { #[index(1)] pub fn h(&self); } }
>> *)
Definition ex3_module_text : string := "(module (attrs) (uses) (extern_types) (extern_values) (defs (def pub ""Z"" (type (attrs) (vftable (attrs)))) (def pub ""S"" (type (attrs) (vftable (attrs (fn ""size"" (int 3))) (func (attrs (fn ""index"" (int 1))) pub ""h"" (args cself) none))))) (impls) (backends))".
Definition ex3_mods : list (path * gmodule) := [(["v"], module_of_text ex3_module_text)].
Definition ex3_state (ptr : N) : option sstate :=
  match pyxis_resolve (hook_schedule []) ptr ex3_mods with BOk st => Some st | _ => None end.
Definition ex3_items (ptr : N) : option (list sexp) :=
  bindo (ex3_state ptr) (fun st =>
    match write_all st with
    | Ok files => bindo (option_map snd (find (fun kf => String.eqb (fst kf) "v.rs") files)) file_items
    | _ => None
    end).
Definition ex3_struct (ptr : N) (name : string) : option sexp := bindo (ex3_items ptr) (find_struct name).
Definition ex3_sas (ptr : N) (p : path) : option (list sa) :=
  bindo (ex3_state ptr) (fun st =>
    bindo (resolved_of st p) (fun r =>
      match rs_inner r with
      | IType td => Some (map (type_sa (st_reg st)) (map r_type (td_regions td)))
      | IEnum _ => None
      end)).

Example ex3_structs :
  option_map (all_somes struct_name) (ex3_items 8) = Some ["S"; "SVftable"; "Z"; "ZVftable"].
Proof. vm_compute. reflexivity. Qed.

(** the empty table: no field, [repr(C, align(8))], size 0, alignment 8; the registry says the same;
    no size check is emitted for it *)
Example ex3_ZVftable :
  bindo (ex3_struct 8 "ZVftable") struct_fields = Some [] /\
  bindo (ex3_struct 8 "ZVftable") struct_repr = Some (ReprAlign 8) /\
  bindo (ex3_sas 8 ["v"; "ZVftable"]) (fun sas => bindo (ex3_struct 8 "ZVftable") (emitted_struct_layout sas))
  = Some ([], 0, 8)%N /\
  bindo (ex3_state 8) (fun st => size_align_of st ["v"; "ZVftable"]) = Some (0, 8)%N /\
  bindo (ex3_sas 4 ["v"; "ZVftable"]) (fun sas => bindo (ex3_struct 4 "ZVftable") (emitted_struct_layout sas))
  = Some ([], 0, 4)%N /\
  bindo (ex3_state 4) (fun st => size_align_of st ["v"; "ZVftable"]) = Some (0, 4)%N.
Proof. vm_compute. repeat split; reflexivity. Qed.

(** [SVftable]: three slots, [h] at index 1 = byte offset 8, placeholders around it *)
Example ex3_SVftable :
  bindo (ex3_sas 8 ["v"; "SVftable"]) (fun sas => bindo (ex3_struct 8 "SVftable") (emitted_struct_layout sas))
  = Some ([("_vfunc_0", 0); ("h", 8); ("_vfunc_2", 16)], 24, 8)%N /\
  bindo (ex3_state 8) (fun st => size_align_of st ["v"; "SVftable"]) = Some (24, 8)%N /\
  bindo (ex3_sas 4 ["v"; "SVftable"]) (fun sas => bindo (ex3_struct 4 "SVftable") (emitted_struct_layout sas))
  = Some ([("_vfunc_0", 0); ("h", 4); ("_vfunc_2", 8)], 12, 4)%N /\
  bindo (ex3_state 4) (fun st => size_align_of st ["v"; "SVftable"]) = Some (12, 4)%N.
Proof. vm_compute. repeat split; reflexivity. Qed.

Example ex3_size_checks :
  option_map (all_somes read_size_check) (ex3_items 8) =
  Some [("_S_size_check", "S", 8, 8); ("_SVftable_size_check", "SVftable", 24, 24);
        ("_Z_size_check", "Z", 8, 8)]%N.
Proof. vm_compute. reflexivity. Qed.

(** ** the hypotheses of [emitted_vftable_layout_whole_build] (and of its corollaries) are met:
    a closed boolean check of every hypothesis that mentions the input, for the type [p] of module
    [[mname]] of [mods] at pointer width [ptr]; [want] is the expected [map fn_index gfs] *)
Definition vft_hyps_check (ptr : N) (mods : list (path * gmodule)) (mname : string) (p : path)
           (want : list (option (option N))) : bool :=
  match input_state ptr mods, pyxis_resolve (hook_schedule []) ptr mods with
  | Ok st0, BOk st =>
    collision_freeb (st_reg st0) && is_ok (write_all st) &&
    match path_parent p with Some parent => path_eqb parent [mname] | None => false end &&
    match alookup [mname] (st_modules st0) with Some _ => true | None => false end &&
    match reg_get (st_reg st0) p, reg_get (st_reg st) p with
    | Some it0, Some it =>
      match it_state it0, it_state it with
      | Unresolved gd, Resolved _ =>
        match gi_inner gd with
        | GIType td0 =>
          match gt_stmts td0 with
          | stm :: _ =>
            match gs_field stm with
            | GVftable gfs =>
              Nat.eqb (List.length gfs) (List.length want) &&
              forallb (fun x => match fst x, snd x with
                                | Some None, Some None => true
                                | Some (Some a), Some (Some b) => N.eqb a b
                                | _, _ => false
                                end) (combine (map fn_index gfs) want)
            | _ => false
            end
          | [] => false
          end
        | GIEnum _ => false
        end
      | _, _ => false
      end
    | _, _ => false
    end
  | _, _ => false
  end.

(** [m::Base] (two declared functions, the second with [#[index(3)]]) at width 4; [v::Z] (empty
    block) and [v::S] (one function with [#[index(1)]]) at widths 4 and 8 *)
Example ex_vft_hypotheses :
  vft_hyps_check 4 ex_mods "m" ["m"; "Base"] [Some None; Some (Some 3%N)] = true /\
  vft_hyps_check 8 ex3_mods "v" ["v"; "Z"] [] = true /\
  vft_hyps_check 4 ex3_mods "v" ["v"; "Z"] [] = true /\
  vft_hyps_check 8 ex3_mods "v" ["v"; "S"] [Some (Some 1%N)] = true /\
  vft_hyps_check 4 ex3_mods "v" ["v"; "S"] [Some (Some 1%N)] = true.
Proof. vm_compute. repeat split; reflexivity. Qed.

(** the check is sound: it gives the hypotheses of the theorems, as propositions *)
Lemma vft_hyps_check_sound ptr mods mname p want :
  vft_hyps_check ptr mods mname p want = true ->
  exists st0 st files it0 gd td0 it r stm rest gfs,
    input_state ptr mods = Ok st0 /\ collision_free (st_reg st0) /\
    pyxis_resolve (hook_schedule []) ptr mods = BOk st /\ write_all st = Ok files /\
    reg_get (st_reg st0) p = Some it0 /\ it_state it0 = Unresolved gd /\ gi_inner gd = GIType td0 /\
    reg_get (st_reg st) p = Some it /\ it_state it = Resolved r /\
    path_parent p = Some [mname] /\ [mname] <> ([] : path) /\
    alookup [mname] (st_modules st0) <> None /\
    gt_stmts td0 = stm :: rest /\ gs_field stm = GVftable gfs.
Proof.
  unfold vft_hyps_check. intros H.
  destruct (input_state ptr mods) as [st0| | |] eqn:Ein; try discriminate.
  destruct (pyxis_resolve (hook_schedule []) ptr mods) as [st| | | |] eqn:Eres; try discriminate.
  apply andb_prop in H as [H H5]. apply andb_prop in H as [H H4]. apply andb_prop in H as [H H3].
  apply andb_prop in H as [H1 H2].
  destruct (write_all st) as [files| | |] eqn:Ew; try discriminate.
  destruct (path_parent p) as [parent|] eqn:Epar; [|discriminate].
  destruct (path_eqb_spec parent [mname]) as [->|]; [|discriminate].
  destruct (alookup [mname] (st_modules st0)) as [m0|] eqn:Em; [|discriminate].
  destruct (reg_get (st_reg st0) p) as [it0|] eqn:Eg0; [|discriminate].
  destruct (reg_get (st_reg st) p) as [it|] eqn:Eg; [|discriminate].
  destruct (it_state it0) as [gd|] eqn:Es0; [|discriminate].
  destruct (it_state it) as [|r] eqn:Es; [discriminate|].
  destruct (gi_inner gd) as [td0|] eqn:Ety; [|discriminate].
  destruct (gt_stmts td0) as [|stm rest] eqn:Est; [discriminate|].
  destruct (gs_field stm) eqn:Ef; try discriminate.
  eexists st0, st, files, it0, gd, td0, it, r, stm, rest, _.
  split; [reflexivity|]. split; [now apply collision_freeb_sound|].
  repeat (split; [reflexivity || eassumption|]).
  split; [discriminate|]. split; [rewrite Em; discriminate|]. split; [exact Est | exact Ef].
Qed.

(** the theorems applied to [m::Base]: there IS an accepted build with written files for which the
    conclusion of [emitted_vftable_size_align_whole_build] holds *)
Example ex_vft_theorem_applied :
  exists st files tname vp vit rs fs file items s noffs,
    pyxis_resolve (hook_schedule []) 4 ex_mods = BOk st /\ write_all st = Ok files /\
    path_last ["m"; "Base"] = Some tname /\ vftable_path ["m"; "Base"] = Some vp /\
    reg_get (st_reg st) vp = Some vit /\ item_resolved vit = Some rs /\
    In (out_path ["m"], file) files /\ file_items file = Some items /\
    find_struct (tname +++ "Vftable") items = Some s /\
    emitted_struct_layout (map (type_sa (st_reg st)) (slot_types ["m"; "Base"] fs)) s
    = Some (noffs, rs_size rs, rs_align rs) /\
    rs_size rs = (N.of_nat (List.length fs) * 4)%N /\ rs_align rs = 4%N.
Proof.
  destruct (vft_hyps_check_sound _ _ _ _ _ (proj1 ex_vft_hypotheses))
    as (st0 & st & files & it0 & gd & td0 & it & r & stm & rest & gfs &
        Hin & Hcf & Hres & Hw & Hg0 & Hs0 & Hty & Hg & Hs & Hpar & Hne & Hm0 & Hst & Hfld).
  destruct (emitted_vftable_size_align_whole_build _ _ _ _ _ _ _ _ _ _ _ _ _ _ _ _
              Hin Hcf Hres Hw Hg0 Hs0 Hty Hg Hs Hpar Hne Hm0 Hst Hfld)
    as (tname & vp & vit & rs & fs & file & items & s & noffs &
        A1 & A2 & A3 & A4 & A5 & A6 & A7 & A8 & _ & _ & A9 & A10 & _).
  exists st, files, tname, vp, vit, rs, fs, file, items, s, noffs.
  repeat (split; [assumption|]). assumption.
Qed.

Print Assumptions vft_hyps_check_sound.
Print Assumptions ex_vft_theorem_applied.
