(** * Frame lemmas (C19): one attempt reads the registry only at lookup candidates.

    Two registries that agree (same item, or both absent) on a set [P] of paths give the same
    result for every registry read whose paths lie in [P].  [P] is abstract here; Unrelated.v
    instantiates it with the lookup candidates of the smaller of two inputs.  Unlike Monotone.v
    (one input registry, two states, "does not defer => same result") these are plain equalities
    between the two runs, and the two states may come from DIFFERENT input registries. *)
From Coq Require Import List NArith ZArith Bool Lia ZifyBool ZifyN String Ascii.
From PyxisModel Require Import Base Grammar SemTypes Registry Sem RustLayout LayoutLemmas SemLemmas
     PlacementLemmas ScopeLemmas VftableLemmas TotalityLemmas WholeBuild Monotone.
Import ListNotations.
Local Open Scope string_scope.
Local Open Scope list_scope.
Local Open Scope N_scope.

(** ** the names a description mentions *)
Fixpoint gtype_names (t : gtype) : list string :=
  match t with
  | GIdent s => [s]
  | GConstPtr t' | GMutPtr t' | GArray t' _ => gtype_names t'
  | GUnknown _ => []
  end.
Definition arg_names (a : garg) : list string :=
  match a with GNamed _ t => gtype_names t | _ => [] end.
Definition fn_names (f : gfunction) : list string :=
  flat_map arg_names (gf_args f) ++ match gf_ret f with Some t => gtype_names t | None => [] end.
Definition stmt_names (s : gstatement) : list string :=
  match gs_field s with GField _ _ t => gtype_names t | GVftable fs => flat_map fn_names fs end.
Definition def_names (gd : gitemdef) : list string :=
  match gi_inner gd with
  | GIType td => flat_map stmt_names (gt_stmts td)
  | GIEnum ed => gtype_names (ged_type ed)
  end.
Definition impl_names (m : smodule) (p : path) : list string :=
  match alookup p (m_impls m) with Some blk => flat_map fn_names (gb_fns blk) | None => [] end.

(** the scope paths that are modules (not types) in [R], and the candidates of a name *)
Definition scope_mods (R : registry) (scope : list path) : list path :=
  filter (fun p => negb (reg_has R p)) scope.
Definition name_cands (R : registry) (scope : list path) (name : string) : list path :=
  map (fun ip => path_join ip name) ([] :: scope_mods R scope).

(** the module table of two states at one key *)
Definition magree (k : path) (ms ms' : list (path * smodule)) : Prop :=
  match alookup k ms, alookup k ms' with
  | Some m, Some m' => mod_eq m m'
  | None, None => True
  | _, _ => False
  end.

Lemma vftable_path_parent owner vp : vftable_path owner = Some vp -> path_parent vp = path_parent owner.
Proof.
  intros H. apply vftable_path_some in H as [Hne ->]. unfold path_parent.
  destruct owner as [|o owner']; [congruence|].
  destruct (removelast (o :: owner') ++ [last (o :: owner') "" +++ "Vftable"]) eqn:E.
  - destruct (removelast (o :: owner')); discriminate.
  - rewrite <- E, removelast_last. reflexivity.
Qed.

Section Frame.
  Variable P : path -> Prop.
  Hypothesis Hu8 : P ["u8"].

  Definition ragree (R R' : registry) : Prop :=
    reg_ptr R = reg_ptr R' /\ forall c, P c -> reg_get R c = reg_get R' c.

  Lemma ragree_has R R' c : ragree R R' -> P c -> reg_has R c = reg_has R' c.
  Proof.
    intros [_ H] Hc. unfold reg_has, amem. fold (reg_get R c). fold (reg_get R' c). now rewrite (H c Hc).
  Qed.

  Lemma ragree_add R R' it : ragree R R' -> ragree (reg_add R it) (reg_add R' it).
  Proof.
    intros [Hp H]. split; [exact Hp|]. intros c Hc.
    destruct (path_eqb_spec (it_path it) c) as [<-|Hne].
    - now rewrite !reg_get_add_same.
    - rewrite !reg_get_add_other by exact Hne. auto.
  Qed.

  (** by-value positions of a resolved type lie in [P] *)
  Fixpoint tyP (t : stype) : Prop :=
    match t with
    | TRaw p => P p
    | TArray t' _ => tyP t'
    | _ => True
    end.
  Definition rtyP (r : region) : Prop := tyP (r_type r).

  Lemma size_frame R R' : ragree R R' -> forall t, tyP t -> size_of R t = size_of R' t.
  Proof.
    intros [Hp H]. induction t as [p|t IH|t IH|t IH n|c args ret]; intros Ht; cbn [size_of tyP] in *;
      try (now rewrite Hp).
    - now rewrite (H p Ht).
    - now rewrite (IH Ht).
  Qed.

  Lemma align_frame R R' : ragree R R' -> forall t, tyP t -> align_of R t = align_of R' t.
  Proof.
    intros [Hp H]. induction t as [p|t IH|t IH|t IH n|c args ret]; intros Ht; cbn [align_of tyP] in *;
      try (now rewrite Hp).
    - now rewrite (H p Ht).
    - now apply IH.
  Qed.

  Lemma rtyP_padding n : rtyP (unnamed_region (padding_type n)).
  Proof. exact Hu8. Qed.

  Lemma regions_push_frame R R' acc r : ragree R R' -> rtyP r ->
    regions_push R acc r = regions_push R' acc r.
  Proof. intros Ha Hr. unfold regions_push. now rewrite (size_frame _ _ Ha _ Hr). Qed.

  Lemma push_pending_frame R R' acc p : ragree R R' -> rtyP (snd p) ->
    push_pending R acc p = push_pending R' acc p.
  Proof.
    intros Ha Hr. unfold push_pending. destruct (fst p) as [off|].
    - destruct (off <? snd acc); [reflexivity|].
      rewrite (regions_push_frame R R' acc _ Ha (rtyP_padding (off - snd acc))).
      destruct (defer_opt _) as [acc1| | |]; cbn [bind]; try reflexivity.
      now rewrite (regions_push_frame _ _ acc1 _ Ha Hr).
    - cbn [bind]. now rewrite (regions_push_frame _ _ acc _ Ha Hr).
  Qed.

  Lemma name_regions_frame R R' : ragree R R' -> forall rs s0, Forall rtyP rs ->
    name_regions R rs s0 = name_regions R' rs s0.
  Proof.
    intros Ha. induction rs as [|r rs IH]; intros s0 Hf; cbn [name_regions]; [reflexivity|].
    apply Forall_cons_iff in Hf as [Hr Hrs]. rewrite (size_frame _ _ Ha _ Hr).
    destruct (size_of R' (r_type r)); [|reflexivity]. now rewrite IH.
  Qed.

  Lemma rnt_frame R R' r : ragree R R' -> rtyP r ->
    region_name_and_typedef R r = region_name_and_typedef R' r.
  Proof.
    intros [_ H] Hr. unfold region_name_and_typedef. destruct (r_name r); [|reflexivity].
    unfold rtyP in Hr. destruct (r_type r); try reflexivity. cbn [tyP] in Hr. now rewrite (H _ Hr).
  Qed.

  Lemma opt_rnv_frame R R' fb : ragree R R' -> (forall b, fb = Some b -> rtyP b) ->
    opt_region_name_and_vftable R fb = opt_region_name_and_vftable R' fb.
  Proof.
    intros Ha Hfb. unfold opt_region_name_and_vftable. destruct fb as [b|]; [|reflexivity].
    now rewrite (rnt_frame _ _ _ Ha (Hfb b eq_refl)).
  Qed.

  Lemma fbu_frame R R' fb : ragree R R' -> (forall b, fb = Some b -> rtyP b) ->
    first_base_unresolved R fb = first_base_unresolved R' fb.
  Proof.
    intros [_ H] Hfb. unfold first_base_unresolved. destruct fb as [b|]; [|reflexivity].
    pose proof (Hfb b eq_refl) as Hb. unfold rtyP in Hb. destruct (r_type b); try reflexivity.
    cbn [tyP] in Hb. now rewrite (H _ Hb).
  Qed.

  Lemma inject_bases_frame R R' : ragree R R' -> forall bases i acc, Forall rtyP bases ->
    inject_bases R bases i acc = inject_bases R' bases i acc.
  Proof.
    intros Ha. induction bases as [|b bases IH]; intros i acc H; cbn [inject_bases]; [reflexivity|].
    apply Forall_cons_iff in H as [Hb Hbs]. rewrite (rnt_frame _ _ _ Ha Hb).
    destruct (region_name_and_typedef R' b) as [[[bn td]|]| | |]; cbn [bind]; auto.
  Qed.

  Lemma defaultable_path_P : forall t p, defaultable_path t = Some p -> tyP t -> P p.
  Proof.
    induction t as [q|t IH|t IH|t IH n|c args ret]; intros p Hd Ht; cbn [defaultable_path tyP] in *;
      try discriminate.
    - now inversion Hd; subst.
    - eauto.
  Qed.

  Lemma check_defaultable_frame R R' r : ragree R R' -> rtyP r ->
    check_defaultable R r = check_defaultable R' r.
  Proof.
    intros [_ H] Hr. unfold check_defaultable. destruct (defaultable_path (r_type r)) as [p|] eqn:Ed; [|reflexivity].
    now rewrite (H _ (defaultable_path_P _ _ Ed Hr)).
  Qed.

  Lemma check_defaultable_fold_frame R R' : ragree R R' -> forall regions u, Forall rtyP regions ->
    foldM (fun _ r => check_defaultable R r) regions u = foldM (fun _ r => check_defaultable R' r) regions u.
  Proof.
    intros Ha regions u H. apply foldM_ext_in. intros r s Hin. apply check_defaultable_frame; [exact Ha|].
    rewrite Forall_forall in H. auto.
  Qed.

  Lemma check_fields_aligned_frame R R' : ragree R R' -> forall rs cur, Forall rtyP rs ->
    check_fields_aligned R rs cur = check_fields_aligned R' rs cur.
  Proof.
    intros Ha. induction rs as [|r rs IH]; intros cur H; cbn [check_fields_aligned]; [reflexivity|].
    apply Forall_cons_iff in H as [Hr Hrs].
    rewrite (size_frame _ _ Ha _ Hr), (align_frame _ _ Ha _ Hr).
    destruct (align_of R' (r_type r)); [|reflexivity]. destruct (size_of R' (r_type r)); [|reflexivity].
    destruct (_ || _); [reflexivity|]. auto.
  Qed.

  Lemma flat_aligns_frame R R' : ragree R R' -> forall rs, Forall rtyP rs -> flat_aligns R rs = flat_aligns R' rs.
  Proof.
    intros Ha. induction rs as [|r rs IH]; intros H; cbn [flat_aligns]; [reflexivity|].
    apply Forall_cons_iff in H as [Hr Hrs]. rewrite (align_frame _ _ Ha _ Hr). now rewrite IH.
  Qed.

  Lemma compute_alignment_frame R R' ta regions size : ragree R R' -> Forall rtyP regions ->
    compute_alignment R ta regions size = compute_alignment R' ta regions size.
  Proof.
    intros Ha H. unfold compute_alignment.
    rewrite (flat_aligns_frame _ _ Ha _ H), (check_fields_aligned_frame _ _ Ha _ _ H).
    destruct Ha as [Hp Hg]. rewrite <- Hp.
    assert (match regions with
            | [r] => match align_of R (r_type r) with Some a => a | None => reg_ptr R end
            | _ => reg_ptr R end =
            match regions with
            | [r] => match align_of R' (r_type r) with Some a => a | None => reg_ptr R end
            | _ => reg_ptr R end) as ->; [|reflexivity].
    destruct regions as [|r [|r2 rest]]; try reflexivity.
    apply Forall_cons_iff in H as [Hr _]. now rewrite (align_frame R R' (conj Hp Hg) _ Hr).
  Qed.

  (** *** the regions that come out of [resolve_regions] keep their by-value paths in [P] *)
  Lemma regions_push_rtyP R acc r acc' : Forall rtyP (fst acc) -> rtyP r ->
    regions_push R acc r = Some acc' -> Forall rtyP (fst acc').
  Proof.
    unfold regions_push. intros Ha Hr. destruct (size_of R (r_type r)); [|discriminate].
    destruct (_ && _); [intros H; now inversion H; subst|].
    destruct (checked_add _ _); [|discriminate]. intros H; inversion H; subst. cbn [fst].
    apply Forall_app. split; [exact Ha | constructor; [exact Hr | constructor]].
  Qed.

  Lemma push_pending_rtyP R acc p acc' : Forall rtyP (fst acc) -> rtyP (snd p) ->
    push_pending R acc p = Ok acc' -> Forall rtyP (fst acc').
  Proof.
    unfold push_pending. intros Ha Hr H. inv_bind H. apply defer_opt_ok in H.
    eapply regions_push_rtyP; [| exact Hr | exact H].
    destruct (fst p) as [off|]; [|now inversion Ha0; subst].
    destruct (off <? snd acc); [discriminate|]. apply defer_opt_ok in Ha0.
    eapply regions_push_rtyP; [exact Ha | | exact Ha0]. apply rtyP_padding.
  Qed.

  Lemma push_all_rtyP R : forall pending acc acc', Forall rtyP (fst acc) ->
    Forall (fun p => rtyP (snd p)) pending ->
    foldM (push_pending R) pending acc = Ok acc' -> Forall rtyP (fst acc').
  Proof.
    induction pending as [|p pending IH]; intros acc acc' Ha Hp H; cbn [foldM] in H; [now inversion H; subst|].
    apply Forall_cons_iff in Hp as [Hp1 Hp2]. inv_bind H. eapply IH; [| exact Hp2 | exact H].
    eapply push_pending_rtyP; eauto.
  Qed.

  Lemma name_regions_rtyP R : forall rs s0 rs' s, Forall rtyP rs ->
    name_regions R rs s0 = Ok (rs', s) -> Forall rtyP rs'.
  Proof.
    induction rs as [|r rs IH]; intros s0 rs' s Hb H; cbn [name_regions] in H; [inversion H; constructor|].
    apply Forall_cons_iff in Hb as [Hr Hrs]. destruct (size_of R (r_type r)); [|discriminate].
    inv_bind H. destruct a as [rest s1]. inversion H; subst. constructor; [|eapply IH; eauto].
    destruct (r_name r); exact Hr.
  Qed.

  (** *** the state-changing part *)
  Lemma add_item_frame st st' it :
    ragree (st_reg st) (st_reg st') ->
    (forall parent, path_parent (it_path it) = Some parent -> magree parent (st_modules st) (st_modules st')) ->
    match add_item st it, add_item st' it with
    | Ok s1, Ok s1' => ragree (st_reg s1) (st_reg s1')
    | Err m, Err m' => m = m'
    | _, _ => False
    end.
  Proof.
    intros Ha Hm. unfold add_item. destruct (path_parent (it_path it)) as [parent|]; [|reflexivity].
    specialize (Hm parent eq_refl). unfold magree in Hm.
    destruct (alookup parent (st_modules st)) as [m|], (alookup parent (st_modules st')) as [m'|];
      try contradiction; [|reflexivity].
    cbn [st_reg]. now apply ragree_add.
  Qed.

  Definition vb_rel (x x' : outcome (sstate * option tvftable * option region)) : Prop :=
    match x, x' with
    | Ok (s1, vt, vr), Ok (s1', vt', vr') => vt = vt' /\ vr = vr' /\ ragree (st_reg s1) (st_reg s1')
    | Defer, Defer => True
    | Err m, Err m' => m = m'
    | Panic m, Panic m' => m = m'
    | _, _ => False
    end.

  Lemma vftable_build_frame st st' owner v fb vfs :
    ragree (st_reg st) (st_reg st') ->
    (forall parent, path_parent owner = Some parent -> magree parent (st_modules st) (st_modules st')) ->
    (forall b, fb = Some b -> rtyP b) ->
    vb_rel (vftable_build st owner v fb vfs) (vftable_build st' owner v fb vfs).
  Proof.
    intros Ha Hm Hfb. unfold vftable_build. destruct vfs as [fs|].
    - assert (vftable_item (st_reg st') owner v fs = vftable_item (st_reg st) owner v fs) as ->.
      { unfold vftable_item. destruct Ha as [Hp _]. now rewrite Hp. }
      destruct (vftable_item (st_reg st) owner v fs) as [vit|] eqn:Ei.
      2:{ cbn [vb_rel]. auto. }
      destruct (vftable_item_facts _ _ _ _ _ Ei) as (Hvp & _).
      pose proof (add_item_frame st st' vit Ha) as Hadd.
      rewrite (vftable_path_parent _ _ Hvp) in Hadd. specialize (Hadd Hm).
      destruct (add_item st vit) as [s1| |m|m], (add_item st' vit) as [s1'| |m'|m']; try contradiction;
        cbn [bind vb_rel]; [|exact Hadd].
      rewrite (opt_rnv_frame _ _ fb Hadd Hfb).
      destruct (opt_region_name_and_vftable (st_reg s1') fb) as [[[bn bv]|]| | |]; cbn [bind vb_rel]; auto.
      destruct (_ <? _)%nat; [reflexivity|]. destruct (negb _); [reflexivity|]. cbn [vb_rel]. auto.
    - rewrite (opt_rnv_frame _ _ fb Ha Hfb).
      destruct (opt_region_name_and_vftable (st_reg st') fb) as [[[bn bv]|]| | |]; cbn [bind vb_rel]; auto.
  Qed.

  Lemma vftable_build_vr_rtyP st owner v fb vfs st1 vt vr :
    vftable_build st owner v fb vfs = Ok (st1, vt, Some vr) -> rtyP vr.
  Proof.
    intros H. destruct (vftable_build_region _ _ _ _ _ _ _ _ H) as (ty & -> & _). exact I.
  Qed.

  Definition rr_rel (x x' : outcome (sstate * list region * option tvftable * N)) : Prop :=
    match x, x' with
    | Ok (s1, regions, vt, size), Ok (s1', regions', vt', size') =>
        regions = regions' /\ vt = vt' /\ size = size' /\ ragree (st_reg s1) (st_reg s1') /\
        Forall rtyP regions
    | Defer, Defer => True
    | Err m, Err m' => m = m'
    | Panic m, Panic m' => m = m'
    | _, _ => False
    end.

  Lemma resolve_regions_frame st st' owner v ts pending vfs :
    ragree (st_reg st) (st_reg st') ->
    (forall parent, path_parent owner = Some parent -> magree parent (st_modules st) (st_modules st')) ->
    Forall (fun p => rtyP (snd p)) pending ->
    rr_rel (resolve_regions st owner v ts pending vfs) (resolve_regions st' owner v ts pending vfs).
  Proof.
    intros Ha Hm Hpend. unfold resolve_regions.
    set (fb := find r_is_base (map snd pending)).
    assert (forall b, fb = Some b -> rtyP b) as Hfb.
    { intros b Eb. subst fb. apply find_some in Eb as [Hin _]. apply in_map_iff in Hin as (p & <- & Hin).
      rewrite Forall_forall in Hpend. auto. }
    rewrite (fbu_frame _ _ fb Ha Hfb).
    destruct (first_base_unresolved (st_reg st') fb); [exact I|].
    pose proof (vftable_build_frame st st' owner v fb vfs Ha Hm Hfb) as Hvb.
    destruct (vftable_build st owner v fb vfs) as [[[s1 vt] vr]| |m|m] eqn:Ev,
             (vftable_build st' owner v fb vfs) as [[[s1' vt'] vr']| |m'|m'] eqn:Ev';
      cbn [vb_rel] in Hvb; try contradiction; cbn [bind rr_rel]; try exact Hvb.
    destruct Hvb as (<- & <- & Hag). set (R := st_reg s1). set (R' := st_reg s1'). fold R R' in Hag.
    (* the vftable pointer region *)
    assert (match vr with Some vr0 => defer_opt (regions_push R ([], 0) vr0) | None => Ok ([], 0) end =
            match vr with Some vr0 => defer_opt (regions_push R' ([], 0) vr0) | None => Ok ([], 0) end) as ->.
    { destruct vr as [vr0|]; [|reflexivity].
      now rewrite (regions_push_frame R R' _ _ Hag (vftable_build_vr_rtyP _ _ _ _ _ _ _ _ Ev)). }
    destruct (match vr with Some vr0 => defer_opt (regions_push R' ([], 0) vr0) | None => Ok ([], 0) end)
      as [acc0| |m|m] eqn:E0; cbn [bind rr_rel]; try exact I; try reflexivity.
    assert (Forall rtyP (fst acc0)) as Hacc0.
    { destruct vr as [vr0|]; [|inversion E0; constructor]. apply defer_opt_ok in E0.
      eapply (regions_push_rtyP R' ([], 0)); [constructor | | exact E0].
      eapply vftable_build_vr_rtyP; eauto. }
    (* the declared fields *)
    assert (foldM (push_pending R) pending acc0 = foldM (push_pending R') pending acc0) as ->.
    { apply foldM_ext_in. intros p s Hin. apply push_pending_frame; [exact Hag|].
      rewrite Forall_forall in Hpend. auto. }
    destruct (foldM (push_pending R') pending acc0) as [acc1| |m|m] eqn:E1; cbn [bind rr_rel];
      try exact I; try reflexivity.
    pose proof (push_all_rtyP R' _ _ _ Hacc0 Hpend E1) as Hacc1.
    (* padding up to the declared size *)
    assert (match ts with
            | Some t => if snd acc1 <? t
                        then defer_opt (regions_push R acc1 (unnamed_region (padding_type (t - snd acc1))))
                        else Ok acc1
            | None => Ok acc1 end =
            match ts with
            | Some t => if snd acc1 <? t
                        then defer_opt (regions_push R' acc1 (unnamed_region (padding_type (t - snd acc1))))
                        else Ok acc1
            | None => Ok acc1 end) as ->.
    { destruct ts as [t|]; [|reflexivity]. destruct (snd acc1 <? t); [|reflexivity].
      now rewrite (regions_push_frame R R' acc1 _ Hag (rtyP_padding _)). }
    destruct (match ts with
              | Some t => if snd acc1 <? t
                          then defer_opt (regions_push R' acc1 (unnamed_region (padding_type (t - snd acc1))))
                          else Ok acc1
              | None => Ok acc1 end) as [acc2| |m|m] eqn:E2; cbn [bind rr_rel]; try exact I; try reflexivity.
    assert (Forall rtyP (fst acc2)) as Hacc2.
    { destruct ts as [t|]; [|inversion E2; subst; exact Hacc1].
      destruct (snd acc1 <? t); [|inversion E2; subst; exact Hacc1].
      apply defer_opt_ok in E2. eapply regions_push_rtyP; [exact Hacc1 | apply rtyP_padding | exact E2]. }
    (* naming *)
    rewrite (name_regions_frame R R' Hag _ _ Hacc2).
    destruct (name_regions R' (fst acc2) 0) as [[nrs nsz]| |m|m] eqn:E3; cbn [bind rr_rel fst snd];
      try exact I; try reflexivity.
    pose proof (name_regions_rtyP R' _ _ _ _ Hacc2 E3) as Hnamed.
    destruct ts as [t|].
    - destruct (negb (nsz =? t)); cbn [rr_rel]; [reflexivity|].
      split; [reflexivity|]. split; [reflexivity|]. split; [reflexivity|]. split; [exact Hag | exact Hnamed].
    - cbn [rr_rel].
      split; [reflexivity|]. split; [reflexivity|]. split; [reflexivity|]. split; [exact Hag | exact Hnamed].
  Qed.

  (** the registry after the regions are resolved has the keys of the one before, plus possibly
      the generated vftable path of the owner *)
  Lemma resolve_regions_has st owner v ts pending vfs st1 regions vt size c :
    resolve_regions st owner v ts pending vfs = Ok (st1, regions, vt, size) ->
    vftable_path owner <> Some c -> reg_has (st_reg st1) c = reg_has (st_reg st) c.
  Proof.
    intros H Hc. destruct (resolve_regions_step _ _ _ _ _ _ _ _ _ _ H) as [->|(fs & vit & _ & Hvi & Hadd)]; [reflexivity|].
    rewrite (add_item_reg _ _ _ Hadd). destruct (vftable_item_facts _ _ _ _ _ Hvi) as (Hvp & _).
    unfold reg_has, amem. fold (reg_get (reg_add (st_reg st) vit) c). fold (reg_get (st_reg st) c).
    rewrite reg_get_add_other; [reflexivity|]. intros E. apply Hc. now rewrite <- E.
  Qed.

  (** ** lookups: what a name resolves to, in a fixed scope *)
  Section Scope.
    Variable scope smods : list path.
    Hypothesis Hscope : forall c, In c scope -> P c.

    Definition nameP (name : string) : Prop := forall ip, In ip ([] :: smods) -> P (path_join ip name).
    Definition namesP (names : list string) : Prop := forall n, In n names -> nameP n.
    Definition sm_ok (R : registry) : Prop := scope_mods R scope = smods.

    Lemma namesP_app a b : namesP (a ++ b) <-> namesP a /\ namesP b.
    Proof.
      unfold namesP. split.
      - intros H. split; intros n Hn; apply H; apply in_or_app; auto.
      - intros [Ha Hb] n Hn. apply in_app_or in Hn as [Hn|Hn]; auto.
    Qed.

    Lemma namesP_flat_map {A} (f : A -> list string) l x : namesP (flat_map f l) -> In x l -> namesP (f x).
    Proof. intros H Hx n Hn. apply H. apply in_flat_map. eauto. Qed.

    Lemma sm_ok_frame R R' : ragree R R' -> sm_ok R -> sm_ok R'.
    Proof.
      intros Ha Hs. unfold sm_ok, scope_mods in *. rewrite <- Hs. apply filter_ext_in. intros c Hc. f_equal.
      symmetry. apply ragree_has; auto.
    Qed.

    Lemma resolve_string_frame R R' name : ragree R R' -> sm_ok R -> nameP name ->
      resolve_string R scope name = resolve_string R' scope name.
    Proof.
      intros Ha Hs Hn. pose proof (sm_ok_frame _ _ Ha Hs) as Hs'. unfold resolve_string.
      unfold sm_ok, scope_mods in Hs, Hs'. rewrite Hs, Hs'.
      assert (filter (reg_has R) scope = filter (reg_has R') scope) as ->.
      { apply filter_ext_in. intros c Hc. apply ragree_has; auto. }
      destruct (find (last_is name) (rev (filter (reg_has R') scope))); [reflexivity|]. f_equal.
      unfold nameP in Hn. revert Hn. generalize ([] :: smods). intros l.
      induction l as [|ip l IH]; intros Hn; cbn [map find]; [reflexivity|].
      rewrite (ragree_has R R' _ Ha (Hn ip (or_introl eq_refl))).
      destruct (reg_has R' _); [reflexivity|]. apply IH. intros; apply Hn; now right.
    Qed.

    Lemma resolve_string_P R name p : sm_ok R -> nameP name ->
      resolve_string R scope name = Some (TRaw p) -> P p.
    Proof.
      intros Hs Hn. unfold resolve_string. unfold sm_ok, scope_mods in Hs. rewrite Hs.
      destruct (find (last_is name) (rev (filter (reg_has R) scope))) as [q|] eqn:E.
      - intros H; inversion H; subst. apply find_some in E as [Hin _].
        apply in_rev, filter_In in Hin. apply Hscope. tauto.
      - destruct (find (reg_has R) _) as [q|] eqn:E2; cbn [option_map]; [|discriminate].
        intros H; inversion H; subst. apply find_some in E2 as [Hin _].
        apply in_map_iff in Hin as (ip & <- & Hin). now apply Hn.
    Qed.

    Lemma resolve_gtype_frame R R' : ragree R R' -> sm_ok R -> forall t, namesP (gtype_names t) ->
      resolve_gtype R scope t = resolve_gtype R' scope t.
    Proof.
      intros Ha Hs. induction t as [t IH|t IH|t IH n|s|n]; cbn [gtype_names resolve_gtype]; intros Hn;
        try (now rewrite IH); [|reflexivity].
      apply resolve_string_frame; auto. apply Hn. now left.
    Qed.

    Lemma resolve_gtype_tyP R : sm_ok R -> forall t t', namesP (gtype_names t) ->
      resolve_gtype R scope t = Some t' -> tyP t'.
    Proof.
      intros Hs. induction t as [t IH|t IH|t IH n|s|n]; intros t' Hn H; cbn [gtype_names resolve_gtype] in *.
      - destruct (resolve_gtype R scope t); inversion H; subst. exact I.
      - destruct (resolve_gtype R scope t); inversion H; subst. exact I.
      - destruct (resolve_gtype R scope t) as [x|] eqn:E; inversion H; subst. cbn [tyP]. eauto.
      - destruct (resolve_string_raw _ _ _ _ H) as [p ->]. cbn [tyP].
        eapply resolve_string_P; eauto. apply Hn. now left.
      - inversion H; subst. exact Hu8.
    Qed.

    Lemma function_build_frame R R' v f : ragree R R' -> sm_ok R -> namesP (fn_names f) ->
      function_build R scope v f = function_build R' scope v f.
    Proof.
      intros Ha Hs Hn. unfold fn_names in Hn. apply namesP_app in Hn as [Hna Hnr]. unfold function_build.
      destruct (attrs_doc (gf_attrs f)) as [doc| | |]; cbn [bind]; try reflexivity.
      destruct (foldM _ _ _) as [stt| | |]; cbn [bind]; try reflexivity.
      destruct (fst stt); [|reflexivity].
      assert (mapM (resolve_arg R scope) (gf_args f) = mapM (resolve_arg R' scope) (gf_args f)) as ->.
      { apply mapM_ext_in. intros ga Hin. pose proof (namesP_flat_map _ _ _ Hna Hin) as Hg.
        destruct ga as [| |n t]; cbn [resolve_arg arg_names] in *; try reflexivity.
        now rewrite (resolve_gtype_frame _ _ Ha Hs t Hg). }
      destruct (mapM _ _); cbn [bind]; try reflexivity.
      destruct (gf_ret f) as [t|]; [|reflexivity]. now rewrite (resolve_gtype_frame _ _ Ha Hs t Hnr).
    Qed.

    Lemma convert_functions_frame R R' sz fs : ragree R R' -> sm_ok R -> namesP (flat_map fn_names fs) ->
      convert_functions R scope sz fs = convert_functions R' scope sz fs.
    Proof.
      intros Ha Hs Hn. unfold convert_functions.
      assert (foldM (convert_one R scope) fs [] = foldM (convert_one R' scope) fs []) as ->; [|reflexivity].
      apply foldM_ext_in. intros f out Hin. unfold convert_one.
      now rewrite (function_build_frame _ _ true f Ha Hs (namesP_flat_map _ _ _ Hn Hin)).
    Qed.

    Lemma process_statement_frame R R' acc s : ragree R R' -> sm_ok R -> namesP (stmt_names s) ->
      process_statement R scope acc s = process_statement R' scope acc s.
    Proof.
      intros Ha Hs. unfold stmt_names, process_statement. destruct acc as [idx [pending vfs]].
      destruct (gs_field s) as [v name t|fs]; intros Hn.
      - now rewrite (resolve_gtype_frame _ _ Ha Hs t Hn).
      - destruct (negb (Nat.eqb idx 0)); [reflexivity|].
        destruct (foldM scan_vftable_size_attr (gs_attrs s) None) as [sz| | |]; cbn [bind]; try reflexivity.
        now rewrite (convert_functions_frame _ _ sz fs Ha Hs Hn).
    Qed.

    Lemma process_statements_frame R R' stmts acc : ragree R R' -> sm_ok R ->
      namesP (flat_map stmt_names stmts) ->
      foldM (process_statement R scope) stmts acc = foldM (process_statement R' scope) stmts acc.
    Proof.
      intros Ha Hs Hn. apply foldM_ext_in. intros s a Hin. apply process_statement_frame; auto.
      eapply namesP_flat_map; eauto.
    Qed.

    Lemma process_statements_rtyP R : sm_ok R ->
      forall stmts idx pending vfs n pending' vfs',
        namesP (flat_map stmt_names stmts) -> Forall (fun p => rtyP (snd p)) pending ->
        foldM (process_statement R scope) stmts (idx, (pending, vfs)) = Ok (n, (pending', vfs')) ->
        Forall (fun p => rtyP (snd p)) pending'.
    Proof.
      intros Hs. induction stmts as [|s stmts IH]; intros idx pending vfs n pending' vfs' Hn Hp H; cbn [foldM] in H.
      - now inversion H; subst.
      - cbn [flat_map] in Hn. apply namesP_app in Hn as [Hn1 Hn2]. inv_bind H. destruct a as [idx1 [pending1 vfs1]].
        eapply IH; [exact Hn2 | | exact H].
        unfold process_statement, stmt_names in *. destruct (gs_field s) as [v name t|gfs].
        + inv_bind Ha. inv_bind Ha. destruct (resolve_gtype R scope t) as [t'|] eqn:Et; [|discriminate].
          inversion Ha; subst. apply Forall_app. split; [exact Hp|]. constructor; [|constructor].
          cbn [snd]. unfold rtyP. cbn [r_type]. eapply resolve_gtype_tyP; eauto.
        + destruct (negb _); [discriminate|]. inv_bind Ha. inv_bind Ha. inversion Ha; subst. exact Hp.
    Qed.
  End Scope.

  (** ** one attempt *)
  (** what the lookups of item [owner] of module [m] may touch lies in [P]: the scope paths, the
      candidates of every name in [names]; the generated vftable path of [owner] is no scope path *)
  Definition lookup_ok (R : registry) (m : smodule) (names : list string) (owner : path) : Prop :=
    (forall c, In c (module_scope m) -> P c) /\
    (forall n, In n names -> forall c, In c (name_cands R (module_scope m) n) -> P c) /\
    (forall vp, vftable_path owner = Some vp -> ~ In vp (module_scope m)).

  Lemma lookup_ok_weaken R m names names' owner : incl names' names ->
    lookup_ok R m names owner -> lookup_ok R m names' owner.
  Proof. intros Hi (H1 & H2 & H3). split; [exact H1|]. split; [|exact H3]. intros n Hn. apply H2. now apply Hi. Qed.

  Lemma lookup_ok_namesP R m names owner : lookup_ok R m names owner ->
    namesP (scope_mods R (module_scope m)) names.
  Proof.
    intros (_ & H2 & _) n Hn ip Hip. apply (H2 n Hn). unfold name_cands.
    apply (in_map (fun ip0 => path_join ip0 n)). exact Hip.
  Qed.

  Lemma type_build_frame st st' p v d :
    ragree (st_reg st) (st_reg st') ->
    (forall parent, path_parent p = Some parent -> magree parent (st_modules st) (st_modules st')) ->
    (forall parent m, path_parent p = Some parent -> alookup parent (st_modules st) = Some m ->
       lookup_ok (st_reg st) m (flat_map stmt_names (gt_stmts d) ++ impl_names m p) p) ->
    snd (type_build st p v d) = snd (type_build st' p v d).
  Proof.
    intros Hag Hm Hlk. unfold type_build.
    destruct (path_parent p) as [parent|] eqn:Epar; [|reflexivity].
    pose proof (Hm parent eq_refl) as Hmp. unfold magree in Hmp. specialize (Hlk parent).
    destruct (alookup parent (st_modules st)) as [m|] eqn:Em, (alookup parent (st_modules st')) as [m'|] eqn:Em';
      try contradiction; [|reflexivity].
    destruct Hmp as (Hmpath & Hmast & Hmimpls & Hmevs).
    assert (module_scope m' = module_scope m) as Hsc by (unfold module_scope; congruence).
    specialize (Hlk m eq_refl eq_refl). pose proof (lookup_ok_namesP _ _ _ _ Hlk) as Hn.
    destruct Hlk as (Hscope & _ & Hvp).
    rewrite Hsc, <- Hmimpls.
    set (scope := module_scope m) in *. set (smods := scope_mods (st_reg st) scope) in *.
    assert (sm_ok scope smods (st_reg st)) as Hsm by reflexivity.
    apply namesP_app in Hn as [Hns Hni].
    rewrite <- (process_statements_frame scope smods Hscope (st_reg st) (st_reg st') _ _ Hag Hsm Hns).
    set (pre := bind (attrs_doc (gt_attrs d)) _).
    destruct pre as [[[doc ta] [pending vfs]]| | |] eqn:Epre; try reflexivity.
    assert (Forall (fun q => rtyP (snd q)) pending) as Hpend.
    { subst pre. inv_bind Epre. inv_bind Epre. inv_bind Epre. destruct a1 as [n [pending1 vfs1]].
      inversion Epre; subst.
      eapply (process_statements_rtyP scope smods Hscope (st_reg st) Hsm); [exact Hns | constructor | exact Ha1]. }
    rewrite <- Epar in Hm.
    pose proof (resolve_regions_frame st st' p v (ta_size ta) pending vfs Hag Hm Hpend) as Hrr.
    destruct (resolve_regions st p v (ta_size ta) pending vfs) as [[[[s1 regions] vt] size]| |m1|m1] eqn:E1,
             (resolve_regions st' p v (ta_size ta) pending vfs) as [[[[s1' regions'] vt'] size']| |m1'|m1'] eqn:E1';
      cbn [rr_rel] in Hrr; try contradiction; cbn [snd]; try reflexivity; try (now subst).
    destruct Hrr as (<- & <- & <- & Hag1 & Hreg).
    assert (sm_ok scope smods (st_reg s1)) as Hsm1.
    { unfold sm_ok, smods, scope_mods. apply filter_ext_in. intros c Hc. f_equal.
      eapply resolve_regions_has; [exact E1|]. intros E. apply (Hvp c E Hc). }
    rewrite (inject_bases_frame _ _ Hag1).
    2:{ rewrite Forall_forall in *. intros r Hin. apply filter_In in Hin as [Hin _]. auto. }
    destruct (inject_bases (st_reg s1') _ _ _) as [acc1| | |]; cbn [bind]; try reflexivity.
    assert (match alookup p (m_impls m) with
            | Some blk => foldM (add_impl_function (st_reg s1) scope) (gb_fns blk) acc1
            | None => Ok acc1 end =
            match alookup p (m_impls m) with
            | Some blk => foldM (add_impl_function (st_reg s1') scope) (gb_fns blk) acc1
            | None => Ok acc1 end) as ->.
    { unfold impl_names in Hni. destruct (alookup p (m_impls m)) as [blk|]; [|reflexivity].
      apply foldM_ext_in. intros f acc Hin. unfold add_impl_function.
      now rewrite (function_build_frame scope smods Hscope _ _ false f Hag1 Hsm1 (namesP_flat_map smods _ _ _ Hni Hin)). }
    destruct (match alookup p (m_impls m) with Some _ => _ | None => _ end) as [acc2| | |]; cbn [bind]; try reflexivity.
    rewrite (check_defaultable_fold_frame _ _ Hag1 _ _ Hreg).
    destruct (if ta_defaultable ta then _ else _) as [[]| | |]; cbn [bind]; try reflexivity.
    now rewrite (compute_alignment_frame _ _ _ _ _ Hag1 Hreg).
  Qed.

  Lemma enum_build_frame st st' p d :
    ragree (st_reg st) (st_reg st') ->
    (forall parent, path_parent p = Some parent -> magree parent (st_modules st) (st_modules st')) ->
    (forall parent m, path_parent p = Some parent -> alookup parent (st_modules st) = Some m ->
       lookup_ok (st_reg st) m (gtype_names (ged_type d)) p) ->
    enum_build st p d = enum_build st' p d.
  Proof.
    intros Hag Hm Hlk. unfold enum_build.
    destruct (path_parent p) as [parent|] eqn:Epar; [|reflexivity].
    pose proof (Hm parent eq_refl) as Hmp. unfold magree in Hmp. specialize (Hlk parent).
    destruct (alookup parent (st_modules st)) as [m|] eqn:Em, (alookup parent (st_modules st')) as [m'|] eqn:Em';
      try contradiction; [|reflexivity].
    destruct Hmp as (Hmpath & Hmast & Hmimpls & Hmevs).
    assert (module_scope m' = module_scope m) as Hsc by (unfold module_scope; congruence).
    specialize (Hlk m eq_refl eq_refl). pose proof (lookup_ok_namesP _ _ _ _ Hlk) as Hn.
    destruct Hlk as (Hscope & _ & _).
    rewrite Hsc.
    set (scope := module_scope m) in *. set (smods := scope_mods (st_reg st) scope) in *.
    assert (sm_ok scope smods (st_reg st)) as Hsm by reflexivity.
    rewrite <- (resolve_gtype_frame scope smods Hscope _ _ Hag Hsm _ Hn).
    destruct (resolve_gtype (st_reg st) scope (ged_type d)) as [ty|] eqn:Et; [|reflexivity].
    pose proof (resolve_gtype_tyP scope smods Hscope _ Hsm _ _ Hn Et) as Hty.
    now rewrite <- (size_frame _ _ Hag _ Hty), <- (align_frame _ _ Hag _ Hty).
  Qed.

  (** *** the frame lemma for the model's [attempt]: two states (of two builds, over different
      input registries) whose registries agree on [P] and whose module tables agree at the parent
      of [p] give the same outcome for item [p], provided the lookups of [p] stay within [P] *)
  Theorem attempt_frame st st' p gd :
    ragree (st_reg st) (st_reg st') ->
    (forall parent, path_parent p = Some parent -> magree parent (st_modules st) (st_modules st')) ->
    (forall parent m, path_parent p = Some parent -> alookup parent (st_modules st) = Some m ->
       lookup_ok (st_reg st) m (def_names gd ++ impl_names m p) p) ->
    snd (attempt st p gd) = snd (attempt st' p gd).
  Proof.
    intros Hag Hm Hlk. unfold attempt, def_names in *. destruct (gi_inner gd) as [td|ed].
    - apply type_build_frame; assumption.
    - cbn [snd]. apply enum_build_frame; [assumption | assumption |].
      intros parent m Hp Hl. eapply lookup_ok_weaken; [|exact (Hlk parent m Hp Hl)].
      intros n Hn. apply in_or_app. now left.
  Qed.
End Frame.
