(** * Sem: registration and resolution (mirror of src/semantic/function.rs,
    type_definition/vftable.rs, type_definition/mod.rs, enum_definition.rs, module.rs,
    semantic_state.rs at /repo's current HEAD, i.e. including the fix: commits). *)
From PyxisModel Require Import Base Grammar SemTypes Registry.
Local Open Scope string_scope.
Local Open Scope list_scope.

Fixpoint foldM {A S} (f : S -> A -> outcome S) (l : list A) (s : S) : outcome S :=
  match l with
  | [] => Ok s
  | a :: r => do s' <- f s a; foldM f r s'
  end.

(** ** function.rs: build *)
Definition scan_fn_attr (is_vfunc : bool) (st : option fbody * option cc) (a : gattr)
  : outcome (option fbody * option cc) :=
  match a with
  | AFn name args =>
    if String.eqb name "address" then
      match args with
      | [EInt addr] =>
        if is_vfunc then Err "address attribute is not supported for virtual function"
        else match z_to_usize addr with
             | Some n => Ok (Some (BAddress n), snd st)
             | None => Err "failed to convert address attribute into usize"
             end
      | _ => Ok st
      end
    else if String.eqb name "index" then
      if is_vfunc then Ok st else Err "index attribute is only supported for virtual functions"
    else if String.eqb name "calling_convention" then
      match args with
      | [EStr c] => match cc_of_string c with
                    | Some c' => Ok (fst st, Some c')
                    | None => Err "invalid calling convention"
                    end
      | _ => Ok st
      end
    else Ok st
  | _ => Ok st
  end.

Definition resolve_arg (R : registry) (scope : list path) (a : garg) : outcome sarg :=
  match a with
  | GConstSelf => Ok SConstSelf
  | GMutSelf => Ok SMutSelf
  | GNamed n t => match resolve_gtype R scope t with
                  | Some t' => Ok (SField n t')
                  | None => Err "failed to resolve type of field"
                  end
  end.

Definition function_build (R : registry) (scope : list path) (is_vfunc : bool) (f : gfunction)
  : outcome sfunction :=
  do doc <- attrs_doc (gf_attrs f);
  do st <- foldM (scan_fn_attr is_vfunc) (gf_attrs f)
                 (if is_vfunc then Some (BVftable (gf_name f)) else None, None);
  match fst st with
  | None => Err "function has no implementation available"
  | Some body =>
    do args <- mapM (resolve_arg R scope) (gf_args f);
    do ret <- match gf_ret f with
              | None => Ok None
              | Some t => match resolve_gtype R scope t with
                          | Some t' => Ok (Some t')
                          | None => Err "failed to resolve return type of function"
                          end
              end;
    let cc := match snd st with
              | Some c => c
              | None => if existsb sarg_is_self args then CC_Thiscall else CC_System
              end in
    Ok {| sf_vis := gf_vis f; sf_name := gf_name f; sf_doc := doc; sf_body := body;
          sf_args := args; sf_ret := ret; sf_cc := cc |}
  end.

(** ** vftable.rs: convert_grammar_functions_to_semantic_functions *)
Definition padding_fn (k : N) : sfunction :=
  let name := "_vfunc_" +++ dec_of_N k in
  {| sf_vis := Private; sf_name := name; sf_doc := None; sf_body := BVftable name;
     sf_args := [SMutSelf]; sf_ret := None; sf_cc := CC_Thiscall |}.
Fixpoint pad_vfuncs (n : nat) (out : list sfunction) : list sfunction :=
  match n with
  | O => out
  | S n' => pad_vfuncs n' (out ++ [padding_fn (N.of_nat (List.length out))])
  end.
Definition pad_to (target : N) (out : list sfunction) : list sfunction :=
  pad_vfuncs (N.to_nat (target - N.of_nat (List.length out))) out.

(** "the last [name(<int>)] attribute, converted to usize with try_into" -- the shape shared by the
    scans for index, vftable size and extern-value address *)
Definition scan_int_attr (name : string) (acc : option N) (a : gattr) : outcome (option N) :=
  match a with
  | AFn n [EInt i] =>
    if String.eqb n name then
      match z_to_usize i with
      | Some v => Ok (Some v)
      | None => Err "failed to convert attribute into usize"
      end
    else Ok acc
  | _ => Ok acc
  end.
Definition scan_index_attr := scan_int_attr "index".

Definition convert_one (R : registry) (scope : list path) (out : list sfunction) (f : gfunction)
  : outcome (list sfunction) :=
  do idx <- foldM scan_index_attr (gf_attrs f) None;
  do out1 <- match idx with
             | Some i => if (i <? N.of_nat (List.length out))%N
                         then Err "vftable function index below its position"
                         else Ok (pad_to i out)
             | None => Ok out
             end;
  do fn <- function_build R scope true f;
  Ok (out1 ++ [fn]).

Definition convert_functions (R : registry) (scope : list path) (size : option N)
           (fs : list gfunction) : outcome (list sfunction) :=
  do out <- foldM (convert_one R scope) fs [];
  match size with
  | Some s => if (s <? N.of_nat (List.length out))%N
              then Err "vftable size below its slot count"
              else Ok (pad_to s out)
  | None => Ok out
  end.

(** ** vftable.rs: function_to_region, build_type, build *)
Definition function_to_region (owner : path) (f : sfunction) : region :=
  let args := map (fun a => match a with
                            | SConstSelf => ("this", TConstPtr (TRaw owner))
                            | SMutSelf => ("this", TMutPtr (TRaw owner))
                            | SField n t => (n, t)
                            end) (sf_args f) in
  {| r_vis := sf_vis f; r_name := Some (sf_name f); r_doc := sf_doc f;
     r_type := TFunction (sf_cc f) args (sf_ret f); r_is_base := false |}.

Definition vftable_path (owner : path) : option path :=
  match path_last owner, path_parent owner with
  | Some name, Some parent => Some (path_join parent (name +++ "Vftable"))
  | _, _ => None
  end.

Definition vftable_item (R : registry) (owner : path) (v : vis) (fs : list sfunction) : option item :=
  match vftable_path owner with
  | None => None
  | Some vp =>
    let regions := map (function_to_region owner) fs in
    Some {| it_vis := v; it_path := vp;
            it_state := Resolved
              {| rs_size := (N.of_nat (List.length regions) * reg_ptr R)%N;
                 rs_align := reg_ptr R;
                 rs_inner := IType {| td_regions := regions; td_doc := None; td_assoc := [];
                                      td_vftable := None; td_singleton := None;
                                      td_copyable := false; td_cloneable := false;
                                      td_defaultable := false; td_packed := false |} |};
            it_cat := Defined |}
  end.

(** semantic_state.rs: add_item *)
Definition add_defpath (p : path) (m : smodule) : smodule :=
  {| m_path := m_path m; m_ast := m_ast m;
     m_defpaths := if path_mem p (m_defpaths m) then m_defpaths m else (m_defpaths m ++ [p])%list;
     m_extern_values := m_extern_values m; m_impls := m_impls m; m_backends := m_backends m;
     m_doc := m_doc m |}.
Definition add_item (st : sstate) (it : item) : outcome sstate :=
  match path_parent (it_path it) with
  | None => Err "failed to get parent path for type"
  | Some parent =>
    match alookup parent (st_modules st) with
    | None => Err "failed to get module for path"
    | Some m =>
      Ok {| st_modules := ainsert parent (add_defpath (it_path it) m) (st_modules st);
            st_reg := reg_add (st_reg st) it |}
    end
  end.

(** type_definition/mod.rs: get_region_name_and_type_definition.
    [Ok None] = the region's type is not resolved yet. *)
Definition region_name_and_typedef (R : registry) (r : region)
  : outcome (option (string * type_def)) :=
  match r_name r with
  | None => Err "a base field has no name"
  | Some name =>
    match r_type r with
    | TRaw p =>
      match reg_get R p with
      | None => Err "failed to get region type"
      | Some it =>
        match item_resolved it with
        | None => Ok None
        | Some rs => match rs_inner rs with
                     | IType td => Ok (Some (name, td))
                     | IEnum _ => Err "expected region field to be a type, but it was an enum"
                     end
        end
      end
    | _ => Err "expected region field to be a raw type"
    end
  end.

Definition opt_region_name_and_vftable (R : registry) (r : option region)
  : outcome (option (string * tvftable)) :=
  match r with
  | None => Ok None
  | Some b =>
    do x <- region_name_and_typedef R b;
    Ok (match x with
        | Some (name, td) => option_map (pair name) (td_vftable td)
        | None => None
        end)
  end.

Fixpoint prefix_equal (base derived : list sfunction) : bool :=
  match base, derived with
  | [], _ => true
  | b :: bs, d :: ds => sfunction_eqb b d && prefix_equal bs ds
  | _ :: _, [] => true  (* zip stops; the length test happens before *)
  end.

Definition vftable_build (st : sstate) (owner : path) (v : vis) (first_base : option region)
           (vfs : option (list sfunction))
  : outcome (sstate * option tvftable * option region) :=
  match vfs with
  | Some fs =>
    match vftable_item (st_reg st) owner v fs with
    | None => Ok (st, None, None)
    | Some vit =>
      let ptr_ty := TConstPtr (TRaw (it_path vit)) in
      do st' <- add_item st vit;
      do base <- opt_region_name_and_vftable (st_reg st') first_base;
      match base with
      | Some (base_name, bvt) =>
        if (List.length fs <? List.length (vt_functions bvt))%nat then
          Err "vftable is missing functions from base class"
        else if negb (prefix_equal (vt_functions bvt) fs) then
          Err "vftable function differs from the base class's"
        else Ok (st', Some {| vt_functions := fs; vt_base_field := Some base_name; vt_type := ptr_ty |},
                 None)
      | None =>
        Ok (st', Some {| vt_functions := fs; vt_base_field := None; vt_type := ptr_ty |},
            Some {| r_vis := Private; r_name := Some "vftable"; r_doc := None; r_type := ptr_ty;
                    r_is_base := false |})
      end
    end
  | None =>
    do base <- opt_region_name_and_vftable (st_reg st) first_base;
    match base with
    | Some (base_name, bvt) =>
      Ok (st, Some {| vt_functions := vt_functions bvt; vt_base_field := Some base_name;
                      vt_type := vt_type bvt |}, None)
    | None => Ok (st, None, None)
    end
  end.

(** ** type_definition/mod.rs: resolve_regions *)
(** Regions::push; [None] = size unknown (or offset overflow): the caller defers *)
Definition regions_push (R : registry) (acc : list region * N) (r : region)
  : option (list region * N) :=
  match size_of R (r_type r) with
  | None => None
  | Some size =>
    if (size =? 0)%N && stype_is_array (r_type r) then Some acc
    else match checked_add (snd acc) size with
         | None => None
         | Some la => Some ((fst acc ++ [r])%list, la)
         end
  end.

Definition defer_opt {A} (o : option A) : outcome A :=
  match o with Some a => Ok a | None => Defer end.

Definition push_pending (R : registry) (acc : list region * N) (p : option N * region)
  : outcome (list region * N) :=
  do acc1 <- match fst p with
             | Some offset =>
               if (offset <? snd acc)%N then Err "attempted to insert padding, but overlapped with existing region"
               else defer_opt (regions_push R acc (unnamed_region (padding_type (offset - snd acc))))
             | None => Ok acc
             end;
  defer_opt (regions_push R acc1 (snd p)).

(** the naming pass: unnamed regions become private [_field_<offset in hex>] *)
Fixpoint name_regions (R : registry) (rs : list region) (size : N) : outcome (list region * N) :=
  match rs with
  | [] => Ok ([], size)
  | r :: rest =>
    match size_of R (r_type r) with
    | None => Defer
    | Some rsz =>
      let r' := match r_name r with
                | Some _ => r
                | None => {| r_vis := Private; r_name := Some ("_field_" +++ hex_of_N size);
                             r_doc := None; r_type := r_type r; r_is_base := false |}
                end in
      do x <- name_regions R rest (size + rsz)%N;
      Ok (r' :: fst x, snd x)
    end
  end.

Definition first_base_unresolved (R : registry) (first_base : option region) : bool :=
  match first_base with
  | Some r => match r_type r with
              | TRaw p => match reg_get R p with
                          | Some it => negb (item_is_resolved it)
                          | None => false
                          end
              | _ => false
              end
  | None => false
  end.

Definition resolve_regions (st : sstate) (owner : path) (v : vis) (target_size : option N)
           (pending : list (option N * region)) (vfs : option (list sfunction))
  : outcome (sstate * list region * option tvftable * N) :=
  let first_base := find r_is_base (map snd pending) in
  if first_base_unresolved (st_reg st) first_base then Defer else
  do x <- vftable_build st owner v first_base vfs;
  let '(st', vt, vregion) := x in
  let R := st_reg st' in
  do acc0 <- match vregion with
             | Some vr => defer_opt (regions_push R ([], 0%N) vr)
             | None => Ok ([], 0%N)
             end;
  do acc1 <- foldM (push_pending R) pending acc0;
  do acc2 <- match target_size with
             | Some ts => if (snd acc1 <? ts)%N
                          then defer_opt (regions_push R acc1 (unnamed_region (padding_type (ts - snd acc1))))
                          else Ok acc1
             | None => Ok acc1
             end;
  do named <- name_regions R (fst acc2) 0%N;
  match target_size with
  | Some ts => if negb (snd named =? ts)%N then Err "calculated size does not match target size"
               else Ok (st', fst named, vt, snd named)
  | None => Ok (st', fst named, vt, snd named)
  end.

(** A state change (the generated vftable item) survives a deferral, so an attempt returns the new
    state beside its outcome. *)
Definition attempt_result := (sstate * outcome resolved)%type.

(** ** type_definition/mod.rs: build *)
Record type_attrs := {
  ta_size : option N; ta_singleton : option N; ta_copyable : bool; ta_cloneable : bool;
  ta_defaultable : bool; ta_packed : bool; ta_align : option N }.
Definition ta_init : type_attrs :=
  {| ta_size := None; ta_singleton := None; ta_copyable := false; ta_cloneable := false;
     ta_defaultable := false; ta_packed := false; ta_align := None |}.

Definition scan_type_attr (ta : type_attrs) (a : gattr) : outcome type_attrs :=
  match a with
  | AFn name [EInt v] =>
    if String.eqb name "size" then
      match z_to_usize v with
      | Some n => Ok {| ta_size := Some n; ta_singleton := ta_singleton ta; ta_copyable := ta_copyable ta;
                        ta_cloneable := ta_cloneable ta; ta_defaultable := ta_defaultable ta;
                        ta_packed := ta_packed ta; ta_align := ta_align ta |}
      | None => Err "failed to convert size attribute into usize"
      end
    else if String.eqb name "singleton" then
      match z_to_usize v with
      | Some n => Ok {| ta_size := ta_size ta; ta_singleton := Some n; ta_copyable := ta_copyable ta;
                        ta_cloneable := ta_cloneable ta; ta_defaultable := ta_defaultable ta;
                        ta_packed := ta_packed ta; ta_align := ta_align ta |}
      | None => Err "failed to convert singleton attribute into usize"
      end
    else if String.eqb name "align" then
      match z_to_usize v with
      | Some n => Ok {| ta_size := ta_size ta; ta_singleton := ta_singleton ta; ta_copyable := ta_copyable ta;
                        ta_cloneable := ta_cloneable ta; ta_defaultable := ta_defaultable ta;
                        ta_packed := ta_packed ta; ta_align := Some n |}
      | None => Err "failed to convert align attribute into usize"
      end
    else Ok ta
  | AIdent name =>
    Ok {| ta_size := ta_size ta; ta_singleton := ta_singleton ta;
          ta_copyable := ta_copyable ta || String.eqb name "copyable";
          ta_cloneable := ta_cloneable ta || String.eqb name "copyable" || String.eqb name "cloneable";
          ta_defaultable := ta_defaultable ta || String.eqb name "defaultable";
          ta_packed := ta_packed ta || String.eqb name "packed";
          ta_align := ta_align ta |}
  | _ => Ok ta
  end.

(** field attributes: address and base marker *)
Definition scan_field_attr (st : option N * bool) (a : gattr) : outcome (option N * bool) :=
  match a with
  | AIdent name => if String.eqb name "base" then Ok (fst st, true) else Ok st
  | AFn name [EInt addr] =>
    if String.eqb name "address" then
      match z_to_usize addr with
      | Some n => Ok (Some n, snd st)
      | None => Err "failed to convert address attribute into usize"
      end
    else Ok st
  | _ => Ok st
  end.

Definition scan_vftable_size_attr := scan_int_attr "size".

Definition stmt_state := (list (option N * region) * option (list sfunction))%type.

Definition process_statement (R : registry) (scope : list path)
           (acc : nat * stmt_state) (s : gstatement) : outcome (nat * stmt_state) :=
  let '(idx, (pending, vfs)) := acc in
  match gs_field s with
  | GField v name t =>
    do doc <- attrs_doc (gs_attrs s);
    do ab <- foldM scan_field_attr (gs_attrs s) (None, false);
    match resolve_gtype R scope t with
    | None => Defer
    | Some t' =>
      let r := {| r_vis := v; r_name := if String.eqb name "_" then None else Some name;
                  r_doc := doc; r_type := t'; r_is_base := snd ab |} in
      Ok (S idx, ((pending ++ [(fst ab, r)])%list, vfs))
    end
  | GVftable fs =>
    if negb (Nat.eqb idx 0) then Err "vftable field must be the first field" else
    do sz <- foldM scan_vftable_size_attr (gs_attrs s) None;
    do out <- convert_functions R scope sz fs;
    Ok (S idx, (pending, Some out))
  end.

(** base-function injection *)
Definition str_mem (s : string) (l : list string) : bool := existsb (String.eqb s) l.

Definition add_functions (base_name : string) (fs : list sfunction)
           (acc : list sfunction * list string) : list sfunction * list string :=
  fold_left (fun acc f =>
               if sf_is_public f then
                 let original := sf_name f in
                 let name := if str_mem original (snd acc) then base_name +++ "_" +++ original else original in
                 let f' := {| sf_vis := sf_vis f; sf_name := name; sf_doc := sf_doc f;
                              sf_body := BField base_name original; sf_args := sf_args f;
                              sf_ret := sf_ret f; sf_cc := sf_cc f |} in
                 ((fst acc ++ [f'])%list, name :: snd acc)
               else acc) fs acc.

Fixpoint inject_bases (R : registry) (bases : list region) (i : nat)
         (acc : list sfunction * list string) : outcome (list sfunction * list string) :=
  match bases with
  | [] => Ok acc
  | b :: rest =>
    do x <- region_name_and_typedef R b;
    match x with
    | None => inject_bases R rest (S i) acc
    | Some (base_name, td) =>
      let acc1 := add_functions base_name (td_assoc td) acc in
      let acc2 := match i, td_vftable td with
                  | S _, Some vt => add_functions base_name (vt_functions vt) acc1
                  | _, _ => acc1
                  end in
      inject_bases R rest (S i) acc2
    end
  end.

Definition add_impl_function (R : registry) (scope : list path)
           (acc : list sfunction * list string) (f : gfunction)
  : outcome (list sfunction * list string) :=
  if str_mem (gf_name f) (snd acc) then Err "function is already defined in type (or a base type)" else
  do fn <- function_build R scope false f;
  Ok ((fst acc ++ [fn])%list, sf_name fn :: snd acc).

Fixpoint defaultable_path (t : stype) : option path :=
  match t with
  | TRaw p => Some p
  | TArray t' _ => defaultable_path t'
  | _ => None
  end.
Definition check_defaultable (R : registry) (r : region) : outcome unit :=
  match defaultable_path (r_type r) with
  | None => Err "field is not a defaultable type (pointer or function?)"
  | Some p =>
    match reg_get R p with
    | None => Err "failed to get type for field"
    | Some it =>
      match item_resolved it with
      | None => Ok tt
      | Some rs => if inner_defaultable (rs_inner rs) then Ok tt else Err "field is not a defaultable type"
      end
    end
  end.

(** the per-field alignment check (mod.rs, "Ensure that all fields are aligned") *)
Fixpoint check_fields_aligned (R : registry) (rs : list region) (last_address : N) : outcome unit :=
  match rs with
  | [] => Ok tt
  | r :: rest =>
    match align_of R (r_type r), size_of R (r_type r) with
    | Some a, Some s =>
      if (a =? 0)%N || negb (last_address mod a =? 0)%N then Err "field is located at an address not divisible by its alignment"
      else check_fields_aligned R rest (last_address + s)%N
    | _, _ => Panic "unwrap on None alignment/size of a region"
    end
  end.

Fixpoint flat_aligns (R : registry) (rs : list region) : list N :=
  match rs with
  | [] => []
  | r :: rest => match align_of R (r_type r) with
                 | Some a => a :: flat_aligns R rest
                 | None => flat_aligns R rest
                 end
  end.

Definition compute_alignment (R : registry) (ta : type_attrs) (regions : list region) (size : N)
  : outcome N :=
  if ta_packed ta then
    match ta_align ta with
    | Some _ => Err "cannot specify both packed and align attributes"
    | None => Ok 1%N
    end
  else
    let alignment :=
        match ta_align ta with
        | Some a => a
        | None => match regions with
                  | [r] => match align_of R (r_type r) with Some a => a | None => reg_ptr R end
                  | _ => reg_ptr R
                  end
        end in
    if negb (is_power_of_two alignment) then Err "alignment is not a power of two" else
    match lcm_list (flat_aligns R regions) with
    | None => Err "alignment is less than minimum required alignment"
    | Some required =>
      if (alignment <? required)%N then Err "alignment is less than minimum required alignment"
      else
        do_ check_fields_aligned R regions 0%N;
        if negb (size mod alignment =? 0)%N then Err "size is not a multiple of alignment"
        else Ok alignment
    end.

Definition type_build (st : sstate) (owner : path) (v : vis) (d : gtypedef) : attempt_result :=
  match path_parent owner with
  | None => (st, Err "failed to get module for path")
  | Some parent =>
  match alookup parent (st_modules st) with
  | None => (st, Err "failed to get module for path")
  | Some module =>
    let scope := module_scope module in
    let R0 := st_reg st in
    (* attributes, statements: pure *)
    let pre :=
        do doc <- attrs_doc (gt_attrs d);
        do ta <- foldM scan_type_attr (gt_attrs d) ta_init;
        do stm <- foldM (process_statement R0 scope) (gt_stmts d) (O, ([], None));
        Ok (doc, ta, snd stm) in
    match pre with
    | Defer => (st, Defer) | Err m => (st, Err m) | Panic m => (st, Panic m)
    | Ok (doc, ta, (pending, vfs)) =>
      match resolve_regions st owner v (ta_size ta) pending vfs with
      | Defer => (* the vftable item may have been registered before the deferral *)
        let st_after :=
            if first_base_unresolved R0 (find r_is_base (map snd pending)) then st
            else match vftable_build st owner v (find r_is_base (map snd pending)) vfs with
                 | Ok (st', _, _) => st'
                 | _ => st
                 end in
        (st_after, Defer)
      | Err m => (st, Err m)
      | Panic m => (st, Panic m)
      | Ok (st', regions, vt, size) =>
        let R := st_reg st' in
        let post :=
            let used0 := match vt with Some v' => map sf_name (vt_functions v') | None => [] end in
            do acc1 <- inject_bases R (filter r_is_base regions) O ([], used0);
            do acc2 <- match alookup owner (m_impls module) with
                       | Some blk => foldM (add_impl_function R scope) (gb_fns blk) acc1
                       | None => Ok acc1
                       end;
            do_ (if ta_defaultable ta
                 then foldM (fun _ r => check_defaultable R r) regions tt
                 else Ok tt);
            do alignment <- compute_alignment R ta regions size;
            Ok {| rs_size := size; rs_align := alignment;
                  rs_inner := IType {| td_regions := regions; td_doc := doc; td_assoc := fst acc2;
                                       td_vftable := vt; td_singleton := ta_singleton ta;
                                       td_copyable := ta_copyable ta; td_cloneable := ta_cloneable ta;
                                       td_defaultable := ta_defaultable ta; td_packed := ta_packed ta |} |} in
        (st', post)
      end
    end
  end end.

(** ** enum_definition.rs: build *)
Definition has_default_marker (attrs : list gattr) : nat :=
  List.length (filter (fun a => match a with AIdent n => String.eqb n "default" | _ => false end) attrs).

Fixpoint enum_cases (stmts : list genumstmt) (last : option Z) (idx : nat)
         (fields : list (string * Z)) (default_index : option nat)
  : outcome (list (string * Z) * option nat) :=
  match stmts with
  | [] => Ok (fields, default_index)
  | s :: rest =>
    do value <- match ge_expr s with
                | Some (EInt v) => Ok v
                | Some _ => Err "unsupported enum value"
                | None => match last with
                          | Some v => Ok v
                          | None => Err "the implicit value overflows"
                          end
                end;
    do di <- match has_default_marker (ge_attrs s), default_index with
             | O, _ => Ok default_index
             | S O, None => Ok (Some idx)
             | _, _ => Err "enum has multiple default variants"
             end;
    enum_cases rest (if (value <? isize_max)%Z then Some (value + 1)%Z else None) (S idx)
               (fields ++ [(ge_name s, value)])%list di
  end.

Record enum_attrs := {
  ea_singleton : option N; ea_copyable : bool; ea_cloneable : bool; ea_defaultable : bool }.
Definition scan_enum_attr (ea : enum_attrs) (a : gattr) : outcome enum_attrs :=
  match a with
  | AIdent name =>
    Ok {| ea_singleton := ea_singleton ea;
          ea_copyable := ea_copyable ea || String.eqb name "copyable";
          ea_cloneable := ea_cloneable ea || String.eqb name "copyable" || String.eqb name "cloneable";
          ea_defaultable := ea_defaultable ea || String.eqb name "defaultable" |}
  | AFn name [EInt v] =>
    if String.eqb name "singleton" then
      match z_to_usize v with
      | Some n => Ok {| ea_singleton := Some n; ea_copyable := ea_copyable ea;
                        ea_cloneable := ea_cloneable ea; ea_defaultable := ea_defaultable ea |}
      | None => Err "failed to convert singleton attribute into usize"
      end
    else Ok ea
  | _ => Ok ea
  end.

Definition enum_build (st : sstate) (owner : path) (d : genumdef) : outcome resolved :=
  match path_parent owner with
  | None => Err "failed to get module for path"
  | Some parent =>
  match alookup parent (st_modules st) with
  | None => Err "failed to get module for path"
  | Some module =>
    let R := st_reg st in
    match resolve_gtype R (module_scope module) (ged_type d) with
    | None => Defer
    | Some ty =>
      match size_of R ty with
      | None => Defer
      | Some size =>
        do cases <- enum_cases (ged_stmts d) (Some 0%Z) O [] None;
        do doc <- attrs_doc (ged_attrs d);
        do ea <- foldM scan_enum_attr (ged_attrs d)
                       {| ea_singleton := None; ea_copyable := false; ea_cloneable := false;
                          ea_defaultable := false |};
        match ea_defaultable ea, snd cases with
        | true, None => Err "enum is marked as defaultable but has no default variant set"
        | false, Some _ => Err "enum has a default variant set but is not marked as defaultable"
        | _, _ =>
          match align_of R ty with
          | None => Err "failed to get alignment for base type of enum"
          | Some al =>
            Ok {| rs_size := size; rs_align := al;
                  rs_inner := IEnum {| ed_type := ty; ed_doc := doc; ed_fields := fst cases;
                                       ed_singleton := ea_singleton ea; ed_copyable := ea_copyable ea;
                                       ed_cloneable := ea_cloneable ea;
                                       ed_defaultable := ea_defaultable ea;
                                       ed_default_index := snd cases |} |}
          end
        end
      end
    end
  end end.

(** ** semantic_state.rs: new, add_module *)
Definition predefined_types : list (string * N) :=
  [("void", 0); ("bool", 1); ("u8", 1); ("u16", 2); ("u32", 4); ("u64", 8); ("u128", 16);
   ("i8", 1); ("i16", 2); ("i32", 4); ("i64", 8); ("i128", 16); ("f32", 4); ("f64", 8)]%N.

Definition predefined_item (ns : string * N) : item :=
  {| it_vis := Public; it_path := [fst ns];
     it_state := Resolved
       {| rs_size := snd ns; rs_align := N.max (snd ns) 1;
          rs_inner := IType {| td_regions := []; td_doc := None; td_assoc := []; td_vftable := None;
                               td_singleton := None; td_copyable := true; td_cloneable := true;
                               td_defaultable := true; td_packed := false |} |};
     it_cat := Predefined |}.

Definition sem_new (ptr : N) : outcome sstate :=
  foldM (fun st ns => add_item st (predefined_item ns)) predefined_types
        {| st_modules := [([], default_module)]; st_reg := {| reg_types := []; reg_ptr := ptr |} |}.

Definition scan_ev_attr := scan_int_attr "address".
Definition extern_value_of (ev : gexternvalue) : outcome sextern :=
  do addr <- foldM scan_ev_attr (gev_attrs ev) None;
  match addr with
  | None => Err "failed to find address attribute for extern value"
  | Some a => Ok {| ev_vis := gev_vis ev; ev_name := gev_name ev; ev_gtype := gev_type ev;
                    ev_type := None; ev_address := a |}
  end.

(** Module::new: impl blocks of one type are merged in source order *)
Fixpoint merge_impls (mp : path) (blocks : list gfnblock) (acc : list (path * gfnblock))
  : list (path * gfnblock) :=
  match blocks with
  | [] => acc
  | b :: rest =>
    let k := path_join mp (gb_name b) in
    let acc' := match alookup k acc with
                | Some e => ainsert k {| gb_name := gb_name e; gb_fns := (gb_fns e ++ gb_fns b)%list;
                                         gb_attrs := gb_attrs e |} acc
                | None => ainsert k b acc
                end in
    merge_impls mp rest acc'
  end.

Definition module_new (mp : path) (ast : gmodule) (evs : list sextern) : outcome smodule :=
  do doc <- attrs_doc (gm_attrs ast);
  Ok {| m_path := mp; m_ast := ast; m_defpaths := []; m_extern_values := evs;
        m_impls := merge_impls mp (gm_impls ast) [];
        m_backends := map (fun b => (gbk_name b, (gbk_pro b, gbk_epi b))) (gm_backends ast);
        m_doc := doc |}.

Definition scan_extern_type_attr (sa : option N * option N) (a : gattr) : outcome (option N * option N) :=
  match a with
  | AFn name [EInt v] =>
    if String.eqb name "size" then
      match z_to_usize v with
      | Some n => Ok (Some n, snd sa)
      | None => Err "failed to convert size attribute into usize for extern type"
      end
    else if String.eqb name "align" then
      match z_to_usize v with
      | Some n => Ok (fst sa, Some n)
      | None => Err "failed to convert align attribute into usize for extern type"
      end
    else Ok sa
  | _ => Ok sa
  end.

Definition add_definition (mp : path) (st : sstate) (d : gitemdef) : outcome sstate :=
  let p := path_join mp (gi_name d) in
  if reg_has (st_reg st) p then Err "the item is defined more than once" else
  add_item st {| it_vis := gi_vis d; it_path := p; it_state := Unresolved d; it_cat := Defined |}.

Definition add_extern_type (mp : path) (st : sstate) (e : string * list gattr) : outcome sstate :=
  do sa <- foldM scan_extern_type_attr (snd e) (None, None);
  match sa with
  | (Some size, Some al) =>
    let p := path_join mp (fst e) in
    if reg_has (st_reg st) p then Err "the item is defined more than once" else
    add_item st {| it_vis := Public; it_path := p;
                   it_state := Resolved {| rs_size := size; rs_align := al;
                                           rs_inner := IType default_type_def |};
                   it_cat := Extern |}
  | (None, _) => Err "failed to find size attribute for extern type"
  | (_, None) => Err "failed to find align attribute for extern type"
  end.

Definition add_module (st : sstate) (mp : path) (ast : gmodule) : outcome sstate :=
  do evs <- mapM extern_value_of (gm_extern_values ast);
  do m <- module_new mp ast evs;
  let st1 := {| st_modules := ainsert mp m (st_modules st); st_reg := st_reg st |} in
  do st2 <- foldM (add_definition mp) (gm_defs ast) st1;
  foldM (add_extern_type mp) (gm_extern_types ast) st2.

(** ** semantic_state.rs: build *)
Inductive build_result : Type :=
| BOk (st : sstate)
| BErr (msg : string)
| BNoProgress (unresolved : list path)
| BPanic (msg : string)
| BFuel.   (* the model's own recursion bound; proved unreachable (TotalityLemmas) *)

Definition set_resolved (st : sstate) (p : path) (r : resolved) : sstate :=
  match reg_get (st_reg st) p with
  | Some it => {| st_modules := st_modules st;
                  st_reg := reg_add (st_reg st)
                                    {| it_vis := it_vis it; it_path := it_path it;
                                       it_state := Resolved r; it_cat := it_cat it |} |}
  | None => st
  end.

Definition attempt (st : sstate) (p : path) (d : gitemdef) : attempt_result :=
  match gi_inner d with
  | GIType td => type_build st p (gi_vis d) td
  | GIEnum ed => (st, enum_build st p ed)
  end.

(** one pass over [to_resolve]; [inl] = continue with this state, [inr] = abort *)
Fixpoint resolve_pass (st : sstate) (ps : list path) : sstate + build_result :=
  match ps with
  | [] => inl st
  | p :: rest =>
    match reg_get (st_reg st) p with
    | None => inr (BErr "failed to get type")
    | Some it =>
      match it_state it with
      | Resolved _ => resolve_pass st rest
      | Unresolved d =>
        match attempt st p d with
        | (st', Ok r) => resolve_pass (set_resolved st' p r) rest
        | (st', Defer) => resolve_pass st' rest
        | (_, Err m) => inr (BErr m)
        | (_, Panic m) => inr (BPanic m)
        end
      end
    end
  end.

Definition schedule := list path -> list path.

Fixpoint resolve_loop (order : schedule) (fuel : nat) (st : sstate) : build_result :=
  match fuel with
  | O => BFuel
  | S f =>
    let to_resolve := order (reg_unresolved (st_reg st)) in
    match to_resolve with
    | [] => BOk st
    | _ =>
      match resolve_pass st to_resolve with
      | inr r => r
      | inl st' =>
        if Nat.eqb (List.length (reg_unresolved (st_reg st'))) (List.length to_resolve)
        then BNoProgress to_resolve
        else resolve_loop order f st'
      end
    end
  end.

Definition impl_is_defined_type (R : registry) (p : path) : bool :=
  match reg_get R p with
  | Some it => match it_cat it, item_resolved it with
               | Defined, Some rs => match rs_inner rs with IType _ => true | IEnum _ => false end
               | _, _ => false
               end
  | None => false
  end.

Definition resolve_extern_values (R : registry) (m : smodule) : outcome smodule :=
  do evs <- mapM (fun ev =>
                    match resolve_gtype R (module_scope m) (ev_gtype ev) with
                    | Some t => Ok {| ev_vis := ev_vis ev; ev_name := ev_name ev; ev_gtype := ev_gtype ev;
                                      ev_type := Some t; ev_address := ev_address ev |}
                    | None => Err "failed to resolve type for extern value"
                    end) (m_extern_values m);
  Ok {| m_path := m_path m; m_ast := m_ast m; m_defpaths := m_defpaths m; m_extern_values := evs;
        m_impls := m_impls m; m_backends := m_backends m; m_doc := m_doc m |}.

Definition finish_build (st : sstate) : build_result :=
  if negb (forallb (fun km => forallb (fun kb => impl_is_defined_type (st_reg st) (fst kb))
                                      (m_impls (snd km))) (st_modules st))
  then BErr "impl block for something that is not a type defined in its module"
  else
    match mapM (fun km => do m' <- resolve_extern_values (st_reg st) (snd km); Ok (fst km, m'))
               (st_modules st) with
    | Ok ms => BOk {| st_modules := ms; st_reg := st_reg st |}
    | Err m => BErr m
    | Panic m => BPanic m
    | Defer => BPanic "model: defer in finish"
    end.

Definition sem_build (order : schedule) (st : sstate) : build_result :=
  match resolve_loop order (S (List.length (reg_unresolved (st_reg st)))) st with
  | BOk st' => finish_build st'
  | r => r
  end.

(** the whole front half: new, add every module in the given order, build *)
Definition pyxis_resolve (order : schedule) (ptr : N) (mods : list (path * gmodule)) : build_result :=
  match (do st0 <- sem_new ptr; foldM (fun st pm => add_module st (fst pm) (snd pm)) mods st0) with
  | Ok st => sem_build order st
  | Err m => BErr m
  | Panic m => BPanic m
  | Defer => BPanic "model: defer in add_module"
  end.

(** the schedule used by the hook: sort the paths, take the k-th permutation, k chosen by the
    number of unresolved items *)
Definition hook_schedule (ks : list N) : schedule :=
  fun l => nth_perm (nth (List.length l) ks 0%N) (sort path_leb l).
