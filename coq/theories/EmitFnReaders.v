(** * EmitFnReaders: reading emitted functions and function-pointer types back.

    Companion of EmitReaders.v for the function side of the back end (Emit.v): readers for
    - the ABI string of a function-pointer type ([fnptr_abi]) and its parts ([read_fnptr]);
    - a function item [(fn (attrs ..) vis (quals ..) name (params ..) (ret ..) (body ..))]: name,
      visibility, [unsafe], documentation lines, parameters, return type tokens, body tokens;
    - the three wrapper body templates ([read_body]): which template, the address literal (by
      value) / the slot name / the base field, the ABI string and signature inside the transmuted
      fn-pointer type, the arguments passed;
    - an [impl] item; the bodies of the singleton and extern-value accessors.
    The readers only look at constructors and compare atoms with [String.eqb]; they do not mention
    the printers.  The second half of the file proves that they invert the printers of Emit.v. *)
From Coq Require Import List String Ascii NArith ZArith Bool Lia.
From PyxisModel Require Import Base Sexp Grammar SemTypes Registry Sem Emit EmitLemmas EmitReaders.
Import ListNotations.
Local Open Scope string_scope.
Local Open Scope list_scope.

(** ** token lists *)
Definition is_comma (e : sexp) : bool := match e with Atom a => String.eqb a "," | _ => false end.

(** split a token list at its top-level commas: (first group, the other groups) *)
Fixpoint split_top (l : list sexp) : list sexp * list (list sexp) :=
  match l with
  | [] => ([], [])
  | e :: r => let (g, gs) := split_top r in if is_comma e then ([], g :: gs) else (e :: g, gs)
  end.
(** the comma-separated groups of a token list; no token, no group *)
Definition groups (l : list sexp) : list (list sexp) :=
  match l with [] => [] | _ => let (g, gs) := split_top l in g :: gs end.

(** the last [n] elements of a list, and what is before them *)
Definition split_last_n {A} (n : nat) (l : list A) : list A * list A :=
  (firstn (List.length l - n) l, skipn (List.length l - n) l).

(** a return type as it follows a parameter list: nothing, or [-> tokens] *)
Definition read_arrow (l : list sexp) : option (option (list sexp)) :=
  match l with
  | [] => Some None
  | Atom m :: Atom g :: t => if String.eqb m "-" && String.eqb g ">" then Some (Some t) else None
  | _ => None
  end.

(** a group [name : type tokens] *)
Definition read_named (g : list sexp) : option (string * list sexp) :=
  match g with
  | Atom n :: Atom c :: ty => if String.eqb c ":" then Some (n, ty) else None
  | _ => None
  end.
Definition read_named_list (p : sexp) : option (list (string * list sexp)) :=
  match tagged "paren" p with Some l => read_all read_named (groups l) | None => None end.

(** ** function-pointer types: [unsafe extern "<abi>" fn(<name: type>, ...) [-> type]] *)
Definition fnptr_abi (l : list sexp) : option string :=
  match l with
  | Atom u :: Atom e :: lit :: Atom f :: _ =>
    if String.eqb u "unsafe" && String.eqb e "extern" && String.eqb f "fn" then read_strlit lit else None
  | _ => None
  end.
(** the calling convention that string names *)
Definition fnptr_cc (l : list sexp) : option cc :=
  match fnptr_abi l with Some s => cc_of_string s | None => None end.

(** an emitted fn-pointer type: ABI string, the parameters (name, type tokens), the return type *)
Record efnptr := { fp_abi : string; fp_args : list (string * list sexp); fp_ret : option (list sexp) }.

Definition read_fnptr (l : list sexp) : option efnptr :=
  match l with
  | Atom u :: Atom e :: lit :: Atom f :: args :: ret =>
    if String.eqb u "unsafe" && String.eqb e "extern" && String.eqb f "fn" then
      match read_strlit lit, read_named_list args, read_arrow ret with
      | Some abi, Some al, Some r => Some {| fp_abi := abi; fp_args := al; fp_ret := r |}
      | _, _, _ => None
      end
    else None
  | _ => None
  end.

(** ** function items *)
Inductive eparam : Type := EPSelf | EPMutSelf | EPNamed (n : string) (ty : list sexp).

Definition read_param (e : sexp) : option eparam :=
  match e with
  | Atom s => if String.eqb s "self" then Some EPSelf else if String.eqb s "mutself" then Some EPMutSelf else None
  | SList [Atom a; SList [Atom p; Atom n]; ty] =>
    if String.eqb a "arg" && String.eqb p "pat" then
      match tagged "ty" ty with Some t => Some (EPNamed n t) | None => None end
    else None
  | _ => None
  end.

Definition is_unsafe_qual (e : sexp) : bool := match e with Atom a => String.eqb a "unsafe" | _ => false end.

Record efn := { efn_docs : list string; efn_vis : vis; efn_unsafe : bool; efn_name : string;
                efn_params : list eparam; efn_ret : list sexp; efn_body : list sexp }.

Definition read_fn (e : sexp) : option efn :=
  match e with
  | SList [Atom k; attrs; v; quals; Atom name; params; ret; body] =>
    if String.eqb k "fn" then
      match tagged "attrs" attrs, read_vis v, tagged "quals" quals,
            tagged "params" params, tagged "ret" ret, tagged "body" body with
      | Some al, Some vi, Some ql, Some pl, Some rl, Some bl =>
        match read_all read_param pl with
        | Some ps => Some {| efn_docs := all_somes read_doc_attr al; efn_vis := vi;
                             efn_unsafe := existsb is_unsafe_qual ql; efn_name := name;
                             efn_params := ps; efn_ret := rl; efn_body := bl |}
        | None => None
        end
      | _, _, _, _, _, _ => None
      end
    else None
  | _ => None
  end.

Definition fn_name (e : sexp) : option string := option_map efn_name (read_fn e).
Definition fn_vis (e : sexp) : option vis := option_map efn_vis (read_fn e).
Definition fn_unsafe (e : sexp) : option bool := option_map efn_unsafe (read_fn e).
Definition fn_docs (e : sexp) : option (list string) := option_map efn_docs (read_fn e).
Definition fn_params (e : sexp) : option (list eparam) := option_map efn_params (read_fn e).
Definition fn_ret (e : sexp) : option (list sexp) := option_map efn_ret (read_fn e).
Definition fn_body (e : sexp) : option (list sexp) := option_map efn_body (read_fn e).

(** ** wrapper bodies *)
(** an argument passed to the foreign function: the receiver cast to a raw pointer
    ([self as *const Self as _] / [self as *mut Self as _]) or a parameter, by name *)
Inductive ecallarg : Type := CASelfConst | CASelfMut | CAName (n : string).

Definition read_call_arg (g : list sexp) : option ecallarg :=
  match g with
  | [Atom n] => Some (CAName n)
  | [Atom s; Atom a1; Atom st; Atom c; Atom sf; Atom a2; Atom u] =>
    if String.eqb s "self" && String.eqb a1 "as" && String.eqb st "*" && String.eqb sf "Self"
       && String.eqb a2 "as" && String.eqb u "_" then
      if String.eqb c "const" then Some CASelfConst else if String.eqb c "mut" then Some CASelfMut else None
    else None
  | _ => None
  end.
Definition read_call_args (p : sexp) : option (list ecallarg) :=
  match tagged "paren" p with Some l => read_all read_call_arg (groups l) | None => None end.

(** the three templates:
    - [EBAddress]: [let f: <fn-pointer type> = ::std::mem::transmute(<addr> as usize); f(<args>)]
    - [EBVftable]: [let f = std::ptr::addr_of!(( *self.vftable()).<slot>).read(); f(<args>)]
    - [EBField]:   [self.<base>.<fname>(<args>)] *)
Inductive ebody : Type :=
| EBAddress (ty : efnptr) (addr : N) (args : list ecallarg)
| EBVftable (slot : string) (args : list ecallarg)
| EBField (base fname : string) (args : list ecallarg).

Definition read_body_address (l : list sexp) : option ebody :=
  match atoms_prefix ["let"; "f"; ":"] l with
  | Some (u :: e :: lit :: f :: lam :: rest) =>
    let (ret, tail) := split_last_n 14 rest in
    match atoms_prefix ["="; ":"; ":"; "std"; ":"; ":"; "mem"; ":"; ":"; "transmute"] tail with
    | Some [arg; Atom semi; Atom f'; cargs] =>
      if String.eqb semi ";" && String.eqb f' "f" then
        match read_fnptr (u :: e :: lit :: f :: lam :: ret), tagged "paren" arg, read_call_args cargs with
        | Some ty, Some [alit; Atom a; Atom us], Some cas =>
          if String.eqb a "as" && String.eqb us "usize" then
            match read_int alit with Some (addr, _) => Some (EBAddress ty addr cas) | None => None end
          else None
        | _, _, _ => None
        end
      else None
    | _ => None
    end
  | _ => None
  end.

Definition read_body_vftable (l : list sexp) : option ebody :=
  match atoms_prefix ["let"; "f"; "="; "std"; ":"; ":"; "ptr"; ":"; ":"; "addr_of"; "!"] l with
  | Some [p1; Atom d; Atom rd; p2; Atom semi; Atom f'; cargs] =>
    if String.eqb d "." && String.eqb rd "read" && String.eqb semi ";" && String.eqb f' "f" then
      match tagged "paren" p1, tagged "paren" p2, read_call_args cargs with
      | Some [inner; Atom d2; Atom slot], Some [], Some cas =>
        if String.eqb d2 "." then
          match tagged "paren" inner with
          | Some [Atom st; Atom s; Atom d3; Atom vf; call] =>
            if String.eqb st "*" && String.eqb s "self" && String.eqb d3 "." && String.eqb vf "vftable" then
              match tagged "paren" call with Some [] => Some (EBVftable slot cas) | _ => None end
            else None
          | _ => None
          end
        else None
      | _, _, _ => None
      end
    else None
  | _ => None
  end.

Definition read_body_field (l : list sexp) : option ebody :=
  match l with
  | [Atom s; Atom d1; Atom base; Atom d2; Atom fname; cargs] =>
    if String.eqb s "self" && String.eqb d1 "." && String.eqb d2 "." then
      match read_call_args cargs with Some cas => Some (EBField base fname cas) | None => None end
    else None
  | _ => None
  end.

Definition read_body (l : list sexp) : option ebody :=
  match read_body_address l with
  | Some b => Some b
  | None => match read_body_vftable l with
            | Some b => Some b
            | None => read_body_field l
            end
  end.

Definition fn_wrapper_body (e : sexp) : option ebody :=
  match read_fn e with Some w => read_body (efn_body w) | None => None end.

(** ** impl items: [(impl (attrs) <trait> (self <name>) item...)] *)
Definition impl_parts (e : sexp) : option (sexp * string * list sexp) :=
  match e with
  | SList (Atom k :: _ :: tr :: SList [Atom s; Atom name] :: items) =>
    if String.eqb k "impl" && String.eqb s "self" then Some (tr, name, items) else None
  | _ => None
  end.
Definition is_notrait (tr : sexp) : bool := match tr with Atom a => String.eqb a "notrait" | _ => false end.
(** the items of an inherent impl ([impl Name { ... }]) and the type it is for *)
Definition inherent_impl (e : sexp) : option (string * list sexp) :=
  match impl_parts e with
  | Some (tr, name, items) => if is_notrait tr then Some (name, items) else None
  | None => None
  end.
(** the function of a given name among a list of items (the first one) *)
Definition is_fn_named (name : string) (e : sexp) : bool :=
  match fn_name e with Some n => String.eqb n name | None => false end.
Definition find_fn (name : string) (items : list sexp) : option sexp := find (is_fn_named name) items.

(** ** accessor bodies *)
(** struct singleton: [unsafe { let ptr: *mut Self = *(<A>usize as *mut *mut Self); ptr.as_mut() }]:
    the address literal *)
Definition read_singleton_body (l : list sexp) : option N :=
  match l with
  | [Atom u; br] =>
    if String.eqb u "unsafe" then
      match tagged "brace" br with
      | Some bl =>
        match atoms_prefix ["let"; "ptr"; ":"; "*"; "mut"; "Self"; "="; "*"] bl with
        | Some [p; Atom semi; Atom ptr; Atom d; Atom am; p2] =>
          if String.eqb semi ";" && String.eqb ptr "ptr" && String.eqb d "." && String.eqb am "as_mut" then
            match tagged "paren" p, tagged "paren" p2 with
            | Some (lit :: cast), Some [] =>
              match atoms_prefix ["as"; "*"; "mut"; "*"; "mut"; "Self"] cast, read_int lit with
              | Some [], Some (a, sfx) => if String.eqb sfx "usize" then Some a else None
              | _, _ => None
              end
            | _, _ => None
            end
          else None
        | _ => None
        end
      | None => None
      end
    else None
  | _ => None
  end.

(** enum singleton: [unsafe { (<A> as *const Self).read() }] *)
Definition read_enum_singleton_body (l : list sexp) : option N :=
  match l with
  | [Atom u; br] =>
    if String.eqb u "unsafe" then
      match tagged "brace" br with
      | Some [p; Atom d; Atom rd; p2] =>
        if String.eqb d "." && String.eqb rd "read" then
          match tagged "paren" p, tagged "paren" p2 with
          | Some (lit :: cast), Some [] =>
            match atoms_prefix ["as"; "*"; "const"; "Self"] cast, read_int lit with
            | Some [], Some (a, _) => Some a
            | _, _ => None
            end
          | _, _ => None
          end
        else None
      | _ => None
      end
    else None
  | _ => None
  end.

(** extern value: [unsafe { &mut *(<A> as *mut <type>) }]: the address literal and the type tokens *)
Definition read_extern_body (l : list sexp) : option (N * list sexp) :=
  match l with
  | [Atom u; br] =>
    if String.eqb u "unsafe" then
      match tagged "brace" br with
      | Some [Atom am; Atom m; Atom st; p] =>
        if String.eqb am "&" && String.eqb m "mut" && String.eqb st "*" then
          match tagged "paren" p with
          | Some (lit :: cast) =>
            match atoms_prefix ["as"; "*"; "mut"] cast, read_int lit with
            | Some ty, Some (a, _) => Some (a, ty)
            | _, _ => None
            end
          | _ => None
          end
        else None
      | _ => None
      end
    else None
  | _ => None
  end.

(** [&'static mut <type>]: the type tokens *)
Definition read_static_mut_ref (l : list sexp) : option (list sexp) := atoms_prefix ["&"; "'"; "static"; "mut"] l.

(** * The readers invert the printers *)

(** ** generalities *)
Lemma split_last_n_app {A} (a b : list A) n : List.length b = n -> split_last_n n (a ++ b) = (a, b).
Proof.
  intros <-. unfold split_last_n. rewrite app_length.
  replace (List.length a + List.length b - List.length b)%nat with (List.length a + 0)%nat by lia.
  rewrite firstn_app_2, skipn_app, Nat.add_0_r, skipn_all. cbn [firstn skipn].
  replace (List.length a - List.length a)%nat with 0%nat by lia. cbn [skipn app].
  now rewrite app_nil_r.
Qed.

Definition comma_free (g : list sexp) : Prop := Forall (fun e => is_comma e = false) g.

Lemma split_top_free g : comma_free g -> split_top g = (g, []).
Proof. induction 1 as [|e g He _ IH]; cbn [split_top]; [reflexivity|]. now rewrite IH, He. Qed.

Lemma split_top_app g rest : comma_free g ->
  split_top (g ++ tk "," :: rest) = (g, fst (split_top rest) :: snd (split_top rest)).
Proof.
  induction 1 as [|e g He _ IH]; cbn [app split_top].
  - destruct (split_top rest). reflexivity.
  - now rewrite IH, He.
Qed.

Lemma groups_commas : forall gs, Forall (fun g => g <> [] /\ comma_free g) gs -> groups (commas gs) = gs.
Proof.
  assert (forall gs g, Forall (fun g => g <> [] /\ comma_free g) (g :: gs) ->
                       split_top (commas (g :: gs)) = (g, gs)) as Haux.
  { induction gs as [|g' gs IH]; intros g H; inversion H as [|? ? [Hne Hf] Hrest]; subst.
    - cbn [commas]. now apply split_top_free.
    - change (commas (g :: g' :: gs)) with (g ++ tk "," :: commas (g' :: gs)).
      rewrite split_top_app by exact Hf. now rewrite (IH _ Hrest). }
  intros [|g gs] H; [reflexivity|]. unfold groups. rewrite (Haux _ _ H).
  inversion H as [|? ? [Hne _] _]; subst.
  destruct (commas (g :: gs)) eqn:E; [|reflexivity].
  exfalso. destruct gs as [|g' gs]; cbn [commas] in E; [contradiction|].
  destruct g; [contradiction | discriminate].
Qed.

Lemma read_all_map2 {A B C} (f : A -> option B) (g : C -> A) (h : C -> B) l :
  (forall c, In c l -> f (g c) = Some (h c)) -> read_all f (map g l) = Some (map h l).
Proof.
  induction l as [|c l IH]; intros H; cbn [map read_all]; [reflexivity|].
  rewrite (H c) by now left. rewrite IH; [reflexivity|]. intros c' Hc'. apply H. now right.
Qed.

(** ** what the type printer can put at the top level of a type *)
Lemma ident_ok_not_comma n : ident_ok n = true -> is_comma (Atom n) = false.
Proof.
  intros H. cbn [is_comma]. destruct (String.eqb_spec n ","); [subst n; discriminate | reflexivity].
Qed.

Lemma tks_comma_free l : forallb (fun s => negb (String.eqb s ",")) l = true -> comma_free (tks l).
Proof.
  unfold comma_free, tks. induction l as [|s l IH]; cbn [forallb map]; intros H; [constructor|].
  apply andb_true_iff in H as [Hs Hl]. constructor; [|now apply IH].
  cbn [is_comma]. now apply negb_true_iff in Hs.
Qed.

Lemma comma_free_app a b : comma_free a -> comma_free b -> comma_free (a ++ b).
Proof. intros Ha Hb. apply Forall_app. now split. Qed.

Lemma seg_tokens_free s : seg_ok s = true -> comma_free (seg_tokens s).
Proof.
  unfold seg_ok. destruct (seg_tokens s) as [|t l] eqn:E; [discriminate|]. intros H.
  apply Forall_forall. intros e He. rewrite forallb_forall in H. specialize (H e He).
  destruct e as [a| |]; try discriminate. apply orb_true_iff in H as [H|H].
  - apply orb_true_iff in H as [H|H]; [now apply ident_ok_not_comma|].
    apply String.eqb_eq in H. now subst.
  - apply String.eqb_eq in H. now subst.
Qed.

Lemma path_tokens_free : forall p, forallb seg_ok p = true -> comma_free (path_tokens p).
Proof.
  induction p as [|s p IH]; intros H; [constructor|]. cbn [forallb] in H. apply andb_true_iff in H as [Hs Hp].
  destruct p as [|s' p]; [now apply seg_tokens_free|].
  change (path_tokens (s :: s' :: p)) with (seg_tokens s ++ dcolon ++ path_tokens (s' :: p)).
  apply comma_free_app; [now apply seg_tokens_free|]. apply comma_free_app; [repeat constructor | now apply IH].
Qed.

Lemma raw_tokens_free p : forallb seg_ok p = true -> comma_free (raw_tokens p).
Proof.
  intros H. unfold raw_tokens. destruct (is_void p); [repeat constructor|].
  destruct p as [|a [|b p]]; try now apply path_tokens_free.
  constructor; [reflexivity|]. apply comma_free_app; [repeat constructor | now apply path_tokens_free].
Qed.

Lemma type_tokens_free : forall t, stype_ok t = true -> comma_free (type_tokens t).
Proof.
  fix IH 1. intros [p|t|t|t n|c args ret] H.
  - cbn [type_tokens]. cbn [stype_ok] in H. destruct p; [discriminate|]. now apply raw_tokens_free.
  - cbn [type_tokens]. constructor; [reflexivity|]. constructor; [reflexivity|]. apply IH. exact H.
  - cbn [type_tokens]. constructor; [reflexivity|]. constructor; [reflexivity|]. apply IH. exact H.
  - cbn [type_tokens]. repeat constructor.
  - cbn [type_tokens stype_ok] in *. apply andb_true_iff in H as [_ Hret].
    apply comma_free_app; [repeat constructor|].
    destruct ret as [r|]; [|constructor]. constructor; [reflexivity|]. constructor; [reflexivity|]. now apply IH.
Qed.

(** ** function-pointer types *)
Lemma fnptr_abi_printed abi args rest :
  fnptr_abi ([tk "unsafe"; tk "extern"; tstr abi; tk "fn"; args] ++ rest) = Some abi.
Proof. reflexivity. Qed.

Theorem fnptr_abi_type_tokens c args ret :
  fnptr_abi (type_tokens (TFunction c args ret)) = Some (cc_to_string c).
Proof. reflexivity. Qed.

Lemma cc_of_string_to_string c : cc_of_string (cc_to_string c) = Some c.
Proof. destruct c; reflexivity. Qed.

Theorem fnptr_cc_type_tokens c args ret : fnptr_cc (type_tokens (TFunction c args ret)) = Some c.
Proof. unfold fnptr_cc. rewrite fnptr_abi_type_tokens. apply cc_of_string_to_string. Qed.

(** the other types are not function pointers *)
Lemma read_arrow_ret_tokens r : read_arrow (ret_tokens r) = Some (option_map type_tokens r).
Proof. destruct r; reflexivity. Qed.

Lemma read_named_list_printed (gs : list (string * list sexp)) :
  Forall (fun g => comma_free (snd g) /\ is_comma (Atom (fst g)) = false) gs ->
  read_named_list (paren (commas (map (fun g => tk (fst g) :: tk ":" :: snd g) gs))) = Some gs.
Proof.
  intros H. unfold read_named_list, paren. cbn [tagged String.eqb Ascii.eqb Bool.eqb].
  rewrite groups_commas.
  - rewrite <- (map_id gs) at 2. apply read_all_map2. intros [n ty] _. reflexivity.
  - apply Forall_forall. intros g Hg. apply in_map_iff in Hg as ([n ty] & <- & Hin).
    rewrite Forall_forall in H. destruct (H _ Hin) as [Hty Hn]. cbn [fst snd] in *.
    split; [discriminate|]. constructor; [exact Hn|]. constructor; [reflexivity | exact Hty].
Qed.

(** a printed fn-pointer type, generally *)
Lemma read_fnptr_printed abi (gs : list (string * list sexp)) r :
  Forall (fun g => comma_free (snd g) /\ is_comma (Atom (fst g)) = false) gs ->
  read_fnptr (Atom "unsafe" :: Atom "extern" :: tstr abi :: Atom "fn" ::
              paren (commas (map (fun g => tk (fst g) :: tk ":" :: snd g) gs)) :: ret_tokens r)
  = Some {| fp_abi := abi; fp_args := gs; fp_ret := option_map type_tokens r |}.
Proof.
  intros H. unfold read_fnptr. cbn [String.eqb Ascii.eqb Bool.eqb andb].
  now rewrite read_strlit_tstr, read_named_list_printed, read_arrow_ret_tokens.
Qed.

(** the whole fn-pointer type, for a type that passed [stype_ok] *)
Theorem read_fnptr_type_tokens c args ret :
  stype_ok (TFunction c args ret) = true ->
  read_fnptr (type_tokens (TFunction c args ret))
  = Some {| fp_abi := cc_to_string c;
            fp_args := map (fun a => (fst a, type_tokens (snd a))) args;
            fp_ret := option_map type_tokens ret |}.
Proof.
  intros H. cbn [stype_ok] in H. apply andb_true_iff in H as [Hargs _].
  change (type_tokens (TFunction c args ret))
    with (Atom "unsafe" :: Atom "extern" :: tstr (cc_to_string c) :: Atom "fn" ::
          paren (commas (map (fun a => tk (fst a) :: tk ":" :: type_tokens (snd a)) args)) :: ret_tokens ret).
  replace (map (fun a : string * stype => tk (fst a) :: tk ":" :: type_tokens (snd a)) args)
    with (map (fun g : string * list sexp => tk (fst g) :: tk ":" :: snd g)
              (map (fun a => (fst a, type_tokens (snd a))) args)) by (now rewrite map_map).
  apply read_fnptr_printed.
  apply Forall_forall. intros g Hg. apply in_map_iff in Hg as ([n t] & <- & Hin). cbn [fst snd].
  rewrite forallb_forall in Hargs. specialize (Hargs _ Hin). cbn [fst snd] in Hargs.
  apply andb_true_iff in Hargs as [Hn Ht]. apply andb_true_iff in Hn as [Hn _].
  split; [now apply type_tokens_free | now apply ident_ok_not_comma].
Qed.

(** ** function items *)
Definition param_of_arg (a : sarg) : eparam :=
  match a with
  | SConstSelf => EPSelf
  | SMutSelf => EPMutSelf
  | SField n t => EPNamed n (type_tokens t)
  end.

Lemma read_param_param_sexp a : read_param (param_sexp a) = Some (param_of_arg a).
Proof. destruct a; reflexivity. Qed.

Lemma read_params_printed args : read_all read_param (map param_sexp args) = Some (map param_of_arg args).
Proof. apply read_all_map2. intros a _. apply read_param_param_sexp. Qed.

Lemma read_fn_fn_sexp attrs v (u : bool) name params ret body ps :
  read_all read_param params = Some ps ->
  read_fn (fn_sexp attrs v u name params ret body)
  = Some {| efn_docs := all_somes read_doc_attr attrs; efn_vis := v; efn_unsafe := u; efn_name := name;
            efn_params := ps; efn_ret := ret; efn_body := body |}.
Proof.
  intros Hps. unfold read_fn, fn_sexp, attrs_sexp. cbn [String.eqb Ascii.eqb Bool.eqb tagged].
  rewrite read_vis_vis_sexp, Hps. destruct u; reflexivity.
Qed.

Lemma fn_sexp_kind attrs v u name params ret body :
  item_kind (fn_sexp attrs v u name params ret body) = Some "fn".
Proof. reflexivity. Qed.

(** ** the arguments passed *)
Definition callarg_of_arg (a : sarg) : ecallarg :=
  match a with
  | SConstSelf => CASelfConst
  | SMutSelf => CASelfMut
  | SField n _ => CAName n
  end.

(** how a parameter appears in the transmuted fn-pointer type: the receiver is [this], a raw
    pointer to [Self] *)
Definition lam_of_arg (a : sarg) : string * list sexp :=
  match a with
  | SConstSelf => ("this", tks ["*"; "const"; "Self"])
  | SMutSelf => ("this", tks ["*"; "mut"; "Self"])
  | SField n t => (n, type_tokens t)
  end.

Definition arg_name_ok (a : sarg) : bool := match a with SField n _ => ident_ok n | _ => true end.
Definition arg_type_ok (a : sarg) : bool := match a with SField _ t => stype_ok t | _ => true end.

Lemma read_call_arg_call_arg a : read_call_arg (call_arg a) = Some (callarg_of_arg a).
Proof. destruct a; reflexivity. Qed.

Lemma call_arg_free a : arg_name_ok a = true -> call_arg a <> [] /\ comma_free (call_arg a).
Proof.
  destruct a as [| |n t]; intros H; (split; [discriminate|]); try (repeat constructor).
  now apply ident_ok_not_comma.
Qed.

Lemma read_call_args_printed args :
  forallb arg_name_ok args = true ->
  read_call_args (paren (commas (map call_arg args))) = Some (map callarg_of_arg args).
Proof.
  intros H. unfold read_call_args, paren. cbn [tagged String.eqb Ascii.eqb Bool.eqb].
  rewrite groups_commas.
  - apply read_all_map2. intros a _. apply read_call_arg_call_arg.
  - apply Forall_forall. intros g Hg. apply in_map_iff in Hg as (a & <- & Hin).
    rewrite forallb_forall in H. now apply call_arg_free, H.
Qed.

Lemma lambda_arg_lam a : lambda_arg a = tk (fst (lam_of_arg a)) :: tk ":" :: snd (lam_of_arg a).
Proof. destruct a; reflexivity. Qed.

Lemma lam_of_arg_free a : arg_name_ok a = true -> arg_type_ok a = true ->
  comma_free (snd (lam_of_arg a)) /\ is_comma (Atom (fst (lam_of_arg a))) = false.
Proof.
  destruct a as [| |n t]; cbn [arg_name_ok arg_type_ok lam_of_arg fst snd]; intros Hn Ht.
  - split; [repeat constructor | reflexivity].
  - split; [repeat constructor | reflexivity].
  - split; [now apply type_tokens_free | now apply ident_ok_not_comma].
Qed.

(** ** the three body templates *)
Lemma read_body_address_printed abi (gs : list (string * list sexp)) r a cargs cas :
  Forall (fun g => comma_free (snd g) /\ is_comma (Atom (fst g)) = false) gs ->
  read_call_args cargs = Some cas ->
  read_body_address
    (Atom "let" :: Atom "f" :: Atom ":" :: Atom "unsafe" :: Atom "extern" :: tstr abi :: Atom "fn" ::
     paren (commas (map (fun g => tk (fst g) :: tk ":" :: snd g) gs)) ::
     ret_tokens r ++
     [Atom "="; Atom ":"; Atom ":"; Atom "std"; Atom ":"; Atom ":"; Atom "mem"; Atom ":"; Atom ":";
      Atom "transmute"; paren [tint a "-"; Atom "as"; Atom "usize"]; Atom ";"; Atom "f"; cargs])
  = Some (EBAddress {| fp_abi := abi; fp_args := gs; fp_ret := option_map type_tokens r |} a cas).
Proof.
  intros Hgs Hcas. unfold read_body_address. cbn [atoms_prefix String.eqb Ascii.eqb Bool.eqb].
  rewrite split_last_n_app by reflexivity.
  cbn [atoms_prefix String.eqb Ascii.eqb Bool.eqb andb].
  rewrite (read_fnptr_printed abi gs r Hgs), Hcas. unfold paren at 1.
  cbn [tagged String.eqb Ascii.eqb Bool.eqb andb]. now rewrite read_int_tint.
Qed.

Lemma read_body_vftable_printed slot cargs cas :
  read_call_args cargs = Some cas ->
  read_body
    (tks ["let"; "f"; "="; "std"; ":"; ":"; "ptr"; ":"; ":"; "addr_of"; "!"] ++
     [paren [paren [tk "*"; tk "self"; tk "."; tk "vftable"; paren []]; tk "."; tk slot];
      tk "."; tk "read"; paren []; tk ";"; tk "f"; cargs])
  = Some (EBVftable slot cas).
Proof.
  intros Hcas. unfold read_body, read_body_address, read_body_vftable, tks, tk, paren.
  cbn [map app atoms_prefix String.eqb Ascii.eqb Bool.eqb andb tagged]. now rewrite Hcas.
Qed.

Lemma read_body_field_printed base fname cargs cas :
  read_call_args cargs = Some cas ->
  read_body [tk "self"; tk "."; tk base; tk "."; tk fname; cargs] = Some (EBField base fname cas).
Proof.
  intros Hcas. unfold read_body, read_body_address, read_body_vftable, read_body_field, tk.
  cbn [atoms_prefix String.eqb Ascii.eqb Bool.eqb andb]. now rewrite Hcas.
Qed.

(** ** impl items *)
Lemma impl_parts_printed tr name items : impl_parts (impl_sexp tr name items) = Some (tr, name, items).
Proof. reflexivity. Qed.

Lemma inherent_impl_printed name items : inherent_impl (impl_sexp (Atom "notrait") name items) = Some (name, items).
Proof. reflexivity. Qed.

Lemma impl_sexp_kind tr name items : item_kind (impl_sexp tr name items) = Some "impl".
Proof. reflexivity. Qed.

(** ** accessor bodies *)
Lemma read_singleton_body_printed addr :
  read_singleton_body
    [tk "unsafe";
     brace (tks ["let"; "ptr"; ":"; "*"; "mut"; "Self"; "="; "*"] ++
            [paren ([tint addr "usize"] ++ tks ["as"; "*"; "mut"; "*"; "mut"; "Self"]); tk ";";
             tk "ptr"; tk "."; tk "as_mut"; paren []])] = Some addr.
Proof.
  unfold read_singleton_body, tks, tk, brace, paren.
  cbn [map app atoms_prefix String.eqb Ascii.eqb Bool.eqb andb tagged]. now rewrite read_int_tint.
Qed.

Lemma read_enum_singleton_body_printed addr :
  read_enum_singleton_body
    [tk "unsafe"; brace [paren ([tint addr "-"] ++ tks ["as"; "*"; "const"; "Self"]); tk "."; tk "read"; paren []]]
  = Some addr.
Proof.
  unfold read_enum_singleton_body, tks, tk, brace, paren.
  cbn [map app atoms_prefix String.eqb Ascii.eqb Bool.eqb andb tagged]. now rewrite read_int_tint.
Qed.

Lemma read_extern_body_printed addr ty :
  read_extern_body
    [tk "unsafe"; brace [tk "&"; tk "mut"; tk "*"; paren ([tint addr "-"] ++ tks ["as"; "*"; "mut"] ++ ty)]]
  = Some (addr, ty).
Proof.
  unfold read_extern_body, tks, tk, brace, paren.
  cbn [map app atoms_prefix String.eqb Ascii.eqb Bool.eqb andb tagged]. now rewrite read_int_tint.
Qed.

Lemma read_static_mut_ref_printed ty : read_static_mut_ref (tks ["&"; "'"; "static"; "mut"] ++ ty) = Some ty.
Proof. reflexivity. Qed.
