(** * C19 on the EMITTED FILES: a module's file does not depend on unrelated definitions.

    Unrelated.v / UnrelatedStates.v prove C19 for the final REGISTRY (the resolved values of the
    first input's items, the extern values of its modules).  This file lifts it to what the back
    end writes: under the same hypotheses, the file of every module of the first input is the same
    in the build of [mods1] and in the build of [mods1 ++ extra].

    Ingredients:
    - EmitLocal.v: [build_item] reads the registry only along base-class chains, and a larger
      recursion fuel gives the same result (the two final registries have different sizes);
    - UnrelatedGen.v: the generated [<T>Vftable] items of first-input owners are the same items in
      both builds; registration facts;
    - here: every by-value path in a resolved first-input type is a lookup candidate of the first
      input ([att_done_regions], from the frame lemmas' [rtyP]), the two final registries agree on
      all candidates ([UnrelatedStates.sim_ragree]); the modules' [m_defpaths] are permutations of
      each other ([FinalState.DInv] in both builds). *)
From Coq Require Import List NArith ZArith Bool Lia String Permutation.
From PyxisModel Require Import Base Sexp Grammar SemTypes Registry Sem Emit SemLemmas ScopeLemmas
     PlacementLemmas TotalityLemmas EnumLemmas EmitLemmas WholeBuild Monotone OrderIndep Locality Frame
     SortUnique EmitInvariance FinalState OutputIndep Examples Unrelated UnrelatedStates EmitLocal UnrelatedGen.
From PyxisModel Require Confluence.
Import ListNotations.
Local Open Scope string_scope.
Local Open Scope list_scope.

(** ** the regions of a type resolved by one attempt keep their by-value paths in [P] *)
Lemma ragree_refl (P : path -> Prop) R : ragree P R R.
Proof. split; auto. Qed.

Lemma magree_refl k ms : magree k ms ms.
Proof. unfold magree. destruct (alookup k ms); [apply mod_eq_refl | exact I]. Qed.

Lemma type_build_regions_P (P : path -> Prop) st p v d st' rs td :
  P ["u8"] -> type_build st p v d = (st', Ok rs) -> rs_inner rs = IType td ->
  (forall parent m, path_parent p = Some parent -> alookup parent (st_modules st) = Some m ->
     lookup_ok P (st_reg st) m (flat_map stmt_names (gt_stmts d) ++ impl_names m p) p) ->
  Forall (rtyP P) (td_regions td).
Proof.
  intros Hu8 H Hi Hlk.
  destruct (type_build_inv _ _ _ _ _ _ H) as
      (parent & module & doc & ta & n & pending & vfs & regions & vt & size & funcs & A &
       Hpar & Hmod & Hta & Hst & Hrr & Hca & Hr).
  subst rs. cbn [rs_inner] in Hi. inversion Hi; subst td. cbn [td_regions].
  specialize (Hlk parent module Hpar Hmod). pose proof (lookup_ok_namesP P _ _ _ _ Hlk) as Hn.
  destruct Hlk as (Hscope & _ & _).
  apply namesP_app in Hn as [Hns _].
  assert (Forall (fun q => rtyP P (snd q)) pending) as Hpend.
  { eapply (process_statements_rtyP P Hu8 (module_scope module)
              (scope_mods (st_reg st) (module_scope module)) Hscope (st_reg st) eq_refl);
      [exact Hns | constructor | exact Hst]. }
  pose proof (resolve_regions_frame P Hu8 st st p v (ta_size ta) pending vfs (ragree_refl P _)
                (fun parent _ => magree_refl parent _) Hpend) as Hrel.
  rewrite Hrr in Hrel. cbn [rr_rel] in Hrel. tauto.
Qed.

(** the abstract attempt of the first input: a resolved type's by-value paths are candidates *)
Lemma att_done_regions st1 A k r td :
  (forall km, In km (st_modules st1) -> clean_module (snd km) = true) ->
  att st1 A k = Confluence.Done _ r -> rs_inner r = IType td ->
  Forall (rtyP (candP st1)) (td_regions td).
Proof.
  intros Hmods. unfold att. destruct (reg_get (st_reg st1) k) as [it|] eqn:Eg; [|discriminate].
  destruct (it_state it) as [gd|r0] eqn:Es; [|discriminate].
  intros H Hi. destruct (snd (attempt (conc st1 A) k gd)) as [r'| | |] eqn:Ea; cbn [classify] in H; try discriminate.
  inversion H; subst r'. clear H. unfold attempt in Ea. destruct (gi_inner gd) as [gtd|ed] eqn:Ety.
  - destruct (type_build (conc st1 A) k (gi_vis gd) gtd) as [st' o] eqn:Etb. cbn [snd] in Ea. subst o.
    eapply type_build_regions_P; [left; reflexivity | exact Etb | exact Hi |].
    intros parent m Hp Hm. cbn [conc st_reg st_modules] in *.
    pose proof (cands_lookup_ok st1 Hmods A k it gd parent m Eg Es Hp Hm) as L.
    unfold def_names in L. rewrite Ety in L. exact L.
  - cbn [snd] in Ea. destruct (enum_build_spec _ _ _ _ Ea) as (ed' & _ & _ & He & _). congruence.
Qed.

(** ** [accepted_sims], keeping the fact that the abstract state of the first build is reached by
    [Done] steps *)
Lemma accepted_sims_steps st1 st2 mps o1 o2 fuel1 fuel2 s1 s2 :
  good_input st1 -> good_input st2 ->
  st_ext mps st1 st2 -> (forall k, In k mps -> amem k (st_modules st1) = false) -> parented st1 ->
  (forall c, In c (state_cands st1) -> reg_has (st_reg st2) c = reg_has (st_reg st1) c) ->
  (forall l, Permutation (o1 l) l) -> (forall l, Permutation (o2 l) l) ->
  resolve_loop o1 fuel1 st1 = BOk s1 -> resolve_loop o2 fuel2 st2 = BOk s2 ->
  exists A1 A2, sim st1 s1 A1 /\ sim st2 s2 A2 /\ (forall k, In k (items st1) -> A1 k = A2 k) /\
    Confluence.steps path resolved path_eqb (att st1) (items st1) (fun _ => None) A1.
Proof.
  intros [Hcf1 Hu1 Hm1 Hd1 HK1 HN1] [Hcf2 Hu2 Hm2 Hd2 HK2 HN2] Hext Hfresh Hpar Hnc P1 P2 L1 L2.
  pose proof (loop_sim st1 Hcf1 Hu1 Hm1 Hd1 HK1 HN1 o1 P1 fuel1 st1 _ (sim_init st1 HK1)) as S1.
  pose proof (loop_sim st2 Hcf2 Hu2 Hm2 Hd2 HK2 HN2 o2 P2 fuel2 st2 _ (sim_init st2 HK2)) as S2.
  rewrite L1 in S1. rewrite L2 in S2.
  destruct (Confluence.loop path resolved path_eqb (att st1) (items st1) o1 true fuel1 (fun _ => None)) as [A1|A1| |] eqn:E1;
    cbn [abs_result] in S1; try contradiction.
  destruct (Confluence.loop path resolved path_eqb (att st2) (items st2) o2 true fuel2 (fun _ => None)) as [A2|A2| |] eqn:E2;
    cbn [abs_result] in S2; try contradiction.
  exists A1, A2. split; [exact S1|]. split; [exact S2|]. split.
  - intros k Hk.
    apply (accepted_builds_agree path resolved path_eqb path_eqb_spec (att st1) (att st2) (items st1) (items st2)
             (items_incl st1 st2 mps HN1 Hext)) with (o1 := o1) (o2 := o2) (fuel1 := fuel1) (fuel2 := fuel2)
             (R0 := fun _ => None); auto.
    + intros A k' Hk'. apply (att_agree st1 st2 mps Hext Hfresh Hpar Hnc Hm1).
      destruct (items_spec st1 HN1 k' Hk') as (it & gd & Hg & _). unfold user. congruence.
    + apply (att_M1 st2 Hcf2 Hu2 Hm2 Hd2).
  - apply (strict_ok_steps path resolved path_eqb (att st1) (items st1) o1 fuel1 _ _ P1 E1).
Qed.

(** ** [finish_build] keeps the keys of the module table *)
Lemma finish_build_keys s t : finish_build s = BOk t -> map fst (st_modules t) = map fst (st_modules s).
Proof.
  intros F. apply finish_build_mods in F. revert F. generalize (st_modules t).
  induction (st_modules s) as [|[k m] ms IH]; intros out H; cbn [mapM] in H.
  - inversion H. reflexivity.
  - inv_bind H. inv_bind Ha. inv_bind H. inversion Ha; subst a. inversion H; subst out. cbn [map fst].
    f_equal. now apply IH.
Qed.

Lemma mapM_in_out {A B} (f : A -> outcome B) : forall l out, mapM f l = Ok out ->
  forall b, In b out -> exists a, In a l /\ f a = Ok b.
Proof.
  induction l as [|a l IH]; intros out H b Hb; cbn [mapM] in H.
  - inversion H; subst. destruct Hb.
  - inv_bind H. inv_bind H. inversion H; subst out. destruct Hb as [<-|Hb].
    + exists a. split; [now left | exact Ha].
    + destruct (IH _ Ha0 b Hb) as (a' & Hin & Hf). exists a'. split; [now right | exact Hf].
Qed.

Lemma mapM_in_in {A B} (f : A -> outcome B) : forall l out, mapM f l = Ok out ->
  forall a, In a l -> exists b, In b out /\ f a = Ok b.
Proof.
  induction l as [|a0 l IH]; intros out H a Hin; cbn [mapM] in H; [destruct Hin|].
  inv_bind H. inv_bind H. inversion H; subst out. destruct Hin as [<-|Hin].
  - exists a1. split; [now left | exact Ha].
  - destruct (IH _ Ha0 a Hin) as (b & Hb & Hf). exists b. split; [now right | exact Hf].
Qed.

Section Files.
  Variables (ptr : N) (mods1 extra : list (path * gmodule)) (st1 st2 t1 t2 : sstate).
  Variables (o1 o2 : list path -> list path).
  Hypothesis Hin1 : input_state ptr mods1 = Ok st1.
  Hypothesis Hin2 : input_state ptr (mods1 ++ extra) = Ok st2.
  Hypothesis Hcf1 : collision_free (st_reg st1).
  Hypothesis Hcf2 : collision_free (st_reg st2).
  Hypothesis Hcl1 : clean_stateb st1 = true.
  Hypothesis Hcl2 : clean_stateb st2 = true.
  Hypothesis Hnc : no_capture st1 st2 extra = true.
  Hypothesis P1 : forall l, Permutation (o1 l) l.
  Hypothesis P2 : forall l, Permutation (o2 l) l.
  Hypothesis L1 : pyxis_resolve o1 ptr mods1 = BOk t1.
  Hypothesis L2 : pyxis_resolve o2 ptr (mods1 ++ extra) = BOk t2.
  Let R1 := st_reg st1.
  Let R2 := st_reg st2.
  Let mps := map fst extra.

  Lemma G1 : good_input st1. Proof. eapply input_good; eauto. Qed.
  Lemma G2 : good_input st2. Proof. eapply input_good; eauto. Qed.
  Lemma Hext : st_ext mps st1 st2.
  Proof. apply add_modules_ext. eapply input_state_app; eauto. Qed.
  Lemma Hnew : new_under mps st1 st2.
  Proof. apply add_modules_new_under. eapply input_state_app; eauto. Qed.
  Lemma Hfresh : forall k, In k mps -> amem k (st_modules st1) = false.
  Proof. apply (no_capture_sound _ _ _ Hnc). Qed.
  Lemma Hcands : forall c, In c (state_cands st1) -> reg_has (st_reg st2) c = reg_has (st_reg st1) c.
  Proof. apply (no_capture_sound _ _ _ Hnc). Qed.
  Lemma Hpar : parented st1.
  Proof. eapply input_state_parented; eauto. Qed.

  Lemma user_agree p : user R1 p -> reg_get (st_reg t1) p = reg_get (st_reg t2) p.
  Proof. apply (pyxis_resolve_unrelated ptr mods1 extra st1 st2 o1 o2 t1 t2); assumption. Qed.

  Lemma ptr_eq : reg_ptr R1 = reg_ptr R2.
  Proof. symmetry. apply (ext_ptr _ _ _ Hext). Qed.

  (** a child of a first-input module that is not a first-input item is not a second-input item *)
  Lemma R2_none p k : amem k (st_modules st1) = true -> path_parent p = Some k ->
    reg_get R1 p = None -> reg_get R2 p = None.
  Proof.
    intros Hk Hp Hn. destruct (reg_get R2 p) as [it|] eqn:E; [|reflexivity]. exfalso.
    destruct (Hnew _ _ E) as [H|(mp & Hin & Hp')]; [unfold R1 in Hn; congruence|].
    rewrite Hp in Hp'. inversion Hp'; subst mp. rewrite (Hfresh _ Hin) in Hk. discriminate.
  Qed.

  Lemma R1_none p : reg_get R2 p = None -> reg_get R1 p = None.
  Proof.
    unfold R1, R2. intros Hn. destruct (reg_get (st_reg st1) p) as [it|] eqn:E; [|reflexivity].
    rewrite (ext_reg _ _ _ Hext _ _ E) in Hn. discriminate.
  Qed.

  (** *** the generated items under the first input's modules agree *)
  Lemma gen_agree p k : amem k (st_modules st1) = true -> path_parent p = Some k ->
    reg_get R1 p = None -> reg_get (st_reg t1) p = reg_get (st_reg t2) p.
  Proof.
    intros Hk Hp Hn. pose proof (R2_none p k Hk Hp Hn) as Hn2.
    destruct (reg_get (st_reg t1) p) as [it|] eqn:E1.
    - symmetry.
      apply (gen_transfer ptr mods1 st1 t1 o1 ptr (mods1 ++ extra) st2 t2 o2 Hin1 Hcf1 Hcl1 P1 L1
               Hin2 Hcf2 Hcl2 P2 L2 ptr_eq p it Hn E1).
      intros owner it0 Hvp Hg0. split; [apply (ext_reg _ _ _ Hext); exact Hg0|].
      symmetry. apply user_agree. unfold user, R1. congruence.
    - destruct (reg_get (st_reg t2) p) as [it|] eqn:E2; [|reflexivity].
      rewrite <- E1.
      apply (gen_transfer ptr (mods1 ++ extra) st2 t2 o2 ptr mods1 st1 t1 o1 Hin2 Hcf2 Hcl2 P2 L2
               Hin1 Hcf1 Hcl1 P1 L1 (eq_sym ptr_eq) p it Hn2 E2).
      intros owner it0 Hvp Hg0.
      assert (reg_get R1 owner = Some it0) as Hg1.
      { destruct (Hnew _ _ Hg0) as [H|(mp & Hin & Hp')]; [exact H|]. exfalso.
        rewrite <- (vftable_path_parent _ _ Hvp), Hp in Hp'. inversion Hp'; subst mp.
        rewrite (Hfresh _ Hin) in Hk. discriminate. }
      split; [exact Hg1|]. apply user_agree. unfold user, R1. fold R1. congruence.
  Qed.

  Lemma parent_agree p k : amem k (st_modules st1) = true -> path_parent p = Some k ->
    reg_get (st_reg t1) p = reg_get (st_reg t2) p.
  Proof.
    intros Hk Hp. destruct (reg_get R1 p) as [it|] eqn:E.
    - apply user_agree. unfold user. fold R1. congruence.
    - eapply gen_agree; eauto.
  Qed.

  (** every entry of the first final registry is an entry of the second *)
  Lemma present_t2 p : reg_get (st_reg t1) p <> None -> reg_get (st_reg t2) p <> None.
  Proof.
    intros H. destruct (reg_get R1 p) as [it0|] eqn:E0.
    - rewrite <- user_agree; [exact H | unfold user; fold R1; congruence].
    - destruct (reg_get (st_reg t1) p) as [it|] eqn:E1; [|congruence].
      destruct (gen_item_parent ptr mods1 st1 t1 o1 Hin1 Hcf1 Hcl1 P1 L1 p it E0 E1) as (owner & Ho & Hpp).
      destruct (reg_get (st_reg st1) owner) as [ito|] eqn:Eo; [|congruence].
      destruct (Hpar _ _ Eo) as (k & Hk & Hm).
      rewrite <- (gen_agree p k Hm), E1; [discriminate | congruence | exact E0].
  Qed.

  (** *** the loop states *)
  Variables s1 s2 : sstate.
  Variables A1 A2 : astate.
  Hypothesis F1 : finish_build s1 = BOk t1.
  Hypothesis F2 : finish_build s2 = BOk t2.
  Hypothesis S1 : sim st1 s1 A1.
  Hypothesis S2 : sim st2 s2 A2.
  Hypothesis Hagree : forall k, In k (items st1) -> A1 k = A2 k.
  Hypothesis Hsteps : Confluence.steps path resolved path_eqb (att st1) (items st1) (fun _ => None) A1.
  Hypothesis D1 : DInv st1 s1.
  Hypothesis D2 : DInv st2 s2.

  Lemma E1 : st_reg t1 = st_reg s1. Proof. apply finish_build_reg. exact F1. Qed.
  Lemma E2 : st_reg t2 = st_reg s2. Proof. apply finish_build_reg. exact F2. Qed.

  Lemma cand_agree c : candP st1 c -> reg_get (st_reg t1) c = reg_get (st_reg t2) c.
  Proof.
    intros Hc. rewrite E1, E2.
    apply (sim_ragree st1 st2 mps G1 G2 Hext Hcands s1 s2 A1 A2 S1 S2 Hagree). exact Hc.
  Qed.

  (** every item of the first final registry has its by-value base-class paths among the
      candidates of the first input *)
  Lemma all_itemQ p it : reg_get (st_reg t1) p = Some it -> itemQ (candP st1) it.
  Proof.
    intros Hg rs td Hr Hi r q Hin Hb Ht.
    destruct (reg_get R1 p) as [it0|] eqn:E0.
    - assert (user (st_reg st1) p) as Hu by (unfold user; fold R1; congruence).
      rewrite E1, (sim_user _ _ _ S1 p Hu), reg_get_mark in Hg. fold R1 in Hg. rewrite E0 in Hg.
      cbn [option_map] in Hg. inversion Hg; subst it; clear Hg.
      unfold mark_item in Hr. cbn [fst snd] in Hr. destruct (it_state it0) as [gd|r0] eqn:Es.
      + destruct (A1 p) as [ra|] eqn:Ea; cbn [snd] in Hr.
        * unfold item_resolved in Hr. cbn [it_state] in Hr. inversion Hr; subst ra; clear Hr.
          destruct (Confluence.steps_just path resolved path_eqb path_eqb_spec _ _ _ _ Hsteps p rs Ea)
            as [Hx|(_ & A' & _ & _ & _ & Hatt)]; [discriminate|].
          pose proof (att_done_regions st1 A' p rs td (gi_mods _ G1) Hatt Hi) as Hall.
          rewrite Forall_forall in Hall. specialize (Hall r Hin). unfold rtyP in Hall. rewrite Ht in Hall. exact Hall.
        * unfold item_resolved in Hr. rewrite Es in Hr. discriminate.
      + cbn [snd] in Hr. unfold item_resolved in Hr. rewrite Es in Hr. inversion Hr; subst r0.
        rewrite (input_state_resolved_plain _ _ _ Hin1 p it0 E0 rs td Es Hi) in Hin. destruct Hin.
    - rewrite (gen_item_no_base ptr mods1 st1 t1 o1 Hin1 Hcf1 Hcl1 P1 L1 p it rs td E0 Hg Hr Hi r Hin) in Hb.
      discriminate.
  Qed.

  Lemma t1_keyed : keyed (st_reg t1).
  Proof. rewrite E1. apply (sim_keyed _ _ _ S1). Qed.

  Lemma reg_len : List.length (reg_types (st_reg t1)) <= List.length (reg_types (st_reg t2)).
  Proof.
    rewrite <- (map_length fst (reg_types (st_reg t1))), <- (map_length fst (reg_types (st_reg t2))).
    apply NoDup_incl_length.
    - rewrite E1. eapply evolves_nodup; [apply (gi_nodup _ G1) | apply (sim_ev _ _ _ S1)].
    - intros k Hk. apply alookup_some_in_keys. apply alookup_some_in_keys in Hk.
      apply (present_t2 k). exact Hk.
  Qed.

  (** *** the modules of the first input in the two final states *)
  Lemma amem_of k m : alookup k (st_modules st1) = Some m -> amem k (st_modules st1) = true.
  Proof. intros H. unfold amem. now rewrite H. Qed.

  Lemma st2_module k m : alookup k (st_modules st1) = Some m -> alookup k (st_modules st2) = Some m.
  Proof.
    intros Hk. rewrite (ext_mods _ _ _ Hext); [exact Hk|]. intros Hin.
    pose proof (amem_of _ _ Hk) as Hm. rewrite (Hfresh _ Hin) in Hm. discriminate.
  Qed.

  Lemma resolve_extern_values_fields R m m' : resolve_extern_values R m = Ok m' ->
    m_defpaths m' = m_defpaths m /\ m_backends m' = m_backends m /\ m_doc m' = m_doc m.
  Proof. unfold resolve_extern_values. intros H. inv_bind H. inversion H; subst m'. cbn. auto. Qed.

  Lemma gen_in_iff k m p : alookup k (st_modules st1) = Some m ->
    gen_in st1 (st_reg s1) k p <-> gen_in st2 (st_reg s2) k p.
  Proof.
    intros Hk. pose proof (amem_of _ _ Hk) as Hm. unfold gen_in. fold R1 R2. rewrite <- E1, <- E2. split.
    - intros (Hn & Hs & Hp). split; [eapply R2_none; eauto|]. split; [|exact Hp].
      rewrite <- (gen_agree p k Hm Hp Hn). exact Hs.
    - intros (Hn & Hs & Hp). pose proof (R1_none p Hn) as Hn1. split; [exact Hn1|]. split; [|exact Hp].
      rewrite (gen_agree p k Hm Hp Hn1). exact Hs.
  Qed.

  Lemma module_rel k m m1 m2 :
    alookup k (st_modules st1) = Some m ->
    alookup k (st_modules t1) = Some m1 -> alookup k (st_modules t2) = Some m2 ->
    mod_out_rel m1 m2 /\ forall p, In p (m_defpaths m1) -> path_parent p = Some k.
  Proof.
    intros Hk Hl1 Hl2. pose proof (st2_module _ _ Hk) as Hk2.
    pose proof (mods_rel_agree _ _ (sim_mods _ _ _ S1) k) as M1. rewrite Hk in M1.
    pose proof (mods_rel_agree _ _ (sim_mods _ _ _ S2) k) as M2. rewrite Hk2 in M2.
    destruct (alookup k (st_modules s1)) as [ms1|] eqn:Es1; [|contradiction].
    destruct (alookup k (st_modules s2)) as [ms2|] eqn:Es2; [|contradiction].
    destruct (finish_build_lookup _ _ _ _ F1 Es1) as (m1' & Hr1 & Hl1'). rewrite Hl1 in Hl1'. inversion Hl1'; subst m1'.
    destruct (finish_build_lookup _ _ _ _ F2 Es2) as (m2' & Hr2 & Hl2'). rewrite Hl2 in Hl2'. inversion Hl2'; subst m2'.
    pose proof (extern_values_frame st1 st2 mps G1 G2 Hext Hfresh Hcands s1 s2 A1 A2 S1 S2 Hagree
                  k m ms1 ms2 Hk Es1 Es2) as Hev.
    rewrite Hr1, Hr2 in Hev.
    destruct (resolve_extern_values_fields _ _ _ Hr1) as (Hdp1 & Hb1 & Hd1).
    destruct (resolve_extern_values_fields _ _ _ Hr2) as (Hdp2 & Hb2 & Hd2).
    destruct D1 as [_ HD1]. destruct D2 as [_ HD2].
    destruct (HD1 _ _ Es1) as (m0 & Hm0 & Hsame1 & Hnd1 & Hset1). rewrite Hk in Hm0. inversion Hm0; subst m0.
    destruct (HD2 _ _ Es2) as (m0 & Hm0' & Hsame2 & Hnd2 & Hset2). rewrite Hk2 in Hm0'. inversion Hm0'; subst m0.
    destruct Hsame1 as (_ & _ & _ & _ & Hbk1 & Hdc1). destruct Hsame2 as (_ & _ & _ & _ & Hbk2 & Hdc2).
    split.
    - unfold mod_out_rel. rewrite Hd1, Hd2, Hb1, Hb2, Hdp1, Hdp2.
      split; [congruence|]. split; [congruence|]. split; [exact Hev|].
      apply NoDup_Permutation; [exact Hnd1 | exact Hnd2|].
      intros p. rewrite Hset1, Hset2, (gen_in_iff k m p Hk). tauto.
    - intros p Hp. rewrite Hdp1 in Hp. apply Hset1 in Hp as [Hp|(_ & _ & Hp)]; [|exact Hp].
      eapply (input_state_defs_parented _ _ _ Hin1); eauto.
  Qed.

  (** *** the file of a module of the first input: whatever the smaller build gives for it (a
      file, an error, a panic other than the model's own fuel panic), the bigger build gives too *)
  Lemma module_file_unrelated_lift k m m1 m2 o :
    alookup k (st_modules st1) = Some m ->
    alookup k (st_modules t1) = Some m1 -> alookup k (st_modules t2) = Some m2 ->
    module_file t1 m1 = o -> not_fuel o -> module_file t2 m2 = o.
  Proof.
    intros Hk Hl1 Hl2 H Hn.
    destruct (module_rel k m m1 m2 Hk Hl1 Hl2) as [(Hd & Hb & He & HP) Hpp].
    apply (module_file_lift (candP st1) t1 t2 m1 m2 o); auto.
    - apply cand_agree.
    - intros p it _ Hg. eapply all_itemQ; eauto.
    - intros it Hin. destruct (in_module_definitions _ _ _ Hin) as (p & _ & Hg). eapply all_itemQ; eauto.
    - apply module_definitions_local; [apply t1_keyed | | exact HP].
      intros p Hp. apply (parent_agree p k (amem_of _ _ Hk)). apply Hpp. exact Hp.
    - apply reg_len.
  Qed.
End Files.

(** ** C19 on the emitted files *)
(** *** one module: the outcome of the smaller build's file is the outcome of the bigger build's
    file, unless it is the model's own "hierarchy fuel exhausted" panic *)
Theorem module_file_unrelated_lift_closed ptr mods1 extra st1 st2 o1 o2 t1 t2 :
  input_state ptr mods1 = Ok st1 -> input_state ptr (mods1 ++ extra) = Ok st2 ->
  collision_free (st_reg st1) -> collision_free (st_reg st2) ->
  clean_stateb st1 = true -> clean_stateb st2 = true ->
  no_capture st1 st2 extra = true ->
  (forall l, Permutation (o1 l) l) -> (forall l, Permutation (o2 l) l) ->
  pyxis_resolve o1 ptr mods1 = BOk t1 -> pyxis_resolve o2 ptr (mods1 ++ extra) = BOk t2 ->
  forall k m m1 m2 o,
    alookup k (st_modules st1) = Some m ->
    alookup k (st_modules t1) = Some m1 -> alookup k (st_modules t2) = Some m2 ->
    module_file t1 m1 = o -> not_fuel o -> module_file t2 m2 = o.
Proof.
  intros Hin1 Hin2 Hcf1 Hcf2 Hcl1 Hcl2 Hnc P1 P2 L1 L2 k m m1 m2 o Hk Hl1 Hl2 H Hn.
  destruct (run_facts ptr mods1 st1 Hin1 Hcf1 Hcl1 o1 t1 P1 L1) as (s1 & A1' & El1 & F1 & _ & (_ & _ & D1) & _).
  destruct (run_facts ptr (mods1 ++ extra) st2 Hin2 Hcf2 Hcl2 o2 t2 P2 L2) as (s2 & A2' & El2 & F2 & _ & (_ & _ & D2) & _).
  destruct (accepted_sims_steps st1 st2 (map fst extra) o1 o2 _ _ s1 s2
              (G1 ptr mods1 st1 Hin1 Hcf1 Hcl1) (G2 ptr mods1 extra st2 Hin2 Hcf2 Hcl2)
              (Hext ptr mods1 extra st1 st2 Hin1 Hin2) (Hfresh extra st1 st2 Hnc)
              (Hpar ptr mods1 st1 Hin1) (Hcands extra st1 st2 Hnc) P1 P2 El1 El2)
    as (A1 & A2 & S1 & S2 & Hagree & Hsteps).
  eapply (module_file_unrelated_lift ptr mods1 extra st1 st2 t1 t2 o1 o2 Hin1 Hin2 Hcf1 Hcf2 Hcl1 Hcl2 Hnc P1 P2 L1 L2
            s1 s2 A1 A2 F1 F2 S1 S2 Hagree Hsteps D1 D2); eauto.
Qed.
