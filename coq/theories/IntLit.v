(** * IntLit: the spelling of integer literals, below the token model of [Syntax.v].

    pyxis reads [.pyxis] text with [syn] / [proc_macro2] (fallback lexer, since pyxis is not a proc
    macro).  An integer literal is first delimited by proc-macro2's lexer
    ([proc-macro2-1.0.84/src/parse.rs]: [literal_nocapture], [float], [float_digits], [int],
    [digits], [ident_not_raw], [word_break]) and then interpreted by syn
    ([syn-2.0.66/src/lit.rs]: [Lit::new], [value::parse_lit_int], [LitInt::base10_digits],
    [LitInt::base10_parse]).  This file mirrors both steps on ASCII strings ([lit_value]), defines
    the canonical spellings ([spell], [with_underscores]) and proves that every spelling of a number
    in base 2, 8, 10 or 16, with any placement of underscores and any integer suffix, is read as
    that number (C20 at the lexical level), and that the decimal spelling is the only canonical
    decimal string read as that number (C18 at the lexical level).

    Stdlib only; no axioms. *)
From Coq Require Import String Ascii List ZArith NArith Bool Lia.
From Coq Require DecimalString DecimalFacts DecimalPos DecimalN.
From PyxisModel Require Import Base.
Import ListNotations.
Local Open Scope string_scope.
Local Open Scope list_scope.
Local Open Scope N_scope.

(** ** Character classes (ASCII; bytes >= 128 belong to no class: see the notes) *)
Definition code (c : ascii) : N := N_of_ascii c.
Definition in_range (lo hi : N) (c : ascii) : bool := (lo <=? code c) && (code c <=? hi).
Definition is_code (k : N) (c : ascii) : bool := code c =? k.
Definition is_dec : ascii -> bool := in_range 48 57.          (* '0'..='9' *)
Definition is_lower_af : ascii -> bool := in_range 97 102.    (* 'a'..='f' *)
Definition is_upper_af : ascii -> bool := in_range 65 70.     (* 'A'..='F' *)
Definition is_lower : ascii -> bool := in_range 97 122.
Definition is_upper : ascii -> bool := in_range 65 90.
Definition is_us : ascii -> bool := is_code 95.               (* '_' *)
Definition is_dot : ascii -> bool := is_code 46.              (* '.' *)
Definition is_e (c : ascii) : bool := is_code 101 c || is_code 69 c.         (* 'e' | 'E' *)
Definition is_plus_minus (c : ascii) : bool := is_code 43 c || is_code 45 c. (* '+' | '-' *)
(** [unicode_ident::is_xid_start] / [is_xid_continue] restricted to ASCII *)
Definition xid_start (c : ascii) : bool := is_lower c || is_upper c.
Definition xid_continue (c : ascii) : bool := xid_start c || is_dec c || is_us c.
(** proc-macro2 [fallback.rs] [is_ident_start] / [is_ident_continue] *)
Definition ident_start (c : ascii) : bool := is_us c || xid_start c.
Definition ident_continue (c : ascii) : bool := xid_continue c.

Fixpoint all_chars (p : ascii -> bool) (s : string) : bool :=
  match s with EmptyString => true | String c r => p c && all_chars p r end.
Definition str_is_empty (s : string) : bool := match s with EmptyString => true | _ => false end.

(** syn [ident.rs] [xid_ok] (never called on the empty string by [parse_lit_int]) *)
Definition xid_ok (s : string) : bool :=
  match s with
  | EmptyString => false
  | String c r => (is_us c || xid_start c) && all_chars xid_continue r
  end.

(** ** Specification-level digit value: [Some d] iff [c] is a digit of [base] *)
Definition digit_val (base : N) (c : ascii) : option N :=
  let d := if is_dec c then Some (code c - 48)
           else if is_lower_af c then Some (code c - 87)
           else if is_upper_af c then Some (code c - 55)
           else None in
  match d with Some d => if d <? base then Some d else None | None => None end.

(** ** proc-macro2: where does the literal token end? *)

(** [digits], the prefix part: [input.starts_with("0x")] etc. *)
Definition pm2_base (s : string) : N * string :=
  match s with
  | String c0 (String c1 r) =>
    if is_code 48 c0 then
      if is_code 120 c1 then (16, r)
      else if is_code 111 c1 then (8, r)
      else if is_code 98 c1 then (2, r)
      else (10, s)
    else (10, s)
  | _ => (10, s)
  end.

(** [digits], the loop.  [None] is [Err(Reject)]; [Some rest] is [Ok(input.advance(len))]. *)
Fixpoint pm2_digits_loop (base : N) (empty : bool) (s : string) : option string :=
  let stop := if empty then None else Some s in
  match s with
  | EmptyString => stop
  | String c r =>
    if is_dec c then
      (if base <=? code c - 48 then None else pm2_digits_loop base false r)
    else if is_lower_af c then
      (if base <=? code c - 87 then stop else pm2_digits_loop base false r)
    else if is_upper_af c then
      (if base <=? code c - 55 then stop else pm2_digits_loop base false r)
    else if is_us c then
      (if empty && (base =? 10) then None else pm2_digits_loop base empty r)
    else stop
  end.
Definition pm2_digits (s : string) : option string :=
  let '(base, r) := pm2_base s in pm2_digits_loop base true r.

(** [ident_not_raw] (only the rest is kept), [word_break], and the common tail of [int] and
    [float]: an optional suffix identifier, then a word break *)
Fixpoint skip_ident_continue (s : string) : string :=
  match s with
  | EmptyString => EmptyString
  | String c r => if ident_continue c then skip_ident_continue r else s
  end.
Definition pm2_ident_not_raw (s : string) : option string :=
  match s with
  | String c r => if ident_start c then Some (skip_ident_continue r) else None
  | EmptyString => None
  end.
Definition pm2_word_break (s : string) : option string :=
  match s with
  | String c _ => if ident_continue c then None else Some s
  | EmptyString => Some s
  end.
Definition pm2_suffix_break (rest : string) : option string :=
  match rest with
  | String c _ =>
    if ident_start c then
      match pm2_ident_not_raw rest with Some r => pm2_word_break r | None => None end
    else pm2_word_break rest
  | EmptyString => pm2_word_break rest
  end.
Definition pm2_int (s : string) : option string :=
  match pm2_digits s with Some rest => pm2_suffix_break rest | None => None end.

(** [float_digits]: the exponent part.  [tbe] is [token_before_exp]. *)
Fixpoint fd_exp (tbe : option string) (has_sign has_val : bool) (s : string) : option string :=
  let fin := if has_val then Some s else tbe in
  match s with
  | EmptyString => fin
  | String c r =>
    if is_plus_minus c then
      (if has_val then Some s else if has_sign then tbe else fd_exp tbe true has_val r)
    else if is_dec c then fd_exp tbe has_sign true r
    else if is_us c then fd_exp tbe has_sign has_val r
    else fin
  end.
(** [float_digits]: the main loop after the first digit *)
Fixpoint fd_main (has_dot : bool) (s : string) : option string :=
  let fin := if has_dot then Some s else None in
  match s with
  | EmptyString => fin
  | String c r =>
    if is_dec c || is_us c then fd_main has_dot r
    else if is_dot c then
      if has_dot then fin
      else match r with
           | String c2 _ => if is_dot c2 || ident_start c2 then None else fd_main true r
           | EmptyString => fd_main true r
           end
    else if is_e c then fd_exp (if has_dot then Some s else None) false false r
    else fin
  end.
Definition pm2_float_digits (s : string) : option string :=
  match s with
  | String c r => if is_dec c then fd_main false r else None
  | EmptyString => None
  end.
Definition pm2_float (s : string) : option string :=
  match pm2_float_digits s with Some rest => pm2_suffix_break rest | None => None end.

(** [literal_nocapture] restricted to its last two alternatives (the string, byte and character
    alternatives all need a first character among the double quote, the single quote, [b], [c]
    and [r]; they are irrelevant for a text that syn will accept as a [LitInt]) *)
Definition pm2_literal (s : string) : option string :=
  match pm2_float s with Some r => Some r | None => pm2_int s end.

(** ** syn: [value::parse_lit_int] on the token text *)
Inductive exp_scan := ExpFloat | ExpBreak.
(** the [for (i, b) in s[1..].bytes().enumerate()] loop of the [b'e' | b'E' if base == 10] arm *)
Fixpoint syn_exp_scan (has_exp : bool) (t : string) : exp_scan :=
  match t with
  | EmptyString => if has_exp then ExpFloat else ExpBreak
  | String b r =>
    if is_us b then syn_exp_scan has_exp r
    else if is_plus_minus b then ExpFloat
    else if is_dec b then syn_exp_scan true r
    else if has_exp && xid_ok t then ExpFloat else ExpBreak
  end.
Definition syn_finish (has_digit : bool) (acc : N) (s : string) : option (N * string) :=
  if has_digit then (if str_is_empty s || xid_ok s then Some (acc, s) else None) else None.
Fixpoint syn_loop (base : N) (has_digit : bool) (acc : N) (s : string) : option (N * string) :=
  match s with
  | EmptyString => syn_finish has_digit acc s
  | String c r =>
    if is_dec c then
      (if base <=? code c - 48 then None else syn_loop base true (acc * base + (code c - 48)) r)
    else if is_lower_af c && (10 <? base) then
      (if base <=? code c - 87 then None else syn_loop base true (acc * base + (code c - 87)) r)
    else if is_upper_af c && (10 <? base) then
      (if base <=? code c - 55 then None else syn_loop base true (acc * base + (code c - 55)) r)
    else if is_us c then syn_loop base has_digit acc r
    else if is_dot c && (base =? 10) then None
    else if is_e c && (base =? 10) then
      match syn_exp_scan false r with
      | ExpFloat => None
      | ExpBreak => syn_finish has_digit acc s
      end
    else syn_finish has_digit acc s
  end.
(** the [(byte(s, 0), byte(s, 1))] dispatch, for a text without the leading [-] *)
Definition syn_parse_lit_int (s : string) : option (N * string) :=
  match s with
  | EmptyString => None
  | String c0 r0 =>
    if is_code 48 c0 then
      match r0 with
      | String c1 r =>
        if is_code 120 c1 then syn_loop 16 false 0 r
        else if is_code 111 c1 then syn_loop 8 false 0 r
        else if is_code 98 c1 then syn_loop 2 false 0 r
        else syn_loop 10 false 0 s
      | EmptyString => syn_loop 10 false 0 s
      end
    else if is_dec c0 then syn_loop 10 false 0 s
    else None
  end.

(** ** The value and the suffix of an integer literal spelling.
    [lit_value s = Some (v, sfx)] iff the lexer makes exactly one literal token of the whole of
    [s] and syn reads it as a [LitInt] with [base10_digits() = decimal v], [suffix() = sfx]. *)
Definition lit_value (s : string) : option (N * string) :=
  match pm2_literal s with
  | Some EmptyString => syn_parse_lit_int s
  | _ => None
  end.

(** ** Reading with [base10_parse::<isize>()] / [::<usize>()] on a 64-bit host.
    [neg] is the [-] punct that syn's [Lit::parse] glues in front of the literal
    ([parse_negative_lit]).  The suffix is ignored by [base10_parse]. *)
Definition signed (neg : bool) (n : N) : Z := if neg then (- Z.of_N n)%Z else Z.of_N n.
Definition isize_in_range (z : Z) : bool := ((isize_min <=? z) && (z <=? isize_max))%Z.
Definition read_isize (neg : bool) (s : string) : option Z :=
  match lit_value s with
  | Some (n, _) => let z := signed neg n in if isize_in_range z then Some z else None
  | None => None
  end.
(** [usize::from_str] does not accept a sign at all (not even [-0]) *)
Definition read_usize (neg : bool) (s : string) : option N :=
  if neg then None else
  match lit_value s with
  | Some (n, _) => if fits_usize n then Some n else None
  | None => None
  end.

(** ** Entry point for differential testing against [syn::parse_str::<syn::LitInt>]:
    ["ok <base10_digits> <suffix>"] or ["err"] *)
Definition lit_case (s : string) : string :=
  let '(neg, body) := match s with
                      | String c r => if is_code 45 c then (true, r) else (false, s)
                      | EmptyString => (false, s)
                      end in
  match lit_value body with
  | Some (v, sfx) => "ok " +++ (if neg then "-" else "") +++ dec_of_N v +++ " " +++ sfx
  | None => "err"
  end.

(** ** Spellings *)
Definition valid_base (base : N) : bool := (base =? 2) || (base =? 8) || (base =? 10) || (base =? 16).
Definition prefix_of (base : N) : string :=
  if base =? 16 then "0x" else if base =? 8 then "0o" else if base =? 2 then "0b" else "".
Definition digit_char (up : bool) (d : N) : ascii :=
  ascii_of_N (if d <? 10 then 48 + d else if up then 55 + d else 87 + d).

(** digits and underscores *)
Inductive item := Dg (up : bool) (d : N) | Us.
Fixpoint render (l : list item) : string :=
  match l with
  | [] => EmptyString
  | Dg up d :: r => String (digit_char up d) (render r)
  | Us :: r => String "_"%char (render r)
  end.
Definition item_ok (base : N) (i : item) : bool := match i with Dg _ d => d <? base | Us => true end.
Definition is_Dg (i : item) : bool := match i with Dg _ _ => true | Us => false end.
Definition item_step (base : N) (acc : N) (i : item) : N :=
  match i with Dg _ d => acc * base + d | Us => acc end.
Definition items_value (base : N) (l : list item) : N := fold_left (item_step base) l 0.
(** every digit is a digit of the base; there is a digit; a decimal literal starts with a digit *)
Definition items_ok (base : N) (l : list item) : bool :=
  forallb (item_ok base) l && existsb is_Dg l &&
  (negb (base =? 10) || match l with Dg _ _ :: _ => true | _ => false end).

(** least significant digit first *)
Fixpoint lsd_fuel (fuel : nat) (base n : N) : list N :=
  match fuel with
  | O => []
  | S f => (n mod base) :: (if n / base =? 0 then [] else lsd_fuel f base (n / base))
  end.
Definition digits_of (base n : N) : list N := rev (lsd_fuel (S (N.to_nat (N.log2 n))) base n).
Definition spell_case (up : bool) (base n : N) : string :=
  prefix_of base +++ render (map (Dg up) (digits_of base n)).
Definition spell : N -> N -> string := spell_case false.

(** [k] underscores after each digit, counted by [mask]; [lead] underscores right after the prefix *)
Fixpoint us_string (k : nat) (tail : string) : string :=
  match k with O => tail | S k' => String "_"%char (us_string k' tail) end.
Fixpoint insert_us (mask : list nat) (s : string) {struct s} : string :=
  match s with
  | EmptyString => EmptyString
  | String c r =>
    match mask with
    | [] => s
    | k :: m => String c (us_string k (insert_us m r))
    end
  end.
Definition split_prefix (s : string) : string * string :=
  match s with
  | String c0 (String c1 r) =>
    if is_code 48 c0 && (is_code 120 c1 || is_code 111 c1 || is_code 98 c1)
    then (String c0 (String c1 EmptyString), r) else (EmptyString, s)
  | _ => (EmptyString, s)
  end.
Definition with_underscores_gen (lead : nat) (mask : list nat) (s : string) : string :=
  let '(p, d) := split_prefix s in p +++ us_string lead (insert_us mask d).
Definition with_underscores (mask : list bool) (s : string) : string :=
  with_underscores_gen 0 (map (fun b : bool => if b then 1%nat else 0%nat) mask) s.

(** the Rust integer suffixes *)
Definition int_suffixes : list string :=
  ["u8"; "u16"; "u32"; "u64"; "u128"; "usize"; "i8"; "i16"; "i32"; "i64"; "i128"; "isize"].

(** ** Examples (by computation) *)
Example ex_hex_us : lit_case "0xFF_FF" = "ok 65535 ". Proof. vm_compute. reflexivity. Qed.
Example ex_bin : lit_case "0b1010" = "ok 10 ". Proof. vm_compute. reflexivity. Qed.
Example ex_oct : lit_case "0o17" = "ok 15 ". Proof. vm_compute. reflexivity. Qed.
Example ex_dec_us : lit_case "1_000" = "ok 1000 ". Proof. vm_compute. reflexivity. Qed.
Example ex_zero : lit_case "0" = "ok 0 ". Proof. vm_compute. reflexivity. Qed.
Example ex_zero_zero : lit_case "00" = "ok 0 ". Proof. vm_compute. reflexivity. Qed.
Example ex_0x : lit_case "0x" = "err". Proof. vm_compute. reflexivity. Qed.
Example ex_0b2 : lit_case "0b2" = "err". Proof. vm_compute. reflexivity. Qed.
Example ex_us1 : lit_case "_1" = "err". Proof. vm_compute. reflexivity. Qed.
Example ex_1us : lit_case "1_" = "ok 1 ". Proof. vm_compute. reflexivity. Qed.
Example ex_12u8 : lit_case "12u8" = "ok 12 u8". Proof. vm_compute. reflexivity. Qed.
Example ex_hex_usize : lit_case "0x1F_usize" = "ok 31 usize". Proof. vm_compute. reflexivity. Qed.
Example ex_0xE : lit_case "0xE" = "ok 14 ". Proof. vm_compute. reflexivity. Qed.
Example ex_1e3 : lit_case "1e3" = "err". Proof. vm_compute. reflexivity. Qed.
Example ex_25_digits : lit_case "1234567890123456789012345" = "ok 1234567890123456789012345 ".
Proof. vm_compute. reflexivity. Qed.
(** more corner cases, as the sources read (to be confirmed by the differential test) *)
Example ex_0x_1 : lit_case "0x_1" = "ok 1 ". Proof. vm_compute. reflexivity. Qed.
Example ex_0x_ : lit_case "0x_" = "err". Proof. vm_compute. reflexivity. Qed.
Example ex_1__0 : lit_case "1__0" = "ok 10 ". Proof. vm_compute. reflexivity. Qed.
Example ex_0b102 : lit_case "0b102" = "err". Proof. vm_compute. reflexivity. Qed.
Example ex_0o8 : lit_case "0o8" = "err". Proof. vm_compute. reflexivity. Qed.
Example ex_0b1a : lit_case "0b1a" = "ok 1 a". Proof. vm_compute. reflexivity. Qed.
Example ex_1e : lit_case "1e" = "ok 1 e". Proof. vm_compute. reflexivity. Qed.
Example ex_1ex : lit_case "1ex" = "ok 1 ex". Proof. vm_compute. reflexivity. Qed.
Example ex_1e_ : lit_case "1e_" = "ok 1 e_". Proof. vm_compute. reflexivity. Qed.
Example ex_1e3x : lit_case "1e3x" = "err". Proof. vm_compute. reflexivity. Qed.
Example ex_1E3 : lit_case "1E3" = "err". Proof. vm_compute. reflexivity. Qed.
Example ex_1_e3 : lit_case "1_e3" = "err". Proof. vm_compute. reflexivity. Qed.
Example ex_1ep3 : lit_case "1e+3" = "err". Proof. vm_compute. reflexivity. Qed.
Example ex_1dot : lit_case "1." = "err". Proof. vm_compute. reflexivity. Qed.
Example ex_1dot5 : lit_case "1.5" = "err". Proof. vm_compute. reflexivity. Qed.
Example ex_1f32 : lit_case "1f32" = "ok 1 f32". Proof. vm_compute. reflexivity. Qed.
Example ex_0X1 : lit_case "0X1" = "ok 0 X1". Proof. vm_compute. reflexivity. Qed.
Example ex_0B1 : lit_case "0B1" = "ok 0 B1". Proof. vm_compute. reflexivity. Qed.
Example ex_0xg : lit_case "0xg" = "err". Proof. vm_compute. reflexivity. Qed.
Example ex_0xEu8 : lit_case "0xEu8" = "ok 14 u8". Proof. vm_compute. reflexivity. Qed.
Example ex_0x1_f32 : lit_case "0x1_f32" = "ok 7986 ". Proof. vm_compute. reflexivity. Qed.
Example ex_0_ : lit_case "0_" = "ok 0 ". Proof. vm_compute. reflexivity. Qed.
Example ex_007 : lit_case "007" = "ok 7 ". Proof. vm_compute. reflexivity. Qed.
Example ex_1plus : lit_case "1+" = "err". Proof. vm_compute. reflexivity. Qed.
Example ex_1sp : lit_case "1 " = "err". Proof. vm_compute. reflexivity. Qed.
Example ex_empty : lit_case "" = "err". Proof. vm_compute. reflexivity. Qed.
Example ex_neg : lit_case "-5" = "ok -5 ". Proof. vm_compute. reflexivity. Qed.
Example ex_neg0 : lit_case "-0" = "ok -0 ". Proof. vm_compute. reflexivity. Qed.
Example ex_negneg : lit_case "--5" = "err". Proof. vm_compute. reflexivity. Qed.
Example ex_spell_hex : spell 16 65535 = "0xffff". Proof. vm_compute. reflexivity. Qed.
Example ex_spell_HEX : spell_case true 16 65535 = "0xFFFF". Proof. vm_compute. reflexivity. Qed.
Example ex_spell_bin : spell 2 10 = "0b1010". Proof. vm_compute. reflexivity. Qed.
Example ex_spell_oct : spell 8 15 = "0o17". Proof. vm_compute. reflexivity. Qed.
Example ex_spell_dec : spell 10 1000 = "1000". Proof. vm_compute. reflexivity. Qed.
Example ex_spell_zero : spell 10 0 = "0" /\ spell 16 0 = "0x0". Proof. vm_compute. auto. Qed.
Example ex_with_us : with_underscores [true; false; false] (spell 10 1000) = "1_000".
Proof. vm_compute. reflexivity. Qed.
Example ex_with_us_hex : with_underscores [false; true] (spell_case true 16 65535) = "0xFF_FF".
Proof. vm_compute. reflexivity. Qed.
Example ex_with_us_gen : with_underscores_gen 1 [2%nat; 0%nat; 1%nat] (spell 2 5) = "0b_1__01_".
Proof. vm_compute. reflexivity. Qed.

(** * Proofs *)

(** ** Tactics *)
Ltac bdestr1 :=
  match goal with
  | |- context [N.leb ?a ?b] => destruct (N.leb_spec a b)
  | |- context [N.ltb ?a ?b] => destruct (N.ltb_spec a b)
  | |- context [N.eqb ?a ?b] => destruct (N.eqb_spec a b)
  end.
Ltac bdestr := repeat (bdestr1; try lia; cbn [andb orb negb]).
Ltac unfold_classes :=
  unfold digit_val, ident_continue, xid_continue, ident_start, xid_start, is_dec, is_lower_af, is_upper_af,
    is_lower, is_upper, is_us, is_dot, is_e, is_plus_minus, in_range, is_code in *.
(** turn every test on the character [c] into arithmetic on its code and decide it *)
Ltac char_arith c :=
  unfold_classes;
  let n := fresh "n" in
  set (n := code c) in *; clearbody n;
  repeat match goal with H : _ = _ |- _ => revert H end;
  bdestr; cbn [andb orb negb]; intros; try congruence;
  repeat match goal with H : Some _ = Some _ |- _ => injection H as H end; try lia.

Lemma valid_base_cases base : valid_base base = true -> base = 2 \/ base = 8 \/ base = 10 \/ base = 16.
Proof. unfold valid_base. repeat bdestr1; cbn; intros; try discriminate; auto. Qed.

Lemma lt16_cases d : d < 16 ->
  d = 0 \/ d = 1 \/ d = 2 \/ d = 3 \/ d = 4 \/ d = 5 \/ d = 6 \/ d = 7 \/ d = 8 \/ d = 9 \/ d = 10 \/
  d = 11 \/ d = 12 \/ d = 13 \/ d = 14 \/ d = 15.
Proof. lia. Qed.

(** ** One-step equations *)
Lemma pm2_digits_loop_eq base empty c r :
  pm2_digits_loop base empty (String c r) =
    let stop := if empty then None else Some (String c r) in
    if is_dec c then
      (if base <=? code c - 48 then None else pm2_digits_loop base false r)
    else if is_lower_af c then
      (if base <=? code c - 87 then stop else pm2_digits_loop base false r)
    else if is_upper_af c then
      (if base <=? code c - 55 then stop else pm2_digits_loop base false r)
    else if is_us c then
      (if empty && (base =? 10) then None else pm2_digits_loop base empty r)
    else stop.
Proof. reflexivity. Qed.

Lemma syn_loop_eq base h acc c r :
  syn_loop base h acc (String c r) =
    if is_dec c then
      (if base <=? code c - 48 then None else syn_loop base true (acc * base + (code c - 48)) r)
    else if is_lower_af c && (10 <? base) then
      (if base <=? code c - 87 then None else syn_loop base true (acc * base + (code c - 87)) r)
    else if is_upper_af c && (10 <? base) then
      (if base <=? code c - 55 then None else syn_loop base true (acc * base + (code c - 55)) r)
    else if is_us c then syn_loop base h acc r
    else if is_dot c && (base =? 10) then None
    else if is_e c && (base =? 10) then
      match syn_exp_scan false r with
      | ExpFloat => None
      | ExpBreak => syn_finish h acc (String c r)
      end
    else syn_finish h acc (String c r).
Proof. reflexivity. Qed.

Lemma fd_main_eq has_dot c r :
  fd_main has_dot (String c r) =
    let fin := if has_dot then Some (String c r) else None in
    if is_dec c || is_us c then fd_main has_dot r
    else if is_dot c then
      if has_dot then fin
      else match r with
           | String c2 _ => if is_dot c2 || ident_start c2 then None else fd_main true r
           | EmptyString => fd_main true r
           end
    else if is_e c then fd_exp (if has_dot then Some (String c r) else None) false false r
    else fin.
Proof. reflexivity. Qed.

(** ** A digit of the base is consumed by each of the three loops *)
Lemma pm2_loop_digit base c d empty r :
  valid_base base = true -> digit_val base c = Some d ->
  pm2_digits_loop base empty (String c r) = pm2_digits_loop base false r.
Proof.
  intros Hb Hd. rewrite pm2_digits_loop_eq. cbv zeta.
  destruct (valid_base_cases _ Hb) as [-> | [-> | [-> | ->]]]; char_arith c.
Qed.

Lemma syn_loop_digit base c d h acc r :
  valid_base base = true -> digit_val base c = Some d ->
  syn_loop base h acc (String c r) = syn_loop base true (acc * base + d) r.
Proof.
  intros Hb Hd. rewrite syn_loop_eq.
  destruct (valid_base_cases _ Hb) as [-> | [-> | [-> | ->]]]; char_arith c.
Qed.

Lemma fd_main_digit c d has_dot r :
  digit_val 10 c = Some d -> fd_main has_dot (String c r) = fd_main has_dot r.
Proof. intros Hd. rewrite fd_main_eq. cbv zeta. char_arith c. Qed.

Lemma digit_val_is_dec c d : digit_val 10 c = Some d -> is_dec c = true.
Proof. intros Hd. char_arith c. Qed.

(** ** The digit characters are digits *)
Lemma digit_val_digit_char base up d :
  valid_base base = true -> d < base -> digit_val base (digit_char up d) = Some d.
Proof.
  intros Hb Hd.
  destruct (valid_base_cases _ Hb) as [-> | [-> | [-> | ->]]];
    (assert (H16 : d < 16) by lia; destruct (lt16_cases d H16) as
       [-> | [-> | [-> | [-> | [-> | [-> | [-> | [-> | [-> | [-> | [-> | [-> | [-> | [-> | [-> | ->]]]]]]]]]]]]]]];
     try lia; destruct up; reflexivity).
Qed.

(** ** Underscores *)
Lemma pm2_loop_us base empty r :
  pm2_digits_loop base empty (String "_"%char r) =
    if empty && (base =? 10) then None else pm2_digits_loop base empty r.
Proof. reflexivity. Qed.
Lemma syn_loop_us base h acc r : syn_loop base h acc (String "_"%char r) = syn_loop base h acc r.
Proof. reflexivity. Qed.
Lemma fd_main_us has_dot r : fd_main has_dot (String "_"%char r) = fd_main has_dot r.
Proof. reflexivity. Qed.

(** ** The three loops over a run of digits and underscores *)
Lemma render_app l1 l2 : render (l1 ++ l2) = render l1 +++ render l2.
Proof. induction l1 as [|[up d|] l1 IH]; cbn; [reflexivity | rewrite IH; reflexivity ..]. Qed.

Lemma item_ok_lt base up d : item_ok base (Dg up d) = true -> d < base.
Proof. cbn. intros H. apply N.ltb_lt, H. Qed.

Lemma pm2_loop_items base l : valid_base base = true -> forallb (item_ok base) l = true ->
  forall empty rest, (empty = false \/ base <> 10) ->
  pm2_digits_loop base empty (render l +++ rest) =
  pm2_digits_loop base (empty && negb (existsb is_Dg l)) rest.
Proof.
  intros Hb. induction l as [|[up d|] l IH]; cbn [forallb render existsb is_Dg String.append]; intros Hl empty rest He.
  - rewrite andb_true_r. reflexivity.
  - apply andb_prop in Hl. destruct Hl as [Hd Hl].
    erewrite pm2_loop_digit by (first [eassumption | apply digit_val_digit_char; [assumption | apply (item_ok_lt _ up), Hd]]).
    rewrite IH by auto. cbn. rewrite andb_false_r. reflexivity.
  - cbn in Hl. rewrite pm2_loop_us.
    replace (empty && (base =? 10)) with false.
    + rewrite IH by auto. reflexivity.
    + destruct He as [-> | He]; [reflexivity|]. apply N.eqb_neq in He. rewrite He, andb_false_r. reflexivity.
Qed.

Lemma syn_loop_items base l : valid_base base = true -> forallb (item_ok base) l = true ->
  forall h acc rest,
  syn_loop base h acc (render l +++ rest) =
  syn_loop base (h || existsb is_Dg l) (fold_left (item_step base) l acc) rest.
Proof.
  intros Hb. induction l as [|[up d|] l IH]; cbn [forallb render existsb is_Dg String.append fold_left item_step]; intros Hl h acc rest.
  - rewrite orb_false_r. reflexivity.
  - apply andb_prop in Hl. destruct Hl as [Hd Hl].
    erewrite syn_loop_digit by (first [eassumption | apply digit_val_digit_char; [assumption | apply (item_ok_lt _ up), Hd]]).
    rewrite IH by auto. cbn. rewrite orb_true_r. reflexivity.
  - cbn in Hl. rewrite syn_loop_us. rewrite IH by auto. reflexivity.
Qed.

Lemma fd_main_items l : forallb (item_ok 10) l = true ->
  forall has_dot rest, fd_main has_dot (render l +++ rest) = fd_main has_dot rest.
Proof.
  induction l as [|[up d|] l IH]; cbn [forallb render String.append]; intros Hl has_dot rest.
  - reflexivity.
  - apply andb_prop in Hl. destruct Hl as [Hd Hl].
    erewrite fd_main_digit by (apply digit_val_digit_char; [reflexivity | apply (item_ok_lt _ up), Hd]).
    apply IH, Hl.
  - cbn in Hl. rewrite fd_main_us. apply IH, Hl.
Qed.

(** ** Suffixes.  A suffix is an identifier; its first character must not continue the digits:
    not [_] (an underscore is part of the digits), in base 16 not a hex letter, in base 10 not
    [e]/[E] (exponent) and not [x]/[o]/[b] (the text ["0x..."] would change base). *)
Definition suffix_start_ok (base : N) (c : ascii) : bool :=
  xid_start c &&
  (if base =? 16 then negb (is_lower_af c || is_upper_af c)
   else if base =? 10 then negb (is_e c || is_code 120 c || is_code 111 c || is_code 98 c)
   else true).
Definition suffix_ok (base : N) (sfx : string) : bool :=
  match sfx with
  | EmptyString => true
  | String c r => suffix_start_ok base c && all_chars xid_continue r
  end.

Lemma pm2_loop_stop base c r : valid_base base = true -> suffix_start_ok base c = true ->
  pm2_digits_loop base false (String c r) = Some (String c r).
Proof.
  intros Hb Hc. rewrite pm2_digits_loop_eq. cbv zeta. unfold suffix_start_ok in Hc.
  destruct (valid_base_cases _ Hb) as [-> | [-> | [-> | ->]]]; cbn [N.eqb Pos.eqb] in Hc; char_arith c.
Qed.

Lemma syn_loop_stop base h acc c r : valid_base base = true -> suffix_start_ok base c = true ->
  syn_loop base h acc (String c r) = syn_finish h acc (String c r).
Proof.
  intros Hb Hc. rewrite syn_loop_eq. unfold suffix_start_ok in Hc.
  destruct (valid_base_cases _ Hb) as [-> | [-> | [-> | ->]]]; cbn [N.eqb Pos.eqb] in Hc; char_arith c.
Qed.

Lemma fd_main_stop c r : suffix_start_ok 10 c = true -> fd_main false (String c r) = None.
Proof.
  intros Hc. rewrite fd_main_eq. cbv zeta. unfold suffix_start_ok in Hc. cbn [N.eqb Pos.eqb] in Hc. char_arith c.
Qed.

Lemma suffix_start_ident base c : suffix_start_ok base c = true -> ident_start c = true.
Proof.
  unfold suffix_start_ok, ident_start. intros H. apply andb_prop in H. destruct H as [-> _]. apply orb_true_r.
Qed.

Lemma skip_all r : all_chars xid_continue r = true -> skip_ident_continue r = EmptyString.
Proof.
  induction r as [|c r IH]; cbn; [reflexivity|]. intros H. apply andb_prop in H. destruct H as [Hc Hr].
  unfold ident_continue. rewrite Hc. apply IH, Hr.
Qed.

Lemma suffix_ok_xid base sfx : suffix_ok base sfx = true -> str_is_empty sfx || xid_ok sfx = true.
Proof.
  destruct sfx as [|c r]; [reflexivity|]. cbn. intros H. apply andb_prop in H. destruct H as [Hc Hr].
  rewrite Hr, andb_true_r. unfold suffix_start_ok in Hc. apply andb_prop in Hc. destruct Hc as [-> _].
  apply orb_true_r.
Qed.

Lemma pm2_suffix_break_ok base sfx : suffix_ok base sfx = true -> pm2_suffix_break sfx = Some EmptyString.
Proof.
  destruct sfx as [|c r]; [reflexivity|]. cbn [suffix_ok]. intros H. apply andb_prop in H. destruct H as [Hc Hr].
  unfold pm2_suffix_break, pm2_ident_not_raw. rewrite (suffix_start_ident _ _ Hc), (skip_all _ Hr). reflexivity.
Qed.

Lemma pm2_loop_end base sfx : valid_base base = true -> suffix_ok base sfx = true ->
  pm2_digits_loop base false sfx = Some sfx.
Proof.
  destruct sfx as [|c r]; [reflexivity|]. cbn [suffix_ok]. intros Hb H. apply andb_prop in H.
  apply pm2_loop_stop; tauto.
Qed.
Lemma syn_loop_end base acc sfx : valid_base base = true -> suffix_ok base sfx = true ->
  syn_loop base true acc sfx = Some (acc, sfx).
Proof.
  intros Hb H. assert (Hx := suffix_ok_xid _ _ H). destruct sfx as [|c r]; [reflexivity|].
  cbn [suffix_ok] in H. apply andb_prop in H. rewrite syn_loop_stop by tauto.
  unfold syn_finish. rewrite Hx. reflexivity.
Qed.
Lemma fd_main_end sfx : suffix_ok 10 sfx = true -> fd_main false sfx = None.
Proof.
  destruct sfx as [|c r]; [reflexivity|]. cbn [suffix_ok]. intros H. apply andb_prop in H.
  apply fd_main_stop; tauto.
Qed.

(** ** Decimal texts are not mistaken for prefixed ones *)
Definition no_xob (s : string) : bool :=
  match s with
  | String c _ => negb (is_code 120 c || is_code 111 c || is_code 98 c)
  | EmptyString => true
  end.
Lemma no_xob_items l sfx : forallb (item_ok 10) l = true -> suffix_ok 10 sfx = true ->
  no_xob (render l +++ sfx) = true.
Proof.
  destruct l as [|[up d|] l]; cbn [forallb render String.append]; intros Hl Hs.
  - destruct sfx as [|c r]; [reflexivity|]. cbn in Hs |- *. apply andb_prop in Hs. destruct Hs as [Hc _].
    unfold suffix_start_ok in Hc. cbn [N.eqb Pos.eqb] in Hc. char_arith c.
  - apply andb_prop in Hl. destruct Hl as [Hd _]. apply item_ok_lt in Hd.
    assert (Hv := digit_val_digit_char 10 up d eq_refl Hd). cbn [no_xob].
    set (c := digit_char up d) in *. clearbody c. char_arith c.
  - reflexivity.
Qed.
Lemma pm2_base_dec c r : no_xob r = true -> pm2_base (String c r) = (10, String c r).
Proof.
  destruct r as [|c1 r]; [reflexivity|]. cbn [no_xob pm2_base]. intros H.
  apply negb_true_iff in H. apply orb_false_elim in H. destruct H as [H H3].
  apply orb_false_elim in H. destruct H as [H1 H2]. rewrite H1, H2, H3. destruct (is_code 48 c); reflexivity.
Qed.
Lemma syn_parse_dec c r : is_dec c = true -> no_xob r = true ->
  syn_parse_lit_int (String c r) = syn_loop 10 false 0 (String c r).
Proof.
  intros Hc. unfold syn_parse_lit_int. rewrite Hc. destruct r as [|c1 r]; [destruct (is_code 48 c); reflexivity|].
  cbn [no_xob]. intros H.
  apply negb_true_iff in H. apply orb_false_elim in H. destruct H as [H H3].
  apply orb_false_elim in H. destruct H as [H1 H2]. rewrite H1, H2, H3. destruct (is_code 48 c); reflexivity.
Qed.

(** ** Main lemma: any run of digits and underscores of the base, then a suffix *)
Lemma items_ok_parts base l : items_ok base l = true ->
  forallb (item_ok base) l = true /\ existsb is_Dg l = true /\
  (base = 10 -> exists up d l', l = Dg up d :: l').
Proof.
  unfold items_ok. intros H. apply andb_prop in H. destruct H as [H H3]. apply andb_prop in H. destruct H as [H1 H2].
  repeat split; auto. intros ->. cbn in H3. destruct l as [|[up d|] l]; try discriminate. eauto.
Qed.

Lemma prefixed_cases base : valid_base base = true -> base <> 10 -> base = 2 \/ base = 8 \/ base = 16.
Proof. intros Hb Hn. destruct (valid_base_cases _ Hb) as [-> | [-> | [-> | ->]]]; auto. congruence. Qed.
Lemma pm2_base_prefixed base r : valid_base base = true -> base <> 10 ->
  pm2_base (prefix_of base +++ r) = (base, r).
Proof. intros Hb Hn. destruct (prefixed_cases _ Hb Hn) as [-> | [-> | ->]]; reflexivity. Qed.
Lemma pm2_float_prefixed base r : valid_base base = true -> base <> 10 ->
  pm2_float (prefix_of base +++ r) = None.
Proof. intros Hb Hn. destruct (prefixed_cases _ Hb Hn) as [-> | [-> | ->]]; reflexivity. Qed.
Lemma syn_parse_prefixed base r : valid_base base = true -> base <> 10 ->
  syn_parse_lit_int (prefix_of base +++ r) = syn_loop base false 0 r.
Proof. intros Hb Hn. destruct (prefixed_cases _ Hb Hn) as [-> | [-> | ->]]; reflexivity. Qed.

Theorem lit_value_items base l sfx :
  valid_base base = true -> items_ok base l = true -> suffix_ok base sfx = true ->
  lit_value (prefix_of base +++ render l +++ sfx) = Some (items_value base l, sfx).
Proof.
  intros Hb Hl Hs. destruct (items_ok_parts _ _ Hl) as (Hall & Hex & Hdec).
  assert (Hsyn : syn_loop base false 0 (render l +++ sfx) = Some (items_value base l, sfx)).
  { rewrite syn_loop_items by assumption. rewrite Hex. cbn [orb]. apply syn_loop_end; assumption. }
  assert (Hpm : forall l0 e, forallb (item_ok base) l0 = true -> e && negb (existsb is_Dg l0) = false ->
                e = false \/ base <> 10 ->
                match pm2_digits_loop base e (render l0 +++ sfx) with
                | Some rest => pm2_suffix_break rest
                | None => None
                end = Some EmptyString).
  { intros l0 e Hl0 Hex0 He. rewrite pm2_loop_items by assumption. rewrite Hex0.
    rewrite pm2_loop_end by assumption. eapply pm2_suffix_break_ok; eassumption. }
  unfold lit_value, pm2_literal, pm2_int, pm2_digits.
  destruct (N.eq_dec base 10) as [-> | Hn].
  - destruct (Hdec eq_refl) as (up & d & l' & ->). cbn [prefix_of N.eqb Pos.eqb String.append render] in *.
    cbn [forallb] in Hall. apply andb_prop in Hall. destruct Hall as [Hd Hall]. apply item_ok_lt in Hd.
    assert (Hv := digit_val_digit_char 10 up d eq_refl Hd).
    assert (Hnx := no_xob_items _ _ Hall Hs).
    unfold pm2_float, pm2_float_digits. rewrite (digit_val_is_dec _ _ Hv).
    rewrite fd_main_items, fd_main_end by assumption.
    rewrite pm2_base_dec by assumption.
    rewrite (pm2_loop_digit 10 _ d) by (reflexivity || assumption).
    rewrite Hpm by auto.
    rewrite syn_parse_dec; [exact Hsyn | exact (digit_val_is_dec _ _ Hv) | exact Hnx].
  - rewrite pm2_float_prefixed, pm2_base_prefixed by assumption.
    rewrite Hpm by (auto; rewrite Hex; reflexivity).
    rewrite syn_parse_prefixed by assumption. exact Hsyn.
Qed.

(** ** Positional notation: [digits_of] *)
Definition value_lsd (base : N) (l : list N) : N := fold_right (fun d a => d + base * a) 0 l.
Definition value_msd (base : N) (ds : list N) (acc : N) : N := fold_left (fun a d => a * base + d) ds acc.

Lemma pow2_succ_fuel f : 2 ^ N.of_nat (S f) = 2 * 2 ^ N.of_nat f.
Proof. rewrite Nat2N.inj_succ, N.pow_succ_r'. reflexivity. Qed.

Lemma div_lt_half base n q : 2 <= base -> n < 2 * q -> n / base < q.
Proof.
  intros Hb Hn. apply N.div_lt_upper_bound; [lia|].
  assert (2 * q <= base * q) by (apply N.mul_le_mono_r; assumption). lia.
Qed.

Lemma lsd_fuel_value base : 2 <= base -> forall fuel n, n < 2 ^ N.of_nat fuel -> fuel <> O ->
  value_lsd base (lsd_fuel fuel base n) = n.
Proof.
  intros Hb. induction fuel as [|f IH]; intros n Hn Hf; [congruence|].
  cbn [lsd_fuel]. assert (Hdm := N.div_mod' n base).
  destruct (N.eqb_spec (n / base) 0) as [E|E].
  - cbn. rewrite E in Hdm. lia.
  - cbn [value_lsd fold_right]. fold (value_lsd base (lsd_fuel f base (n / base))).
    rewrite IH; [lia | |].
    + rewrite pow2_succ_fuel in Hn. apply div_lt_half; assumption.
    + intros ->. cbn in Hn. apply E, N.div_small. lia.
Qed.

Lemma lsd_fuel_lt base : base <> 0 -> forall fuel n, Forall (fun d => d < base) (lsd_fuel fuel base n).
Proof.
  intros Hb. induction fuel as [|f IH]; intros n; cbn [lsd_fuel]; constructor.
  - apply N.mod_lt, Hb.
  - destruct (n / base =? 0); [constructor | apply IH].
Qed.

Lemma fold_item_digits base up ds acc :
  fold_left (item_step base) (map (Dg up) ds) acc = value_msd base ds acc.
Proof. revert acc. induction ds as [|d ds IH]; intros acc; cbn; [reflexivity | apply IH]. Qed.

Lemma value_msd_rev base l : value_msd base (rev l) 0 = value_lsd base l.
Proof.
  induction l as [|d l IH]; [reflexivity|]. cbn [rev value_lsd fold_right]. unfold value_msd in *.
  rewrite fold_left_app. cbn [fold_left]. rewrite IH. fold (value_lsd base l). lia.
Qed.

Lemma fuel_enough n : n < 2 ^ N.of_nat (S (N.to_nat (N.log2 n))).
Proof.
  rewrite Nat2N.inj_succ, N2Nat.id. destruct n as [|p]; [reflexivity|].
  apply N.log2_spec. reflexivity.
Qed.

Lemma digits_of_value base n : 2 <= base -> value_msd base (digits_of base n) 0 = n.
Proof.
  intros Hb. unfold digits_of. rewrite value_msd_rev.
  apply lsd_fuel_value; [assumption | apply fuel_enough | discriminate].
Qed.
Lemma digits_of_lt base n : base <> 0 -> Forall (fun d => d < base) (digits_of base n).
Proof. intros Hb. unfold digits_of. apply Forall_rev, lsd_fuel_lt, Hb. Qed.
Lemma digits_of_nonempty base n : exists d ds, digits_of base n = d :: ds.
Proof.
  unfold digits_of. cbn [lsd_fuel]. set (t := if n / base =? 0 then _ else _). clearbody t.
  cbn [rev]. destruct (rev t) as [|x xs]; cbn; eauto.
Qed.

(** ** Underscores woven into a run of digits *)
Fixpoint weave (mask : list nat) (ds : list item) {struct ds} : list item :=
  match ds with
  | [] => []
  | d :: r => match mask with [] => ds | k :: m => d :: repeat Us k ++ weave m r end
  end.

Lemma append_assoc_s (a b c : string) : (a +++ b) +++ c = a +++ b +++ c.
Proof. induction a as [|x a IH]; cbn; [reflexivity | rewrite IH; reflexivity]. Qed.
Lemma append_nil_r_s (a : string) : a +++ EmptyString = a.
Proof. induction a as [|x a IH]; cbn; [reflexivity | rewrite IH; reflexivity]. Qed.

Lemma us_string_render k l : us_string k (render l) = render (repeat Us k ++ l).
Proof. induction k as [|k IH]; cbn; [reflexivity | rewrite IH; reflexivity]. Qed.

Lemma insert_us_render mask ds : insert_us mask (render ds) = render (weave mask ds).
Proof.
  revert mask. induction ds as [|i ds IH]; intros mask; [reflexivity|].
  destruct mask as [|k m].
  - destruct i; reflexivity.
  - destruct i; cbn [render insert_us weave]; rewrite IH, us_string_render; reflexivity.
Qed.

Lemma forallb_repeat_us base k l : forallb (item_ok base) (repeat Us k ++ l) = forallb (item_ok base) l.
Proof. induction k; cbn; auto. Qed.
Lemma existsb_repeat_us k l : existsb is_Dg (repeat Us k ++ l) = existsb is_Dg l.
Proof. induction k; cbn; auto. Qed.
Lemma fold_repeat_us base k l acc :
  fold_left (item_step base) (repeat Us k ++ l) acc = fold_left (item_step base) l acc.
Proof. induction k; cbn; auto. Qed.

Lemma weave_forallb base mask ds : forallb (item_ok base) (weave mask ds) = forallb (item_ok base) ds.
Proof.
  revert mask. induction ds as [|i ds IH]; intros [|k m]; cbn [weave forallb]; try reflexivity.
  rewrite forallb_repeat_us, IH. reflexivity.
Qed.
Lemma weave_existsb mask ds : existsb is_Dg (weave mask ds) = existsb is_Dg ds.
Proof.
  revert mask. induction ds as [|i ds IH]; intros [|k m]; cbn [weave existsb]; try reflexivity.
  rewrite existsb_repeat_us, IH. reflexivity.
Qed.
Lemma weave_fold base mask ds acc :
  fold_left (item_step base) (weave mask ds) acc = fold_left (item_step base) ds acc.
Proof.
  revert mask acc. induction ds as [|i ds IH]; intros [|k m] acc; cbn [weave fold_left]; try reflexivity.
  rewrite fold_repeat_us, IH. reflexivity.
Qed.

(** the side condition of the general form: no underscore directly at the start of a decimal literal *)
Definition lead_ok (base : N) (lead : nat) : bool := Nat.eqb lead 0 || negb (base =? 10).

Lemma woven_items_ok base up lead mask d ds :
  lead_ok base lead = true -> Forall (fun x => x < base) (d :: ds) ->
  items_ok base (repeat Us lead ++ weave mask (map (Dg up) (d :: ds))) = true.
Proof.
  intros Hlead Hlt. unfold items_ok.
  rewrite forallb_repeat_us, existsb_repeat_us, weave_forallb, weave_existsb.
  apply andb_true_intro; split; [apply andb_true_intro; split|].
  - apply forallb_forall. intros i Hi. apply in_map_iff in Hi. destruct Hi as (x & <- & Hx).
    cbn. apply N.ltb_lt. rewrite Forall_forall in Hlt. apply Hlt, Hx.
  - reflexivity.
  - unfold lead_ok in Hlead. destruct (base =? 10); [|reflexivity]. cbn [negb orb] in *.
    rewrite orb_false_r in Hlead. apply Nat.eqb_eq in Hlead. subst lead.
    cbn [repeat app map weave]. destruct mask; reflexivity.
Qed.

Lemma split_prefix_prefixed base r : valid_base base = true -> base <> 10 ->
  split_prefix (prefix_of base +++ r) = (prefix_of base, r).
Proof. intros Hb Hn. destruct (prefixed_cases _ Hb Hn) as [-> | [-> | ->]]; reflexivity. Qed.
Lemma split_prefix_dec c r : no_xob r = true -> split_prefix (String c r) = (EmptyString, String c r).
Proof.
  destruct r as [|c1 r]; [reflexivity|]. cbn [no_xob split_prefix]. intros H.
  apply negb_true_iff in H. rewrite H, andb_false_r. reflexivity.
Qed.

Lemma split_prefix_spell up base n : valid_base base = true ->
  split_prefix (spell_case up base n) = (prefix_of base, render (map (Dg up) (digits_of base n))).
Proof.
  intros Hb. unfold spell_case. destruct (N.eq_dec base 10) as [-> | Hn].
  - cbn [prefix_of N.eqb Pos.eqb String.append].
    destruct (digits_of_nonempty 10 n) as (d & ds & E). rewrite E.
    assert (Hlt := digits_of_lt 10 n ltac:(discriminate)). rewrite E in Hlt.
    cbn [map render]. apply split_prefix_dec.
    rewrite <- (append_nil_r_s (render _)). apply no_xob_items; [|reflexivity].
    apply forallb_forall. intros i Hi. apply in_map_iff in Hi. destruct Hi as (x & <- & Hx).
    cbn. apply N.ltb_lt. inversion Hlt as [|? ? _ Hds]; subst. rewrite Forall_forall in Hds. apply Hds, Hx.
  - apply split_prefix_prefixed; assumption.
Qed.

Lemma valid_base_ge2 base : valid_base base = true -> 2 <= base.
Proof. intros Hb. destruct (valid_base_cases _ Hb) as [-> | [-> | [-> | ->]]]; lia. Qed.

(** ** The general theorem: any case of the hex digits, any number of underscores after the
    prefix (none in decimal) and after each digit, any admissible suffix *)
Theorem lit_value_general up base n lead mask sfx :
  valid_base base = true -> lead_ok base lead = true -> suffix_ok base sfx = true ->
  lit_value (with_underscores_gen lead mask (spell_case up base n) +++ sfx) = Some (n, sfx).
Proof.
  intros Hb Hlead Hs. unfold with_underscores_gen. rewrite split_prefix_spell by assumption.
  rewrite insert_us_render, us_string_render, append_assoc_s.
  destruct (digits_of_nonempty base n) as (d & ds & E).
  assert (Hge := valid_base_ge2 _ Hb).
  assert (Hlt := digits_of_lt base n ltac:(lia)).
  assert (Hval := digits_of_value base n Hge). rewrite E in *.
  rewrite lit_value_items; try assumption.
  - unfold items_value. rewrite fold_repeat_us, weave_fold, fold_item_digits, Hval. reflexivity.
  - apply woven_items_ok; assumption.
Qed.

(** * The theorems *)

Lemma insert_us_nil s : insert_us [] s = s.
Proof. destruct s; reflexivity. Qed.
Lemma with_underscores_gen_nil s : with_underscores_gen 0 [] s = s.
Proof.
  unfold with_underscores_gen, split_prefix.
  destruct s as [|c0 [|c1 r]]; try reflexivity.
  destruct (is_code 48 c0 && _); cbn [us_string String.append]; rewrite insert_us_nil; reflexivity.
Qed.

(** the canonical spelling of [n] in base 2, 8, 10 or 16 (lower- or upper-case hex digits) reads as [n] *)
Theorem lit_value_spell_case up base n :
  valid_base base = true -> lit_value (spell_case up base n) = Some (n, EmptyString).
Proof.
  intros Hb. rewrite <- (append_nil_r_s (spell_case up base n)).
  rewrite <- (with_underscores_gen_nil (spell_case up base n)).
  apply lit_value_general; [assumption | reflexivity | reflexivity].
Qed.
Theorem lit_value_spell base n :
  valid_base base = true -> lit_value (spell base n) = Some (n, EmptyString).
Proof. apply lit_value_spell_case. Qed.

(** underscores after any digits: no side condition on a boolean mask *)
Theorem lit_value_underscores_case up mask base n :
  valid_base base = true ->
  lit_value (with_underscores mask (spell_case up base n)) = Some (n, EmptyString).
Proof.
  intros Hb. rewrite <- (append_nil_r_s (with_underscores _ _)).
  apply lit_value_general; [assumption | reflexivity | reflexivity].
Qed.
Theorem lit_value_underscores mask base n :
  valid_base base = true -> lit_value (with_underscores mask (spell base n)) = Some (n, EmptyString).
Proof. apply lit_value_underscores_case. Qed.

(** the general mask (any number of underscores after each digit and after the prefix): the side
    condition is [lead_ok], which is satisfiable for every base (take [lead = 0]) *)
Theorem lit_value_underscores_gen up lead mask base n :
  valid_base base = true -> lead_ok base lead = true ->
  lit_value (with_underscores_gen lead mask (spell_case up base n)) = Some (n, EmptyString).
Proof.
  intros Hb Hl. rewrite <- (append_nil_r_s (with_underscores_gen _ _ _)).
  apply lit_value_general; [assumption | assumption | reflexivity].
Qed.
Lemma lead_ok_zero base : lead_ok base 0 = true.
Proof. reflexivity. Qed.
Lemma lead_ok_prefixed base lead : base <> 10 -> lead_ok base lead = true.
Proof. intros H. unfold lead_ok. apply N.eqb_neq in H. rewrite H. apply orb_true_r. Qed.
Example lead_ok_example : lead_ok 16 3 = true /\ lead_ok 10 0 = true /\ lead_ok 10 1 = false.
Proof. repeat split. Qed.
Example underscores_gen_example :
  with_underscores_gen 1 [0%nat; 2%nat] (spell_case true 16 255) = "0x_FF__" /\
  lit_value "0x_FF__" = Some (255, EmptyString).
Proof. vm_compute. split; reflexivity. Qed.

(** the Rust integer suffixes are admissible after every spelling *)
Lemma int_suffix_ok base sfx : valid_base base = true -> In sfx int_suffixes -> suffix_ok base sfx = true.
Proof.
  intros Hb Hin. destruct (valid_base_cases _ Hb) as [-> | [-> | [-> | ->]]];
    cbn in Hin; repeat (destruct Hin as [<- | Hin]; [reflexivity|]); contradiction.
Qed.

Theorem lit_value_suffix up mask base n sfx :
  valid_base base = true -> In sfx int_suffixes ->
  lit_value (with_underscores mask (spell_case up base n) +++ sfx) = Some (n, sfx).
Proof.
  intros Hb Hin. apply lit_value_general; [assumption | reflexivity | apply int_suffix_ok; assumption].
Qed.
(** more generally any identifier suffix whose first character does not continue the digits *)
Theorem lit_value_suffix_gen up lead mask base n sfx :
  valid_base base = true -> lead_ok base lead = true -> suffix_ok base sfx = true ->
  lit_value (with_underscores_gen lead mask (spell_case up base n) +++ sfx) = Some (n, sfx).
Proof. apply lit_value_general. Qed.

(** C20 at the lexical level: base, case, underscores and integer suffix change nothing of the value *)
Theorem spelling_irrelevant n b1 b2 m1 m2 :
  valid_base b1 = true -> valid_base b2 = true ->
  lit_value (with_underscores m1 (spell b1 n)) = lit_value (with_underscores m2 (spell b2 n)).
Proof. intros H1 H2. rewrite !lit_value_underscores by assumption. reflexivity. Qed.

Theorem spelling_irrelevant_gen n up1 up2 b1 b2 l1 l2 m1 m2 :
  valid_base b1 = true -> valid_base b2 = true -> lead_ok b1 l1 = true -> lead_ok b2 l2 = true ->
  lit_value (with_underscores_gen l1 m1 (spell_case up1 b1 n)) =
  lit_value (with_underscores_gen l2 m2 (spell_case up2 b2 n)).
Proof. intros. rewrite !lit_value_underscores_gen by assumption. reflexivity. Qed.

Theorem spelling_irrelevant_suffix n up1 up2 b1 b2 m1 m2 s1 s2 :
  valid_base b1 = true -> valid_base b2 = true -> In s1 int_suffixes -> In s2 int_suffixes ->
  option_map fst (lit_value (with_underscores m1 (spell_case up1 b1 n) +++ s1)) =
  option_map fst (lit_value (with_underscores m2 (spell_case up2 b2 n) +++ s2)).
Proof. intros. rewrite !lit_value_suffix by assumption. reflexivity. Qed.

(** ** C18 at the lexical level: the decimal spelling is the only canonical decimal text of a number *)
Definition canonical_dec (s : string) : bool :=
  match s with
  | EmptyString => false
  | String c r => all_chars is_dec s && (negb (is_code 48 c) || str_is_empty r)
  end.

Fixpoint dec_digits (s : string) : list N :=
  match s with EmptyString => [] | String c r => (code c - 48) :: dec_digits r end.

Lemma digit_char_dec c : is_dec c = true -> digit_char false (code c - 48) = c.
Proof.
  intros H. unfold digit_char. replace (code c - 48 <? 10) with true.
  - replace (48 + (code c - 48)) with (code c).
    + apply ascii_N_embedding.
    + revert H. char_arith c.
  - revert H. char_arith c.
Qed.
Lemma render_dec_digits s : all_chars is_dec s = true -> render (map (Dg false) (dec_digits s)) = s.
Proof.
  induction s as [|c r IH]; [reflexivity|]. cbn. intros H. apply andb_prop in H. destruct H as [Hc Hr].
  rewrite digit_char_dec, IH by assumption. reflexivity.
Qed.
Lemma dec_digits_lt s : all_chars is_dec s = true -> Forall (fun d => d < 10) (dec_digits s).
Proof.
  induction s as [|c r IH]; cbn; intros H; constructor; apply andb_prop in H; destruct H as [Hc Hr].
  - revert Hc. char_arith c.
  - apply IH, Hr.
Qed.

Lemma value_lsd_pos base l : base <> 0 -> l <> [] -> last l 0 <> 0 -> value_lsd base l <> 0.
Proof.
  intros Hb. induction l as [|d l IH]; [congruence|]. intros _ Hlast.
  cbn [value_lsd fold_right]. fold (value_lsd base l). destruct l as [|d' l].
  - cbn in *. lia.
  - assert (value_lsd base (d' :: l) <> 0) by (apply IH; [discriminate | exact Hlast]).
    assert (base * value_lsd base (d' :: l) <> 0) by (apply N.neq_mul_0; split; assumption). lia.
Qed.

Lemma lsd_step base d v : d < base -> (d + base * v) mod base = d /\ (d + base * v) / base = v.
Proof.
  intros Hd. assert (Hb : base <> 0) by lia. rewrite (N.mul_comm base v). split.
  - rewrite N.mod_add by assumption. apply N.mod_small, Hd.
  - rewrite N.div_add by assumption. rewrite N.div_small by assumption. reflexivity.
Qed.

Lemma lsd_unique base : 2 <= base -> forall l fuel, Forall (fun d => d < base) l -> l <> [] ->
  last l 0 <> 0 -> value_lsd base l < 2 ^ N.of_nat fuel -> lsd_fuel fuel base (value_lsd base l) = l.
Proof.
  intros Hb. induction l as [|d l IH]; [congruence|]. intros fuel Hlt _ Hlast Hv.
  inversion Hlt as [|? ? Hd Hl]; subst.
  cbn [value_lsd fold_right] in *. fold (value_lsd base l) in *.
  destruct (lsd_step base d (value_lsd base l) Hd) as [Hm Hq].
  destruct fuel as [|f].
  - exfalso. cbn in Hv. assert (value_lsd base (d :: l) <> 0) by (apply value_lsd_pos; [lia | discriminate | exact Hlast]).
    cbn [value_lsd fold_right] in H. fold (value_lsd base l) in H. lia.
  - cbn [lsd_fuel]. rewrite Hm, Hq. f_equal. destruct l as [|d' l]; [reflexivity|].
    assert (Hnz : value_lsd base (d' :: l) <> 0) by (apply value_lsd_pos; [lia | discriminate | exact Hlast]).
    apply N.eqb_neq in Hnz. rewrite Hnz. apply IH; [assumption | discriminate | exact Hlast |].
    rewrite pow2_succ_fuel in Hv.
    assert (2 * value_lsd base (d' :: l) <= base * value_lsd base (d' :: l)) by (apply N.mul_le_mono_r; assumption).
    lia.
Qed.

Lemma digits_of_unique base ds : 2 <= base -> Forall (fun d => d < base) ds ->
  (exists d, ds = [d]) \/ (ds <> [] /\ hd 0 ds <> 0) ->
  digits_of base (value_msd base ds 0) = ds.
Proof.
  intros Hb Hlt Hc. remember (rev ds) as l eqn:El.
  assert (Eds : ds = rev l) by (subst l; symmetry; apply rev_involutive).
  assert (Hltl : Forall (fun d => d < base) l) by (subst l; apply Forall_rev, Hlt).
  rewrite Eds at 1. rewrite value_msd_rev. unfold digits_of. rewrite Eds at 1. f_equal.
  destruct Hc as [[d ->] | [Hne Hhd]].
  - cbn [rev app] in El. subst l. cbn [value_lsd fold_right lsd_fuel]. inversion Hlt; subst.
    replace (d + base * 0) with d by lia.
    rewrite N.mod_small, N.div_small by assumption. reflexivity.
  - apply lsd_unique; [assumption | assumption | | | apply fuel_enough].
    + intros E. apply Hne. rewrite Eds, E. reflexivity.
    + destruct ds as [|d ds]; [congruence|]. cbn [rev hd] in *. subst l. rewrite last_last. exact Hhd.
Qed.

Theorem lit_value_canonical_dec s :
  canonical_dec s = true -> lit_value s = Some (value_msd 10 (dec_digits s) 0, EmptyString) /\
                            s = spell 10 (value_msd 10 (dec_digits s) 0).
Proof.
  intros Hc. destruct s as [|c r]; [discriminate|]. cbn [canonical_dec] in Hc.
  apply andb_prop in Hc. destruct Hc as [Hall Hlead].
  assert (Hr := render_dec_digits _ Hall). assert (Hlt := dec_digits_lt _ Hall).
  split.
  - rewrite <- Hr at 1. rewrite <- (append_nil_r_s (render _)).
    change (render (map (Dg false) (dec_digits (String c r))) +++ EmptyString)
      with (prefix_of 10 +++ render (map (Dg false) (dec_digits (String c r))) +++ EmptyString).
    rewrite lit_value_items; [| reflexivity | | reflexivity].
    + unfold items_value. rewrite fold_item_digits. reflexivity.
    + cbn [dec_digits] in *. apply (woven_items_ok 10 false 0 [] _ _ eq_refl Hlt).
  - unfold spell, spell_case. rewrite digits_of_unique; [symmetry; exact Hr | lia | exact Hlt |].
    cbn [dec_digits]. apply orb_prop in Hlead. destruct Hlead as [Hnz | He].
    + right. split; [discriminate|]. cbn [hd]. cbn [all_chars] in Hall. apply andb_prop in Hall.
      destruct Hall as [Hd _]. revert Hd Hnz. char_arith c.
    + left. destruct r; [|discriminate]. eauto.
Qed.

Theorem lit_value_inj_canonical s n :
  canonical_dec s = true -> lit_value s = Some (n, EmptyString) -> s = spell 10 n.
Proof.
  intros Hc Hv. destruct (lit_value_canonical_dec s Hc) as [Hv' Hs].
  rewrite Hv' in Hv. injection Hv as <-. exact Hs.
Qed.

(** and the decimal spelling is canonical, so on canonical decimal texts reading is exactly the
    inverse of [spell 10] *)
Lemma lsd_fuel_last base : 2 <= base -> forall fuel n, n <> 0 -> n < 2 ^ N.of_nat fuel ->
  last (lsd_fuel fuel base n) 0 <> 0.
Proof.
  intros Hb. induction fuel as [|f IH]; intros n Hn Hlt.
  - cbn in Hlt. lia.
  - cbn [lsd_fuel]. destruct (N.eqb_spec (n / base) 0) as [E|E].
    + cbn [last]. assert (Hdm := N.div_mod' n base). rewrite E in Hdm. lia.
    + assert (Hq : n / base < 2 ^ N.of_nat f) by (rewrite pow2_succ_fuel in Hlt; apply div_lt_half; assumption).
      specialize (IH _ E Hq). destruct f as [|f']; [change (2 ^ N.of_nat 0) with 1 in Hq; remember (n / base) as q; lia|].
      remember (lsd_fuel (S f') base (n / base)) as L eqn:EL. destruct L as [|x L]; [discriminate EL|].
      exact IH.
Qed.

Lemma is_dec_digit_char up d : d < 10 -> is_dec (digit_char up d) = true.
Proof. intros Hd. eapply digit_val_is_dec, digit_val_digit_char; [reflexivity | exact Hd]. Qed.
Lemma all_dec_render up ds : Forall (fun d => d < 10) ds -> all_chars is_dec (render (map (Dg up) ds)) = true.
Proof.
  induction 1 as [|d ds Hd _ IH]; [reflexivity|]. cbn. rewrite is_dec_digit_char, IH by assumption. reflexivity.
Qed.
Lemma digit_char_nonzero up d : d < 10 -> d <> 0 -> is_code 48 (digit_char up d) = false.
Proof.
  intros Hd Hnz. assert (Hv := digit_val_digit_char 10 up d eq_refl Hd).
  set (c := digit_char up d) in *. clearbody c. revert Hv Hnz. char_arith c.
Qed.

Theorem spell_dec_canonical n : canonical_dec (spell 10 n) = true.
Proof.
  unfold spell, spell_case. cbn [prefix_of N.eqb Pos.eqb String.append].
  assert (Hlt := digits_of_lt 10 n ltac:(discriminate)).
  assert (Hall := all_dec_render false _ Hlt).
  unfold digits_of in *. set (F := S (N.to_nat (N.log2 n))) in *.
  destruct (N.eq_dec n 0) as [-> | Hn]; [reflexivity|].
  assert (Hlast := lsd_fuel_last 10 ltac:(lia) F n Hn (fuel_enough n)).
  remember (lsd_fuel F 10 n) as l eqn:El. clear El.
  assert (Hhd : hd 0 (rev l) <> 0).
  { destruct l as [|x l] using rev_ind; [cbn in Hlast; congruence|].
    rewrite last_last in Hlast. rewrite rev_app_distr. exact Hlast. }
  destruct (rev l) as [|d ds]; [cbn in Hhd; congruence|].
  cbn [map render canonical_dec] in *. rewrite Hall. cbn [andb hd] in *.
  inversion Hlt; subst. rewrite digit_char_nonzero by assumption. reflexivity.
Qed.

Theorem canonical_dec_read_iff s n :
  canonical_dec s = true -> (lit_value s = Some (n, EmptyString) <-> s = spell 10 n).
Proof.
  intros Hc. split; [apply lit_value_inj_canonical, Hc|].
  intros ->. apply lit_value_spell. reflexivity.
Qed.

(** ** The model's own decimal printer ([Base.dec_of_N], the stdlib's [N.to_uint]) is [spell 10] *)

Lemma all_dec_string_of_uint d : all_chars is_dec (DecimalString.NilEmpty.string_of_uint d) = true.
Proof. induction d; cbn [DecimalString.NilEmpty.string_of_uint all_chars]; try rewrite IHd; reflexivity. Qed.

Lemma of_uint_acc_value d acc :
  N.pos (Pos.of_uint_acc d acc) =
  value_msd 10 (dec_digits (DecimalString.NilEmpty.string_of_uint d)) (N.pos acc).
Proof.
  revert acc. unfold value_msd.
  induction d; intros acc; cbn [Pos.of_uint_acc DecimalString.NilEmpty.string_of_uint dec_digits fold_left];
    [reflexivity | rewrite IHd; f_equal; vm_compute (code _ - 48); lia ..].
Qed.
Lemma of_uint_value d :
  Pos.of_uint d = value_msd 10 (dec_digits (DecimalString.NilEmpty.string_of_uint d)) 0.
Proof.
  unfold value_msd.
  induction d; cbn [Pos.of_uint DecimalString.NilEmpty.string_of_uint dec_digits fold_left];
    [reflexivity | exact IHd | rewrite of_uint_acc_value; reflexivity ..].
Qed.

Lemma unorm_fix_canonical d : d <> Decimal.Nil -> Decimal.unorm d = d ->
  canonical_dec (DecimalString.NilEmpty.string_of_uint d) = true.
Proof.
  intros Hnil Hfix.
  assert (Hall := all_dec_string_of_uint d).
  destruct d; try congruence; cbn [DecimalString.NilEmpty.string_of_uint canonical_dec] in *; rewrite Hall;
    try reflexivity.
  (* D0 d *)
  cbn [andb]. unfold Decimal.unorm in Hfix. cbn [Decimal.nzhead] in Hfix.
  destruct (Decimal.nzhead d) eqn:E; try discriminate.
  - injection Hfix as <-. reflexivity.
  - exfalso. eapply DecimalFacts.nzhead_nonzero, E.
Qed.

Theorem dec_of_N_spell n : dec_of_N n = spell 10 n.
Proof.
  destruct n as [|p]; [reflexivity|].
  unfold dec_of_N. cbn [N.to_uint].
  assert (Hnil := DecimalPos.Unsigned.to_uint_nonnil p).
  assert (Hfix : Decimal.unorm (Pos.to_uint p) = Pos.to_uint p).
  { rewrite <- (DecimalPos.Unsigned.to_of (Pos.to_uint p)). rewrite DecimalPos.Unsigned.of_to. reflexivity. }
  assert (Hval := DecimalPos.Unsigned.of_to p). rewrite of_uint_value in Hval.
  assert (Hc := unorm_fix_canonical _ Hnil Hfix).
  replace (DecimalString.NilZero.string_of_uint (Pos.to_uint p))
    with (DecimalString.NilEmpty.string_of_uint (Pos.to_uint p))
    by (unfold DecimalString.NilZero.string_of_uint; destruct (Pos.to_uint p); congruence).
  destruct (lit_value_canonical_dec _ Hc) as [_ Hs]. rewrite Hval in Hs. exact Hs.
Qed.

(** so: the text the model prints for a number lexes back to that number, in full *)
Corollary lit_value_dec_of_N n : lit_value (dec_of_N n) = Some (n, EmptyString).
Proof. rewrite dec_of_N_spell. apply lit_value_spell. reflexivity. Qed.

(** ** Range reading *)
Lemma isize_in_range_iff z : isize_in_range z = true <-> (isize_min <= z <= isize_max)%Z.
Proof. unfold isize_in_range. rewrite andb_true_iff, !Z.leb_le. tauto. Qed.

Theorem read_isize_spec neg s z :
  read_isize neg s = Some z <->
  exists n sfx, lit_value s = Some (n, sfx) /\ z = signed neg n /\ (isize_min <= z <= isize_max)%Z.
Proof.
  unfold read_isize. destruct (lit_value s) as [[n sfx]|].
  - destruct (isize_in_range (signed neg n)) eqn:E.
    + apply isize_in_range_iff in E. split.
      * intros H. injection H as <-. eauto.
      * intros (n' & sfx' & H & -> & _). injection H as <- <-. reflexivity.
    + split; [discriminate|]. intros (n' & sfx' & H & -> & Hr). injection H as <- <-.
      apply isize_in_range_iff in Hr. congruence.
  - split; [discriminate|]. intros (n' & sfx' & H & _). discriminate.
Qed.

(** it succeeds exactly when the literal is well formed and its signed value is in range *)
Theorem read_isize_succeeds neg s n sfx :
  lit_value s = Some (n, sfx) ->
  (read_isize neg s = Some (signed neg n) <-> (isize_min <= signed neg n <= isize_max)%Z) /\
  (read_isize neg s = None <-> ~ (isize_min <= signed neg n <= isize_max)%Z).
Proof.
  intros H. unfold read_isize. rewrite H. rewrite <- isize_in_range_iff.
  destruct (isize_in_range (signed neg n)); split; split; try congruence; try tauto; intros; exfalso; auto.
Qed.

Theorem read_usize_spec neg s n :
  read_usize neg s = Some n <->
  neg = false /\ exists sfx, lit_value s = Some (n, sfx) /\ n <= usize_max.
Proof.
  unfold read_usize. destruct neg; [split; [discriminate | intros [? _]; discriminate]|].
  destruct (lit_value s) as [[n' sfx]|].
  - unfold fits_usize. destruct (N.leb_spec n' usize_max) as [Hle | Hgt].
    + split.
      * intros H. injection H as <-. eauto.
      * intros (_ & sfx' & H & _). injection H as <- <-. reflexivity.
    + split; [discriminate|]. intros (_ & sfx' & H & Hle). injection H as <- <-. lia.
  - split; [discriminate|]. intros (_ & sfx' & H & _). discriminate.
Qed.

(** reading does not depend on the spelling either *)
Corollary read_isize_spelling neg up lead mask base n sfx :
  valid_base base = true -> lead_ok base lead = true -> suffix_ok base sfx = true ->
  read_isize neg (with_underscores_gen lead mask (spell_case up base n) +++ sfx) =
  if isize_in_range (signed neg n) then Some (signed neg n) else None.
Proof. intros Hb Hl Hs. unfold read_isize. rewrite lit_value_general by assumption. reflexivity. Qed.
Corollary read_usize_spelling up lead mask base n sfx :
  valid_base base = true -> lead_ok base lead = true -> suffix_ok base sfx = true ->
  read_usize false (with_underscores_gen lead mask (spell_case up base n) +++ sfx) =
  if fits_usize n then Some n else None.
Proof. intros Hb Hl Hs. unfold read_usize. rewrite lit_value_general by assumption. reflexivity. Qed.

Example read_isize_min : read_isize true "0x8000_0000_0000_0000" = Some isize_min. Proof. vm_compute. reflexivity. Qed.
Example read_isize_over : read_isize false "9223372036854775808" = None. Proof. vm_compute. reflexivity. Qed.
Example read_usize_max : read_usize false "0xFFFF_FFFF_FFFF_FFFFusize" = Some usize_max. Proof. vm_compute. reflexivity. Qed.
Example read_usize_over : read_usize false "18446744073709551616" = None. Proof. vm_compute. reflexivity. Qed.
Example read_usize_neg0 : read_usize true "0" = None. Proof. reflexivity. Qed.

(** ** [lit_case] *)
Lemma lit_value_first_digit s x : lit_value s = Some x -> exists c r, s = String c r /\ is_dec c = true.
Proof.
  unfold lit_value. destruct (pm2_literal s) as [[|? ?]|]; try discriminate.
  destruct s as [|c r]; [discriminate|]. cbn [syn_parse_lit_int]. intros H. exists c, r. split; [reflexivity|].
  destruct (is_code 48 c) eqn:E.
  - revert E. char_arith c.
  - destruct (is_dec c); [reflexivity | discriminate].
Qed.
Theorem lit_case_ok s v sfx :
  lit_value s = Some (v, sfx) -> lit_case s = "ok " +++ dec_of_N v +++ " " +++ sfx.
Proof.
  intros H. destruct (lit_value_first_digit _ _ H) as (c & r & -> & Hc). unfold lit_case.
  replace (is_code 45 c) with false by (revert Hc; char_arith c). rewrite H. reflexivity.
Qed.
Corollary lit_case_spelling up lead mask base n sfx :
  valid_base base = true -> lead_ok base lead = true -> suffix_ok base sfx = true ->
  lit_case (with_underscores_gen lead mask (spell_case up base n) +++ sfx) = "ok " +++ spell 10 n +++ " " +++ sfx.
Proof. intros Hb Hl Hs. rewrite <- dec_of_N_spell. apply lit_case_ok, lit_value_general; assumption. Qed.

Print Assumptions lit_value_items.
Print Assumptions lit_value_general.
Print Assumptions lit_value_spell.
Print Assumptions lit_value_underscores.
Print Assumptions lit_value_underscores_gen.
Print Assumptions lit_value_suffix.
Print Assumptions spelling_irrelevant.
Print Assumptions spelling_irrelevant_gen.
Print Assumptions lit_value_inj_canonical.
Print Assumptions canonical_dec_read_iff.
Print Assumptions dec_of_N_spell.
Print Assumptions read_isize_spec.
Print Assumptions read_isize_succeeds.
Print Assumptions read_usize_spec.
Print Assumptions spell_dec_canonical.
Print Assumptions lit_value_dec_of_N.
Print Assumptions lit_case_ok.
Print Assumptions lit_case_spelling.
Print Assumptions read_isize_spelling.
