(** * The front half of the model never panics (C12).

    For EVERY input and EVERY schedule, [pyxis_resolve] (registration, resolution loop,
    [finish_build]) ends in [BOk], [BErr] or [BNoProgress]: the only primitive panic site of Sem.v
    (the [unwrap] of a region's size/alignment in the per-field alignment check) is unreachable, and
    with [sem_build_never_out_of_fuel] the model's own recursion bound is never hit either.
    (The emitter has real panic sites -- identifier construction, open findings F6f/F6i.) *)
From Coq Require Import List NArith ZArith Bool Lia String.
From PyxisModel Require Import Base Grammar SemTypes Registry Sem SemLemmas TotalityLemmas.
Import ListNotations.

Definition np {A} (o : outcome A) : Prop := forall m, o <> Panic m.
(** Ok or Err: neither a deferral nor a panic *)
Definition oe {A} (o : outcome A) : Prop := match o with Ok _ | Err _ => True | _ => False end.

Lemma oe_np {A} (o : outcome A) : oe o -> np o.
Proof. destruct o; cbn; intros H m; try discriminate; contradiction. Qed.

Lemma np_bind {A B} (x : outcome A) (f : A -> outcome B) :
  np x -> (forall a, x = Ok a -> np (f a)) -> np (bind x f).
Proof.
  intros Hx Hf. destruct x as [a| |e|e]; cbn [bind].
  - apply Hf; reflexivity.
  - intros m; discriminate.
  - intros m; discriminate.
  - exfalso. apply (Hx e). reflexivity.
Qed.

Lemma oe_bind {A B} (x : outcome A) (f : A -> outcome B) :
  oe x -> (forall a, x = Ok a -> oe (f a)) -> oe (bind x f).
Proof. intros Hx Hf. destruct x as [a| |e|e]; cbn [bind oe] in *; auto. Qed.

Lemma np_foldM {A S} (f : S -> A -> outcome S) : (forall s a, np (f s a)) -> forall l s, np (foldM f l s).
Proof.
  intros Hf. induction l as [|a l IH]; intros s; cbn [foldM]; [intros m; discriminate|].
  apply np_bind; auto.
Qed.

Lemma oe_foldM {A S} (f : S -> A -> outcome S) : (forall s a, oe (f s a)) -> forall l s, oe (foldM f l s).
Proof.
  intros Hf. induction l as [|a l IH]; intros s; cbn [foldM]; [exact I|]. apply oe_bind; auto.
Qed.

Lemma oe_mapM {A B} (f : A -> outcome B) : (forall a, oe (f a)) -> forall l, oe (mapM f l).
Proof.
  intros Hf. induction l as [|a l IH]; cbn [mapM]; [exact I|].
  apply oe_bind; [apply Hf|]. intros b _. apply oe_bind; [exact IH|]. intros; exact I.
Qed.

Ltac oe_cases :=
  repeat match goal with
         | |- oe (match ?x with _ => _ end) => destruct x
         | |- oe (if ?b then _ else _) => destruct b
         end; cbn [oe]; auto.

Lemma attrs_doc_oe l : oe (attrs_doc l).
Proof.
  unfold attrs_doc. generalize (@None string). induction l as [|a l IH]; intros acc; cbn [attrs_doc_aux]; [exact I|].
  destruct a as [?|? ?|k v]; auto. destruct (String.eqb k "doc"); auto. destruct v; cbn; auto.
Qed.

Lemma scan_fn_attr_oe v st a : oe (scan_fn_attr v st a).
Proof. unfold scan_fn_attr. oe_cases. Qed.

Lemma resolve_arg_oe R scope a : oe (resolve_arg R scope a).
Proof. unfold resolve_arg. oe_cases. Qed.

Lemma function_build_oe R scope v f : oe (function_build R scope v f).
Proof.
  unfold function_build. apply oe_bind; [apply attrs_doc_oe|]. intros doc _.
  apply oe_bind; [apply oe_foldM; intros; apply scan_fn_attr_oe|]. intros st _.
  destruct (fst st); [|exact I].
  apply oe_bind; [apply oe_mapM; intros; apply resolve_arg_oe|]. intros args _.
  apply oe_bind; [oe_cases|]. intros; exact I.
Qed.

Lemma scan_int_attr_oe name acc a : oe (scan_int_attr name acc a).
Proof. unfold scan_int_attr. oe_cases. Qed.

Lemma convert_one_oe R scope out f : oe (convert_one R scope out f).
Proof.
  unfold convert_one. apply oe_bind; [apply oe_foldM; intros; apply scan_int_attr_oe|]. intros idx _.
  apply oe_bind; [oe_cases|]. intros out1 _.
  apply oe_bind; [apply function_build_oe|]. intros; exact I.
Qed.

Lemma convert_functions_oe R scope sz fs : oe (convert_functions R scope sz fs).
Proof.
  unfold convert_functions. apply oe_bind; [apply oe_foldM; intros; apply convert_one_oe|]. intros out _. oe_cases.
Qed.

Lemma scan_type_attr_oe ta a : oe (scan_type_attr ta a).
Proof. unfold scan_type_attr. oe_cases. Qed.

Lemma scan_field_attr_oe st a : oe (scan_field_attr st a).
Proof. unfold scan_field_attr. oe_cases. Qed.

Lemma process_statement_np R scope acc s : np (process_statement R scope acc s).
Proof.
  unfold process_statement. destruct acc as [idx [pending vfs]]. destruct (gs_field s) as [v name t|fs].
  - apply np_bind; [apply oe_np, attrs_doc_oe|]. intros doc _.
    apply np_bind; [apply oe_np, oe_foldM; intros; apply scan_field_attr_oe|]. intros ab _.
    destruct (resolve_gtype R scope t); intros m; discriminate.
  - destruct (negb _); [intros m; discriminate|].
    apply np_bind; [apply oe_np, oe_foldM; intros; apply scan_int_attr_oe|]. intros sz _.
    apply np_bind; [apply oe_np, convert_functions_oe|]. intros out _ m. discriminate.
Qed.

Lemma add_item_oe st it : oe (add_item st it).
Proof. unfold add_item. oe_cases. Qed.

Lemma region_name_and_typedef_oe R r : oe (region_name_and_typedef R r).
Proof. unfold region_name_and_typedef. oe_cases. Qed.

Lemma opt_rnv_oe R fb : oe (opt_region_name_and_vftable R fb).
Proof.
  unfold opt_region_name_and_vftable. destruct fb; [|exact I].
  apply oe_bind; [apply region_name_and_typedef_oe|]. intros; exact I.
Qed.

Lemma vftable_build_oe st owner v fb vfs : oe (vftable_build st owner v fb vfs).
Proof.
  unfold vftable_build. destruct vfs as [fs|].
  - destruct (vftable_item _ _ _ _); [|exact I].
    apply oe_bind; [apply add_item_oe|]. intros st' _.
    apply oe_bind; [apply opt_rnv_oe|]. intros base _. oe_cases.
  - apply oe_bind; [apply opt_rnv_oe|]. intros base _. oe_cases.
Qed.

Lemma defer_opt_np {A} (o : option A) : np (defer_opt o).
Proof. destruct o; intros m; discriminate. Qed.

Lemma push_pending_np R acc p : np (push_pending R acc p).
Proof.
  unfold push_pending. apply np_bind; [|intros; apply defer_opt_np].
  destruct (fst p); [|intros m; discriminate]. destruct (_ <? _)%N; [intros m; discriminate | apply defer_opt_np].
Qed.

Lemma name_regions_np R : forall rs s, np (name_regions R rs s).
Proof.
  induction rs as [|r rs IH]; intros s; cbn [name_regions]; [intros m; discriminate|].
  destruct (size_of R (r_type r)); [|intros m; discriminate].
  apply np_bind; [apply IH|]. intros x _ m. discriminate.
Qed.

Lemma resolve_regions_np st owner v ts pending vfs : np (resolve_regions st owner v ts pending vfs).
Proof.
  unfold resolve_regions. destruct (first_base_unresolved _ _); [intros m; discriminate|].
  apply np_bind; [apply oe_np, vftable_build_oe|]. intros [[st' vt] vr] _.
  apply np_bind; [destruct vr; [apply defer_opt_np | intros m; discriminate]|]. intros acc0 _.
  apply np_bind; [apply np_foldM; intros; apply push_pending_np|]. intros acc1 _.
  apply np_bind.
  { destruct ts; [|intros m; discriminate]. destruct (_ <? _)%N; [apply defer_opt_np | intros m; discriminate]. }
  intros acc2 _. apply np_bind; [apply name_regions_np|]. intros named _.
  destruct ts; [destruct (negb _)|]; intros m; discriminate.
Qed.

Lemma region_name_and_typedef_fold_oe R : forall bases i acc, oe (inject_bases R bases i acc).
Proof.
  induction bases as [|b bases IH]; intros i acc; cbn [inject_bases]; [exact I|].
  apply oe_bind; [apply region_name_and_typedef_oe|]. intros x _. destruct x as [[bn td]|]; apply IH.
Qed.

Lemma add_impl_function_oe R scope acc f : oe (add_impl_function R scope acc f).
Proof.
  unfold add_impl_function. destruct (str_mem _ _); [exact I|].
  apply oe_bind; [apply function_build_oe|]. intros; exact I.
Qed.

Lemma check_defaultable_oe R r : oe (check_defaultable R r).
Proof. unfold check_defaultable. oe_cases. Qed.

Lemma type_build_np st p v d : np (snd (type_build st p v d)).
Proof.
  unfold type_build. destruct (path_parent p) as [parent|]; [|intros m; discriminate].
  destruct (alookup parent (st_modules st)) as [module|]; [|intros m; discriminate].
  match goal with |- context [match ?pre with Ok _ => _ | Defer => _ | Err _ => _ | Panic _ => _ end] =>
    assert (np pre) as Hpre; [|destruct pre as [[[doc ta] [pending vfs]]| | |] eqn:Epre] end.
  { apply np_bind; [apply oe_np, attrs_doc_oe|]. intros doc _.
    apply np_bind; [apply oe_np, oe_foldM; intros; apply scan_type_attr_oe|]. intros ta _.
    apply np_bind; [apply np_foldM; intros; apply process_statement_np|]. intros stm _ m. discriminate. }
  2,3: cbn [snd]; intros m; discriminate.
  2: { exfalso. apply (Hpre msg). reflexivity. }
  pose proof (resolve_regions_np st p v (ta_size ta) pending vfs) as Hrr.
  destruct (resolve_regions st p v (ta_size ta) pending vfs) as [[[[st' regions] vt] size]| | |] eqn:Err; cbn [snd];
    try (intros m; discriminate); [|exfalso; apply (Hrr msg); reflexivity].
  apply np_bind; [apply oe_np, region_name_and_typedef_fold_oe|]. intros acc1 _.
  apply np_bind.
  { destruct (alookup p (m_impls module)); [|intros m; discriminate].
    apply oe_np, oe_foldM. intros; apply add_impl_function_oe. }
  intros acc2 _. apply np_bind.
  { destruct (ta_defaultable ta); [|intros m; discriminate]. apply oe_np, oe_foldM. intros; apply check_defaultable_oe. }
  intros [] _. apply np_bind; [|intros al _ m; discriminate].
  intros m. apply compute_alignment_no_panic. eapply resolve_regions_sizes; eauto.
Qed.

Lemma enum_cases_oe : forall stmts last idx fields di, oe (enum_cases stmts last idx fields di).
Proof.
  induction stmts as [|s stmts IH]; intros last idx fields di; cbn [enum_cases]; [exact I|].
  apply oe_bind; [oe_cases|]. intros value _. apply oe_bind; [oe_cases|]. intros di' _. apply IH.
Qed.

Lemma scan_enum_attr_oe ea a : oe (scan_enum_attr ea a).
Proof. unfold scan_enum_attr. oe_cases. Qed.

Lemma enum_build_np st p d : np (enum_build st p d).
Proof.
  unfold enum_build. destruct (path_parent p) as [parent|]; [|intros m; discriminate].
  destruct (alookup parent (st_modules st)) as [module|]; [|intros m; discriminate]. cbn zeta.
  destruct (resolve_gtype _ _ _) as [ty|]; [|intros m; discriminate].
  destruct (size_of _ ty); [|intros m; discriminate].
  apply np_bind; [apply oe_np, enum_cases_oe|]. intros cases _.
  apply np_bind; [apply oe_np, attrs_doc_oe|]. intros doc _.
  apply np_bind; [apply oe_np, oe_foldM; intros; apply scan_enum_attr_oe|]. intros ea _.
  destruct (ea_defaultable ea), (snd cases); try (intros m; discriminate); destruct (align_of _ ty); intros m; discriminate.
Qed.

Lemma attempt_np st p gd : np (snd (attempt st p gd)).
Proof. unfold attempt. destruct (gi_inner gd); [apply type_build_np | cbn [snd]; apply enum_build_np]. Qed.

Lemma resolve_pass_no_panic : forall ps st r m, resolve_pass st ps = inr r -> r <> BPanic m.
Proof.
  induction ps as [|p ps IH]; intros st r m H; cbn [resolve_pass] in H; [discriminate|].
  destruct (reg_get (st_reg st) p) as [it|]; [|inversion H; discriminate].
  destruct (it_state it) as [gd|r0]; [|eauto].
  pose proof (attempt_np st p gd) as Hnp. destruct (attempt st p gd) as [st1 [r1| |e|e]]; cbn [snd] in Hnp; eauto.
  - inversion H; discriminate.
  - exfalso. apply (Hnp e). reflexivity.
Qed.

Lemma resolve_loop_no_panic order : forall fuel st m, resolve_loop order fuel st <> BPanic m.
Proof.
  induction fuel as [|fuel IH]; intros st m; cbn [resolve_loop]; [discriminate|].
  destruct (order (reg_unresolved (st_reg st))) as [|p0 ps]; [discriminate|].
  destruct (resolve_pass st (p0 :: ps)) as [st1|r] eqn:Ep.
  - destruct (Nat.eqb _ _); [discriminate | apply IH].
  - eapply resolve_pass_no_panic; eauto.
Qed.

Lemma resolve_extern_values_oe R m : oe (resolve_extern_values R m).
Proof.
  unfold resolve_extern_values. apply oe_bind; [|intros; exact I].
  apply oe_mapM. intros ev. oe_cases.
Qed.

Lemma finish_build_no_panic st m : finish_build st <> BPanic m.
Proof.
  unfold finish_build. destruct (negb _); [discriminate|].
  match goal with |- context [mapM ?f ?l] => assert (oe (mapM f l)) as H end.
  { apply oe_mapM. intros km. apply oe_bind; [apply resolve_extern_values_oe|]. intros; exact I. }
  destruct (mapM _ _); cbn [oe] in H; try contradiction; discriminate.
Qed.

Theorem sem_build_no_panic order st m : sem_build order st <> BPanic m.
Proof.
  unfold sem_build. pose proof (resolve_loop_no_panic order (S (List.length (reg_unresolved (st_reg st)))) st m) as H.
  destruct (resolve_loop order _ st); try discriminate; [apply finish_build_no_panic | exact H].
Qed.

Lemma extern_value_of_oe ev : oe (extern_value_of ev).
Proof.
  unfold extern_value_of. apply oe_bind; [apply oe_foldM; intros; apply scan_int_attr_oe|]. intros addr _. oe_cases.
Qed.

Lemma add_module_oe st mp ast : oe (add_module st mp ast).
Proof.
  unfold add_module. apply oe_bind; [apply oe_mapM; intros; apply extern_value_of_oe|]. intros evs _.
  apply oe_bind; [unfold module_new; apply oe_bind; [apply attrs_doc_oe | intros; exact I]|]. intros m _.
  apply oe_bind.
  - apply oe_foldM. intros s d. unfold add_definition. destruct (reg_has _ _); [exact I | apply add_item_oe].
  - intros st2 _. apply oe_foldM. intros s e. unfold add_extern_type.
    apply oe_bind; [apply oe_foldM; intros sa a; unfold scan_extern_type_attr; oe_cases|].
    intros [[size|] [al|]] _; try exact I. destruct (reg_has _ _); [exact I | apply add_item_oe].
Qed.

(** ** for every input, every pointer width, every schedule *)
Theorem pyxis_resolve_no_panic order ptr mods m : pyxis_resolve order ptr mods <> BPanic m.
Proof.
  unfold pyxis_resolve.
  match goal with |- context [match ?x with Ok _ => _ | Defer => _ | Err _ => _ | Panic _ => _ end] =>
    assert (oe x) as H end.
  { apply oe_bind; [unfold sem_new; apply oe_foldM; intros; apply add_item_oe|]. intros st0 _.
    apply oe_foldM. intros; apply add_module_oe. }
  destruct (bind _ _); cbn [oe] in H; try contradiction; [apply sem_build_no_panic | discriminate].
Qed.

(** the front half always ends in a verdict: accepted, an error value, or the no-progress error *)
Theorem pyxis_resolve_total order ptr mods :
  (forall l, List.length (order l) = List.length l) ->
  match pyxis_resolve order ptr mods with
  | BOk _ | BErr _ | BNoProgress _ => True
  | BPanic _ | BFuel => False
  end.
Proof.
  intros Hlen. pose proof (pyxis_resolve_no_panic order ptr mods) as Hnp.
  destruct (pyxis_resolve order ptr mods) eqn:E; auto.
  - apply (Hnp msg). reflexivity.
  - unfold pyxis_resolve in E. destruct (bind _ _) as [st| | |]; try discriminate.
    eapply sem_build_never_out_of_fuel; eauto.
Qed.
