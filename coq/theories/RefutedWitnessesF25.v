(** * RefutedWitnessesF25: open finding F25 as a machine-checked fact about the MODEL.

    findings/F25/a.pyxis
<<
type A { vftable { pub fn f(&self); }, pub h: H }
type H { pub p: *const AVftable }
>>
    A FIELD naming the generated type [AVftable].  [A] embeds [H] by value, so its first attempt is
    deferred -- but that attempt has already registered the item [a::AVftable].  [H] names that item
    behind a pointer: attempted before [A] it is deferred (the name does not exist yet), attempted
    after [A] it resolves.  With the order [H; A] the first round resolves nothing (although it
    registered [a::AVftable]) and the loop gives up with the no-progress error; with the order
    [A; H] the build is accepted.  [collision_free] holds; [clean_stateb] does not.  Same root
    cause as F7b (vftable.rs: [build] adds the item during resolution), another manifestation:
    a deferral that hits the no-progress test instead of a hard error.
    Positive counterpart under the side conditions: [C09_pyxis_resolve_order_independent]. *)
From Coq Require Import List String NArith ZArith Bool Permutation.
From PyxisModel Require Import Base Sexp Grammar SemTypes Registry Sem Emit WholeBuild OrderIndep RefutedInputs.
Import ListNotations.
Local Open Scope string_scope.
Local Open Scope list_scope.

Definition f25_module : gmodule :=
  mod_ [] [ty_ [] Private "A" [vft [fn_ [] Public "f" [GConstSelf] None]; fld Public "h" (GIdent "H")];
           ty_ [] Private "H" [fld Public "p" (GConstPtr (GIdent "AVftable"))]] [].
Definition f25_mods : list (path * gmodule) := [(["a"], f25_module)].
Definition f25_sched_stuck : list N := [0; 0; 1]%N.
Definition f25_st0 : sstate := st0_of 4 f25_mods.
Definition f25_st : sstate := st_of [] 4 f25_mods.
Definition p25_A : path := ["a"; "A"].
Definition p25_H : path := ["a"; "H"].

Lemma f25_schedules :
  hook_schedule [] [p25_A; p25_H] = [p25_A; p25_H] /\ hook_schedule f25_sched_stuck [p25_A; p25_H] = [p25_H; p25_A].
Proof. vm_compute. split; reflexivity. Qed.
Lemma f25_accepted : accepted_check [] 4 f25_mods = true.
Proof. vm_compute. reflexivity. Qed.
Lemma f25_stuck : pyxis_resolve (hook_schedule f25_sched_stuck) 4 f25_mods = BNoProgress [p25_H; p25_A].
Proof. vm_compute. reflexivity. Qed.
Lemma f25_side : collision_freeb (st_reg f25_st0) = true /\ clean_stateb f25_st0 = false.
Proof. vm_compute. split; reflexivity. Qed.

Theorem C09_order_dependence_F25_refuted :
  exists ks1 ks2 st0 st1 files1 stuck,
    (forall l, Permutation (hook_schedule ks1 l) l) /\ (forall l, Permutation (hook_schedule ks2 l) l) /\
    input_state 4 f25_mods = Ok st0 /\
    collision_free (st_reg st0) /\ clean_stateb st0 = false /\
    pyxis_resolve (hook_schedule ks1) 4 f25_mods = BOk st1 /\ write_all st1 = Ok files1 /\
    pyxis_resolve (hook_schedule ks2) 4 f25_mods = BNoProgress stuck /\
    ~ same_build st0 (pyxis_resolve (hook_schedule ks1) 4 f25_mods) (pyxis_resolve (hook_schedule ks2) 4 f25_mods).
Proof.
  destruct (built_of _ _ _ f25_accepted) as (E0 & E1 & W1). destruct f25_side as [S1 S2].
  exists [], f25_sched_stuck, f25_st0, f25_st, (files_of f25_st), [p25_H; p25_A].
  split; [apply hook_schedule_perm|]. split; [apply hook_schedule_perm|].
  split; [exact E0|]. split; [exact (collision_freeb_sound _ S1)|]. split; [exact S2|].
  split; [exact E1|]. split; [exact W1|]. split; [exact f25_stuck|].
  rewrite E1, f25_stuck. intros H. exact H.
Qed.
Print Assumptions C09_order_dependence_F25_refuted.
