(** * C19, continued: the frame lemma between REACHABLE states of the two builds, and the extern
    values of the first input's modules after [finish_build].

    Unrelated.v compares the two abstract attempt functions (the marked input states).  Here the
    same is shown for any state [s] of the first build and any state [s'] of the second build
    (related to abstract states by [OrderIndep.sim]) whose resolved first-input items agree:
    an attempt on an item of the first input gives literally the same outcome in both.  The extra
    ingredient is that lookup candidates of a clean input are clean paths, so a generated vftable
    struct (which exists in one state and maybe not in the other) is never a candidate. *)
From Coq Require Import List NArith ZArith Bool Lia String Permutation.
From PyxisModel Require Import Base Grammar SemTypes Registry Sem SemLemmas ScopeLemmas
     PlacementLemmas TotalityLemmas EmitLemmas WholeBuild Monotone OrderIndep Locality Frame Unrelated.
From PyxisModel Require Confluence.
Import ListNotations.
Local Open Scope string_scope.
Local Open Scope list_scope.

(** ** the candidates of a clean input are clean paths *)
Lemma clean_gtype_names t : clean_gtype t = true -> forall n, In n (gtype_names t) -> ends_vft n = false.
Proof.
  induction t as [t IH|t IH|t IH k|s|k]; cbn [clean_gtype gtype_names]; intros Hc n Hn; auto.
  - destruct Hn as [<-|[]]. now apply negb_true_iff.
  - destruct Hn.
Qed.

Lemma clean_fn_names f : clean_fn f = true -> forall n, In n (fn_names f) -> ends_vft n = false.
Proof.
  unfold clean_fn, fn_names. intros H n Hn. apply andb_prop in H as [Ha Hr]. apply in_app_or in Hn as [Hn|Hn].
  - apply in_flat_map in Hn as (a & Hin & Hn). rewrite forallb_forall in Ha. specialize (Ha _ Hin).
    destruct a as [| |an t]; cbn [arg_names clean_arg] in *; try contradiction. eapply clean_gtype_names; eauto.
  - destruct (gf_ret f) as [t|]; [eapply clean_gtype_names; eauto | destruct Hn].
Qed.

Lemma clean_fns_names fs : forallb clean_fn fs = true -> forall n, In n (flat_map fn_names fs) -> ends_vft n = false.
Proof.
  intros H n Hn. apply in_flat_map in Hn as (f & Hin & Hn). rewrite forallb_forall in H.
  eapply clean_fn_names; eauto.
Qed.

Lemma clean_def_names gd : clean_def gd = true -> forall n, In n (def_names gd) -> ends_vft n = false.
Proof.
  unfold clean_def, def_names. destruct (gi_inner gd) as [td|ed]; intros H n Hn.
  - apply in_flat_map in Hn as (s & Hin & Hn). rewrite forallb_forall in H. specialize (H _ Hin).
    unfold clean_stmt, stmt_names in *. destruct (gs_field s) as [v name t|fs].
    + eapply clean_gtype_names; eauto.
    + eapply clean_fns_names; eauto.
  - eapply clean_gtype_names; eauto.
Qed.

Lemma cand_clean st1 : good_input st1 -> forall c, In c (state_cands st1) -> clean_path c = true.
Proof.
  intros [_ _ Hm Hd _ HN] c [<-|Hc]; [reflexivity|].
  apply in_flat_map in Hc as (km & Hkm & Hc). pose proof (Hm _ Hkm) as Hcl. unfold clean_module in Hcl.
  apply andb_prop in Hcl as [Hcl1 Hcl2]. apply andb_prop in Hcl1 as [Hcs Hci]. apply andb_prop in Hcl2 as [_ Hce].
  unfold module_cands in Hc. apply in_app_or in Hc as [Hc|Hc].
  - rewrite forallb_forall in Hcs. auto.
  - apply in_flat_map in Hc as (n & Hn & Hc). unfold name_cands in Hc. apply in_map_iff in Hc as (ip & <- & _).
    unfold clean_path. rewrite path_last_join. apply negb_true_iff.
    unfold module_names in Hn. apply in_app_or in Hn as [Hn|Hn]; [|apply in_app_or in Hn as [Hn|Hn]].
    + apply in_flat_map in Hn as ([k it] & Hin & Hn). cbn [fst snd] in Hn.
      destruct (parent_is (fst km) k); [|destruct Hn]. unfold item_names in Hn.
      destruct (it_state it) as [gd|r] eqn:Es; [|destruct Hn].
      eapply clean_def_names; [|exact Hn]. eapply (Hd k it gd); [|exact Es].
      unfold reg_get. now apply alookup_of_in.
    + apply in_flat_map in Hn as (kb & Hin & Hn). rewrite forallb_forall in Hci.
      eapply clean_fns_names; [apply (Hci _ Hin) | exact Hn].
    + apply in_flat_map in Hn as (ev & Hin & Hn). rewrite forallb_forall in Hce.
      eapply clean_gtype_names; [apply (Hce _ Hin) | exact Hn].
Qed.

Lemma lookup_ok_transfer P R R' m m' names names' k :
  lookup_ok P R m names k -> module_scope m' = module_scope m -> incl names' names ->
  (forall c, In c (module_scope m) -> reg_has R' c = reg_has R c) ->
  lookup_ok P R' m' names' k.
Proof.
  intros (H1 & H2 & H3) Hs Hi Hh. unfold lookup_ok. rewrite Hs. split; [exact H1|]. split; [|exact H3].
  intros n Hn c Hc. apply (H2 n (Hi _ Hn)). unfold name_cands, scope_mods in *.
  rewrite (filter_ext_in (fun p => negb (reg_has R p)) (fun p => negb (reg_has R' p))); [exact Hc|].
  intros a Ha. now rewrite (Hh a Ha).
Qed.

Section TwoStates.
  Variable st1 st2 : sstate.
  Variable mps : list path.
  Let R1 := st_reg st1.
  Let R2 := st_reg st2.
  Hypothesis G1 : good_input st1.
  Hypothesis G2 : good_input st2.
  Hypothesis Hext : st_ext mps st1 st2.
  Hypothesis Hfresh : forall k, In k mps -> amem k (st_modules st1) = false.
  Hypothesis Hpar : parented st1.
  Hypothesis Hnc : forall c, In c (state_cands st1) -> reg_has R2 c = reg_has R1 c.

  (** states standing for abstract states that agree on the first input's items *)
  Variable s s' : sstate.
  Variable A1 A2 : astate.
  Hypothesis S1 : sim st1 s A1.
  Hypothesis S2 : sim st2 s' A2.
  Hypothesis Hagree : forall k, In k (items st1) -> A1 k = A2 k.

  Lemma sim_ragree : ragree (candP st1) (st_reg s) (st_reg s').
  Proof.
    split.
    - destruct (sim_inv _ _ _ S1) as [E1 _]. destruct (sim_inv _ _ _ S2) as [E2 _].
      rewrite E1, E2. symmetry. apply (ext_ptr _ _ _ Hext).
    - intros c Hc. destruct (reg_get R1 c) as [it|] eqn:Eg.
      + apply (sims_user_agree st1 st2 mps s A1 s' A2 (gi_nodup _ G2) Hext S1 S2 Hagree).
        unfold user. fold R1. congruence.
      + pose proof (cand_clean st1 G1 c Hc) as Hcl.
        assert (reg_get R2 c = None) as Eg2 by (unfold R2; rewrite (cand_get st1 st2 mps Hext Hnc c Hc); exact Eg).
        rewrite (sim_clean_nonuser st1 s A1 c S1), (sim_clean_nonuser st2 s' A2 c S2); auto;
          unfold user; fold R1 R2; congruence.
  Qed.

  Lemma sim_scope_has st0 s0 A c : sim st0 s0 A -> clean_path c = true ->
    reg_has (st_reg s0) c = reg_has (st_reg st0) c.
  Proof.
    intros HS Hc. apply reach_clean_has; [|exact Hc]. split; [apply (sim_inv _ _ _ HS) | apply (sim_present _ _ _ HS)].
  Qed.

  Lemma scope_clean_of parent m : alookup parent (st_modules st1) = Some m ->
    forall c, In c (module_scope m) -> clean_path c = true.
  Proof.
    intros Hm c Hc. destruct (alookup_in _ _ _ Hm) as (k' & Hin & _). pose proof (gi_mods _ G1 _ Hin) as Hcl.
    unfold clean_module in Hcl. cbn [snd] in Hcl. apply andb_prop in Hcl as [Hcl _]. apply andb_prop in Hcl as [Hcl _].
    rewrite forallb_forall in Hcl. auto.
  Qed.

  (** *** the frame lemma between reachable states of the two builds *)
  Theorem attempt_frame_reachable k it gd :
    reg_get R1 k = Some it -> it_state it = Unresolved gd ->
    snd (attempt s k gd) = snd (attempt s' k gd).
  Proof.
    intros Hg Hs. destruct (Hpar _ _ Hg) as (parent & Hp & Hmem).
    assert (alookup parent (st_modules st2) = alookup parent (st_modules st1)) as Hm21.
    { apply (ext_mods _ _ _ Hext). intros Hin. rewrite (Hfresh _ Hin) in Hmem. discriminate. }
    pose proof (mods_rel_agree _ _ (sim_mods _ _ _ S1) parent) as M1.
    pose proof (mods_rel_agree _ _ (sim_mods _ _ _ S2) parent) as M2. rewrite Hm21 in M2.
    apply (attempt_frame (candP st1)).
    - left. reflexivity.
    - apply sim_ragree.
    - intros q Hq. rewrite Hp in Hq. inversion Hq; subst q. unfold magree.
      destruct (alookup parent (st_modules s)) as [m|], (alookup parent (st_modules s')) as [m'|],
               (alookup parent (st_modules st1)) as [m1|]; try contradiction; auto.
      destruct M1 as (a1 & b1 & c1 & d1), M2 as (a2 & b2 & c2 & d2). repeat split; congruence.
    - intros q m Hq Hm. rewrite Hp in Hq. inversion Hq; subst q. rewrite Hm in M1.
      destruct (alookup parent (st_modules st1)) as [m1|] eqn:Em1; [|contradiction].
      destruct M1 as (a1 & b1 & c1 & d1).
      apply (lookup_ok_transfer (candP st1) (mark R1 A1) (st_reg s) m1 m (def_names gd ++ impl_names m1 k)).
      + eapply (cands_lookup_ok st1 (gi_mods _ G1)); eauto.
      + unfold module_scope. congruence.
      + unfold impl_names. rewrite c1. apply incl_refl.
      + intros c Hc. rewrite reg_has_mark. apply (sim_scope_has st1 s A1 c S1).
        eapply scope_clean_of; eauto.
  Qed.

  (** *** extern values: the types written in the extern values of a first-input module resolve
      to the same types in the two states *)
  Lemma extern_values_frame parent m1 m m' :
    alookup parent (st_modules st1) = Some m1 ->
    alookup parent (st_modules s) = Some m -> alookup parent (st_modules s') = Some m' ->
    match resolve_extern_values (st_reg s) m, resolve_extern_values (st_reg s') m' with
    | Ok x, Ok x' => m_extern_values x = m_extern_values x'
    | Err e, Err e' => e = e'
    | Defer, Defer => True
    | Panic e, Panic e' => e = e'
    | _, _ => False
    end.
  Proof.
    intros Hm1 Hm Hm'.
    assert (amem parent (st_modules st1) = true) as Hmem by (unfold amem; now rewrite Hm1).
    assert (alookup parent (st_modules st2) = alookup parent (st_modules st1)) as Hm21.
    { apply (ext_mods _ _ _ Hext). intros Hin. rewrite (Hfresh _ Hin) in Hmem. discriminate. }
    pose proof (mods_rel_agree _ _ (sim_mods _ _ _ S1) parent) as M1.
    pose proof (mods_rel_agree _ _ (sim_mods _ _ _ S2) parent) as M2. rewrite Hm21 in M2.
    rewrite Hm, Hm1 in M1. rewrite Hm', Hm1 in M2.
    destruct M1 as (a1 & b1 & c1 & d1), M2 as (a2 & b2 & c2 & d2).
    assert (module_scope m = module_scope m1) as Hsc by (unfold module_scope; congruence).
    assert (module_scope m' = module_scope m1) as Hsc' by (unfold module_scope; congruence).
    unfold resolve_extern_values. rewrite Hsc, Hsc', d1, d2.
    set (scope := module_scope m1). set (smods := scope_mods (st_reg s) scope).
    assert (forall c, In c scope -> candP st1 c) as Hscope.
    { intros c Hc. apply (in_module_cands st1 parent m1 c Hm1). unfold module_cands. cbn [snd]. apply in_or_app. now left. }
    assert (sm_ok scope smods (st_reg s)) as Hsm by reflexivity.
    assert (mapM (fun ev => match resolve_gtype (st_reg s) scope (ev_gtype ev) with
                            | Some t => Ok {| ev_vis := ev_vis ev; ev_name := ev_name ev; ev_gtype := ev_gtype ev;
                                              ev_type := Some t; ev_address := ev_address ev |}
                            | None => Err "failed to resolve type for extern value" end) (m_extern_values m1) =
            mapM (fun ev => match resolve_gtype (st_reg s') scope (ev_gtype ev) with
                            | Some t => Ok {| ev_vis := ev_vis ev; ev_name := ev_name ev; ev_gtype := ev_gtype ev;
                                              ev_type := Some t; ev_address := ev_address ev |}
                            | None => Err "failed to resolve type for extern value" end) (m_extern_values m1)) as ->.
    { apply mapM_ext_in. intros ev Hev.
      rewrite (resolve_gtype_frame (candP st1) scope smods Hscope _ _ sim_ragree Hsm (ev_gtype ev)); [reflexivity|].
      intros n Hn ip Hip. apply (in_module_cands st1 parent m1 _ Hm1). unfold module_cands. cbn [snd].
      apply in_or_app. right. apply in_flat_map. exists n. split.
      - unfold module_names. cbn [snd]. apply in_or_app. right. apply in_or_app. right.
        apply in_flat_map. exists ev. split; [exact Hev | exact Hn].
      - unfold name_cands. fold scope.
        assert (scope_mods (st_reg st1) scope = smods) as ->.
        { unfold smods, scope_mods. apply filter_ext_in. intros c Hc. f_equal. symmetry.
          apply (sim_scope_has st1 s A1 c S1). eapply scope_clean_of; eauto. }
        apply (in_map (fun ip0 => path_join ip0 n)). exact Hip. }
    destruct (mapM _ (m_extern_values m1)) as [evs| |e|e]; cbn [bind m_extern_values]; auto.
  Qed.
End TwoStates.

(** ** [finish_build] keeps the keys of the module table *)
Lemma finish_mapM_lookup R : forall ms ms' k m,
  mapM (fun km : path * smodule => do m' <- resolve_extern_values R (snd km); Ok (fst km, m')) ms = Ok ms' ->
  alookup k ms = Some m ->
  exists m', resolve_extern_values R m = Ok m' /\ alookup k ms' = Some m'.
Proof.
  induction ms as [|[k0 m0] ms IH]; intros ms' k m H Hl; cbn [mapM alookup] in *; [discriminate|].
  inv_bind H. inv_bind Ha. inversion Ha; subst a; clear Ha. inv_bind H. inversion H; subst ms'; clear H.
  cbn [fst snd alookup] in *. destruct (path_eqb k k0).
  - inversion Hl; subst m0. eauto.
  - eapply IH; eauto.
Qed.

Lemma finish_build_lookup st t k m : finish_build st = BOk t -> alookup k (st_modules st) = Some m ->
  exists m', resolve_extern_values (st_reg st) m = Ok m' /\ alookup k (st_modules t) = Some m'.
Proof.
  unfold finish_build. destruct (negb _); [discriminate|].
  destruct (mapM _ (st_modules st)) as [ms| | |] eqn:E; try discriminate.
  intros H Hl. inversion H; subst t. cbn [st_modules]. eapply finish_mapM_lookup; eauto.
Qed.

(** ** C19 for the model, whole front half, extern values included: every module of the first
    input has, in the two accepted builds, extern values with the same resolved types *)
Theorem pyxis_resolve_unrelated_externs ptr mods1 extra st1 st2 o1 o2 t1 t2 :
  input_state ptr mods1 = Ok st1 -> input_state ptr (mods1 ++ extra) = Ok st2 ->
  collision_free (st_reg st1) -> collision_free (st_reg st2) ->
  clean_stateb st1 = true -> clean_stateb st2 = true ->
  no_capture st1 st2 extra = true ->
  (forall l, Permutation (o1 l) l) -> (forall l, Permutation (o2 l) l) ->
  pyxis_resolve o1 ptr mods1 = BOk t1 -> pyxis_resolve o2 ptr (mods1 ++ extra) = BOk t2 ->
  forall k m, alookup k (st_modules st1) = Some m ->
  exists m1 m2, alookup k (st_modules t1) = Some m1 /\ alookup k (st_modules t2) = Some m2 /\
                m_extern_values m1 = m_extern_values m2.
Proof.
  intros Hin1 Hin2 Hcf1 Hcf2 Hcl1 Hcl2 Hnc P1 P2 L1 L2 k m Hk.
  destruct (pyxis_resolve_input _ _ _ _ L1) as (st1' & Hin1' & B1). rewrite Hin1 in Hin1'. inversion Hin1'; subst st1'.
  destruct (pyxis_resolve_input _ _ _ _ L2) as (st2' & Hin2' & B2). rewrite Hin2 in Hin2'. inversion Hin2'; subst st2'.
  unfold sem_build in B1, B2.
  destruct (resolve_loop o1 _ st1) as [s1| | | |] eqn:E1; try discriminate.
  destruct (resolve_loop o2 _ st2) as [s2| | | |] eqn:E2; try discriminate.
  destruct (no_capture_sound _ _ _ Hnc) as [Hfresh Hcands].
  pose proof (input_good _ _ _ Hin1 Hcf1 Hcl1) as G1. pose proof (input_good _ _ _ Hin2 Hcf2 Hcl2) as G2.
  pose proof (add_modules_ext _ _ _ (input_state_app _ _ _ _ _ Hin1 Hin2)) as Hext.
  pose proof (input_state_parented _ _ _ Hin1) as Hpar.
  destruct (accepted_sims st1 st2 (map fst extra) o1 o2 _ _ s1 s2 G1 G2 Hext Hfresh Hpar Hcands P1 P2 E1 E2)
    as (A1 & A2 & S1 & S2 & Hagree).
  (* the module [k] in the two final loop states *)
  assert (amem k (st_modules st1) = true) as Hmem by (unfold amem; now rewrite Hk).
  assert (alookup k (st_modules st2) = Some m) as Hk2.
  { rewrite (ext_mods _ _ _ Hext); [exact Hk|]. intros Hin. rewrite (Hfresh _ Hin) in Hmem. discriminate. }
  pose proof (mods_rel_agree _ _ (sim_mods _ _ _ S1) k) as M1. rewrite Hk in M1.
  pose proof (mods_rel_agree _ _ (sim_mods _ _ _ S2) k) as M2. rewrite Hk2 in M2.
  destruct (alookup k (st_modules s1)) as [ms1|] eqn:Es1; [|contradiction].
  destruct (alookup k (st_modules s2)) as [ms2|] eqn:Es2; [|contradiction].
  destruct (finish_build_lookup _ _ _ _ B1 Es1) as (m1 & Hr1 & Hl1).
  destruct (finish_build_lookup _ _ _ _ B2 Es2) as (m2 & Hr2 & Hl2).
  exists m1, m2. split; [exact Hl1|]. split; [exact Hl2|].
  pose proof (extern_values_frame st1 st2 (map fst extra) G1 G2 Hext Hfresh Hcands s1 s2 A1 A2 S1 S2 Hagree
                k m ms1 ms2 Hk Es1 Es2) as Hev.
  rewrite Hr1, Hr2 in Hev. exact Hev.
Qed.
