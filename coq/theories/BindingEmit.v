(** * BindingEmit: C11 for a whole accepted build, on the EMITTED text.

    BindingWhole.v: in an accepted build of a collision-free, clean input every written type denotes,
    at the moment its user is attempted and in the final registry, what the four documented rules
    select among the input's definitions.  Here: the emitted struct field, the emitted wrapper of an
    impl function and the emitted accessor of an extern value carry [type_tokens] of exactly that
    type -- for a named type [crate :: <path selected by lookup_spec>] ([selected_reference]).
    A non-vacuity example (three definitions of the same short name [T]) closes the file. *)
From Coq Require Import List NArith ZArith Bool Lia String.
From PyxisModel Require Import Base Sexp Grammar SemTypes Registry Sem RustLayout LayoutLemmas SemLemmas
     PlacementLemmas ScopeLemmas FunctionLemmas WholeBuild Monotone OrderIndep Emit EmitReaders EmitShape
     EmitLemmas EmitFinal EmitLayout EmitFnReaders EmitFnShape EmitFnFinal Driver Examples BindingWhole.
Import ListNotations.
Local Open Scope string_scope.
Local Open Scope list_scope.

(** ** the emitted reference to a selected definition *)
Theorem selected_reference m rest name :
  type_tokens (TRaw (m :: rest ++ [name])) =
  Atom "crate" :: Atom ":" :: Atom ":" :: path_tokens (m :: rest ++ [name]).
Proof.
  cbn [type_tokens]. unfold raw_tokens.
  assert (is_void (m :: rest ++ [name]) = false) as -> by (destruct rest; reflexivity).
  destruct rest; reflexivity.
Qed.

(** what the rules can select: a by-name import, a root-level name (built-in), the module's own
    definition, or the definition of an imported module *)
Theorem lookup_spec_shape has modpath uses name q :
  lookup_spec has modpath uses name = Some q ->
  has q = true /\
  ((In q uses /\ last_is name q = true) \/ q = [name] \/ q = path_join modpath name \/
   exists u, In u uses /\ has u = false /\ q = path_join u name).
Proof.
  unfold lookup_spec. destruct (find (last_is name) (rev (filter has uses))) as [x|] eqn:E.
  - intros H; inversion H; subst x. apply find_some in E as [Hin Hl]. apply in_rev, filter_In in Hin as [Hin Hh].
    split; [exact Hh|]. left. split; assumption.
  - destruct (has [name]) eqn:E1; [intros H; inversion H; subst; auto|].
    destruct (has (path_join modpath name)) eqn:E2; [intros H; inversion H; subst; auto|].
    intros H. apply find_some in H as [Hin Hh]. split; [exact Hh|].
    apply in_map_iff in Hin as (u & <- & Hu). apply filter_In in Hu as [Hu Hn].
    right; right; right. exists u. split; [exact Hu|]. split; [now apply negb_true_iff in Hn | reflexivity].
Qed.

Lemma app_suffix_eq {A} (a a' b b' : list A) :
  a ++ b = a' ++ b' -> List.length b = List.length b' -> b = b'.
Proof.
  intros H Hl. assert (List.length a = List.length a') as Hla.
  { apply (f_equal (@List.length A)) in H. rewrite !app_length in H. lia. }
  revert a' Hla H. induction a as [|x a IH]; intros [|x' a'] Hla H; cbn [List.length app] in *; try discriminate; [exact H|].
  inversion H. inversion Hla. eapply IH; eassumption.
Qed.

Lemma Forall2_strengthen_r {A B} (P : A -> B -> Prop) (Q : B -> Prop) : forall l l',
  Forall2 P l l' -> (forall b, In b l' -> Q b) -> Forall2 (fun a b => P a b /\ Q b) l l'.
Proof.
  induction 1 as [|a b l l' Hab _ IH]; intros HQ; constructor.
  - split; [exact Hab | apply HQ; now left].
  - apply IH. intros b' Hb'. apply HQ. now right.
Qed.

(** ** FIELDS: the field of the emitted struct.  For the field [name : t] of the type [p] of module
    [m0]: the file of the module holds the struct of [p] (found by name); unless the field is dropped
    (zero-sized array), that struct has a field called [name] whose type tokens are [type_tokens ty],
    [ty] being what [t] denotes in the input registry = in the final registry = under the four
    rules. *)
Theorem C11_emitted_field order ptr mods st0 st files p it0 gd td0 parent m0 s0 v name t :
  input_state ptr mods = Ok st0 -> NoDup (map fst mods) -> collision_free (st_reg st0) ->
  clean_stateb st0 = true -> keeps_work order ->
  pyxis_resolve order ptr mods = BOk st -> write_all st = Ok files ->
  reg_get (st_reg st0) p = Some it0 -> it_state it0 = Unresolved gd -> gi_inner gd = GIType td0 ->
  path_parent p = Some parent -> parent <> [] -> alookup parent (st_modules st0) = Some m0 ->
  In s0 (gt_stmts td0) -> gs_field s0 = GField v name t -> name <> "_" ->
  let R0 := st_reg st0 in
  let R := st_reg st in
  exists sname f items s efs ty sz al,
    path_last p = Some sname /\ In (out_path parent, f) files /\ file_items f = Some items /\
    find_struct sname items = Some s /\ struct_fields s = Some efs /\
    resolve_gtype R0 (module_scope m0) t = Some ty /\ resolve_gtype R (module_scope m0) t = Some ty /\
    (reg_has R0 (m_path m0) = false ->
     bind_gtype (lookup_spec (reg_has R0) (m_path m0) (gm_uses (m_ast m0))) t = Some ty) /\
    size_of R ty = Some sz /\ align_of R ty = Some al /\
    ((sz =? 0)%N && stype_is_array ty = false ->
     exists ef, In ef efs /\ ef_name ef = name /\ ef_ty ef = type_tokens ty /\ ef_vis ef = v).
Proof.
  intros Hin HN Hcf Hcl Hord Hres Hw Hg0 Hs0 Hty Hpar0 Hne Hmod0 Hs_in Hf Hname R0 R.
  assert (path_parent p <> Some []) as Hroot by (rewrite Hpar0; intros E; inversion E; contradiction).
  destruct (emitted_struct_whole_build _ _ _ _ _ _ _ _ _ _ Hin HN Hcf Hord Hres Hw Hg0 Hs0 Hty Hroot)
    as (parent' & sname & it & r & td & f & pre & s & checks & rest & post & efs & noffs &
        Hpar & Hsname & Hg & Hs & Hi & Hfile & Hitems & Hfind & Hshape & _ & _ & Hfields).
  rewrite Hpar0 in Hpar. inversion Hpar; subst parent'. cbn zeta in Hfields. destruct Hfields as (Hfields & _).
  destruct (C11_field_whole_build _ _ _ _ _ _ _ _ _ _ _ _ _ _ _ _ _ Hin Hcf Hcl Hres Hg0 Hs0 Hty Hg Hs Hpar0 Hmod0 Hs_in Hf)
    as (td' & ty & sz & al & Hi' & Ht0 & Ht1 & Hb & Hsz & Hal & Hkept).
  rewrite Hi in Hi'. inversion Hi'; subst td'. clear Hi'.
  exists sname, f, (pre ++ (s :: checks ++ rest) ++ post), s, efs, ty, sz, al.
  repeat (split; [assumption|]).
  intros Hkeep. destruct (Hkept Hname Hkeep) as (off & rg & Hoff & Hrn & Hrt & Hrv & _).
  apply in_combine_r in Hoff.
  destruct Hshape as [_ _ _ (efs' & Hfields' & Hfs) _ _ _].
  rewrite Hfields in Hfields'. inversion Hfields'; subst efs'.
  destruct (Forall2_in_l _ _ _ _ Hfs Hoff) as (ef & Hef & (Hn & Hty' & Hv & _)).
  exists ef. split; [exact Hef|]. rewrite Hrn in Hn. inversion Hn.
  split; [reflexivity|]. split; [now rewrite Hty', Hrt | now rewrite Hv, Hrv].
Qed.

(** ** FUNCTIONS: the wrappers of the impl-block functions.  Each declared function's record [sf] is
    what [function_build] makes of the declaration in the input registry = in the final registry
    ([fn_built_bound]: every named parameter [n : t] is [SField n ty], the return type [Some ty'], with
    [ty], [ty'] selected by the four rules); its wrapper [e] in the inherent impl of the type has
    [fn_params e = map param_of_arg (sf_args sf)] (a named parameter prints as [n : type_tokens ty]) and
    [fn_ret e = type_tokens ty'] ([wrapper_shape]) *)
Theorem C11_emitted_impl_functions order ptr mods st0 st files p it0 gd td0 parent m0 blk :
  input_state ptr mods = Ok st0 -> NoDup (map fst mods) -> collision_free (st_reg st0) ->
  clean_stateb st0 = true -> keeps_work order ->
  pyxis_resolve order ptr mods = BOk st -> write_all st = Ok files ->
  reg_get (st_reg st0) p = Some it0 -> it_state it0 = Unresolved gd -> gi_inner gd = GIType td0 ->
  path_parent p = Some parent -> parent <> [] ->
  alookup parent (st_modules st0) = Some m0 -> alookup p (m_impls m0) = Some blk ->
  exists name it r td inherited own f items im fns,
    path_last p = Some name /\
    reg_get (st_reg st) p = Some it /\ it_state it = Resolved r /\ rs_inner r = IType td /\
    td_assoc td = inherited ++ own /\
    In (out_path parent, f) files /\ file_items f = Some items /\ In im items /\
    item_kind im = Some "impl" /\ inherent_impl im = Some (name, fns) /\
    Forall2 (fun gf sf => fn_built_bound (st_reg st0) (st_reg st) m0 false gf sf /\
                          (sf_is_internal sf = false -> exists e, In e fns /\ wrapper_shape sf e))
            (gb_fns blk) own.
Proof.
  intros Hin HN Hcf Hcl Hord Hres Hw Hg0 Hs0 Hty Hpar0 Hne Hmod0 Hblk.
  destruct (emitted_wrappers_whole_build _ _ _ _ _ _ _ _ _ _ _ _ _ Hin HN Hcf Hord Hres Hw Hg0 Hs0 Hty Hpar0 Hne Hmod0 Hblk)
    as (name & it & r & td & R_mid & inherited & own & f & pre & s & checks & sing & im & conv & post & fns &
        Hname & Hg & Hs & Hi & _ & Hassoc & Hown & Hfile & Hitems & _ & _ & _ & _ & Hkind & Him & Hall).
  destruct (C11_impl_functions_whole_build _ _ _ _ _ _ _ _ _ _ _ _ _ _ Hin Hcf Hcl Hres Hg0 Hs0 Hty Hg Hs Hpar0 Hmod0 Hblk)
    as (td' & inherited' & own' & Hi' & Hassoc' & Hown').
  rewrite Hi in Hi'. inversion Hi'; subst td'. clear Hi'.
  assert (own' = own) as ->.
  { rewrite Hassoc in Hassoc'. symmetry. eapply app_suffix_eq; [exact Hassoc'|].
    rewrite <- (Forall2_length' _ _ _ Hown), <- (Forall2_length' _ _ _ Hown'). reflexivity. }
  exists name, it, r, td, inherited, own, f, (pre ++ (s :: checks ++ sing ++ im :: conv) ++ post), im, fns.
  repeat (split; [assumption|]).
  split. { apply in_or_app. right. apply in_or_app. left. right. apply in_or_app. right. apply in_or_app. right. now left. }
  split; [exact Hkind|]. split; [exact Him|].
  apply Forall2_and; assumption.
Qed.

(** ** EXTERN VALUES: the accessor of every extern value of every (non-root) module of the final
    state is in the module's file and names the type its written type denotes *)
Theorem C11_emitted_extern_values order ptr mods st0 st files k m' :
  input_state ptr mods = Ok st0 -> collision_free (st_reg st0) -> clean_stateb st0 = true ->
  pyxis_resolve order ptr mods = BOk st -> write_all st = Ok files ->
  In (k, m') (st_modules st) -> k <> [] ->
  let R0 := st_reg st0 in
  let R := st_reg st in
  exists m0 f items,
    In (k, m0) (st_modules st0) /\ m_path m' = m_path m0 /\ m_ast m' = m_ast m0 /\
    In (out_path k, f) files /\ file_items f = Some items /\
    Forall2 (fun ev ev' =>
               exists ty e,
                 resolve_gtype R0 (module_scope m0) (ev_gtype ev) = Some ty /\
                 resolve_gtype R (module_scope m0) (ev_gtype ev) = Some ty /\
                 (reg_has R0 (m_path m0) = false ->
                  bind_gtype (lookup_spec (reg_has R0) (m_path m0) (gm_uses (m_ast m0))) (ev_gtype ev) = Some ty) /\
                 ev_type ev' = Some ty /\ ev_address ev' = ev_address ev /\ ev_name ev' = ev_name ev /\
                 In e items /\ extern_shape ev' ty e)
            (m_extern_values m0) (m_extern_values m').
Proof.
  intros Hin Hcf Hcl Hres Hw Hkm Hk R0 R.
  destruct (C11_extern_values_whole_build _ _ _ _ _ _ _ Hin Hcf Hcl Hres Hkm) as (m0 & Hin0 & Hpath & Hast & Hall).
  destruct (write_all_in _ _ _ _ Hw Hkm Hk) as (f & Hf & Hfile).
  destruct (module_file_shape _ _ _ Hf) as (its & evs & _ & _ & Hfe).
  exists m0, f. eexists. split; [exact Hin0|]. split; [exact Hpath|]. split; [exact Hast|]. split; [exact Hfile|].
  split; [rewrite Hfe; reflexivity|].
  fold R0 R in Hall.
  pose proof (Forall2_strengthen_r _ _ _ _ Hall (fun ev' Hev' => emitted_extern_value _ _ _ ev' Hf Hev')) as Hall2.
  eapply Forall2_impl; [|exact Hall2]. cbn beta.
  intros ev ev' ((ty & Ht0 & Ht1 & Hb & Hty & Ha & Hn & _) & (items & e & t' & Hitems & He & Ht' & Hsh)).
  rewrite Hty in Ht'. inversion Ht'; subst t'. rewrite Hfe in Hitems. inversion Hitems; subst items.
  exists ty, e. repeat (split; [assumption|]). exact Hsh.
Qed.

(** ** non-vacuity.  Three definitions of the short name [T]:
    [a::T] (1 byte), [b::T] (4 bytes), [m::T] (2 bytes);
    module [m] imports module [a] and, by name, [b::T], and declares [U { x: T, p: *const T }];
    module [n] imports modules [b] then [a] and declares [V { y: T }];
    module [o] imports module [a], defines its own [T] (8 bytes) and declares [W { z: T }].
    The hypotheses of the theorems above hold (accepted, collision free, clean, module paths are no item
    paths); [m::U.x] binds to [b::T] (by-name import beats the module's own definition), [n::V.y] to
    [b::T] (first imported module), [o::W.z] to [o::T] (own definition beats imported module); sizes
    and the emitted field types are those of exactly these definitions. *)
Definition bw_a : string := "(module (attrs) (uses) (extern_types) (extern_values) (defs (def pub ""T"" (type (attrs) (field (attrs) pub ""v"" (tid ""u8""))))) (impls) (backends))".
Definition bw_b : string := "(module (attrs) (uses) (extern_types) (extern_values) (defs (def pub ""T"" (type (attrs) (field (attrs) pub ""v"" (tid ""u32""))))) (impls) (backends))".
Definition bw_m : string := "(module (attrs) (uses (path ""a"") (path ""b"" ""T"")) (extern_types) (extern_values (evalue (attrs (fn ""address"" (int 4096))) pub ""g"" (tid ""T""))) (defs (def pub ""T"" (type (attrs) (field (attrs) pub ""v"" (tid ""u16"")))) (def pub ""U"" (type (attrs) (field (attrs) pub ""x"" (tid ""T"")) (field (attrs) pub ""p"" (cptr (tid ""T"")))))) (impls (impl ""U"" (attrs) (func (attrs (fn ""address"" (int 64))) pub ""get"" (args cself (named ""t"" (cptr (tid ""T"")))) (some (tid ""T""))))) (backends))".
Definition bw_n : string := "(module (attrs) (uses (path ""b"") (path ""a"")) (extern_types) (extern_values) (defs (def pub ""V"" (type (attrs) (field (attrs) pub ""y"" (tid ""T""))))) (impls) (backends))".
Definition bw_o : string := "(module (attrs) (uses (path ""a"")) (extern_types) (extern_values) (defs (def pub ""T"" (type (attrs) (field (attrs) pub ""v"" (tid ""u64"")))) (def pub ""W"" (type (attrs) (field (attrs) pub ""z"" (tid ""T""))))) (impls) (backends))".
Definition bw_mods : list (path * gmodule) :=
  [(["m"], module_of_text bw_m); (["n"], module_of_text bw_n); (["o"], module_of_text bw_o);
   (["a"], module_of_text bw_a); (["b"], module_of_text bw_b)].

Definition bw_dummy : sstate := {| st_modules := []; st_reg := {| reg_types := []; reg_ptr := 0 |} |}.
Definition bw_st0 : sstate := match input_state 4 bw_mods with Ok s => s | _ => bw_dummy end.
Definition bw_st : sstate := match pyxis_resolve (hook_schedule []) 4 bw_mods with BOk s => s | _ => bw_dummy end.
Definition bw_files : list (string * sexp) := match write_all bw_st with Ok l => l | _ => [] end.

Definition bw_region_types (p : path) : option (list (option string * stype)) :=
  match resolved_of bw_st p with
  | Some r => match rs_inner r with
              | IType td => Some (map (fun rg => (r_name rg, r_type rg)) (td_regions td))
              | IEnum _ => None
              end
  | None => None
  end.

Definition bw_emitted_fields (file sname : string) : option (list (string * list sexp)) :=
  match find (fun nf => String.eqb (fst nf) file) bw_files with
  | Some (_, f) =>
    match file_items f with
    | Some items => match find_struct sname items with
                    | Some s => option_map (map (fun ef => (ef_name ef, ef_ty ef))) (struct_fields s)
                    | None => None
                    end
    | None => None
    end
  | None => None
  end.

Example bw_hypotheses :
  input_state 4 bw_mods = Ok bw_st0 /\ pyxis_resolve (hook_schedule []) 4 bw_mods = BOk bw_st /\
  write_all bw_st = Ok bw_files /\
  collision_freeb (st_reg bw_st0) = true /\ clean_stateb bw_st0 = true /\
  map (fun km => reg_has (st_reg bw_st0) (m_path (snd km))) (st_modules bw_st0)
  = [false; false; false; false; false; false] /\
  map (fun km => List.length (gm_defs (m_ast (snd km)))) (st_modules bw_st0) = [0; 2; 1; 2; 1; 1]%nat.
Proof. vm_compute. repeat split. Qed.

Example bw_bindings :
  let has := reg_has (st_reg bw_st0) in
  (* the rules, applied to the input's definitions *)
  lookup_spec has ["m"] [["a"]; ["b"; "T"]] "T" = Some ["b"; "T"] /\
  lookup_spec has ["n"] [["b"]; ["a"]] "T" = Some ["b"; "T"] /\
  lookup_spec has ["o"] [["a"]] "T" = Some ["o"; "T"] /\
  (* ... and applied to the final registry (which also holds nothing else clean) *)
  lookup_spec (reg_has (st_reg bw_st)) ["m"] [["a"]; ["b"; "T"]] "T" = Some ["b"; "T"] /\
  (* the regions of the final items *)
  bw_region_types ["m"; "U"] = Some [(Some "x", TRaw ["b"; "T"]); (Some "p", TConstPtr (TRaw ["b"; "T"]))] /\
  bw_region_types ["n"; "V"] = Some [(Some "y", TRaw ["b"; "T"])] /\
  bw_region_types ["o"; "W"] = Some [(Some "z", TRaw ["o"; "T"])] /\
  (* sizes / alignments: those of exactly that definition *)
  option_map (fun r => (rs_size r, rs_align r)) (resolved_of bw_st ["b"; "T"]) = Some (4, 4)%N /\
  option_map (fun r => (rs_size r, rs_align r)) (resolved_of bw_st ["a"; "T"]) = Some (1, 1)%N /\
  option_map (fun r => (rs_size r, rs_align r)) (resolved_of bw_st ["m"; "T"]) = Some (2, 2)%N /\
  option_map (fun r => (rs_size r, rs_align r)) (resolved_of bw_st ["m"; "U"]) = Some (8, 4)%N /\
  option_map (fun r => (rs_size r, rs_align r)) (resolved_of bw_st ["n"; "V"]) = Some (4, 4)%N /\
  option_map (fun r => (rs_size r, rs_align r)) (resolved_of bw_st ["o"; "W"]) = Some (8, 8)%N /\
  option_map (fun r => (rs_size r, rs_align r)) (resolved_of bw_st ["o"; "T"]) = Some (8, 8)%N.
Proof. vm_compute. repeat split. Qed.

Example bw_emitted :
  let cr (p : path) := Atom "crate" :: Atom ":" :: Atom ":" :: path_tokens p in
  bw_emitted_fields "m.rs" "U"
  = Some [("x", cr ["b"; "T"]); ("p", Atom "*" :: Atom "const" :: cr ["b"; "T"])] /\
  bw_emitted_fields "n.rs" "V" = Some [("y", cr ["b"; "T"])] /\
  bw_emitted_fields "o.rs" "W" = Some [("z", cr ["o"; "T"])] /\
  (* the extern value [g : T] of module [m] and the impl function [U::get(&self, t: *const T) -> T] *)
  option_map (fun m => map ev_type (m_extern_values m)) (alookup ["m"] (st_modules bw_st))
  = Some [Some (TRaw ["b"; "T"])] /\
  option_map (fun r => match rs_inner r with
                       | IType td => map (fun sf => (sf_args sf, sf_ret sf)) (td_assoc td)
                       | IEnum _ => []
                       end) (resolved_of bw_st ["m"; "U"])
  = Some [([SConstSelf; SField "t" (TConstPtr (TRaw ["b"; "T"]))], Some (TRaw ["b"; "T"]))].
Proof. vm_compute. repeat split. Qed.

(** the theorems apply to the example: the field [x : T] of [m::U] *)
Example bw_theorem_applies :
  exists sname f items s efs ef,
    path_last ["m"; "U"] = Some sname /\ In (out_path ["m"], f) bw_files /\ file_items f = Some items /\
    find_struct sname items = Some s /\ struct_fields s = Some efs /\
    In ef efs /\ ef_name ef = "x" /\ ef_ty ef = type_tokens (TRaw ["b"; "T"]).
Proof.
  destruct bw_hypotheses as (Hin & Hres & Hw & Hcf & Hcl & _).
  assert (NoDup (map fst bw_mods)) as HN.
  { change (map fst bw_mods) with [["m"]; ["n"]; ["o"]; ["a"]; ["b"]].
    repeat (constructor; [cbn [In]; intros H; repeat (destruct H as [H|H]; [discriminate|]); exact H|]). constructor. }
  assert (keeps_work (hook_schedule [])) as Hord by (apply perm_keeps_work; intros l; apply hook_schedule_perm).
  destruct (reg_get (st_reg bw_st0) ["m"; "U"]) as [it0|] eqn:Eg0; [|vm_compute in Eg0; discriminate].
  destruct (it_state it0) as [gd|] eqn:Es0; [|vm_compute in Eg0; inversion Eg0; subst it0; vm_compute in Es0; discriminate].
  destruct (gi_inner gd) as [td0|] eqn:Ety;
    [|vm_compute in Eg0; inversion Eg0; subst it0; vm_compute in Es0; inversion Es0; subst gd; vm_compute in Ety; discriminate].
  destruct (alookup ["m"] (st_modules bw_st0)) as [m0|] eqn:Em0; [|vm_compute in Em0; discriminate].
  assert (exists s0, In s0 (gt_stmts td0) /\ gs_field s0 = GField Public "x" (GIdent "T")) as (s0 & Hs0in & Hs0f).
  { vm_compute in Eg0; inversion Eg0; subst it0; vm_compute in Es0; inversion Es0; subst gd; vm_compute in Ety;
      inversion Ety; subst td0. eexists. split; [left; reflexivity | reflexivity]. }
  assert (reg_has (st_reg bw_st0) (m_path m0) = false) as Hmp.
  { vm_compute in Em0. inversion Em0; subst m0. vm_compute. reflexivity. }
  assert (bind_gtype (lookup_spec (reg_has (st_reg bw_st0)) (m_path m0) (gm_uses (m_ast m0))) (GIdent "T")
          = Some (TRaw ["b"; "T"])) as Hbind.
  { vm_compute in Em0. inversion Em0; subst m0. vm_compute. reflexivity. }
  destruct (C11_emitted_field _ _ _ _ _ _ ["m"; "U"] _ _ _ ["m"] m0 s0 Public "x" (GIdent "T")
              Hin HN (collision_freeb_sound _ Hcf) Hcl Hord Hres Hw Eg0 Es0 Ety eq_refl ltac:(discriminate) Em0
              Hs0in Hs0f ltac:(discriminate))
    as (sname & f & items & s & efs & ty & sz & al & H1 & H2 & H3 & H4 & H5 & _ & _ & Hb & Hsz & _ & Hkept).
  rewrite (Hb Hmp) in Hbind. inversion Hbind; subst ty.
  destruct Hkept as (ef & Hef & Hn & Ht & _); [cbn [stype_is_array]; apply andb_false_r|].
  exists sname, f, items, s, efs, ef. repeat (split; [assumption|]). exact Ht.
Qed.

Print Assumptions selected_reference.
Print Assumptions lookup_spec_shape.
Print Assumptions C11_emitted_field.
Print Assumptions C11_emitted_impl_functions.
Print Assumptions C11_emitted_extern_values.
Print Assumptions bw_theorem_applies.
