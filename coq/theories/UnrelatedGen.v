(** * C19, towards the emitted files: more facts about registration, and the GENERATED items.

    - what [input_state ptr (mods1 ++ extra)] adds to [input_state ptr mods1] lives under the extra
      module paths ([new_under]);
    - a module's [m_defpaths] of an input state are children of the module ([defs_parented]);
    - items that are resolved from the start (predefined and extern types) have no regions
      ([resolved_plain]);
    - a generated item of an accepted build is exactly [vftable_item] of its (resolved) owner
      ([gen_item_shape]), so it is the same item in any other accepted build (over another input)
      that has the same owner, resolved to the same value ([gen_transfer]). *)
From Coq Require Import List NArith ZArith Bool Lia String Permutation.
From PyxisModel Require Import Base Grammar SemTypes Registry Sem SemLemmas ScopeLemmas
     PlacementLemmas TotalityLemmas EmitLemmas WholeBuild Monotone OrderIndep Locality Frame
     Unrelated UnrelatedStates FinalState.
From PyxisModel Require Confluence.
Import ListNotations.
Local Open Scope string_scope.
Local Open Scope list_scope.

(** ** what the bigger input adds lives under the extra module paths *)
Definition new_under (mps : list path) (st st' : sstate) : Prop :=
  forall p it, reg_get (st_reg st') p = Some it ->
    reg_get (st_reg st) p = Some it \/ exists mp, In mp mps /\ path_parent p = Some mp.

Lemma new_under_refl mps st : new_under mps st st.
Proof. intros p it H. now left. Qed.

Lemma new_under_trans mps a b c : new_under mps a b -> new_under mps b c -> new_under mps a c.
Proof.
  intros H1 H2 p it Hg. destruct (H2 _ _ Hg) as [Hb|Hn]; [|now right]. apply H1. exact Hb.
Qed.

Lemma new_under_incl mps mps' a b : incl mps mps' -> new_under mps a b -> new_under mps' a b.
Proof.
  intros Hi H p it Hg. destruct (H _ _ Hg) as [Ha|(mp & Hin & Hp)]; [now left|].
  right. exists mp. split; [now apply Hi | exact Hp].
Qed.

Lemma add_item_new_under st it st' mp :
  path_parent (it_path it) = Some mp -> add_item st it = Ok st' -> new_under [mp] st st'.
Proof.
  intros Hp H p it' Hg. rewrite (add_item_reg _ _ _ H) in Hg.
  destruct (path_eqb_spec (it_path it) p) as [<-|Hne].
  - right. exists mp. split; [now left | exact Hp].
  - rewrite reg_get_add_other in Hg by exact Hne. now left.
Qed.

Lemma add_module_new_under st mp ast st' : add_module st mp ast = Ok st' -> new_under [mp] st st'.
Proof.
  unfold add_module. intros H. inv_bind H. inv_bind H. inv_bind H.
  set (st1 := {| st_modules := ainsert mp a0 (st_modules st); st_reg := st_reg st |}) in *.
  assert (new_under [mp] st st1) as H1 by (intros p it Hg; now left).
  eapply new_under_trans; [exact H1|]. eapply new_under_trans.
  - eapply (foldM_preserves (fun s => new_under [mp] st1 s)); [| apply new_under_refl | exact Ha1].
    intros s d s' Hs Hd. eapply new_under_trans; [exact Hs|].
    unfold add_definition in Hd. destruct (reg_has _ _); [discriminate|].
    eapply add_item_new_under; [|exact Hd]. cbn [it_path]. apply path_parent_join.
  - eapply (foldM_preserves (fun s => new_under [mp] a1 s)); [| apply new_under_refl | exact H].
    intros s e s' Hs He. eapply new_under_trans; [exact Hs|].
    unfold add_extern_type in He. inv_bind He. destruct a2 as [[size|] [al|]]; try discriminate.
    destruct (reg_has _ _); [discriminate|].
    eapply add_item_new_under; [|exact He]. cbn [it_path]. apply path_parent_join.
Qed.

Lemma add_modules_new_under extra st st' :
  foldM (fun st pm => add_module st (fst pm) (snd pm)) extra st = Ok st' -> new_under (map fst extra) st st'.
Proof.
  intros H.
  eapply (foldM_preserves_in (fun s => new_under (map fst extra) st s)); [| apply new_under_refl | exact H].
  intros s pm s' Hin Hs Hpm. cbn beta in Hpm. eapply new_under_trans; [exact Hs|].
  apply add_module_new_under in Hpm. eapply new_under_incl; [|exact Hpm].
  intros k [<-|[]]. now apply in_map.
Qed.

(** ** the item paths of a module of an input state are children of the module *)
Definition defs_parented (st : sstate) : Prop :=
  forall k m p, alookup k (st_modules st) = Some m -> In p (m_defpaths m) -> path_parent p = Some k.

Lemma add_item_defs_parented st it st' : defs_parented st -> add_item st it = Ok st' -> defs_parented st'.
Proof.
  intros HD H. unfold add_item in H. destruct (path_parent (it_path it)) as [parent|] eqn:Ep; [|discriminate].
  destruct (alookup parent (st_modules st)) as [m|] eqn:Em; [|discriminate]. inversion H; subst st'; clear H.
  intros k m' p Hk Hp. cbn [st_modules] in Hk. destruct (path_eqb_spec parent k) as [<-|Hne].
  - rewrite alookup_ainsert_same in Hk. inversion Hk; subst m'. apply add_defpath_in in Hp as [Hp| ->]; [|exact Ep].
    eapply HD; eauto.
  - rewrite alookup_ainsert_other in Hk by exact Hne. eapply HD; eauto.
Qed.

Lemma sem_new_defs_parented ptr st : sem_new ptr = Ok st -> defs_parented st.
Proof.
  unfold sem_new. apply (foldM_preserves defs_parented).
  - intros s a s' Hs H. eapply add_item_defs_parented; eauto.
  - intros k m p Hk Hp. cbn [st_modules alookup] in Hk. destruct (path_eqb k []); [|discriminate].
    inversion Hk; subst m. destruct Hp.
Qed.

Lemma add_module_defs_parented st mp ast st' : defs_parented st -> add_module st mp ast = Ok st' -> defs_parented st'.
Proof.
  unfold add_module. intros HP H. inv_bind H. inv_bind H. inv_bind H.
  eapply (foldM_preserves defs_parented); [| |exact H].
  - intros s e s' Hs He. unfold add_extern_type in He. inv_bind He.
    destruct a2 as [[size|] [al|]]; try discriminate.
    destruct (reg_has _ _); [discriminate|]. eapply add_item_defs_parented; eauto.
  - eapply (foldM_preserves defs_parented); [| |exact Ha1].
    + intros s d s' Hs Hd. unfold add_definition in Hd. destruct (reg_has _ _); [discriminate|].
      eapply add_item_defs_parented; eauto.
    + intros k m p Hk Hp. cbn [st_modules] in Hk. destruct (path_eqb_spec mp k) as [<-|Hne].
      * rewrite alookup_ainsert_same in Hk. inversion Hk; subst m.
        unfold module_new in Ha0. inv_bind Ha0. inversion Ha0; subst a0. destruct Hp.
      * rewrite alookup_ainsert_other in Hk by exact Hne. eapply HP; eauto.
Qed.

Lemma input_state_defs_parented ptr mods st0 : input_state ptr mods = Ok st0 -> defs_parented st0.
Proof.
  unfold input_state. intros H. inv_bind H.
  eapply (foldM_preserves defs_parented); [| |exact H].
  - intros s pm s2 Hs Hpm. cbn beta in Hpm. eapply add_module_defs_parented; eauto.
  - eapply sem_new_defs_parented; eauto.
Qed.

(** ** items resolved from the start have no regions *)
Definition plain_resolved (it : item) : Prop :=
  forall r td, it_state it = Resolved r -> rs_inner r = IType td -> td_regions td = [].
Definition resolved_plain (st : sstate) : Prop :=
  forall p it, reg_get (st_reg st) p = Some it -> plain_resolved it.

Lemma add_item_resolved_plain st it st' :
  resolved_plain st -> plain_resolved it -> add_item st it = Ok st' -> resolved_plain st'.
Proof.
  intros HR Hit H p it' Hg. rewrite (add_item_reg _ _ _ H) in Hg.
  destruct (path_eqb_spec (it_path it) p) as [<-|Hne].
  - rewrite reg_get_add_same in Hg. now inversion Hg; subst.
  - rewrite reg_get_add_other in Hg by exact Hne. eapply HR; eauto.
Qed.

Lemma sem_new_resolved_plain ptr st : sem_new ptr = Ok st -> resolved_plain st.
Proof.
  unfold sem_new. apply (foldM_preserves resolved_plain).
  - intros s a s' Hs H. eapply add_item_resolved_plain; [exact Hs | | exact H].
    intros r td Hr Hi. cbn in Hr. inversion Hr; subst r. cbn in Hi. inversion Hi; subst td. reflexivity.
  - intros p it H. discriminate.
Qed.

Lemma add_module_resolved_plain st mp ast st' : resolved_plain st -> add_module st mp ast = Ok st' -> resolved_plain st'.
Proof.
  unfold add_module. intros HP H. inv_bind H. inv_bind H. inv_bind H.
  eapply (foldM_preserves resolved_plain); [| |exact H].
  - intros s e s' Hs He. unfold add_extern_type in He. inv_bind He.
    destruct a2 as [[size|] [al|]]; try discriminate.
    destruct (reg_has _ _); [discriminate|]. eapply add_item_resolved_plain; [exact Hs | | exact He].
    intros r td Hr Hi. cbn in Hr. inversion Hr; subst r. cbn in Hi. inversion Hi; subst td. reflexivity.
  - eapply (foldM_preserves resolved_plain); [| |exact Ha1].
    + intros s d s' Hs Hd. unfold add_definition in Hd. destruct (reg_has _ _); [discriminate|].
      eapply add_item_resolved_plain; [exact Hs | | exact Hd]. intros r td Hr. cbn in Hr. discriminate.
    + exact HP.
Qed.

Lemma input_state_resolved_plain ptr mods st0 : input_state ptr mods = Ok st0 -> resolved_plain st0.
Proof.
  unfold input_state. intros H. inv_bind H.
  eapply (foldM_preserves resolved_plain); [| |exact H].
  - intros s pm s2 Hs Hpm. cbn beta in Hpm. eapply add_module_resolved_plain; eauto.
  - eapply sem_new_resolved_plain; eauto.
Qed.

(** ** the generated items of one accepted build *)
Lemma vftable_item_no_base R owner v fs vit rs td :
  vftable_item R owner v fs = Some vit -> item_resolved vit = Some rs -> rs_inner rs = IType td ->
  forall r, In r (td_regions td) -> r_is_base r = false.
Proof.
  unfold vftable_item. destruct (vftable_path owner) as [vp|]; [|discriminate].
  intros H; inversion H; subst vit; clear H. unfold item_resolved. cbn [it_state].
  intros Hr; inversion Hr; subst rs; clear Hr. cbn [rs_inner]. intros Hi; inversion Hi; subst td; clear Hi.
  cbn [td_regions]. intros r Hin. apply in_map_iff in Hin as (f & <- & _). reflexivity.
Qed.

Section OneBuild.
  Variables (ptr : N) (mods : list (path * gmodule)) (st0 t : sstate) (order : list path -> list path).
  Hypothesis Hin : input_state ptr mods = Ok st0.
  Hypothesis Hcf : collision_free (st_reg st0).
  Hypothesis Hclean : clean_stateb st0 = true.
  Hypothesis HP : forall l, Permutation (order l) l.
  Hypothesis HL : pyxis_resolve order ptr mods = BOk t.

  Lemma final_ptr : reg_ptr (st_reg t) = reg_ptr (st_reg st0).
  Proof.
    destruct (run_facts ptr mods st0 Hin Hcf Hclean order t HP HL) as (s & A & _ & F & S & _ & _).
    rewrite (finish_build_reg _ _ F). apply (sim_inv _ _ _ S).
  Qed.

  (** the vftable struct of a resolved owner with a vftable block *)
  Lemma owner_vftable_item owner it0 gd td0 s rest gfs ito r :
    reg_get (st_reg st0) owner = Some it0 -> it_state it0 = Unresolved gd -> gi_inner gd = GIType td0 ->
    gt_stmts td0 = s :: rest -> gs_field s = GVftable gfs ->
    reg_get (st_reg t) owner = Some ito -> it_state ito = Resolved r ->
    exists vp vit td vt,
      vftable_path owner = Some vp /\ rs_inner r = IType td /\ td_vftable td = Some vt /\
      vftable_item (st_reg t) owner (gi_vis gd) (vt_functions vt) = Some vit /\
      reg_get (st_reg t) vp = Some vit.
  Proof.
    intros Hg0 Hs0 Hty Hst Hf Hgo Hso.
    destruct (whole_build_vftable order ptr mods st0 t owner it0 gd td0 ito r s rest gfs Hin Hcf HL Hg0 Hs0 Hty Hgo Hso Hst Hf)
      as (_ & _ & _ & fs & vp & vit & td & vt & _ & _ & _ & _ & Hvp & Hvi & Hgv & Hi & Hvt & Hfs & _).
    exists vp, vit, td, vt. subst fs. auto.
  Qed.

  (** a generated item is the vftable struct of its owner *)
  Lemma gen_item_shape p it :
    reg_get (st_reg st0) p = None -> reg_get (st_reg t) p = Some it ->
    exists owner it0 gd td0 s rest gfs ito r td vt,
      reg_get (st_reg st0) owner = Some it0 /\ it_state it0 = Unresolved gd /\ gi_inner gd = GIType td0 /\
      gt_stmts td0 = s :: rest /\ gs_field s = GVftable gfs /\
      vftable_path owner = Some p /\
      reg_get (st_reg t) owner = Some ito /\ it_state ito = Resolved r /\
      rs_inner r = IType td /\ td_vftable td = Some vt /\
      vftable_item (st_reg t) owner (gi_vis gd) (vt_functions vt) = Some it.
  Proof.
    intros Hnone Hg.
    destruct (run_facts ptr mods st0 Hin Hcf Hclean order t HP HL) as (s1 & A & _ & F & S & _ & U).
    pose proof (finish_build_reg _ _ F) as E.
    destruct (sim_inv _ _ _ S) as [_ HI]. rewrite E in Hg. specialize (HI _ _ Hg). rewrite Hnone in HI.
    destruct HI as (owner & it0 & gd & td0 & n & rs & Hg0 & Hs0 & Hty & Hvp & Hlen & _).
    destruct Hlen as (s & rest & gfs & _ & _ & _ & _ & Hst & Hf & _).
    destruct (user_resolved ptr mods st0 Hin _ _ _ _ _ S U Hg0 Hs0) as (ito & r & Hgo & Hso).
    rewrite <- E in Hgo, Hg.
    destruct (owner_vftable_item owner it0 gd td0 s rest gfs ito r Hg0 Hs0 Hty Hst Hf Hgo Hso)
      as (vp & vit & td & vt & Hvp' & Hi & Hvt & Hvi & Hgv).
    rewrite Hvp in Hvp'. inversion Hvp'; subst vp. rewrite Hg in Hgv. inversion Hgv; subst vit.
    exists owner, it0, gd, td0, s, rest, gfs, ito, r, td, vt. repeat split; auto.
  Qed.

  Lemma gen_item_no_base p it rs td :
    reg_get (st_reg st0) p = None -> reg_get (st_reg t) p = Some it ->
    item_resolved it = Some rs -> rs_inner rs = IType td ->
    forall r, In r (td_regions td) -> r_is_base r = false.
  Proof.
    intros Hnone Hg Hr Hi.
    destruct (gen_item_shape p it Hnone Hg) as (owner & it0 & gd & td0 & s & rest & gfs & ito & r' & td' & vt & H).
    destruct H as (_ & _ & _ & _ & _ & _ & _ & _ & _ & _ & Hvi).
    eapply vftable_item_no_base; eauto.
  Qed.

  (** the parent of a generated item is the parent of an input item *)
  Lemma gen_item_parent p it :
    reg_get (st_reg st0) p = None -> reg_get (st_reg t) p = Some it ->
    exists owner, reg_get (st_reg st0) owner <> None /\ path_parent p = path_parent owner.
  Proof.
    intros Hnone Hg.
    destruct (gen_item_shape p it Hnone Hg) as (owner & it0 & gd & td0 & s & rest & gfs & ito & r' & td' & vt & H).
    destruct H as (Hg0 & _ & _ & _ & _ & Hvp & _).
    exists owner. split; [congruence | now apply vftable_path_parent].
  Qed.
End OneBuild.

(** ** two accepted builds, over two inputs: a generated item of the first is, literally, in the
    second as soon as its owner is an item of the second input too, resolved to the same value *)
Section Transfer.
  Variables (ptrA : N) (modsA : list (path * gmodule)) (stA tA : sstate) (oA : list path -> list path).
  Variables (ptrB : N) (modsB : list (path * gmodule)) (stB tB : sstate) (oB : list path -> list path).
  Hypothesis HinA : input_state ptrA modsA = Ok stA.
  Hypothesis HcfA : collision_free (st_reg stA).
  Hypothesis HclA : clean_stateb stA = true.
  Hypothesis HPA : forall l, Permutation (oA l) l.
  Hypothesis HLA : pyxis_resolve oA ptrA modsA = BOk tA.
  Hypothesis HinB : input_state ptrB modsB = Ok stB.
  Hypothesis HcfB : collision_free (st_reg stB).
  Hypothesis HclB : clean_stateb stB = true.
  Hypothesis HPB : forall l, Permutation (oB l) l.
  Hypothesis HLB : pyxis_resolve oB ptrB modsB = BOk tB.
  Hypothesis Hptr : reg_ptr (st_reg stA) = reg_ptr (st_reg stB).

  Lemma gen_transfer p it :
    reg_get (st_reg stA) p = None -> reg_get (st_reg tA) p = Some it ->
    (forall owner it0, vftable_path owner = Some p -> reg_get (st_reg stA) owner = Some it0 ->
       reg_get (st_reg stB) owner = Some it0 /\ reg_get (st_reg tB) owner = reg_get (st_reg tA) owner) ->
    reg_get (st_reg tB) p = Some it.
  Proof.
    intros Hnone Hg Hown.
    destruct (gen_item_shape ptrA modsA stA tA oA HinA HcfA HclA HPA HLA p it Hnone Hg)
      as (owner & it0 & gd & td0 & s & rest & gfs & ito & r & td & vt & H).
    destruct H as (Hg0 & Hs0 & Hty & Hst & Hf & Hvp & Hgo & Hso & Hi & Hvt & Hvi).
    destruct (Hown owner it0 Hvp Hg0) as [Hg0B HgoB]. rewrite Hgo in HgoB.
    destruct (owner_vftable_item ptrB modsB stB tB oB HinB HcfB HLB owner it0 gd td0 s rest gfs ito r
                Hg0B Hs0 Hty Hst Hf HgoB Hso) as (vp & vit & td' & vt' & Hvp' & Hi' & Hvt' & Hvi' & Hgv').
    rewrite Hvp in Hvp'. inversion Hvp'; subst vp. rewrite Hi in Hi'. inversion Hi'; subst td'.
    rewrite Hvt in Hvt'. inversion Hvt'; subst vt'.
    rewrite (vftable_item_ptr (st_reg tB) (st_reg tA)) in Hvi'.
    - rewrite Hvi in Hvi'. inversion Hvi'; subst vit. exact Hgv'.
    - rewrite (final_ptr ptrA modsA stA tA oA HinA HcfA HclA HPA HLA),
              (final_ptr ptrB modsB stB tB oB HinB HcfB HclB HPB HLB). now symmetry.
  Qed.
End Transfer.
