(** * EmitMarkersExamples: the theorems of EmitMarkers*.v on a real input (non-vacuity).

<<
#![doc = "The module."] #![doc = ""] #![doc = " Second paragraph."]
#[address(0x3000)] /// not emitted
pub extern counter: *mut u32;
/// A base class.
type Base {
  vftable {
    /// virtual f
    /// second line
    pub fn f(&self, x: u32) -> u32;
    #[index(3)] fn g(&mut self);
  },
  /// the x
  pub x: u32,
  y: u32,
}
impl Base {
  /// A method.
  #[address(0x78)] pub fn meth(&mut self, t: u32);
  #[address(0x80)] fn hidden(&mut self);
}
/// Plain.
#[copyable, defaultable] pub type Plain { /** a */ pub a: u32, b: u32 }
#[packed, cloneable] type Packed { a: u8, pub b: u32 }
/// Derived.
#[size(32)] pub type T {
  pub a: u32,
  /// two shorts
  #[address(8)] b: [u16; 2],
  /// lost: the field is renamed
  pub _: unknown<2>,
  #[base, address(16)] pub base: Base,
  /// dropped
  z: [u64; 0],
}
/// An enum.
/// Two lines.
#[cloneable] pub enum E: i16 { /** variant doc */ A = 0, B }
#[defaultable, copyable] enum D: u8 { #[default] X = 1 }
>>
    All checks are closed boolean / equational computations on the files the model writes at pointer
    width 4. *)
From Coq Require Import List String NArith ZArith Bool Permutation.
From PyxisModel Require Import Base Sexp Grammar SemTypes Registry Sem Emit EmitLemmas Driver Examples
     WholeBuild OrderIndep EmitReaders EmitShape EmitFinal EmitLayout EmitShapeExamples
     EmitFnReaders EmitFnShape EmitFnFinal EmitFnExamples
     EmitMarkers EmitMarkersEnum EmitMarkersFn EmitMarkersNoDoc.
Import ListNotations.
Local Open Scope string_scope.
Local Open Scope list_scope.

Definition mk_text : string := "(module (attrs (assign ""doc"" (str ""The module."")) (assign ""doc"" (str """")) (assign ""doc"" (str "" Second paragraph.""))) (uses) (extern_types) (extern_values (evalue (attrs (fn ""address"" (int 12288)) (assign ""doc"" (str ""not emitted""))) pub ""counter"" (mptr (tid ""u32"")))) (defs (def priv ""Base"" (type (attrs (assign ""doc"" (str "" A base class.""))) (vftable (attrs) (func (attrs (assign ""doc"" (str "" virtual f"")) (assign ""doc"" (str "" second line""))) pub ""f"" (args cself (named ""x"" (tid ""u32""))) (some (tid ""u32""))) (func (attrs (fn ""index"" (int 3))) priv ""g"" (args mself) none)) (field (attrs (assign ""doc"" (str "" the x""))) pub ""x"" (tid ""u32"")) (field (attrs) priv ""y"" (tid ""u32"")))) (def pub ""Plain"" (type (attrs (ident ""copyable"") (ident ""defaultable"") (assign ""doc"" (str ""Plain.""))) (field (attrs (assign ""doc"" (str "" a""))) pub ""a"" (tid ""u32"")) (field (attrs) priv ""b"" (tid ""u32"")))) (def priv ""Packed"" (type (attrs (ident ""packed"") (ident ""cloneable"")) (field (attrs) priv ""a"" (tid ""u8"")) (field (attrs) pub ""b"" (tid ""u32"")))) (def pub ""T"" (type (attrs (fn ""size"" (int 32)) (assign ""doc"" (str "" Derived.""))) (field (attrs) pub ""a"" (tid ""u32"")) (field (attrs (fn ""address"" (int 8)) (assign ""doc"" (str "" two shorts""))) priv ""b"" (array (tid ""u16"") 2)) (field (attrs (assign ""doc"" (str "" lost: the field is renamed""))) pub ""_"" (unknown 2)) (field (attrs (ident ""base"") (fn ""address"" (int 16))) pub ""base"" (tid ""Base"")) (field (attrs (assign ""doc"" (str "" dropped""))) priv ""z"" (array (tid ""u64"") 0)))) (def pub ""E"" (enum (tid ""i16"") (attrs (ident ""cloneable"") (assign ""doc"" (str "" An enum."")) (assign ""doc"" (str "" Two lines.""))) (case (attrs (assign ""doc"" (str "" variant doc""))) ""A"" (some (int 0))) (case (attrs) ""B"" none))) (def priv ""D"" (enum (tid ""u8"") (attrs (ident ""defaultable"") (ident ""copyable"")) (case (attrs (ident ""default"")) ""X"" (some (int 1)))))) (impls (impl ""Base"" (attrs) (func (attrs (assign ""doc"" (str "" A method."")) (fn ""address"" (int 120))) pub ""meth"" (args mself (named ""t"" (tid ""u32""))) none) (func (attrs (fn ""address"" (int 128))) priv ""hidden"" (args mself) none))) (backends))".
Definition mk_module : gmodule := module_of_text mk_text.
Definition mk_mods : list (path * gmodule) := [(["m"], mk_module)].

Definition mk_file : option sexp :=
  match pyxis_resolve (hook_schedule []) 4 mk_mods with
  | BOk st => match write_all st with
              | Ok files => option_map snd (find (fun kf => String.eqb (fst kf) "m.rs") files)
              | _ => None
              end
  | _ => None
  end.
Definition mk_items : option (list sexp) := bindo mk_file file_items.
Definition mk_struct (name : string) : option sexp := bindo mk_items (find_struct name).
Definition mk_enum (name : string) : option sexp := bindo mk_items (find_enum name).
Definition mk_impl (name : string) : option (list sexp) :=
  bindo mk_items (fun items => match impls_of name items with [fns] => Some fns | _ => None end).
Definition mk_fn (ty name : string) : option sexp := bindo (mk_impl ty) (find_fn name).

(** the declarations, from the parsed module *)
Definition mk_def (name : string) : option gitemdef :=
  find (fun d => String.eqb (gi_name d) name) (gm_defs mk_module).
Definition mk_type_attrs (name : string) : list gattr :=
  match mk_def name with
  | Some d => match gi_inner d with GIType td => gt_attrs td | GIEnum ed => ged_attrs ed end
  | None => []
  end.
Definition mk_vis (name : string) : option vis := option_map gi_vis (mk_def name).

(** ** the hypotheses of the theorems *)
Definition mk_hyps_check : bool :=
  match input_state 4 mk_mods, pyxis_resolve (hook_schedule []) 4 mk_mods with
  | Ok st0, BOk st =>
    collision_freeb (st_reg st0) && is_ok (write_all st) &&
    forallb (fun n => match reg_get (st_reg st0) ["m"; n] with
                      | Some it0 => match it_state it0 with Unresolved _ => true | _ => false end
                      | None => false
                      end) ["Base"; "Plain"; "Packed"; "T"; "E"; "D"] &&
    match alookup ["m"] (st_modules st0) with
    | Some module0 => match alookup ["m"; "Base"] (m_impls module0) with
                      | Some blk => Nat.eqb (List.length (gb_fns blk)) 2
                      | None => false
                      end
    | None => false
    end
  | _, _ => false
  end.

Example mk_hypotheses :
  mk_hyps_check = true /\ NoDup (map fst mk_mods) /\ keeps_work (hook_schedule []) /\
  path_parent ["m"; "T"] <> Some [] /\ In (["m"], mk_module) mk_mods.
Proof.
  split; [vm_compute; reflexivity|]. split; [repeat constructor; intros []|].
  split; [apply perm_keeps_work; intros l; apply hook_schedule_perm|]. split; [discriminate | now left].
Qed.

(** ** Part 1: types *)
(** the declared side: markers, doc lines, visibility *)
Example mk_declared :
  map (fun n => (mk_vis n, declared_derives (mk_type_attrs n), has_marker "packed" (mk_type_attrs n),
                 declared_doc_lines (mk_type_attrs n))) ["Base"; "Plain"; "Packed"; "T"] =
  [(Some Private, [], false, [" A base class."]);
   (Some Public, ["Copy"; "Clone"; "Default"], false, ["Plain."]);
   (Some Private, ["Clone"], true, []);
   (Some Public, [], false, [" Derived."])].
Proof. vm_compute. reflexivity. Qed.

(** the emitted side, read back: the same *)
Example mk_emitted_types :
  map (fun n => (bindo (mk_struct n) struct_vis, bindo (mk_struct n) struct_derives,
                 bindo (mk_struct n) struct_repr, bindo (mk_struct n) struct_docs,
                 option_map (@List.length sexp) (bindo (mk_struct n) struct_attrs)))
      ["Base"; "Plain"; "Packed"; "T"] =
  [(Some Private, Some [], Some (ReprAlign 4), Some [" A base class."], Some 2%nat);
   (Some Public, Some ["Copy"; "Clone"; "Default"], Some (ReprAlign 4), Some ["Plain."], Some 3%nat);
   (Some Private, Some ["Clone"], Some ReprPacked, Some [], Some 2%nat);
   (Some Public, Some [], Some (ReprAlign 4), Some [" Derived."], Some 2%nat)].
Proof. vm_compute. reflexivity. Qed.

(** emitted = declared, as [C17_emitted_type] says *)
Example mk_types_agree :
  forallb (fun n =>
    match mk_struct n with
    | Some s =>
      match struct_vis s, mk_vis n, struct_derives s, struct_repr s, struct_docs s with
      | Some v, Some v', Some ds, Some rp, Some docs =>
        vis_eqb v v' && list_eqb String.eqb ds (declared_derives (mk_type_attrs n)) &&
        list_eqb String.eqb docs (declared_doc_lines (mk_type_attrs n)) &&
        match rp with ReprPacked => has_marker "packed" (mk_type_attrs n)
                 | ReprAlign _ => negb (has_marker "packed" (mk_type_attrs n)) end
      | _, _, _, _, _ => false
      end
    | None => false
    end) ["Base"; "Plain"; "Packed"; "T"] = true.
Proof. vm_compute. reflexivity. Qed.

(** ** Part 2: fields.  [T]: [a], padding, [b] (private, documented), the renamed [_] field (its pub
    and its doc are lost: generated), padding, [base], tail padding; [z] is dropped.  [Base]: the own
    vftable pointer is private and undocumented *)
Example mk_fields :
  option_map (map (fun f => (ef_name f, ef_vis f, ef_docs f))) (bindo (mk_struct "T") struct_fields) =
  Some [("a", Public, []); ("_field_4", Private, []); ("b", Private, [" two shorts"]);
        ("_field_c", Private, []); ("_field_e", Private, []); ("base", Public, []);
        ("_field_1c", Private, [])] /\
  option_map (map (fun f => (ef_name f, ef_vis f, ef_docs f))) (bindo (mk_struct "Base") struct_fields) =
  Some [("vftable", Private, []); ("x", Public, [" the x"]); ("y", Private, [])].
Proof. vm_compute. split; reflexivity. Qed.

(** ** Part 3: enums; variants never carry a doc line *)
Example mk_enums :
  map (fun n => (bindo (mk_enum n) enum_vis, bindo (mk_enum n) enum_derives, bindo (mk_enum n) enum_docs,
                 option_map (@List.length sexp) (bindo (mk_enum n) enum_attrs),
                 bindo (mk_enum n) enum_variant_docs)) ["E"; "D"] =
  [(Some Public, Some ["PartialEq"; "Eq"; "PartialOrd"; "Ord"; "Debug"; "Clone"],
    Some [" An enum."; " Two lines."], Some 4%nat, Some [[]; []]);
   (Some Private, Some ["PartialEq"; "Eq"; "PartialOrd"; "Ord"; "Debug"; "Copy"; "Clone"; "Default"],
    Some [], Some 2%nat, Some [[]])] /\
  map (fun n => (mk_vis n, enum_base_derives ++ declared_derives (mk_type_attrs n),
                 declared_doc_lines (mk_type_attrs n))) ["E"; "D"] =
  [(Some Public, ["PartialEq"; "Eq"; "PartialOrd"; "Ord"; "Debug"; "Clone"], [" An enum."; " Two lines."]);
   (Some Private, ["PartialEq"; "Eq"; "PartialOrd"; "Ord"; "Debug"; "Copy"; "Clone"; "Default"], [])].
Proof. vm_compute. split; reflexivity. Qed.

(** ** Part 4: functions.  The inherent impl of [Base]: accessor (no doc), the two impl functions,
    the two virtual wrappers; [T] forwards the public [meth] with its doc and shares the table *)
Example mk_wrappers :
  option_map (map (fun e => (fn_name e, fn_vis e, fn_docs e))) (mk_impl "Base") =
  Some [(Some "vftable", Some Public, Some []);
        (Some "meth", Some Public, Some [" A method."]); (Some "hidden", Some Private, Some []);
        (Some "f", Some Public, Some [" virtual f"; " second line"]); (Some "g", Some Private, Some [])] /\
  option_map (map (fun e => (fn_name e, fn_vis e, fn_docs e, fn_wrapper_body e))) (mk_impl "T") =
  Some [(Some "vftable", Some Public, Some [], None);
        (Some "meth", Some Public, Some [" A method."], Some (EBField "base" "meth" [CAName "t"]));
        (Some "f", Some Public, Some [" virtual f"; " second line"], Some (EBVftable "f" [CASelfConst; CAName "x"]));
        (Some "g", Some Private, Some [], Some (EBVftable "g" [CASelfMut]))].
Proof. vm_compute. split; reflexivity. Qed.

(** the generated [BaseVftable]: the visibility of [Base], only [repr]; slots and placeholders *)
Example mk_slots :
  bindo (mk_struct "BaseVftable") struct_vis = Some Private /\
  bindo (mk_struct "BaseVftable") struct_docs = Some [] /\
  bindo (mk_struct "BaseVftable") struct_derives = Some [] /\
  option_map (@List.length sexp) (bindo (mk_struct "BaseVftable") struct_attrs) = Some 1%nat /\
  option_map (map (fun f => (ef_name f, ef_vis f, ef_docs f))) (bindo (mk_struct "BaseVftable") struct_fields) =
  Some [("f", Public, [" virtual f"; " second line"]); ("_vfunc_1", Private, []); ("_vfunc_2", Private, []);
        ("g", Private, [])].
Proof. vm_compute. repeat split; reflexivity. Qed.

(** ** Part 5: every item of the file with its doc lines ([item_docs]) and, for an impl, those of
    its inner items: only structs, enums, wrappers carry any, and exactly the declared ones *)
Example mk_all_docs :
  option_map (map (fun e => (item_kind e, item_docs e,
                             option_map (map item_docs) (inner_items e)))) mk_items =
  Some [(Some "opaque", None, None);
        (* Base *)
        (Some "struct", Some [" A base class."], None); (Some "fn", Some [], None);
        (Some "impl", Some [], Some [Some []; Some [" A method."]; Some []; Some [" virtual f"; " second line"]; Some []]);
        (Some "impl", Some [], Some [Some []]); (Some "impl", Some [], Some [Some []]);
        (* BaseVftable *)
        (Some "struct", Some [], None); (Some "fn", Some [], None);
        (Some "impl", Some [], Some []); (Some "impl", Some [], Some [Some []]); (Some "impl", Some [], Some [Some []]);
        (* D, E *)
        (Some "enum", Some [], None); (Some "fn", Some [], None);
        (Some "enum", Some [" An enum."; " Two lines."], None); (Some "fn", Some [], None);
        (* Packed *)
        (Some "struct", Some [], None); (Some "fn", Some [], None);
        (Some "impl", Some [], Some []); (Some "impl", Some [], Some [Some []]); (Some "impl", Some [], Some [Some []]);
        (* Plain *)
        (Some "struct", Some ["Plain."], None); (Some "fn", Some [], None);
        (Some "impl", Some [], Some []); (Some "impl", Some [], Some [Some []]); (Some "impl", Some [], Some [Some []]);
        (* T *)
        (Some "struct", Some [" Derived."], None); (Some "fn", Some [], None);
        (Some "impl", Some [], Some [Some []; Some [" A method."]; Some [" virtual f"; " second line"]; Some []]);
        (Some "impl", Some [], Some [Some []]); (Some "impl", Some [], Some [Some []]);
        (Some "impl", Some [], Some [Some []]); (Some "impl", Some [], Some [Some []]);
        (* get_counter: the doc written on the extern value is not emitted *)
        (Some "fn", Some [], None);
        (Some "opaque", None, None)].
Proof. vm_compute. reflexivity. Qed.

(** ** Part 0: the module's doc lines, the empty one included *)
Example mk_module_docs :
  bindo mk_file file_docs = Some ["The module."; ""; " Second paragraph."] /\
  declared_doc_lines (gm_attrs mk_module) = ["The module."; ""; " Second paragraph."].
Proof. vm_compute. split; reflexivity. Qed.
