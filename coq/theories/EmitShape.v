(** * EmitShape: what the back end emits for a resolved item, read back from the emitted file.

    The layout theorems (WholeBuild.v, C01, C02) speak about the REGISTRY item: its regions, its
    resolved size and alignment.  This file proves the step to the EMITTED item: the struct that
    [build_type] prints has, read back with the readers of EmitReaders.v, one field per region, in
    order, with the region's name, type tokens, visibility and doc lines; its [repr] attribute is
    [repr(C, packed)] or [repr(C, align(A))] with the resolved alignment; its derive list is the
    flags'; and it is followed by the size check whose two literals are the resolved size.
    The same for enums ([build_enum]). *)
From Coq Require Import List String Ascii NArith ZArith Bool Lia.
From PyxisModel Require Import Base Sexp Grammar SemTypes Registry Sem SemLemmas FunctionLemmas Emit
     EmitLemmas EmitReaders.
Import ListNotations.
Local Open Scope string_scope.
Local Open Scope list_scope.

(** ** the statement *)
(** the emitted field [f] is the field of region [r] *)
Definition field_of_region (r : region) (f : efield) : Prop :=
  r_name r = Some (ef_name f) /\ ef_ty f = type_tokens (r_type r) /\
  ef_vis f = r_vis r /\ ef_docs f = doc_lines (r_doc r).

(** the S-expression [s] is the struct emitted for the type [td], named [name], with visibility
    [v] and alignment [alignment] *)
Record struct_shape (name : string) (alignment : N) (v : vis) (td : type_def) (s : sexp) : Prop := {
  ss_kind : item_kind s = Some "struct";
  ss_name : struct_name s = Some name;
  ss_vis : struct_vis s = Some v;
  ss_fields : exists efs, struct_fields s = Some efs /\ Forall2 field_of_region (td_regions td) efs;
  ss_repr : struct_repr s = Some (if td_packed td then ReprPacked else ReprAlign alignment);
  ss_derives : struct_derives s
               = Some (derive_names (td_copyable td) (td_cloneable td) (td_defaultable td));
  ss_docs : struct_docs s = Some (doc_lines (td_doc td)) }.

(** the items [cs] are the size check of a type [name] of [size] bytes: nothing for a zero-sized
    type, otherwise one function transmuting [[u8; size]] into [name] *)
Definition size_check_shape (name : string) (size : N) (cs : list sexp) : Prop :=
  (size = 0%N /\ cs = []) \/
  (size <> 0%N /\ exists c, cs = [c] /\ item_kind c = Some "fn" /\
     read_size_check c = Some ("_" +++ name +++ "_size_check", name, size, size)).

Definition is_impl_or_const (e : sexp) : Prop := item_kind e = Some "impl" \/ item_kind e = Some "const".

(** ** proofs *)
Lemma item_parts_printed kind al v name members :
  item_parts kind (SList (Atom kind :: attrs_sexp al :: vis_sexp v :: Atom name :: members))
  = Some (al, v, name, members).
Proof.
  unfold item_parts. rewrite String.eqb_refl. unfold attrs_sexp. cbn [tagged String.eqb Ascii.eqb Bool.eqb].
  now rewrite read_vis_vis_sexp.
Qed.

Lemma fields_read : forall regions fields,
  Forall2 (fun r f => region_field r = Ok f) regions fields ->
  exists efs, read_all read_field fields = Some efs /\ Forall2 field_of_region regions efs.
Proof.
  induction 1 as [|r f regions fields Hrf _ (efs & Hall & Hfs)].
  - exists []. split; [reflexivity | constructor].
  - destruct (region_field_read _ _ Hrf) as (n & Hn & Hread).
    exists (region_efield r n :: efs). split.
    + cbn [read_all]. now rewrite Hread, Hall.
    + constructor; [|exact Hfs]. unfold field_of_region, region_efield. cbn. auto.
Qed.

Lemma size_check_shape_holds name size : size_check_shape name size (size_check name size).
Proof.
  unfold size_check_shape. destruct (N.eq_dec size 0) as [->|Hne].
  - left. split; reflexivity.
  - right. split; [exact Hne|]. destruct (read_size_check_size_check name size Hne) as (c & Hc & Hr).
    exists c. split; [exact Hc|]. split; [|exact Hr].
    unfold size_check in Hc. destruct (size =? 0)%N; [discriminate|]. inversion Hc. reflexivity.
Qed.

Lemma as_ref_impls_kind n t fs : Forall is_impl_or_const (as_ref_impls n t fs).
Proof. unfold as_ref_impls. repeat constructor. Qed.

Lemma conversions_kind R fuel name td conv :
  conversions R fuel name td = Ok conv -> Forall is_impl_or_const conv.
Proof.
  unfold conversions. intros H. inv_bind H. destruct (negb _); [discriminate|]. destruct (negb _); [discriminate|].
  inversion H; subst conv; clear H. apply Forall_app. split; [|apply as_ref_impls_kind].
  apply Forall_forall. intros e He. apply in_flat_map in He as (x & _ & He).
  destruct (filter _ a) as [|? [|? ?]].
  - revert e He. apply Forall_forall. apply as_ref_impls_kind.
  - revert e He. apply Forall_forall. apply as_ref_impls_kind.
  - destruct He as [<-|[]]. right. reflexivity.
Qed.

Lemma struct_attrs_repr c cl d packed alignment doc :
  first_some read_repr_attr (derive_attr [] c cl d ++ [repr_attr packed alignment] ++ doc_attrs doc)
  = Some (if packed then ReprPacked else ReprAlign alignment).
Proof.
  rewrite first_some_app, (first_some_none _ _ (derive_attr_no_repr [] c cl d)).
  cbn [app first_some]. now rewrite read_repr_attr_repr.
Qed.

Lemma struct_attrs_derives c cl d packed alignment doc :
  match first_some read_derive_attr (derive_attr [] c cl d ++ [repr_attr packed alignment] ++ doc_attrs doc)
  with Some l => l | None => [] end = derive_names c cl d.
Proof.
  rewrite first_some_app. pose proof (derive_attr_read [] c cl d) as Hd. cbn [app] in Hd.
  destruct (first_some read_derive_attr (derive_attr [] c cl d)) as [l|] eqn:E; [exact Hd|].
  cbn [app first_some]. unfold repr_attr at 1. rewrite read_derive_attr_repr.
  rewrite (first_some_none _ _ (docs_no_derive doc)). exact Hd.
Qed.

Lemma struct_attrs_docs c cl d packed alignment doc :
  all_somes read_doc_attr (derive_attr [] c cl d ++ [repr_attr packed alignment] ++ doc_attrs doc)
  = doc_lines doc.
Proof.
  rewrite all_somes_app, (all_somes_none _ _ (derive_attr_no_doc [] c cl d)).
  cbn [app all_somes]. unfold repr_attr at 1. rewrite read_doc_attr_repr. apply docs_read.
Qed.

(** ** Part 1: the struct emitted by [build_type] *)
Theorem build_type_struct_shape R fuel p size alignment v td items :
  build_type R fuel p size alignment v td = Ok items ->
  exists name s checks rest,
    path_last p = Some name /\
    items = s :: checks ++ rest /\
    struct_shape name alignment v td s /\
    size_check_shape name size checks /\
    Forall is_impl_or_const rest.
Proof.
  unfold build_type. intros H. destruct (path_last p) as [name|]; [|discriminate].
  destruct (negb (ident_ok name)); [discriminate|].
  inv_bind H. rename a into fields, Ha into Hfields.
  destruct (negb (ident_ok _)); [discriminate|].
  inv_bind H. rename a into acc. inv_bind H. rename a into assoc. inv_bind H. rename a into vfns.
  inv_bind H. rename a into conv, Ha2 into Hconv.
  inversion H; subst items; clear H.
  eexists name, _, (size_check name size), _.
  split; [reflexivity|]. split; [cbn [app]; reflexivity|].
  destruct (fields_read _ _ (mapM_ok _ _ _ Hfields)) as (efs & Hread & Hfs).
  split; [|split; [apply size_check_shape_holds|]].
  - constructor.
    + reflexivity.
    + unfold struct_name. now rewrite item_parts_printed.
    + unfold struct_vis. now rewrite item_parts_printed.
    + exists efs. split; [|exact Hfs]. unfold struct_fields. rewrite item_parts_printed. exact Hread.
    + unfold struct_repr. rewrite item_parts_printed. apply struct_attrs_repr.
    + unfold struct_derives. rewrite item_parts_printed. f_equal. apply struct_attrs_derives.
    + unfold struct_docs. rewrite item_parts_printed. cbn [option_map]. f_equal. apply struct_attrs_docs.
  - apply Forall_app. split; [destruct (td_singleton td); repeat constructor|].
    constructor; [left; reflexivity|]. eapply conversions_kind; eauto.
Qed.

(** the same, for a registry item: [build_item] of a defined, resolved type *)
Theorem build_item_struct_shape R fuel it rs td items :
  item_resolved it = Some rs -> it_cat it = Defined -> rs_inner rs = IType td ->
  build_item R fuel it = Ok items ->
  exists name s checks rest,
    path_last (it_path it) = Some name /\
    items = s :: checks ++ rest /\
    struct_shape name (rs_align rs) (it_vis it) td s /\
    size_check_shape name (rs_size rs) checks /\
    Forall is_impl_or_const rest.
Proof.
  intros Hr Hc Hi H. unfold build_item in H. rewrite Hr, Hc, Hi in H.
  eapply build_type_struct_shape; eauto.
Qed.

(** the struct item is the only struct among the items of one type: looking the name up in the
    items finds it *)
Lemma struct_shape_is_named name alignment v td s :
  struct_shape name alignment v td s -> is_struct_named name s = true.
Proof. intros [_ Hn _ _ _ _ _]. unfold is_struct_named. rewrite Hn. apply String.eqb_refl. Qed.

Lemma not_struct_kind e k : item_kind e = Some k -> k <> "struct" -> forall n, is_struct_named n e = false.
Proof.
  intros Hk Hne n. unfold is_struct_named, struct_name, item_parts.
  destruct e as [|?|[|[k'| |] [|a [|b [|[nm| |] ms]]]]]; try reflexivity.
  cbn in Hk. inversion Hk; subst k'. destruct (String.eqb_spec k "struct"); [contradiction | reflexivity].
Qed.

(** ** Part 3: the enum emitted by [build_enum] *)
Definition enum_base_derives : list string := ["PartialEq"; "Eq"; "PartialOrd"; "Ord"; "Debug"].

(** the S-expression [e] is the enum emitted for [ed]: its [repr] is the tokens of the underlying
    type; one variant per field, in order, with the field's name and its discriminant; the variant
    at the default index, and only that one, carries [#[default]] *)
Record enum_shape (name : string) (v : vis) (ed : enum_def) (e : sexp) : Prop := {
  es_kind : item_kind e = Some "enum";
  es_name : enum_name e = Some name;
  es_vis : enum_vis e = Some v;
  es_repr : enum_repr e = Some (type_tokens (ed_type ed));
  es_derives : enum_derives e
               = Some (enum_base_derives ++ derive_names (ed_copyable ed) (ed_cloneable ed) (ed_defaultable ed));
  es_docs : enum_docs e = Some (doc_lines (ed_doc ed));
  es_variants : exists vs, enum_variants_of e = Some vs /\
      map (fun x => (evr_name x, evr_disc x)) vs = ed_fields ed /\
      map evr_default vs
      = map (fun i => match ed_default_index ed with Some j => Nat.eqb j i | None => false end)
            (seq 0 (List.length (ed_fields ed))) }.

Lemma read_variant_printed (is_default : bool) n z :
  read_variant (SList [Atom "variant"; attrs_sexp (if is_default then [attr_outer [tk "default"]] else []);
                       Atom n; SList (Atom "disc" :: disc_tokens z)])
  = Some {| evr_default := is_default; evr_name := n; evr_disc := z |}.
Proof.
  unfold read_variant, attrs_sexp. cbn [tagged String.eqb Ascii.eqb Bool.eqb].
  rewrite read_disc_disc_tokens. destruct is_default; reflexivity.
Qed.

Lemma enum_variants_read : forall fs idx di vars,
  enum_variants fs idx di = Ok vars ->
  exists vs, read_all read_variant vars = Some vs /\
    map (fun x => (evr_name x, evr_disc x)) vs = fs /\
    map evr_default vs
    = map (fun i => match di with Some j => Nat.eqb j i | None => false end) (seq idx (List.length fs)).
Proof.
  induction fs as [|[n z] fs IH]; intros idx di vars H; cbn [enum_variants] in H.
  - inversion H; subst. exists []. repeat split; reflexivity.
  - destruct (negb (ident_ok n)); [discriminate|]. inv_bind H. inversion H; subst vars; clear H.
    destruct (IH _ _ _ Ha) as (vs & Hread & Hnames & Hdef).
    eexists (_ :: vs). split; [|split].
    + cbn [read_all]. rewrite read_variant_printed, Hread. reflexivity.
    + cbn [map evr_name evr_disc]. now rewrite Hnames.
    + cbn [map evr_default List.length seq]. now rewrite Hdef.
Qed.

Lemma enum_attrs_repr toks c cl d doc :
  first_some read_repr_tokens ([attr_outer [tk "repr"; paren toks]] ++ derive_attr enum_base_derives c cl d ++ doc_attrs doc)
  = Some toks.
Proof. reflexivity. Qed.

Lemma enum_attrs_derives toks c cl d doc :
  match first_some read_derive_attr
          ([attr_outer [tk "repr"; paren toks]] ++ derive_attr enum_base_derives c cl d ++ doc_attrs doc)
  with Some l => l | None => [] end = enum_base_derives ++ derive_names c cl d.
Proof.
  cbn [app first_some]. rewrite read_derive_attr_repr, first_some_app.
  pose proof (derive_attr_read enum_base_derives c cl d) as Hd.
  destruct (first_some read_derive_attr (derive_attr enum_base_derives c cl d)) as [l|] eqn:E; [exact Hd|].
  apply derive_attr_first in E. discriminate.
Qed.

Lemma enum_attrs_docs toks c cl d doc :
  all_somes read_doc_attr
            ([attr_outer [tk "repr"; paren toks]] ++ derive_attr enum_base_derives c cl d ++ doc_attrs doc)
  = doc_lines doc.
Proof.
  cbn [app all_somes]. rewrite read_doc_attr_repr, all_somes_app,
    (all_somes_none _ _ (derive_attr_no_doc enum_base_derives c cl d)).
  apply docs_read.
Qed.

Theorem build_enum_shape p size v ed items :
  build_enum p size v ed = Ok items ->
  exists name e checks rest,
    path_last p = Some name /\
    items = e :: checks ++ rest /\
    enum_shape name v ed e /\
    size_check_shape name size checks /\
    Forall is_impl_or_const rest.
Proof.
  unfold build_enum. intros H. destruct (path_last p) as [name|]; [|discriminate].
  destruct (negb (ident_ok name)); [discriminate|]. destruct (negb (stype_ok _)); [discriminate|].
  destruct (negb (ident_ok _)); [discriminate|]. inv_bind H. rename a into variants.
  inversion H; subst items; clear H.
  eexists name, _, (size_check name size), _.
  split; [reflexivity|]. split; [cbn [app]; reflexivity|].
  split; [|split; [apply size_check_shape_holds|]].
  - destruct (enum_variants_read _ _ _ _ Ha) as (vs & Hread & Hnames & Hdef).
    fold enum_base_derives. constructor.
    + reflexivity.
    + unfold enum_name. now rewrite item_parts_printed.
    + unfold enum_vis. now rewrite item_parts_printed.
    + unfold enum_repr. rewrite item_parts_printed. apply enum_attrs_repr.
    + unfold enum_derives. rewrite item_parts_printed. f_equal. apply enum_attrs_derives.
    + unfold enum_docs. rewrite item_parts_printed. cbn [option_map]. f_equal. apply enum_attrs_docs.
    + exists vs. split; [|split; [exact Hnames | exact Hdef]].
      unfold enum_variants_of. rewrite item_parts_printed. exact Hread.
  - destruct (ed_singleton ed); repeat constructor.
Qed.

Theorem build_item_enum_shape R fuel it rs ed items :
  item_resolved it = Some rs -> it_cat it = Defined -> rs_inner rs = IEnum ed ->
  build_item R fuel it = Ok items ->
  exists name e checks rest,
    path_last (it_path it) = Some name /\
    items = e :: checks ++ rest /\
    enum_shape name (it_vis it) ed e /\
    size_check_shape name (rs_size rs) checks /\
    Forall is_impl_or_const rest.
Proof.
  intros Hr Hc Hi H. unfold build_item in H. rewrite Hr, Hc, Hi in H.
  eapply build_enum_shape; eauto.
Qed.

(** the default variant is the one at the default index *)
Lemma nth_map_seq {B} (f : nat -> B) n i d : (i < n)%nat -> nth i (map f (seq 0 n)) d = f i.
Proof.
  intros Hi. rewrite (nth_indep _ d (f O)) by (now rewrite map_length, seq_length).
  rewrite (map_nth f (seq 0 n) O i), seq_nth by exact Hi. reflexivity.
Qed.

Corollary enum_shape_default name v ed e vs i :
  enum_shape name v ed e -> enum_variants_of e = Some vs ->
  (i < List.length (ed_fields ed))%nat ->
  (nth i (map evr_default vs) false = true <-> ed_default_index ed = Some i).
Proof.
  intros [_ _ _ _ _ _ (vs' & Hv & _ & Hd)] Hvs Hi. rewrite Hv in Hvs. inversion Hvs; subst vs'.
  rewrite Hd, nth_map_seq by exact Hi.
  destruct (ed_default_index ed) as [j|]; [|split; discriminate].
  rewrite Nat.eqb_eq. split; congruence.
Qed.

Print Assumptions build_type_struct_shape.
Print Assumptions build_item_struct_shape.
Print Assumptions build_enum_shape.
