(** * Registry: name resolution and size/alignment queries
    (mirror of src/semantic/type_registry.rs and Type::size / Type::alignment in types.rs). *)
From PyxisModel Require Import Base Grammar SemTypes.
Local Open Scope string_scope.

Definition reg_get (R : registry) (p : path) : option item := alookup p (reg_types R).
Definition reg_has (R : registry) (p : path) : bool := amem p (reg_types R).
Definition reg_add (R : registry) (it : item) : registry :=
  {| reg_types := ainsert (it_path it) it (reg_types R); reg_ptr := reg_ptr R |}.

Definition item_size (it : item) : option N := option_map rs_size (item_resolved it).
Definition item_align (it : item) : option N := option_map rs_align (item_resolved it).

(** Type::size; [None] = unresolved (or, after the overflow fix, an array size beyond usize) *)
Fixpoint size_of (R : registry) (t : stype) : option N :=
  match t with
  | TRaw p => match reg_get R p with Some it => item_size it | None => None end
  | TConstPtr _ | TMutPtr _ | TFunction _ _ _ => Some (reg_ptr R)
  | TArray t' n => match size_of R t' with Some s => checked_mul s n | None => None end
  end.
Fixpoint align_of (R : registry) (t : stype) : option N :=
  match t with
  | TRaw p => match reg_get R p with Some it => item_align it | None => None end
  | TConstPtr _ | TMutPtr _ | TFunction _ _ _ => Some (reg_ptr R)
  | TArray t' _ => align_of R t'
  end.
Definition stype_is_array (t : stype) : bool := match t with TArray _ _ => true | _ => false end.

(** TypeRegistry::resolve_string *)
Definition last_is (name : string) (p : path) : bool :=
  match path_last p with Some l => String.eqb l name | None => false end.
Definition resolve_string (R : registry) (scope : list path) (name : string) : option stype :=
  let scope_types := filter (reg_has R) scope in
  let scope_modules := filter (fun p => negb (reg_has R p)) scope in
  match find (last_is name) (rev scope_types) with
  | Some p => Some (TRaw p)
  | None =>
    option_map TRaw (find (reg_has R) (map (fun ip => path_join ip name) ([] :: scope_modules)))
  end.

Definition padding_type (bytes : N) : stype := TArray (TRaw ["u8"]) bytes.

Fixpoint resolve_gtype (R : registry) (scope : list path) (t : gtype) : option stype :=
  match t with
  | GConstPtr t' => option_map TConstPtr (resolve_gtype R scope t')
  | GMutPtr t' => option_map TMutPtr (resolve_gtype R scope t')
  | GArray t' n => option_map (fun x => TArray x n) (resolve_gtype R scope t')
  | GIdent s => resolve_string R scope s
  | GUnknown n => Some (padding_type n)
  end.

(** keys in registry order *)
Definition reg_unresolved (R : registry) : list path :=
  map fst (filter (fun kv => negb (item_is_predefined (snd kv)) && negb (item_is_resolved (snd kv)))
                  (reg_types R)).
Definition reg_resolved (R : registry) : list path :=
  map fst (filter (fun kv => negb (item_is_predefined (snd kv)) && item_is_resolved (snd kv))
                  (reg_types R)).
