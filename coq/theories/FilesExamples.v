(** * FilesExamples: C14 on a concrete two-module input (pointer width 4).

    Module [a] (file "a.rs"): an extern type, an extern value, an enum [E], a type [Base] with a
    vftable block, a type [Plain]; three backend blocks: rust, cpp, rust.
    Module [b::c] (file "b/c.rs"): uses [a]; one type [User]; one backend block for cpp only.

    The readers of FilesRead.v are run by [vm_compute] on the files the model really emits, and the
    hypotheses of [files_whole] are checked on this input, so that the theorem applies to it. *)
From Coq Require Import List NArith ZArith Bool String Permutation.
From PyxisModel Require Import Base Sexp Grammar SemTypes Registry Sem Emit Driver Examples
     WholeBuild OrderIndep EmitReaders EmitFinal FilesInput FilesRead FilesWhole.
Import ListNotations.
Local Open Scope string_scope.
Local Open Scope list_scope.

(*
// a.pyxis
#[size(8), align(4)]
extern type Ext;
#[address(0x1000)]
pub extern counter: u32;
pub enum E: i16 { A, B }
pub type Base { vftable { pub fn f(&self); }, pub x: u32 }
pub type Plain { pub e: E, pub pad: u16, pub x: Ext }
backend rust prologue "use std::fmt;" epilogue "// end of a (1)";
backend cpp  prologue "#include <x>"  epilogue "// cpp end";
backend rust prologue "use std::mem;";

// b/c.pyxis
use a;
pub type User { pub p: Plain }
backend cpp prologue "x" epilogue "y";
*)
Definition fa_text : string := "(module (attrs) (uses) (extern_types (etype ""Ext"" (attrs (fn ""size"" (int 8)) (fn ""align"" (int 4))))) (extern_values (evalue (attrs (fn ""address"" (int 4096))) pub ""counter"" (tid ""u32""))) (defs (def pub ""E"" (enum (tid ""i16"") (attrs) (case (attrs) ""A"" none) (case (attrs) ""B"" none))) (def pub ""Base"" (type (attrs) (vftable (attrs) (func (attrs) pub ""f"" (args cself) none)) (field (attrs) pub ""x"" (tid ""u32"")))) (def pub ""Plain"" (type (attrs) (field (attrs) pub ""e"" (tid ""E"")) (field (attrs) pub ""pad"" (tid ""u16"")) (field (attrs) pub ""x"" (tid ""Ext""))))) (impls) (backends (backend ""rust"" (some ""use std::fmt;"") (some ""// end of a (1)"")) (backend ""cpp"" (some ""#include <x>"") (some ""// cpp end"")) (backend ""rust"" (some ""use std::mem;"") none)))".
Definition fbc_text : string := "(module (attrs) (uses (path ""a"")) (extern_types) (extern_values) (defs (def pub ""User"" (type (attrs) (field (attrs) pub ""p"" (tid ""Plain""))))) (impls) (backends (backend ""cpp"" (some ""x"") (some ""y""))))".

Definition fa_module : gmodule := module_of_text fa_text.
Definition fbc_module : gmodule := module_of_text fbc_text.
Definition f_mods : list (path * gmodule) := [(["a"], fa_module); (["b"; "c"], fbc_module)].

Definition f_files : option (list (string * sexp)) :=
  match pyxis_resolve (hook_schedule []) 4 f_mods with
  | BOk st => match write_all st with Ok files => Some files | _ => None end
  | _ => None
  end.

Definition f_file (name : string) : option sexp :=
  match f_files with
  | Some files => option_map snd (find (fun nf => String.eqb (fst nf) name) files)
  | None => None
  end.

(** the text was parsed: the modules have the definitions and backend blocks written above *)
Example f_parsed :
  map gi_name (gm_defs fa_module) = ["E"; "Base"; "Plain"] /\
  map gbk_name (gm_backends fa_module) = ["rust"; "cpp"; "rust"] /\
  map gi_name (gm_defs fbc_module) = ["User"] /\
  map gbk_name (gm_backends fbc_module) = ["cpp"].
Proof. vm_compute. repeat split. Qed.

(** 1. FILE SET: exactly the two files, none for the root module *)
Example f_file_names : option_map (map fst) f_files = Some ["a.rs"; "b/c.rs"].
Proof. vm_compute. reflexivity. Qed.

(** 2. CONTENTS of a.rs, read back: the struct and enum items, in file (path) order; no [Ext], no
    built-in, no [User] *)
Example f_a_decls :
  option_map file_decls (f_file "a.rs")
  = Some [("struct", "Base"); ("struct", "BaseVftable"); ("enum", "E"); ("struct", "Plain")].
Proof. vm_compute. reflexivity. Qed.

(** what the input module declares, in source order *)
Example f_a_expected :
  module_decls fa_module = [("enum", "E"); ("struct", "Base"); ("struct", "BaseVftable"); ("struct", "Plain")].
Proof. vm_compute. reflexivity. Qed.

(** all items of a.rs by kind: the extern value's accessor is the last function *)
Example f_a_kinds :
  option_map (fun f => match file_items f with Some l => map item_kind l | None => [] end) (f_file "a.rs")
  = Some [Some "opaque";
          Some "struct"; Some "fn"; Some "impl"; Some "impl"; Some "impl";      (* Base, its size check, impls *)
          Some "struct"; Some "fn"; Some "impl"; Some "impl"; Some "impl";      (* BaseVftable *)
          Some "enum"; Some "fn";                                               (* E *)
          Some "struct"; Some "fn"; Some "impl"; Some "impl"; Some "impl";      (* Plain *)
          Some "fn";                                                            (* get_counter *)
          Some "opaque"].
Proof. vm_compute. reflexivity. Qed.

Example f_bc_decls : option_map file_decls (f_file "b/c.rs") = Some [("struct", "User")].
Proof. vm_compute. reflexivity. Qed.
Example f_bc_expected : module_decls fbc_module = [("struct", "User")].
Proof. vm_compute. reflexivity. Qed.

(** 3. OPAQUE TEXT: the two rust blocks of [a], joined by a line break; the cpp block is absent *)
Example f_a_text :
  option_map file_opaques (f_file "a.rs")
  = Some ["use std::fmt;" +++ newline_s +++ "use std::mem;"; "// end of a (1)"] /\
  option_map file_prologue (f_file "a.rs") = Some (Some (rust_prologue fa_module)) /\
  option_map file_epilogue (f_file "a.rs") = Some (Some (rust_epilogue fa_module)).
Proof. vm_compute. repeat split. Qed.

(** [b::c] has no rust block: both texts are empty *)
Example f_bc_text :
  option_map file_opaques (f_file "b/c.rs") = Some [""; ""] /\
  rust_prologue fbc_module = "" /\ rust_epilogue fbc_module = "".
Proof. vm_compute. repeat split. Qed.

(** the hypotheses of [files_whole] hold of this input: the theorem applies to it *)
Definition f_dummy : sstate := {| st_modules := []; st_reg := {| reg_types := []; reg_ptr := 0 |} |}.
Definition f_st0 : sstate := match input_state 4 f_mods with Ok s => s | _ => f_dummy end.
Definition f_st : sstate := match pyxis_resolve (hook_schedule []) 4 f_mods with BOk s => s | _ => f_dummy end.
Definition f_files_list : list (string * sexp) := match f_files with Some l => l | None => [] end.

Lemma f_input : input_state 4 f_mods = Ok f_st0.
Proof. vm_compute. reflexivity. Qed.
Lemma f_accepted : pyxis_resolve (hook_schedule []) 4 f_mods = BOk f_st.
Proof. vm_compute. reflexivity. Qed.
Lemma f_written : write_all f_st = Ok f_files_list.
Proof. vm_compute. reflexivity. Qed.
Lemma f_collision_free : collision_free (st_reg f_st0).
Proof. apply collision_freeb_sound. vm_compute. reflexivity. Qed.
Lemma f_paths_distinct : NoDup (map fst f_mods).
Proof.
  change (map fst f_mods) with [["a"]; ["b"; "c"]].
  constructor; [intros [E|[]]; discriminate | constructor; [intros [] | constructor]].
Qed.
Lemma f_keeps_work : keeps_work (hook_schedule []).
Proof. apply perm_keeps_work. intros l. apply hook_schedule_perm. Qed.
Lemma f_slash_free : forall k, In k (map fst f_mods) -> slash_free k.
Proof.
  change (map fst f_mods) with [["a"]; ["b"; "c"]].
  intros k [<-|[<-|[]]]; repeat constructor; unfold no_slash; cbn [list_of_string In];
    intros H; repeat (destruct H as [H|H]; [discriminate|]); exact H.
Qed.

(** ... and gives, without looking at the files: *)
Example f_theorem_applies :
  NoDup (map fst f_files_list) /\
  (exists f, In ("a.rs", f) f_files_list /\ file_ok fa_module f) /\
  (exists f, In ("b/c.rs", f) f_files_list /\ file_ok fbc_module f) /\
  List.length f_files_list = 2%nat.
Proof.
  pose proof f_input as Hin. pose proof f_accepted as Hres. pose proof f_written as Hw.
  pose proof f_collision_free as Hcf. pose proof f_paths_distinct as HN. pose proof f_keeps_work as Hord.
  split; [eapply files_nodup; eauto using f_slash_free|].
  split; [apply (files_for_module _ _ _ _ _ _ Hin HN Hcf Hord Hres Hw ["a"] fa_module); [now left | discriminate]|].
  split; [apply (files_for_module _ _ _ _ _ _ Hin HN Hcf Hord Hres Hw ["b"; "c"] fbc_module); [right; now left | discriminate]|].
  apply (files_count _ _ _ _ _ _ Hin HN Hcf Hord Hres Hw).
Qed.

(** why [files_nodup] needs [slash_free]: two different module paths with the same file name *)
Example out_path_not_injective : out_path ["a/b"] = out_path ["a"; "b"] /\ ["a/b"] <> ["a"; "b"].
Proof. split; [vm_compute; reflexivity | discriminate]. Qed.

Print Assumptions f_theorem_applies.
