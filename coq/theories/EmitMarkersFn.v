(** * EmitMarkersFn: C17 on the emitted FUNCTIONS and vftable SLOTS, in terms of the declaration
    (Part 4 of EmitMarkers.v), and "on no other item" (Part 5).

    Part 4, for every type the input declares, in every accepted, [collision_free] build whose
    files are written:
    - [C17_emitted_impl_functions]: the wrapper of every function declared in the type's impl block
      has the declared visibility and the declared doc lines;
    - [C17_emitted_vftable_slots]: the struct [<T>Vftable] generated for a type that declares a
      vftable block has the visibility of the type, no attribute but [repr], and its fields are, in
      order, placeholders [_vfunc_<k>] (private, no attribute) and the slots of the declared
      virtual functions, each with the declared visibility and doc lines;
    - [C17_emitted_virtual_wrappers]: the wrapper of every declared virtual function has the
      declared visibility and doc lines; placeholders have no wrapper;
    - [C17_emitted_inherited_wrappers]: every function of the type's inherent impl that is
      forwarded from a base ([self.<base>.<fn>(..)]) has the visibility and the doc lines of the
      function record it forwards (a public function of the base type's item in the final
      registry), and every wrapper of the impl has the visibility / doc lines of its record.
    Part 5: the helper items of a type and of a module carry no doc line. *)
From Coq Require Import List NArith ZArith Bool Lia String Permutation.
From PyxisModel Require Import Base Sexp Grammar SemTypes Registry Sem SemLemmas FunctionLemmas
     ScopeLemmas PlacementLemmas VftableLemmas InheritLemmas TotalityLemmas Emit EmitLemmas
     WholeBuild WholeBuildMore FinalState
     EmitReaders EmitShape EmitFinal EmitFind EmitFnReaders EmitFnShape EmitFnFinal EmitMarkers.
Import ListNotations.
Local Open Scope string_scope.
Local Open Scope list_scope.

(** * 1. The slot list of a declared vftable block *)
Definition is_pad (sf : sfunction) : Prop := exists k, sf = padding_fn k.

Lemma pads_are_pads start n : Forall is_pad (map padding_fn (nseq start n)).
Proof. apply Forall_forall. intros x Hx. apply in_map_iff in Hx as (k & <- & _). now exists k. Qed.

Lemma convert_fold_il R scope : forall fs out0 out,
  foldM (convert_one R scope) fs out0 = Ok out ->
  exists new, out = out0 ++ new /\
    interleave is_pad (fun _ : gfunction => False) (fun gf sf => function_build R scope true gf = Ok sf) fs new.
Proof.
  induction fs as [|f fs IH]; intros out0 out H; cbn [foldM] in H.
  - inversion H; subst. exists []. split; [now rewrite app_nil_r | constructor].
  - inv_bind H. rename a into out1.
    destruct (convert_one_spec _ _ _ _ _ Ha) as (idx & sf & _ & Hsf & _ & Hout1 & _). cbn zeta in Hout1.
    destruct (IH _ _ H) as (new & -> & Hil). subst out1.
    eexists. split; [rewrite <- !app_assoc; reflexivity|].
    change (f :: fs) with ([] ++ ([f] ++ fs)). apply interleave_app; [apply interleave_gens, pads_are_pads|].
    apply interleave_app; [|exact Hil]. apply il_decl; [exact Hsf | constructor].
Qed.

Theorem convert_functions_il R scope sz gfs fs :
  convert_functions R scope sz gfs = Ok fs ->
  interleave is_pad (fun _ : gfunction => False) (fun gf sf => function_build R scope true gf = Ok sf) gfs fs.
Proof.
  unfold convert_functions. intros H. inv_bind H. rename a into out.
  destruct (convert_fold_il _ _ _ _ _ Ha) as (new & -> & Hil). cbn [app] in *.
  destruct sz as [s|]; [|inversion H; subst; exact Hil].
  destruct (s <? N.of_nat (List.length new))%N; [discriminate|]. inversion H; subst fs. clear H.
  destruct (pad_to_spec s new) as [-> _].
  replace gfs with (gfs ++ []) by apply app_nil_r.
  apply interleave_app; [exact Hil | apply interleave_gens, pads_are_pads].
Qed.

(** placeholders are internal: no wrapper is emitted for them *)
Lemma pad_internal k : sf_is_internal (padding_fn k) = true.
Proof. reflexivity. Qed.

(** * 2. All the items of a declared type, in the file *)
(** [build_type], taken apart once: the printers of every item it emits *)
Lemma build_type_parts R fuel p size alignment v td items :
  build_type R fuel p size alignment v td = Ok items ->
  exists name fields acc assoc vfns conv,
    path_last p = Some name /\
    mapM region_field (td_regions td) = Ok fields /\
    match td_vftable td with
    | Some vt => exists a, vftable_accessor vt = Ok a /\ acc = [a]
    | None => acc = []
    end /\
    mapM build_function (emitted_fns (td_assoc td)) = Ok assoc /\
    match td_vftable td with
    | Some vt => mapM build_function (emitted_fns (vt_functions vt)) = Ok vfns
    | None => vfns = []
    end /\
    conversions R fuel name td = Ok conv /\
    items = SList (Atom "struct" ::
                   attrs_sexp (derive_attr [] (td_copyable td) (td_cloneable td) (td_defaultable td) ++
                               [repr_attr (td_packed td) alignment] ++ doc_attrs (td_doc td)) ::
                   vis_sexp v :: Atom name :: fields) ::
            size_check name size ++
            match td_singleton td with Some a => [singleton_struct_impl name v a] | None => [] end ++
            impl_sexp (Atom "notrait") name (acc ++ assoc ++ vfns) :: conv.
Proof.
  unfold build_type. intros H. destruct (path_last p) as [name|]; [|discriminate].
  destruct (negb (ident_ok name)); [discriminate|].
  inv_bind H. rename a into fields, Ha into Hfields. destruct (negb (ident_ok _)); [discriminate|].
  inv_bind H. rename a into acc, Ha into Hacc. inv_bind H. rename a into assoc, Ha into Hassoc.
  inv_bind H. rename a into vfns, Ha into Hvfns. inv_bind H. rename a into conv, Ha into Hconv.
  inversion H; subst items; clear H.
  exists name, fields, acc, assoc, vfns, conv. split; [reflexivity|]. split; [exact Hfields|].
  split.
  { destruct (td_vftable td) as [vt|]; [|now inversion Hacc]. inv_bind Hacc. inversion Hacc; subst acc. eauto. }
  split; [exact Hassoc|]. split.
  { destruct (td_vftable td) as [vt|]; [exact Hvfns | now inversion Hvfns]. }
  split; [exact Hconv|]. cbn [app]. rewrite <- ?app_assoc. reflexivity.
Qed.

Lemma emitted_type_items order ptr mods st0 st files p it0 gd td0 :
  input_state ptr mods = Ok st0 -> NoDup (map fst mods) -> collision_free (st_reg st0) ->
  keeps_work order ->
  pyxis_resolve order ptr mods = BOk st -> write_all st = Ok files ->
  reg_get (st_reg st0) p = Some it0 -> it_state it0 = Unresolved gd -> gi_inner gd = GIType td0 ->
  path_parent p <> Some [] ->
  exists parent name it r td f pre s sing im conv post acc assoc vfns,
    path_parent p = Some parent /\ parent <> [] /\ path_last p = Some name /\
    reg_get (st_reg st) p = Some it /\ it_state it = Resolved r /\ rs_inner r = IType td /\
    In (out_path parent, f) files /\
    file_items f = Some (pre ++ (s :: size_check name (rs_size r) ++ sing ++ im :: conv) ++ post) /\
    find_struct name (pre ++ (s :: size_check name (rs_size r) ++ sing ++ im :: conv) ++ post) = Some s /\
    struct_shape name (rs_align r) (gi_vis gd) td s /\
    sing = match td_singleton td with Some a => [singleton_struct_impl name (gi_vis gd) a] | None => [] end /\
    im = impl_sexp (Atom "notrait") name (acc ++ assoc ++ vfns) /\
    match td_vftable td with
    | Some vt => exists a, vftable_accessor vt = Ok a /\ acc = [a]
    | None => acc = []
    end /\
    mapM build_function (emitted_fns (td_assoc td)) = Ok assoc /\
    match td_vftable td with
    | Some vt => mapM build_function (emitted_fns (vt_functions vt)) = Ok vfns
    | None => vfns = []
    end /\
    conversions (st_reg st) (S (List.length (reg_types (st_reg st)))) name td = Ok conv.
Proof.
  intros Hin HN Hcf Hord Hres Hw Hg0 Hs0 Hty Hroot.
  destruct (emitted_type_master _ _ _ _ _ _ _ _ _ _ Hin HN Hcf Hord Hres Hw Hg0 Hs0 Hty Hroot)
    as (parent & name & it & r & td & f & pre & s & rest & post & sm & sm' &
        Hpar & Hne & Hname & Hg & Hs & Hi & Hb & Hfile & Hitems & Hfind & Hsh & _).
  destruct (build_type_parts _ _ _ _ _ _ _ _ Hb)
    as (name' & fields & acc & assoc & vfns & conv & Hname' & _ & Hacc & Hassoc & Hvfns & Hconv & Heq).
  rewrite Hname in Hname'. inversion Hname'; subst name'. clear Hname'.
  inversion Heq as [[Hs' Hrest]]. rewrite Hrest in Hitems, Hfind.
  exists parent, name, it, r, td, f, pre, s,
         (match td_singleton td with Some a => [singleton_struct_impl name (gi_vis gd) a] | None => [] end),
         (impl_sexp (Atom "notrait") name (acc ++ assoc ++ vfns)), conv, post, acc, assoc, vfns.
  repeat (split; [assumption || reflexivity|]). exact Hconv.
Qed.

Lemma wrapper_vis_docs sf e :
  wrapper_shape sf e ->
  item_kind e = Some "fn" /\ fn_name e = Some (sf_name sf) /\ fn_vis e = Some (sf_vis sf) /\
  fn_docs e = Some (doc_lines (sf_doc sf)).
Proof. intros H. repeat split; apply H. Qed.

Lemma wrappers_in l out sf :
  mapM build_function l = Ok out -> In sf l -> exists e, In e out /\ wrapper_shape sf e.
Proof. intros H Hin. eapply Forall2_in_l; [apply wrappers_shape; exact H | exact Hin]. Qed.

(** the emitted function [e] is the wrapper of the declared function [gf]: declared name,
    visibility and doc lines *)
Definition fn_declared (gf : gfunction) (e : sexp) : Prop :=
  item_kind e = Some "fn" /\ fn_name e = Some (gf_name gf) /\ fn_vis e = Some (gf_vis gf) /\
  exists docs, fn_docs e = Some docs /\ docs_as_declared (gf_attrs gf) docs.

Lemma wrapper_of_declared R scope is_v gf sf e :
  function_build R scope is_v gf = Ok sf -> wrapper_shape sf e -> fn_declared gf e.
Proof.
  intros Hfb Hw. destruct (function_build_spec _ _ _ _ _ Hfb) as (Hn & Hv & Hd & _).
  destruct (wrapper_vis_docs _ _ Hw) as (Hk & Hn' & Hv' & Hd').
  unfold fn_declared. rewrite <- Hn, <- Hv. repeat split; auto.
  exists (doc_lines (sf_doc sf)). split; [exact Hd' | now apply docs_of_attrs_doc].
Qed.

(** ** Part 4a: the functions of the type's impl block *)
Theorem C17_emitted_impl_functions order ptr mods st0 st files p it0 gd td0 parent module0 blk :
  input_state ptr mods = Ok st0 -> NoDup (map fst mods) -> collision_free (st_reg st0) ->
  keeps_work order ->
  pyxis_resolve order ptr mods = BOk st -> write_all st = Ok files ->
  reg_get (st_reg st0) p = Some it0 -> it_state it0 = Unresolved gd -> gi_inner gd = GIType td0 ->
  path_parent p = Some parent -> parent <> [] ->
  alookup parent (st_modules st0) = Some module0 -> alookup p (m_impls module0) = Some blk ->
  exists name f items s im fns,
    (* the inherent impl of the type, in the file of the declaring module *)
    path_last p = Some name /\ In (out_path parent, f) files /\ file_items f = Some items /\
    find_struct name items = Some s /\ In im items /\ inherent_impl im = Some (name, fns) /\
    (* every declared function that is not internal ([_...]) has its wrapper there, with the
       declared visibility and doc lines *)
    Forall (fun gf => starts_with "_" (gf_name gf) = false -> exists e, In e fns /\ fn_declared gf e)
           (gb_fns blk).
Proof.
  intros Hin HN Hcf Hord Hres Hw Hg0 Hs0 Hty Hpar0 Hne0 Hmod0 Hblk.
  assert (path_parent p <> Some []) as Hroot by (rewrite Hpar0; intros E; inversion E; contradiction).
  destruct (emitted_type_items _ _ _ _ _ _ _ _ _ _ Hin HN Hcf Hord Hres Hw Hg0 Hs0 Hty Hroot)
    as (parent' & name & it & r & td & f & pre & s & sing & im & conv & post & acc & assoc & vfns &
        Hpar & Hne & Hname & Hg & Hs & Hi & Hfile & Hitems & Hfind & Hsh & Hsing & Him & Hacc & Hassoc & Hvfns & Hconv).
  rewrite Hpar0 in Hpar. inversion Hpar; subst parent'. clear Hpar.
  destruct (whole_build_impl_functions _ _ _ _ _ _ _ _ _ _ _ _ _ _ Hin Hcf Hres Hg0 Hs0 Hty Hg Hs Hpar0 Hmod0 Hblk)
    as (td' & R_mid & inherited & own & Hi' & Hext & Htda & Hown).
  rewrite Hi in Hi'. inversion Hi'; subst td'. clear Hi'.
  exists name, f, (pre ++ (s :: size_check name (rs_size r) ++ sing ++ im :: conv) ++ post), s, im, (acc ++ assoc ++ vfns).
  split; [exact Hname|]. split; [exact Hfile|]. split; [exact Hitems|]. split; [exact Hfind|].
  split. { apply in_or_app. right. apply in_or_app. left. right. apply in_or_app. right. apply in_or_app. right. now left. }
  split; [subst im; apply inherent_impl_printed|].
  apply Forall_forall. intros gf Hgf Hnint.
  destruct (Forall2_in_l _ _ _ _ Hown Hgf) as (sf & Hsf & Hfb).
  destruct (function_build_spec _ _ _ _ _ Hfb) as (Hn & _).
  assert (In sf (emitted_fns (td_assoc td))) as Hin'.
  { apply filter_In. split; [rewrite Htda; apply in_or_app; now right|].
    unfold sf_is_internal. now rewrite Hn, Hnint. }
  destruct (wrappers_in _ _ _ Hassoc Hin') as (e & He & Hsh').
  exists e. split; [apply in_or_app; right; apply in_or_app; now left|].
  eapply wrapper_of_declared; eauto.
Qed.

(** ** Part 4b: the declared virtual functions -- wrappers *)
Theorem C17_emitted_virtual_wrappers order ptr mods st0 st files p it0 gd td0 stm rest gfs :
  input_state ptr mods = Ok st0 -> NoDup (map fst mods) -> collision_free (st_reg st0) ->
  keeps_work order ->
  pyxis_resolve order ptr mods = BOk st -> write_all st = Ok files ->
  reg_get (st_reg st0) p = Some it0 -> it_state it0 = Unresolved gd -> gi_inner gd = GIType td0 ->
  path_parent p <> Some [] ->
  gt_stmts td0 = stm :: rest -> gs_field stm = GVftable gfs ->
  exists parent name f items s im fns,
    path_parent p = Some parent /\ path_last p = Some name /\
    In (out_path parent, f) files /\ file_items f = Some items /\
    find_struct name items = Some s /\ In im items /\ inherent_impl im = Some (name, fns) /\
    (* every declared virtual function that is not internal has its wrapper in the type's impl,
       with the declared visibility and doc lines *)
    Forall (fun gf => starts_with "_" (gf_name gf) = false -> exists e, In e fns /\ fn_declared gf e) gfs.
Proof.
  intros Hin HN Hcf Hord Hres Hw Hg0 Hs0 Hty Hroot Hst Hfld.
  destruct (emitted_type_items _ _ _ _ _ _ _ _ _ _ Hin HN Hcf Hord Hres Hw Hg0 Hs0 Hty Hroot)
    as (parent & name & it & r & td & f & pre & s & sing & im & conv & post & acc & assoc & vfns &
        Hpar & Hne & Hname & Hg & Hs & Hi & Hfile & Hitems & Hfind & Hsh & Hsing & Him & Hacc & Hassoc & Hvfns & Hconv).
  destruct (whole_build_vftable _ _ _ _ _ _ _ _ _ _ _ _ _ _ Hin Hcf Hres Hg0 Hs0 Hty Hg Hs Hst Hfld)
    as (R_mid & scope & sz & fs & vp & vit & td' & vt & _ & _ & _ & Hconvf & _ & _ & _ & Hi' & Hvt & Hfs & _).
  rewrite Hi in Hi'. inversion Hi'; subst td'. clear Hi'. rewrite Hvt in Hvfns. rewrite Hfs in Hvfns.
  pose proof (interleave_left _ _ _ _ _ (convert_functions_il _ _ _ _ _ Hconvf)) as Hl.
  exists parent, name, f, (pre ++ (s :: size_check name (rs_size r) ++ sing ++ im :: conv) ++ post), s, im, (acc ++ assoc ++ vfns).
  split; [exact Hpar|]. split; [exact Hname|]. split; [exact Hfile|]. split; [exact Hitems|]. split; [exact Hfind|].
  split. { apply in_or_app. right. apply in_or_app. left. right. apply in_or_app. right. apply in_or_app. right. now left. }
  split; [subst im; apply inherent_impl_printed|].
  eapply Forall_impl; [|exact Hl]. intros gf [[]|(sf & Hsf & Hfb)] Hnint.
  destruct (function_build_spec _ _ _ _ _ Hfb) as (Hn & _).
  assert (In sf (emitted_fns fs)) as Hin'.
  { apply filter_In. split; [exact Hsf|]. unfold sf_is_internal. now rewrite Hn, Hnint. }
  destruct (wrappers_in _ _ _ Hvfns Hin') as (e & He & Hsh').
  exists e. split; [apply in_or_app; right; apply in_or_app; now right|].
  eapply wrapper_of_declared; eauto.
Qed.

(** ** Part 4b: the declared virtual functions -- slots of the generated [<T>Vftable] struct *)
(** a placeholder slot: private, without any attribute, named [_vfunc_<k>] *)
Definition slot_placeholder (ef : efield) : Prop :=
  ef_vis ef = Private /\ ef_docs ef = [] /\ exists k, ef_name ef = "_vfunc_" +++ dec_of_N k.

(** the slot of the declared virtual function [gf]: declared name, visibility and doc lines *)
Definition slot_declared (gf : gfunction) (ef : efield) : Prop :=
  ef_name ef = gf_name gf /\ ef_vis ef = gf_vis gf /\ docs_as_declared (gf_attrs gf) (ef_docs ef).

Lemma slot_of_pad owner sf ef : is_pad sf -> slot_of_function owner sf ef -> slot_placeholder ef.
Proof.
  intros (k & ->) [Hn Hv Hd _ _ _]. unfold slot_placeholder. rewrite Hn, Hv, Hd. repeat split. now exists k.
Qed.

Lemma slot_of_declared R scope owner gf sf ef :
  function_build R scope true gf = Ok sf -> slot_of_function owner sf ef -> slot_declared gf ef.
Proof.
  intros Hfb [Hn Hv Hd _ _ _]. destruct (function_build_spec _ _ _ _ _ Hfb) as (Hn' & Hv' & Hd' & _).
  unfold slot_declared. rewrite Hn, Hv, Hd, Hn', Hv'. repeat split. now apply docs_of_attrs_doc.
Qed.

Theorem C17_emitted_vftable_slots order ptr mods st0 st files p it0 gd td0 it r parent stm rest gfs :
  input_state ptr mods = Ok st0 -> collision_free (st_reg st0) ->
  pyxis_resolve order ptr mods = BOk st -> write_all st = Ok files ->
  reg_get (st_reg st0) p = Some it0 -> it_state it0 = Unresolved gd -> gi_inner gd = GIType td0 ->
  reg_get (st_reg st) p = Some it -> it_state it = Resolved r ->
  path_parent p = Some parent -> parent <> [] -> alookup parent (st_modules st0) <> None ->
  gt_stmts td0 = stm :: rest -> gs_field stm = GVftable gfs ->
  exists tname f items s efs,
    (* THE struct <T>Vftable in a file of the module *)
    path_last p = Some tname /\ In (out_path parent, f) files /\ file_items f = Some items /\
    find_struct (tname +++ "Vftable") items = Some s /\
    (* the generated struct: the visibility of the type, no derive, no doc, only [repr] *)
    struct_vis s = Some (gi_vis gd) /\ struct_derives s = Some [] /\ struct_docs s = Some [] /\
    (exists a, struct_attrs s = Some [a]) /\
    (* its fields, in order: placeholders and the slots of the declared virtual functions *)
    struct_fields s = Some efs /\
    interleave slot_placeholder (fun _ : gfunction => False) slot_declared gfs efs.
Proof.
  intros Hin Hcf Hres Hw Hg0 Hs0 Hty Hg Hs Hpar Hne Hm0 Hst Hfld.
  destruct (whole_build_vftable _ _ _ _ _ _ _ _ _ _ _ _ _ _ Hin Hcf Hres Hg0 Hs0 Hty Hg Hs Hst Hfld)
    as (R_mid & scope & sz & fs & vp & vit & td & vt & _ & _ & _ & Hconvf & Hvp & Hvit & Hgv & Hi & Hvt & Hfs & Hvty).
  assert (path_parent vp = Some parent /\ exists tname, path_last p = Some tname /\ path_last vp = Some (tname +++ "Vftable"))
    as (Hvpar & tname & Htn & Hvlast).
  { unfold vftable_path in Hvp. rewrite Hpar in Hvp. destruct (path_last p) as [tname|]; [|discriminate].
    inversion Hvp; subst vp. split; [apply path_parent_join|]. exists tname. split; [reflexivity|].
    unfold path_last, path_join. destruct (parent ++ [tname +++ "Vftable"]) eqn:E; [destruct parent; discriminate|].
    rewrite <- E, last_last. reflexivity. }
  assert (reg_get (st_reg st0) vp = None) as Hv0 by (apply (Hcf p); [congruence | exact Hvp]).
  destruct (accepted_generated_path _ _ _ _ _ _ _ Hin Hcf Hres Hv0 ltac:(congruence) Hvpar Hm0)
    as (m & Hmod & Hdef & HK & Hnd & Hparents).
  destruct (write_all_in _ _ _ _ Hw Hmod Hne) as (f & Hf & Hfile).
  destruct (module_file_items _ _ _ _ _ Hf Hdef Hgv) as (pre0 & its & post0 & Hb & _).
  (* the items of the generated struct *)
  pose proof Hvit as Hvit'. unfold vftable_item in Hvit'. rewrite Hvp in Hvit'. inversion Hvit' as [Evit]. clear Hvit'.
  pose proof Hb as Hb'. unfold build_item in Hb'. rewrite <- Evit in Hb'.
  cbn [item_resolved it_state it_cat rs_inner it_path rs_size rs_align it_vis] in Hb'.
  destruct (fun E => vftable_struct_shape _ _ p _ _ _ _ fs _ _ E Hb') as (name & s & rest' & efs & Hname & Hits & Hsh & Hfields & Hall);
    [reflexivity|].
  rewrite Hvlast in Hname. inversion Hname; subst name. clear Hname. subst its.
  destruct (module_file_find_struct _ _ _ _ _ _ _ _ _ Hf HK Hnd Hparents Hdef Hgv Hvlast Hb
              (struct_shape_is_named _ _ _ _ _ Hsh)) as (pre & post & Hitems & _ & Hfind).
  pose proof (build_type_struct_attrs _ _ _ _ _ _ _ _ _ Hb') as Hattrs.
  cbn [td_copyable td_cloneable td_defaultable td_packed td_doc] in Hattrs.
  exists tname, f, (pre ++ (s :: rest') ++ post), s, efs.
  split; [exact Htn|]. split; [exact Hfile|]. split; [exact Hitems|]. split; [exact Hfind|].
  split; [apply Hsh|]. split; [apply Hsh|]. split; [apply Hsh|].
  split; [eexists; exact Hattrs|]. split; [exact Hfields|].
  eapply interleave_forall2; [| |exact (convert_functions_il _ _ _ _ _ Hconvf)|exact Hall].
  - intros b c. apply slot_of_pad.
  - intros a b c. apply slot_of_declared.
Qed.

(** ** Part 4c: inherited copies (one step) *)
(** the emitted function [e] forwards to method [g] of the base field [base], and carries the
    visibility and the doc lines of the function record [g] *)
Definition fn_forwards (base : string) (g : sfunction) (e : sexp) : Prop :=
  item_kind e = Some "fn" /\ fn_vis e = Some (sf_vis g) /\ fn_docs e = Some (doc_lines (sf_doc g)) /\
  exists args, fn_wrapper_body e = Some (EBField base (sf_name g) args).

Theorem C17_emitted_inherited_wrappers order ptr mods st0 st files p it0 gd td0 :
  input_state ptr mods = Ok st0 -> NoDup (map fst mods) -> collision_free (st_reg st0) ->
  keeps_work order ->
  pyxis_resolve order ptr mods = BOk st -> write_all st = Ok files ->
  reg_get (st_reg st0) p = Some it0 -> it_state it0 = Unresolved gd -> gi_inner gd = GIType td0 ->
  path_parent p <> Some [] ->
  exists parent name it r td f items s im fns contribs news own,
    path_parent p = Some parent /\ path_last p = Some name /\
    reg_get (st_reg st) p = Some it /\ it_state it = Resolved r /\ rs_inner r = IType td /\
    In (out_path parent, f) files /\ file_items f = Some items /\
    find_struct name items = Some s /\ In im items /\ inherent_impl im = Some (name, fns) /\
    (* every associated function record of the type has its wrapper, with the record's visibility
       and doc lines *)
    Forall (fun sf => sf_is_internal sf = false ->
              exists e, In e fns /\ fn_name e = Some (sf_name sf) /\ fn_vis e = Some (sf_vis sf) /\
                        fn_docs e = Some (doc_lines (sf_doc sf))) (td_assoc td) /\
    (* the inherited ones: per base region of the FINAL registry, the public functions of the base
       type's item, each forwarded with its visibility and doc lines *)
    base_contributions (st_reg st) (filter r_is_base (td_regions td)) O = Ok contribs /\
    td_assoc td = List.concat news ++ own /\
    Forall2 (fun c new =>
               Forall2 (fun g f' => forwards (fst c) g f' /\
                          (sf_is_internal f' = false ->
                           exists e, In e fns /\ fn_name e = Some (sf_name f') /\ fn_forwards (fst c) g e))
                       (snd c) new) contribs news.
Proof.
  intros Hin HN Hcf Hord Hres Hw Hg0 Hs0 Hty Hroot.
  destruct (emitted_type_items _ _ _ _ _ _ _ _ _ _ Hin HN Hcf Hord Hres Hw Hg0 Hs0 Hty Hroot)
    as (parent & name & it & r & td & f & pre & s & sing & im & conv & post & acc & assoc & vfns &
        Hpar & Hne & Hname & Hg & Hs & Hi & Hfile & Hitems & Hfind & Hsh & Hsing & Him & Hacc & Hassoc & Hvfns & Hconv).
  destruct (C07_whole_build _ _ _ _ _ _ _ _ _ _ _ _ Hin Hcf Hres Hg0 Hs0 Hty Hg Hs Hi)
    as (contribs & news & own & parent' & module0 & R_mid & Hc & Htda & Hnews & Hfw & _).
  cbn zeta in Htda, Hnews. rewrite Hnews in Htda.
  assert (forall sf, In sf (td_assoc td) -> sf_is_internal sf = false ->
            exists e, In e (acc ++ assoc ++ vfns) /\ wrapper_shape sf e) as Hall.
  { intros sf Hsf Hint. assert (In sf (emitted_fns (td_assoc td))) as Hin' by (apply filter_In; split; [exact Hsf | now rewrite Hint]).
    destruct (wrappers_in _ _ _ Hassoc Hin') as (e & He & Hw'). exists e. split; [|exact Hw'].
    apply in_or_app. right. apply in_or_app. now left. }
  exists parent, name, it, r, td, f, (pre ++ (s :: size_check name (rs_size r) ++ sing ++ im :: conv) ++ post), s, im,
         (acc ++ assoc ++ vfns), contribs, news, own.
  split; [exact Hpar|]. split; [exact Hname|]. split; [exact Hg|]. split; [exact Hs|]. split; [exact Hi|].
  split; [exact Hfile|]. split; [exact Hitems|]. split; [exact Hfind|].
  split. { apply in_or_app. right. apply in_or_app. left. right. apply in_or_app. right. apply in_or_app. right. now left. }
  split; [subst im; apply inherent_impl_printed|].
  split.
  { apply Forall_forall. intros sf Hsf Hint. destruct (Hall _ Hsf Hint) as (e & He & Hw').
    destruct (wrapper_vis_docs _ _ Hw') as (_ & A & B & C). exists e. auto. }
  split; [exact Hc|]. split; [exact Htda|].
  (* the forwarders *)
  assert (forall f', In f' (List.concat news) -> In f' (td_assoc td)) as Hsub
      by (intros f' Hf'; rewrite Htda; apply in_or_app; now left).
  clear -Hfw Hall Hsub. revert Hsub. induction Hfw as [|c new contribs news Hcn _ IH]; intros Hsub; constructor.
  - assert (forall f', In f' new -> In f' (td_assoc td)) as Hsub' by (intros f' Hf'; apply Hsub; cbn [List.concat]; apply in_or_app; now left).
    clear -Hcn Hall Hsub'. revert Hsub'. induction Hcn as [|g f' gs fs' Hgf _ IH']; intros Hsub'; constructor.
    + split; [exact Hgf|]. intros Hint. destruct (Hall f' (Hsub' _ (or_introl eq_refl)) Hint) as (e & He & Hw').
      destruct (wrapper_vis_docs _ _ Hw') as (K & A & B & C).
      destruct Hgf as (Hbody & Hargs & Hret & Hvis & Hdoc & Hcc).
      exists e. split; [exact He|]. split; [exact A|]. unfold fn_forwards. rewrite <- Hvis, <- Hdoc.
      repeat split; auto. pose proof (ws_body _ _ Hw') as Hb. unfold body_of in Hb. rewrite Hbody in Hb. eauto.
    + apply IH'. intros f0 Hf0. apply Hsub'. now right.
  - apply IH. intros f' Hf'. apply Hsub. cbn [List.concat]. apply in_or_app. now right.
Qed.

Print Assumptions C17_emitted_impl_functions.
Print Assumptions C17_emitted_virtual_wrappers.
Print Assumptions C17_emitted_vftable_slots.
Print Assumptions C17_emitted_inherited_wrappers.
